// R4 (fan-out / fan-in of CmdDecode.decode) of C17.
package c17

import (
	"go/ast"
	"go/token"
	"go/types"
	"strings"

	"golang.org/x/tools/go/cfg"

	"rscheck/cfgq"
	"rscheck/core"
	"rscheck/pat"
	"rscheck/rules/c07"
)

func fan(c *core.Ctx, fn, dm *core.Fn) {
	info := fn.Pkg.TypesInfo
	body := fn.Decl.Body
	g := cfgq.Of(c.Program, fn)
	// channels
	var ipipe, opipe types.Object
	core.Inspect(body, func(n ast.Node) bool {
		if as, ok := n.(*ast.AssignStmt); ok && len(as.Lhs) == 1 && len(as.Rhs) == 1 {
			if call, ok := as.Rhs[0].(*ast.CallExpr); ok && core.IsFunc(c07.CalleeF(info, call), pkgCommon, "", "NewRDBLoader") {
				ipipe = c07.Obj(info, as.Lhs[0])
			}
		}
		return true
	})
	// the fan-out region: decode itself, or (one level) a function of this package that decode calls
	var worker, sup *ast.FuncLit
	var dmCall *ast.CallExpr
	find := func(root ast.Node) bool {
		var stack []ast.Node
		worker, sup, dmCall = nil, nil, nil
		ast.Inspect(root, func(n ast.Node) bool {
			if n == nil {
				stack = stack[:len(stack)-1]
				return false
			}
			stack = append(stack, n)
			if call, ok := n.(*ast.CallExpr); ok && dm != nil && c07.CalleeF(info, call) == dm.Obj {
				var lits []*ast.FuncLit
				for _, s := range stack {
					if fl, ok := s.(*ast.FuncLit); ok {
						lits = append(lits, fl)
					}
				}
				if len(lits) >= 2 {
					dmCall, worker, sup = call, lits[len(lits)-1], lits[len(lits)-2]
				}
			}
			return true
		})
		return worker != nil
	}
	bind := map[types.Object]types.Object{} // object of the region -> object of decode
	toDecode := func(o types.Object) types.Object {
		if b, ok := bind[o]; ok {
			return b
		}
		return o
	}
	var helperCall *ast.CallExpr
	if !find(body) {
		for _, call := range core.Calls(body, info, func(*ast.CallExpr, types.Object) bool { return true }) {
			h := c.FnOf(c07.CalleeF(info, call))
			if h == nil || h.Decl.Body == nil || h.Pkg != fn.Pkg || h.Obj == fn.Obj || (dm != nil && h.Obj == dm.Obj) || !find(h.Decl.Body) {
				continue
			}
			helperCall = call
			c.Functions[h.Name()] = true
			i := 0
			for _, f := range h.Decl.Type.Params.List {
				for _, nm := range f.Names {
					if i < len(call.Args) {
						if o := c07.Obj(info, call.Args[i]); o != nil {
							bind[info.Defs[nm]] = o
						}
					}
					i++
				}
			}
			break
		}
	}
	// literals started as `go func(p ...) {...}(args)`: a parameter stands for its argument
	if worker != nil {
		core.InspectAll(body, func(n ast.Node) bool {
			gs, ok := n.(*ast.GoStmt)
			if !ok {
				return true
			}
			fl, isLit := ast.Unparen(gs.Call.Fun).(*ast.FuncLit)
			if !isLit || fl != worker && fl != sup {
				return true
			}
			i := 0
			for _, fld := range fl.Type.Params.List {
				for _, nm := range fld.Names {
					if i < len(gs.Call.Args) {
						if o := c07.Obj(info, gs.Call.Args[i]); o != nil {
							bind[info.Defs[nm]] = toDecode(o)
						}
					}
					i++
				}
			}
			return true
		})
	}
	if ipipe == nil || worker == nil || len(dmCall.Args) != 2 {
		c.Undecidedf("R4.worker", "decode", fn.Decl.Pos(), "expected NewRDBLoader and a worker literal (inside a supervising goroutine, in decode or in one helper it calls) calling decoderMain(in, out)")
		return
	}
	opipeR := c07.Obj(info, dmCall.Args[1]) // the output channel as the region names it
	opipe = toDecode(opipeR)
	c.Check("R4.worker", "decode/channels", dmCall.Pos(), toDecode(c07.Obj(info, dmCall.Args[0])) == ipipe && opipe != nil && opipe != ipipe && c07.Within(identPos(opipe), body),
		"every worker must consume the loader's channel and produce into the one output channel that the writer drains")
	gw := cfgq.OfLit(c.Program, info, worker)
	gs := cfgq.OfLit(c.Program, info, sup)
	var spawn *ast.ForStmt
	var goStmt *ast.GoStmt
	core.Inspect(sup, func(n ast.Node) bool {
		if gs, ok := n.(*ast.GoStmt); ok && ast.Unparen(gs.Call.Fun) == ast.Expr(worker) {
			goStmt = gs
			for _, a := range core.PathTo(sup, gs) {
				if f, ok := a.(*ast.ForStmt); ok {
					spawn = f
				}
			}
		}
		return true
	})
	bound := func(f *ast.ForStmt) ast.Expr {
		if f == nil {
			return nil
		}
		return c07.LoopCount(info, f)
	}
	isDM := func(n ast.Node) bool {
		for _, call := range cfgq.ExecCalls(n) {
			if call == dmCall {
				return true
			}
		}
		return false
	}
	// the join: either tokens on a channel counted by an await loop, or a sync.WaitGroup
	var direct func(ast.Node) bool        // the worker hands in its token / calls Done
	var contains func(root ast.Node) bool // root contains such a signal
	var joined func(ast.Node) bool        // node of the supervisor after which all workers are known to be finished
	var joinNode ast.Node
	var group types.Object
	var await *ast.ForStmt
	core.Inspect(sup, func(n ast.Node) bool {
		if u, ok := n.(*ast.UnaryExpr); ok && u.Op == token.ARROW {
			group = c07.Obj(info, u.X)
			for _, a := range core.PathTo(sup, u) {
				if f, ok := a.(*ast.ForStmt); ok {
					await = f
				}
			}
		}
		return true
	})
	isWG := func(call *ast.CallExpr, method string) types.Object {
		if f := c07.CalleeF(info, call); core.IsFunc(f, "sync", "WaitGroup", method) {
			return c07.Obj(info, call.Fun.(*ast.SelectorExpr).X)
		}
		return nil
	}
	var wg types.Object
	for _, m := range []string{"Wait", "Add", "Done"} { // the WaitGroup that the supervisor and its workers use
		for _, call := range core.CallsAll(sup, info, func(call *ast.CallExpr, _ types.Object) bool { return isWG(call, m) != nil }) {
			if o := isWG(call, m); o != nil && c07.Within(identPos(o), sup) {
				wg = o
			}
		}
	}
	switch {
	case group != nil && await != nil && spawn != nil && goStmt != nil:
		bs, ba := bound(spawn), bound(await)
		switch {
		case bs == nil || ba == nil:
			c.Undecidedf("R4.bounds", "decode", sup.Pos(), "loop bounds not of the form `i < n`")
		case !c07.SameCount(info, bs, ba) && !c07.DiffCount(info, bs, ba) && !(stableExpr(info, bs) && stableExpr(info, ba)):
			c.Undecidedf("R4.bounds", "decode", sup.Pos(), "cannot compare the number of workers spawned (%s) with the number of tokens awaited (%s)", c.Src(bs), c.Src(ba))
		case c07.SameCount(info, bs, ba):
			c.Okf("R4.bounds", "decode", sup.Pos(), "workers spawned and tokens awaited are both bounded by `%s`", c.Src(bs))
		default:
			c.Failf("R4.bounds", "decode", await.Pos(), "%s workers are spawned but %s tokens are awaited: with fewer tokens the output channel is closed while workers still send (panic / lost lines), with more the run never ends", c.Src(bs), c.Src(ba))
		}
		ah, ab := c07.RangeBlocks(gs, await)
		isRecv := func(n ast.Node) bool {
			found := false
			core.Inspect(n, func(m ast.Node) bool {
				if u, ok := m.(*ast.UnaryExpr); ok && u.Op == token.ARROW && c07.Obj(info, u.X) == group {
					found = true
				}
				return !found
			})
			return found
		}
		var post *cfg.Block
		for _, b := range gs.CFG.Blocks {
			if b.Kind == cfg.KindForPost && b.Stmt == ast.Stmt(await) {
				post = b
			}
		}
		if post == nil {
			post = ah
		}
		c.Check("R4.token", "decode/await-each", await.Pos(), !c07.ReachBlock(gs, cfgq.Point{B: ab}, false, isRecv, post), "every iteration of the await loop must receive one token")
		// a call of a function / method of this package that sends one token on every path: the channel is the
		// same object (a field of the state-owning type, a package variable) or the parameter bound to it
		signals := func(call *ast.CallExpr) bool {
			h := c.FnOf(c07.CalleeF(info, call))
			if h == nil || h.Decl.Body == nil || h.Pkg != fn.Pkg {
				return false
			}
			hinfo := h.Pkg.TypesInfo
			chans := map[types.Object]bool{group: true}
			i := 0
			for _, f := range h.Decl.Type.Params.List {
				for _, nm := range f.Names {
					if i < len(call.Args) && c07.Obj(info, call.Args[i]) == group {
						chans[hinfo.Defs[nm]] = true
					}
					i++
				}
			}
			hg := cfgq.Of(c.Program, h)
			okAll, _ := c07.MustPass(hg, hg.Entry(), false, func(n ast.Node) bool {
				s, ok := n.(*ast.SendStmt)
				return ok && chans[c07.Obj(hinfo, s.Chan)]
			})
			return okAll
		}
		direct = func(n ast.Node) bool {
			if s, ok := n.(*ast.SendStmt); ok && c07.Obj(info, s.Chan) == group {
				return true
			}
			if _, isD := n.(*ast.DeferStmt); isD {
				return false
			}
			for _, call := range cfgq.ExecCalls(n) {
				if signals(call) {
					return true
				}
			}
			return false
		}
		contains = func(root ast.Node) bool {
			found := false
			core.InspectAll(root, func(m ast.Node) bool {
				switch t := m.(type) {
				case *ast.SendStmt:
					found = found || c07.Obj(info, t.Chan) == group
				case *ast.CallExpr:
					found = found || signals(t)
				}
				return !found
			})
			return found
		}
		joined, joinNode = c07.IsNode(await.Cond), await.Cond
		if c07.Within(goStmt, await) {
			joinNode = nil
		}
	case wg != nil && spawn != nil && goStmt != nil:
		isCall := func(method string) func(ast.Node) bool {
			return func(n ast.Node) bool {
				if _, isD := n.(*ast.DeferStmt); isD {
					return false
				}
				for _, call := range cfgq.ExecCalls(n) {
					if isWG(call, method) == wg {
						return true
					}
				}
				return false
			}
		}
		waits := gs.Points(isCall("Wait"))
		adds := core.Calls(sup, info, func(call *ast.CallExpr, _ types.Object) bool { return isWG(call, "Add") == wg })
		if len(waits) > 1 || len(adds) != 1 {
			c.Undecidedf("R4.bounds", "decode", sup.Pos(), "expected one Wait and one Add on the workers' WaitGroup in the supervising goroutine, found %d/%d", len(waits), len(adds))
			return
		}
		bs := bound(spawn)
		switch {
		case c07.Within(adds[0], spawn.Body):
			v, isC := core.IntConst(info, adds[0].Args[0])
			c.Check("R4.bounds", "decode", adds[0].Pos(), isC && v == 1, "wg.Add inside the spawn loop must add exactly 1 per worker: otherwise the output channel is closed while workers still send, or the run never ends")
		case bs == nil:
			c.Undecidedf("R4.bounds", "decode", sup.Pos(), "spawn loop bound not of the form `i < n`")
		case pat.Same(info, c07.Strip(info, bs), c07.Strip(info, adds[0].Args[0])):
			c.Okf("R4.bounds", "decode", sup.Pos(), "workers spawned and WaitGroup count are both `%s`", c.Src(bs))
		default:
			c.Failf("R4.bounds", "decode", adds[0].Pos(), "%s workers are spawned but the WaitGroup counts %s: with fewer the output channel is closed while workers still send (panic / lost lines), with more the run never ends", c.Src(bs), c.Src(adds[0].Args[0]))
		}
		if len(waits) == 1 {
			c.Okf("R4.token", "decode/await-each", waits[0].Node().Pos(), "WaitGroup.Wait returns only when every worker has called Done")
		}
		direct = isCall("Done")
		contains = func(root ast.Node) bool {
			return len(core.CallsAll(root, info, func(call *ast.CallExpr, _ types.Object) bool { return isWG(call, "Done") == wg })) > 0
		}
		joined = isCall("Wait")
		if len(waits) == 1 {
			joinNode = waits[0].Node()
		}
	default:
		c.Undecidedf("R4.bounds", "decode", sup.Pos(), "expected a counted spawn loop with `go <worker>` and either a loop receiving the workers' tokens or a sync.WaitGroup")
		return
	}
	// worker: signal only when decoderMain has returned, on every exit
	deferred := func(n ast.Node) bool {
		d, ok := n.(*ast.DeferStmt)
		if !ok || !contains(d.Call) {
			return false
		}
		if fl, isLit := d.Call.Fun.(*ast.FuncLit); isLit { // defer func() { ... signal ... }(): the signal must be on every path of the literal
			gd := cfgq.OfLit(c.Program, info, fl)
			okAll, _ := c07.MustPass(gd, gd.Entry(), false, direct)
			return okAll
		}
		return true
	}
	okTok, w := c07.MustPass(gw, gw.Entry(), false, cfgq.Or(deferred, direct))
	if okTok {
		// a deferred signal must be registered before decoderMain can panic/return: it must precede the call
		for _, p := range gw.Points(deferred) {
			if w2 := gw.Path(cfgq.Query{From: p, After: true, Target: isDM}); w2 == nil {
				okTok, w = false, []string{"the deferred token is registered after decoderMain"}
			}
		}
	}
	c.Check("R4.token", "decode/worker-always-signals", worker.Pos(), okTok, "every worker must hand in its token on every exit (normally by defer): otherwise the supervisor waits forever and the run never ends", w...)
	var wEarly []string
	for _, p := range gw.Points(direct) {
		if wp := gw.Path(cfgq.Query{From: p, After: true, Target: isDM}); wp != nil {
			wEarly = wp
		}
		if ok, wp := gw.Dominated(p, isDM); !ok {
			wEarly = wp
		}
	}
	c.Check("R4.token", "decode/token-after-work", worker.Pos(), wEarly == nil, "a worker hands in its token before decoderMain has returned: the supervisor closes the output channel while this worker still sends (panic) or its remaining lines are lost", wEarly...)
	// close(opipe) only after the join, on every exit
	isClose := func(n ast.Node) bool { return c07.BuiltinCallOn(info, n, "close", opipeR) }
	okC, wc := c07.MustPass(gs, gs.Entry(), false, isClose)
	c.Check("R4.close-output", "decode/always", sup.Pos(), okC, "the output channel must be closed on every exit of the supervisor, or the writer and decode never finish", wc...)
	var wOrder []string
	for _, p := range gs.Points(isClose) {
		if _, isD := p.Node().(*ast.DeferStmt); isD {
			if ok, wp := c07.MustPass(gs, gs.Entry(), false, joined); !ok {
				wOrder = wp
			}
		} else if ok, wp := gs.Dominated(p, joined); !ok {
			wOrder = wp
		} else if await != nil && c07.Within(p.Node(), await.Body) || c07.Within(p.Node(), spawn) {
			wOrder = []string{"close inside the spawn/await loop"}
		}
	}
	if joinNode == nil {
		wOrder = []string{"the supervisor never waits for its workers"}
	} else if gs.Path(cfgq.Query{From: mustFind(gs, joinNode), After: true, Target: c07.IsNode(goStmt)}) != nil {
		wOrder = []string{"a worker is spawned after the join started"}
	}
	c.Check("R4.close-output", "decode/after-all-tokens", sup.Pos(), wOrder == nil, "the output channel may be closed only after the join collected every worker's token / Done: closed earlier, workers panic on send or their lines are lost", wOrder...)
	// writer goroutine: the literal that takes the messages off the output channel, by `for s := range opipe` or by
	// `for { s, ok := <-opipe; if !ok { break }; ... }`
	var wl *ast.FuncLit
	var loop ast.Stmt
	var loopBody *ast.BlockStmt
	var msg, okVar types.Object
	var recvAs *ast.AssignStmt
	ncons, otherBad := 0, 0
	used := map[*ast.Ident]bool{}
	for _, fl := range core.FuncLits(body) {
		if fl == sup {
			continue
		}
		core.Inspect(fl, func(n ast.Node) bool {
			switch st := n.(type) {
			case *ast.RangeStmt:
				if id, ok := ast.Unparen(st.X).(*ast.Ident); ok && info.Uses[id] == opipe {
					ncons++
					used[id] = true
					wl, loop, loopBody, msg = fl, st, st.Body, c07.Obj(info, st.Key)
				}
			case *ast.AssignStmt:
				if len(st.Lhs) != 2 || len(st.Rhs) != 1 {
					return true
				}
				u, ok := ast.Unparen(st.Rhs[0]).(*ast.UnaryExpr)
				if !ok || u.Op != token.ARROW {
					return true
				}
				id, ok := ast.Unparen(u.X).(*ast.Ident)
				if !ok || info.Uses[id] != opipe {
					return true
				}
				var f *ast.ForStmt
				for _, a := range core.PathTo(fl, st) {
					switch l := a.(type) {
					case *ast.ForStmt:
						f = l
					case *ast.RangeStmt:
						f = nil
					}
				}
				if f != nil && f.Cond == nil {
					ncons++
					used[id] = true
					wl, loop, loopBody, recvAs = fl, f, f.Body, st
					msg, okVar = c07.Obj(info, st.Lhs[0]), c07.Obj(info, st.Lhs[1])
				}
			}
			return true
		})
	}
	var supGo ast.Node = sup // the go statement that starts the supervisor (its arguments hand the channel over)
	core.InspectAll(body, func(n ast.Node) bool {
		if gs, ok := n.(*ast.GoStmt); ok && ast.Unparen(gs.Call.Fun) == ast.Expr(sup) {
			supGo = gs
		}
		return true
	})
	core.InspectAll(body, func(n ast.Node) bool {
		if id, ok := n.(*ast.Ident); ok && info.Uses[id] == opipe && !used[id] && !c07.Within(id, supGo) && !(helperCall != nil && c07.Within(id, helperCall)) {
			if call, isCall := parentCall(body, id); !isCall || !isLenCap(info, call) {
				otherBad++
			}
		}
		return true
	})
	if ncons != 1 || otherBad > 0 || msg == nil {
		c.Undecidedf("R4.writer", "decode", fn.Decl.Pos(), "expected exactly one goroutine literal taking the messages off the output channel (found %d, %d other uses)", ncons, otherBad)
		return
	}
	gl := cfgq.OfLit(c.Program, info, wl)
	rs := loop // position / extent of the message loop
	// a write of the message: a library call that is handed the message (possibly converted) together with a writer,
	// as its receiver (writer.WriteString(s), writer.Write([]byte(s))) or as an argument (io.WriteString(writer, s),
	// fmt.Fprint(writer, s))
	isMsg := func(e ast.Expr) bool { return c07.Obj(info, c07.Strip(info, e)) == msg }
	isWriter := func(t types.Type) bool {
		if t == nil {
			return false
		}
		ms := types.NewMethodSet(t)
		for i := 0; i < ms.Len(); i++ {
			if m := ms.At(i).Obj(); m.Name() == "Write" {
				if sg, isS := m.Type().(*types.Signature); isS && sg.Params().Len() == 1 && sg.Results().Len() == 2 {
					return true
				}
			}
		}
		return false
	}
	writeCall := func(call *ast.CallExpr) bool {
		f := c07.CalleeF(info, call)
		if f == nil || f.Pkg() == nil || strings.HasPrefix(f.Pkg().Path(), core.Module) {
			return false
		}
		hasMsg, hasW := false, false
		for _, a := range call.Args {
			hasMsg = hasMsg || isMsg(a)
			hasW = hasW || !isMsg(a) && isWriter(info.TypeOf(a))
		}
		fun := ast.Unparen(call.Fun)
		if id, isID := fun.(*ast.Ident); isID { // a method value bound once to a local: `write := writer.WriteString`
			if d := pat.DefOf(info, id); d != nil {
				fun = ast.Unparen(d)
			}
		}
		if sel, isSel := fun.(*ast.SelectorExpr); isSel && recvType(f) != nil {
			hasW = hasW || strings.HasPrefix(f.Name(), "Write") && isWriter(info.TypeOf(sel.X))
		}
		return hasMsg && hasW
	}
	isWrite := func(n ast.Node) bool {
		for _, call := range cfgq.ExecCalls(n) {
			if writeCall(call) {
				return true
			}
		}
		return false
	}
	// the message handed to some other function: it may be written there
	handsOver := func(n ast.Node) bool {
		for _, call := range cfgq.ExecCalls(n) {
			if _, isB := core.Callee(info, call).(*types.Builtin); isB || writeCall(call) {
				continue
			}
			if tv, isT := info.Types[call.Fun]; isT && tv.IsType() {
				continue
			}
			for _, a := range call.Args {
				if isMsg(a) {
					return true
				}
			}
		}
		return false
	}
	isFlush := func(n ast.Node) bool {
		for _, call := range cfgq.ExecCalls(n) {
			f := c07.CalleeF(info, call)
			if core.IsFunc(f, pkgCommon, "", "FlushWriter") || f != nil && f.Pkg() != nil && f.Pkg().Path() == "bufio" && f.Name() == "Flush" {
				return true
			}
		}
		return false
	}
	lh, lb := c07.RangeBlocks(gl, loop)
	iter := cfgq.Point{B: lb}
	closed := func(b *cfg.Block, i int) bool { return false }
	if recvAs != nil { // an iteration starts after the receive; the edge on which ok is false leaves the loop legitimately
		p, found := gl.Find(recvAs)
		if !found {
			c.Undecidedf("R4.writer", "decode", recvAs.Pos(), "receive statement not in the control-flow graph")
			return
		}
		iter = cfgq.Point{B: p.B, I: p.I + 1}
		closed = func(b *cfg.Block, i int) bool {
			return c07.EdgeFact(gl, b, i, func(f cfgq.Fact) bool { return !f.Val && c07.Obj(info, f.Expr) == okVar })
		}
	}
	if c07.ReachBlock2(gl, iter, isWrite, closed, lh) && !c07.ReachBlock2(gl, iter, func(n ast.Node) bool { return isWrite(n) || handsOver(n) }, closed, lh) {
		c.Undecidedf("R4.writer", "decode/writes-every-message", rs.Pos(), "the message is handed to a function that is not recognised as a write to the output file")
		return
	}
	c.Check("R4.writer", "decode/writes-every-message", rs.Pos(), !c07.ReachBlock2(gl, iter, isWrite, closed, lh), "every message taken from the output channel must be written to the file: otherwise the lines of that key are omitted")
	var wTwice, wFlush []string
	for _, p := range gl.Points(isWrite) {
		if wTwice == nil {
			wTwice = gl.Path(cfgq.Query{From: p, After: true, Target: isWrite, AvoidEdge: func(b *cfg.Block, s int) bool { return b.Succs[s] == lh }})
		}
		if wFlush == nil {
			wFlush = gl.Path(cfgq.Query{From: p, After: true, Avoid: isFlush, TargetExit: c07.NormalExit})
		}
		for _, call := range cfgq.ExecCalls(p.Node()) {
			if writeCall(call) {
				c07.ErrCheck(c, gl, info, wl, call, c07.ErrSpec{Rule: "R4.writer", Key: "decode/write-error", Consequence: "a failed write must stop the run, otherwise lines are silently missing from the output file"})
			}
		}
	}
	c.Check("R4.writer", "decode/writes-once", rs.Pos(), wTwice == nil, "a message is written twice: all lines of that key are duplicated", wTwice...)
	c.Check("R4.writer", "decode/flushes", rs.Pos(), wFlush == nil, "after the last write the buffered writer must be flushed before the writer goroutine signals completion: otherwise the tail of the output is never written to the file", wFlush...)
	// done channel
	var wait types.Object
	core.InspectAll(wl, func(n ast.Node) bool {
		if call, ok := n.(*ast.CallExpr); ok {
			if b, ok := core.Callee(info, call).(*types.Builtin); ok && b.Name() == "close" && len(call.Args) == 1 {
				wait = c07.Obj(info, call.Args[0])
			}
		}
		return true
	})
	if wait == nil { // not closed by the writer: take the channel decode itself waits on
		core.Inspect(body, func(n ast.Node) bool {
			if u, ok := n.(*ast.UnaryExpr); ok && u.Op == token.ARROW {
				if o := c07.Obj(info, u.X); o != nil && c07.Within(identPos(o), body) {
					wait = o
				}
			}
			return true
		})
	}
	if wait == nil {
		c.Undecidedf("R4.wait-loop", "decode", wl.Pos(), "no done channel between the writer goroutine and decode found")
		return
	}
	isCloseW := func(n ast.Node) bool { return c07.BuiltinCallOn(info, n, "close", wait) }
	okW, ww := c07.MustPass(gl, gl.Entry(), false, isCloseW)
	for _, p := range gl.Points(isCloseW) {
		if _, isD := p.Node().(*ast.DeferStmt); !isD && c07.Within(p.Node(), loopBody) {
			okW, ww = false, []string{"done channel closed inside the message loop"}
		}
	}
	c.Check("R4.writer", "decode/signals-done", wl.Pos(), okW, "the writer goroutine must close the done channel on every exit and only after the output channel is drained: otherwise decode never returns, or returns (closing the file) before all lines are written", ww...)
	c07.WaitLoop(c, "R4.wait-loop", "decode", g, body, info, wait, "decode returns (and its deferred saveto.Close() runs) before the writer goroutine has written every line")
}

func mustFind(g *cfgq.Graph, n ast.Node) cfgq.Point {
	p, _ := g.Find(n)
	return p
}

// isMakeLHS: id is the variable defined by `x := make(chan ...)`.
func isMakeLHS(body ast.Node, id ast.Node) bool {
	found := false
	core.Inspect(body, func(n ast.Node) bool {
		if as, ok := n.(*ast.AssignStmt); ok && len(as.Lhs) == 1 && as.Lhs[0] == id {
			found = true
		}
		return true
	})
	return found
}

func parentCall(root ast.Node, id ast.Node) (*ast.CallExpr, bool) {
	path := core.PathTo(root, id)
	if len(path) < 2 {
		return nil, false
	}
	call, ok := path[len(path)-2].(*ast.CallExpr)
	return call, ok
}

func isLenCap(info *types.Info, call *ast.CallExpr) bool {
	b, ok := core.Callee(info, call).(*types.Builtin)
	return ok && (b.Name() == "len" || b.Name() == "cap")
}

// stableExpr: constant, identifier, field-selector chain or len/cap of one (two such expressions that are not the
// same denote different counts).
func stableExpr(info *types.Info, e ast.Expr) bool {
	e = c07.Through(info, e)
	if _, ok := core.IntConst(info, e); ok {
		return true
	}
	switch x := e.(type) {
	case *ast.Ident:
		return true
	case *ast.SelectorExpr:
		return stableExpr(info, x.X)
	case *ast.CallExpr:
		if b, ok := core.Callee(info, x).(*types.Builtin); ok && (b.Name() == "len" || b.Name() == "cap") && len(x.Args) == 1 {
			return stableExpr(info, x.Args[0])
		}
	}
	return false
}
