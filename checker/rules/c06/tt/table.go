package tt

import (
	"fmt"
	"go/ast"
	"go/constant"
	"go/token"
	"go/types"
	"sort"
	"strings"

	"rscheck/cfgq"
	"rscheck/core"
)

// ---------------------------------------------------------------------------
// decision tables

// Row is one path of a predicate: the atoms it decided and its outcome.
type Row struct {
	Lits map[string]bool
	// Not: sets of atoms that are not all true on this path (a loop ran to completion: no element
	// satisfied all the tests of an exit path, e.g. not(role-line && master)).
	Not [][]string
	Out string
}

func (r Row) String() string {
	var ks []string
	for k := range r.Lits {
		ks = append(ks, k)
	}
	sort.Strings(ks)
	var s []string
	for _, k := range ks {
		if r.Lits[k] {
			s = append(s, k)
		} else {
			s = append(s, "!"+k)
		}
	}
	return strings.Join(s, " & ") + " -> " + r.Out
}

// Classifier maps a branch literal to a named atom; pol=false means that the
// literal is the negation of the atom. ok=false: the test is not recognised.
type Classifier func(l Lit) (atom string, pol bool, ok bool)

// Table turns the returning traces of a predicate into rows. result is the
// index of the boolean result. Tests inside a loop are existential: a path that
// leaves the function from inside the loop keeps its positive in-loop atoms, a
// path on which the loop runs to completion has all those atoms false.
func (x *X) Table(traces []Trace, result int, cls Classifier) ([]Row, error) {
	loopAtoms := map[ast.Stmt]map[string]bool{}
	type pre struct {
		lits map[string]bool
		done []ast.Stmt
		out  string
		dead bool
	}
	exitSets := map[ast.Stmt][][]string{} // per loop: the in-loop atoms of each path that leaves the loop body early
	clone := func(p *pre) *pre {
		q := &pre{lits: map[string]bool{}, done: p.done, out: p.out, dead: p.dead}
		for k, v := range p.lits {
			q.lits[k] = v
		}
		return q
	}
	set := func(p *pre, a string, v bool) {
		if old, ok := p.lits[a]; ok && old != v {
			p.dead = true
		}
		p.lits[a] = v
	}
	// addLits extends every partial row by the literals; a literal that the
	// classifier does not know and that calls a helper of the same package is
	// replaced by the helper's own rows (parameters bound to the arguments).
	guards := map[ast.Stmt][]string{} // per trace: positive in-loop atoms so far
	negInLoop := map[ast.Stmt]bool{}  // per trace: an element test was false in this iteration
	addLits := func(ps []*pre, lits []Lit) ([]*pre, error) {
		for _, l := range lits {
			l.Expr = x.subst(l.Expr)
			if l.Root == nil {
				l.Root, l.Subst = x.G.Body, x.subst
			}
			// a literal constant (left by a table row substituted for the loop variable)
			if bv, isConst := BoolConst(x.Info, l.Expr); isConst {
				if bv != l.Val {
					for _, p := range ps {
						p.dead = true
					}
				}
				continue
			}
			a, pol, ok := cls(l)
			if ok {
				v := l.Val == pol
				if l.Loop != nil {
					if !v {
						negInLoop[l.Loop] = true
						continue
					}
					if loopAtoms[l.Loop] == nil {
						loopAtoms[l.Loop] = map[string]bool{}
					}
					loopAtoms[l.Loop][a] = true
					// the in-loop atoms already true on this path guard this one
					cur := map[string]bool{}
					for _, g := range guards[l.Loop] {
						if g != a {
							cur[g] = true
						}
					}
					if x.Deps == nil {
						x.Deps = map[string]map[string]bool{}
					}
					if old, seen := x.Deps[a]; seen {
						for g := range old {
							if !cur[g] {
								delete(old, g)
							}
						}
					} else {
						x.Deps[a] = cur
					}
					guards[l.Loop] = append(guards[l.Loop], a)
				}
				for _, p := range ps {
					set(p, a, v)
				}
				continue
			}
			rows, ierr := x.inline(l, cls)
			if ierr != nil || l.Loop != nil {
				return nil, fmt.Errorf("unrecognised test `%s`", core.NodeString(x.G.Fset, l.Expr))
			}
			var next []*pre
			for _, p := range ps {
				for _, r := range rows {
					if r.Out != fmt.Sprint(l.Val) {
						continue
					}
					q := clone(p)
					for a, v := range r.Lits {
						set(q, a, v)
					}
					next = append(next, q)
				}
			}
			ps = next
		}
		return ps, nil
	}
	// boolean locals assigned on the path stand for the assigned expression (a verdict carried in a
	// local: `rejected := A(x); if !rejected { rejected = B(x) }; return rejected`)
	type bind struct {
		expr ast.Expr
		env  map[types.Object]*bind
	}
	var expandLits func(lits []Lit, env map[types.Object]*bind, depth int) [][]Lit
	expandLits = func(lits []Lit, env map[types.Object]*bind, depth int) [][]Lit {
		alts := [][]Lit{nil}
		for _, l := range lits {
			var repl [][]Lit
			if id, ok := ast.Unparen(l.Expr).(*ast.Ident); ok && depth > 0 {
				b := env[BoolLocal(x.Info, id)]
				if b == nil && BoolLocal(x.Info, id) != nil && x.ZeroInit[BoolLocal(x.Info, id)] {
					b = &bind{} // never assigned on this path: false
				}
				if b != nil && BoolLocal(x.Info, id) != nil {
					if bv, isConst := BoolConst(x.Info, b.expr); isConst || b.expr == nil {
						// a constant (nil: the zero value false): the path is feasible only for that value
						if bv == l.Val {
							repl = [][]Lit{{}}
						} else {
							repl = [][]Lit{}
						}
					} else {
						repl = [][]Lit{}
					}
					var scs [][]Lit
					if b.expr != nil {
						if _, isConst := BoolConst(x.Info, b.expr); !isConst {
							scs = x.shortCircuit(b.expr, l.Val)
						}
					}
					for _, a := range scs {
						for k := range a {
							if a[k].Loop == nil {
								a[k].Loop = l.Loop
							}
						}
						repl = append(repl, expandLits(a, b.env, depth-1)...)
					}
				}
			}
			if repl == nil {
				repl = [][]Lit{{l}}
			}
			var next [][]Lit
			for _, a := range alts {
				for _, r := range repl {
					next = append(next, append(append([]Lit(nil), a...), r...))
				}
			}
			alts = next
		}
		return alts
	}
	assigned := func(n ast.Node, env map[types.Object]*bind) map[types.Object]*bind {
		set := func(lhs ast.Expr, rhs ast.Expr) {
			o := BoolLocal(x.Info, lhs)
			if o == nil {
				return
			}
			ne := map[types.Object]*bind{}
			for k, v := range env {
				ne[k] = v
			}
			if rhs == nil {
				delete(ne, o)
			} else {
				ne[o] = &bind{expr: rhs, env: env}
			}
			env = ne
		}
		setZero := func(lhs ast.Expr) {
			if o := BoolLocal(x.Info, lhs); o != nil {
				ne := map[types.Object]*bind{}
				for k, v := range env {
					ne[k] = v
				}
				ne[o] = &bind{expr: nil, env: env}
				env = ne
			}
		}
		switch st := n.(type) {
		case *ast.AssignStmt:
			for i, l := range st.Lhs {
				if len(st.Lhs) == len(st.Rhs) && (st.Tok == token.ASSIGN || st.Tok == token.DEFINE) {
					set(l, st.Rhs[i])
				} else {
					set(l, nil)
				}
			}
		case *ast.DeclStmt:
			if gd, ok := st.Decl.(*ast.GenDecl); ok {
				for _, sp := range gd.Specs {
					if vs, ok := sp.(*ast.ValueSpec); ok {
						for i, nm := range vs.Names {
							switch {
							case len(vs.Values) == len(vs.Names):
								set(nm, vs.Values[i])
							case len(vs.Values) == 0:
								setZero(nm)
							default:
								set(nm, nil)
							}
						}
					}
				}
			}
		}
		return env
	}
	// a local that a nested function literal assigns (a result captured by a callback) cannot be
	// followed along the paths of this body: the table is not extractable then
	closureAssigned := map[types.Object]bool{}
	ast.Inspect(x.G.Body, func(n ast.Node) bool {
		fl, ok := n.(*ast.FuncLit)
		if !ok {
			return true
		}
		ast.Inspect(fl.Body, func(m ast.Node) bool {
			if as, ok := m.(*ast.AssignStmt); ok && as.Tok == token.ASSIGN {
				for _, l := range as.Lhs {
					if id, ok := ast.Unparen(l).(*ast.Ident); ok {
						if o := core.ObjOf(x.Info, id); o != nil {
							closureAssigned[o] = true
						}
					}
				}
			}
			return true
		})
		return false
	})
	usesCaptured := func(e ast.Expr) bool {
		hit := false
		ast.Inspect(e, func(n ast.Node) bool {
			if id, ok := n.(*ast.Ident); ok && closureAssigned[core.ObjOf(x.Info, id)] {
				hit = true
			}
			return !hit
		})
		return hit
	}
	var pres []*pre
	for ti := range traces {
		t := &traces[ti]
		if t.End != EndReturn {
			if t.End == EndBack || t.End == EndAbort {
				continue
			}
			return nil, fmt.Errorf("a path leaves the predicate without a return statement")
		}
		p := &pre{lits: map[string]bool{}}
		for _, e := range t.Evs {
			if e.Done != nil && !e.Again {
				p.done = append(p.done, e.Done)
			}
		}
		ps := []*pre{p}
		env := map[types.Object]*bind{}
		cenv := map[types.Object]constant.Value{} // locals holding a constant on this path
		copies := map[types.Object]*ast.Ident{}   // locals holding a copy of another local on this path (`err = connErr`)
		guards = map[ast.Stmt][]string{}
		negInLoop = map[ast.Stmt]bool{}
		var err error
		infeasible := false
		for _, e := range t.Evs {
			switch {
			case e.Node != nil:
				env = assigned(e.Node, env)
				x.constStep(e.Node, cenv)
				x.copyStep(e.Node, copies)
			case e.Lit != nil:
				if ne := x.throughCopies(e.Lit.Expr, copies); ne != e.Lit.Expr {
					l := *e.Lit
					l.Expr = ne
					e.Lit = &l
				}
				if usesCaptured(e.Lit.Expr) {
					return nil, fmt.Errorf("`%s` depends on a variable assigned inside a function literal", core.NodeString(x.G.Fset, e.Lit.Expr))
				}
				if v, known := x.constTest(e.Lit.Expr, cenv); known {
					if v != e.Lit.Val {
						infeasible = true
					}
					continue // decided by the constant the local holds on this path
				}
				var next []*pre
				for _, alt := range expandLits([]Lit{*e.Lit}, env, 4) {
					var cp []*pre
					for _, q := range ps {
						cp = append(cp, clone(q))
					}
					cp, err = addLits(cp, alt)
					if err != nil {
						return nil, err
					}
					next = append(next, cp...)
				}
				ps = next
			}
		}
		// "some iteration failed an element test, then the loop ended" says nothing definite about
		// the list: such a path is covered by the paths of the other iterations
		for _, e := range t.Evs {
			if e.Again && negInLoop[e.Done] {
				infeasible = true
			}
		}
		if infeasible {
			continue
		}
		for l, pos := range guards {
			finished := false
			for _, e := range t.Evs {
				if e.Done == l {
					finished = true
				}
			}
			if !finished && len(pos) > 0 {
				exitSets[l] = append(exitSets[l], append([]string(nil), pos...))
			}
		}
		var res ast.Expr
		switch {
		case result < len(t.Ret.Results):
			res = t.Ret.Results[result]
		case len(t.Ret.Results) == 0 && result < len(x.Named):
			res = x.Named[result] // bare return of a named result
		default:
			return nil, fmt.Errorf("return statement without result %d", result)
		}
		if usesCaptured(res) {
			return nil, fmt.Errorf("the result `%s` is assigned inside a function literal", core.NodeString(x.G.Fset, res))
		}
		if bv, ok := BoolConst(x.Info, res); ok {
			for _, q := range ps {
				q.out = fmt.Sprint(bv)
			}
			pres = append(pres, ps...)
			continue
		}
		for _, val := range []bool{true, false} {
			var alts [][]Lit
			for _, a := range x.shortCircuit(res, val) {
				for k := range a {
					a[k].Loop = nil
				}
				alts = append(alts, expandLits(a, env, 4)...)
			}
			for _, alt := range alts {
				var qs []*pre
				for _, q := range ps {
					c := clone(q)
					c.out = fmt.Sprint(val)
					qs = append(qs, c)
				}
				for k := range alt {
					alt[k].Loop = nil
				}
				qs, err := addLits(qs, alt)
				if err != nil {
					return nil, err
				}
				pres = append(pres, qs...)
			}
		}
	}
	var rows []Row
	for _, p := range pres {
		var not [][]string
		for _, l := range p.done {
			if len(exitSets[l]) == 0 {
				for a := range loopAtoms[l] {
					set(p, a, false)
				}
				continue
			}
			for _, s := range exitSets[l] {
				if len(s) == 1 {
					set(p, s[0], false)
				} else {
					not = append(not, s)
				}
			}
		}
		if !p.dead {
			rows = append(rows, Row{Lits: p.lits, Not: not, Out: p.out})
		}
	}
	return rows, nil
}

// copyStep records which locals hold a plain copy of another local after executing n.
func (x *X) copyStep(n ast.Node, copies map[types.Object]*ast.Ident) {
	local := func(e ast.Expr) *types.Var {
		id, ok := ast.Unparen(e).(*ast.Ident)
		if !ok {
			return nil
		}
		v, ok := core.ObjOf(x.Info, id).(*types.Var)
		if !ok || v.IsField() || v.Pkg() == nil || v.Parent() == v.Pkg().Scope() {
			return nil
		}
		return v
	}
	kill := func(o types.Object) {
		delete(copies, o)
		for k, src := range copies {
			if core.ObjOf(x.Info, src) == o {
				delete(copies, k)
			}
		}
	}
	switch st := n.(type) {
	case *ast.AssignStmt:
		type upd struct {
			o   *types.Var
			src *ast.Ident
		}
		var upds []upd
		for i, l := range st.Lhs {
			lo := local(l)
			if lo == nil {
				continue
			}
			var src *ast.Ident
			if len(st.Lhs) == len(st.Rhs) && (st.Tok == token.ASSIGN || st.Tok == token.DEFINE) {
				if ro := local(st.Rhs[i]); ro != nil && ro != lo && types.Identical(ro.Type(), lo.Type()) {
					if b, isBasic := ro.Type().Underlying().(*types.Basic); !isBasic || b.Kind() != types.Bool {
						src = ast.Unparen(st.Rhs[i]).(*ast.Ident)
						if deeper := copies[ro]; deeper != nil {
							src = deeper
						}
					}
				}
			}
			upds = append(upds, upd{lo, src})
		}
		for _, u := range upds {
			kill(u.o)
		}
		for _, u := range upds {
			if u.src != nil {
				copies[u.o] = u.src
			}
		}
	case *ast.IncDecStmt:
		if o := local(st.X); o != nil {
			kill(o)
		}
	case *ast.DeclStmt:
		if gd, ok := st.Decl.(*ast.GenDecl); ok {
			for _, sp := range gd.Specs {
				if vs, ok := sp.(*ast.ValueSpec); ok {
					for _, nm := range vs.Names {
						if o := x.Info.Defs[nm]; o != nil {
							kill(o)
						}
					}
				}
			}
		}
	case *ast.RangeStmt:
		for _, e := range []ast.Expr{st.Key, st.Value} {
			if e != nil {
				if o := local(e); o != nil {
					kill(o)
				}
			}
		}
	}
}

// throughCopies rewrites e with every local that holds a copy replaced by the local it was copied from.
func (x *X) throughCopies(e ast.Expr, copies map[types.Object]*ast.Ident) ast.Expr {
	if len(copies) == 0 {
		return e
	}
	hit := false
	ast.Inspect(e, func(n ast.Node) bool {
		if id, ok := n.(*ast.Ident); ok && copies[x.Info.Uses[id]] != nil {
			hit = true
		}
		return !hit
	})
	if !hit {
		return e
	}
	cl := &cloner{info: x.Info}
	cl.repl = func(sub ast.Expr) ast.Expr {
		if id, ok := sub.(*ast.Ident); ok {
			if src := copies[x.Info.Uses[id]]; src != nil {
				return src
			}
		}
		return nil
	}
	out := cl.clone(e).(ast.Expr)
	cl.transfer(nil)
	return out
}

// constStep records which locals hold a constant after executing n.
func (x *X) constStep(n ast.Node, cenv map[types.Object]constant.Value) {
	set := func(l, r ast.Expr) {
		id, ok := ast.Unparen(l).(*ast.Ident)
		if !ok {
			return
		}
		v, ok := core.ObjOf(x.Info, id).(*types.Var)
		if !ok || v.IsField() || v.Pkg() == nil || v.Parent() == v.Pkg().Scope() {
			return
		}
		if r != nil {
			if tv, ok := x.Info.Types[ast.Unparen(r)]; ok && tv.Value != nil {
				cenv[v] = tv.Value
				return
			}
		}
		delete(cenv, v)
	}
	switch st := n.(type) {
	case *ast.AssignStmt:
		for i, l := range st.Lhs {
			if len(st.Lhs) == len(st.Rhs) && (st.Tok == token.ASSIGN || st.Tok == token.DEFINE) {
				set(l, st.Rhs[i])
			} else {
				set(l, nil)
			}
		}
	case *ast.IncDecStmt:
		set(st.X, nil)
	case *ast.DeclStmt:
		if gd, ok := st.Decl.(*ast.GenDecl); ok {
			for _, sp := range gd.Specs {
				if vs, ok := sp.(*ast.ValueSpec); ok && len(vs.Values) == len(vs.Names) {
					for i, nm := range vs.Names {
						set(nm, vs.Values[i])
					}
				}
			}
		}
	}
}

// constTest decides `v == K` / `v != K` for a local v that holds a constant on the path.
func (x *X) constTest(e ast.Expr, cenv map[types.Object]constant.Value) (bool, bool) {
	be, ok := ast.Unparen(e).(*ast.BinaryExpr)
	if !ok || be.Op != token.EQL && be.Op != token.NEQ {
		return false, false
	}
	for _, pair := range [][2]ast.Expr{{be.X, be.Y}, {be.Y, be.X}} {
		id, ok := ast.Unparen(pair[0]).(*ast.Ident)
		if !ok {
			continue
		}
		cv, held := cenv[core.ObjOf(x.Info, id)]
		tv, isConst := x.Info.Types[ast.Unparen(pair[1])]
		if !held || !isConst || tv.Value == nil || cv.Kind() != tv.Value.Kind() {
			continue
		}
		return constant.Compare(cv, be.Op, tv.Value), true
	}
	return false, false
}

// inline computes the rows of the helper behind an unrecognised literal, with the helper's
// parameters (and receiver) bound to the call's arguments. The literal is a call of a
// same-package function or method, of a function literal (also one passed as an argument or
// bound to a local), or a boolean local that holds result #k of such a call.
func (x *X) inline(l Lit, cls Classifier) ([]Row, error) {
	if x.Prog == nil || x.depth <= 0 {
		return nil, fmt.Errorf("no inlining")
	}
	idx := 0
	var call *ast.CallExpr
	switch v := ast.Unparen(l.Expr).(type) {
	case *ast.CallExpr:
		call = v
	case *ast.Ident:
		if BoolLocal(x.Info, v) == nil {
			return nil, fmt.Errorf("not a call")
		}
		d, ok := SingleDef(x.Info, x.G.Body, v)
		if !ok || d.Rhs == nil || d.Index < 0 || d.Range != nil {
			return nil, fmt.Errorf("not a call result")
		}
		c, ok := ast.Unparen(x.subst(d.Rhs)).(*ast.CallExpr)
		if !ok {
			return nil, fmt.Errorf("not a call result")
		}
		call, idx = c, d.Index
	default:
		return nil, fmt.Errorf("not a call")
	}
	if call.Ellipsis.IsValid() {
		return nil, fmt.Errorf("variadic call")
	}
	var params *ast.FieldList
	var results *ast.FieldList
	var recv *ast.FieldList
	var hg *cfgq.Graph
	lit, _ := ast.Unparen(call.Fun).(*ast.FuncLit)
	if id, ok := ast.Unparen(call.Fun).(*ast.Ident); ok && lit == nil {
		// a closure bound once to a local of this body or, for a function value handed down to an
		// inlined helper, of one of the bodies it was handed down from
		for _, root := range append([]ast.Node{x.G.Body}, x.roots...) {
			if d, ok := SingleDef(x.Info, root, id); ok && d.Rhs != nil && d.Index == -1 {
				if lit, _ = ast.Unparen(d.Rhs).(*ast.FuncLit); lit != nil {
					break
				}
			}
		}
	}
	if lit != nil {
		if lit.Body == x.G.Body {
			return nil, fmt.Errorf("recursive")
		}
		params, results, hg = lit.Type.Params, lit.Type.Results, cfgq.OfLit(x.Prog, x.Info, lit)
	} else {
		f := core.CalleeFunc(x.Info, call)
		h := x.Prog.FnOf(f)
		if h == nil || h.Decl.Body == nil || h.Pkg.TypesInfo != x.Info || h.Decl.Body == x.G.Body {
			return nil, fmt.Errorf("not a helper of the same package")
		}
		params, results, recv, hg = h.Decl.Type.Params, h.Decl.Type.Results, h.Decl.Recv, cfgq.Of(x.Prog, h)
	}
	// result #idx must be boolean
	var rtypes []ast.Expr
	if results != nil {
		for _, fl := range results.List {
			n := len(fl.Names)
			if n == 0 {
				n = 1
			}
			for k := 0; k < n; k++ {
				rtypes = append(rtypes, fl.Type)
			}
		}
	}
	if idx >= len(rtypes) {
		return nil, fmt.Errorf("no such result")
	}
	if b, ok := x.Info.TypeOf(rtypes[idx]).Underlying().(*types.Basic); !ok || b.Kind() != types.Bool {
		return nil, fmt.Errorf("no boolean result")
	}
	bind := map[types.Object]ast.Expr{}
	for k, v := range x.bind {
		bind[k] = v
	}
	i := 0
	for _, fl := range params.List {
		if _, variadic := fl.Type.(*ast.Ellipsis); variadic {
			return nil, fmt.Errorf("variadic helper")
		}
		for _, n := range fl.Names {
			if i >= len(call.Args) {
				return nil, fmt.Errorf("argument count")
			}
			if o := x.Info.Defs[n]; o != nil {
				bind[o] = call.Args[i]
			}
			i++
		}
		if len(fl.Names) == 0 {
			i++
		}
	}
	if i != len(call.Args) {
		return nil, fmt.Errorf("argument count")
	}
	if recv != nil && len(recv.List) == 1 && len(recv.List[0].Names) == 1 {
		if sel, ok := ast.Unparen(call.Fun).(*ast.SelectorExpr); ok {
			bind[x.Info.Defs[recv.List[0].Names[0]]] = sel.X
		}
	}
	hx := New(hg)
	hx.Prog, hx.bind, hx.depth, hx.LoopDecisions = x.Prog, bind, x.depth-1, x.LoopDecisions
	hx.roots = append([]ast.Node{x.G.Body}, x.roots...)
	hx.Rewrite = x.Rewrite
	hx.ZeroInit = map[types.Object]bool{}
	if results != nil {
		for _, fl := range results.List {
			for _, n := range fl.Names {
				hx.Named = append(hx.Named, n)
				hx.ZeroInit[x.Info.Defs[n]] = true
			}
		}
	}
	traces, err := hx.Traces(hx.G.CFG.Blocks[0], 0, nil, 200)
	if err != nil {
		return nil, err
	}
	return hx.Table(traces, idx, cls)
}

// subst replaces the bound parameters of an inlined helper in e by the
// arguments. Sub-trees without a bound parameter are returned as they are
// (original nodes keep their type information).
func (x *X) subst(e ast.Expr) ast.Expr {
	if len(x.bind) == 0 || e == nil {
		return e
	}
	mentions := false
	ast.Inspect(e, func(n ast.Node) bool {
		if id, ok := n.(*ast.Ident); ok {
			if _, bound := x.bind[core.ObjOf(x.Info, id)]; bound && core.ObjOf(x.Info, id) != nil {
				mentions = true
			}
		}
		return !mentions
	})
	if !mentions {
		return e
	}
	switch v := e.(type) {
	case *ast.Ident:
		if r, ok := x.bind[core.ObjOf(x.Info, v)]; ok {
			return r
		}
	case *ast.ParenExpr:
		return &ast.ParenExpr{Lparen: v.Lparen, X: x.subst(v.X), Rparen: v.Rparen}
	case *ast.UnaryExpr:
		return &ast.UnaryExpr{OpPos: v.OpPos, Op: v.Op, X: x.subst(v.X)}
	case *ast.StarExpr:
		return &ast.StarExpr{Star: v.Star, X: x.subst(v.X)}
	case *ast.BinaryExpr:
		return &ast.BinaryExpr{X: x.subst(v.X), OpPos: v.OpPos, Op: v.Op, Y: x.subst(v.Y)}
	case *ast.SelectorExpr:
		return &ast.SelectorExpr{X: x.subst(v.X), Sel: v.Sel}
	case *ast.IndexExpr:
		return &ast.IndexExpr{X: x.subst(v.X), Lbrack: v.Lbrack, Index: x.subst(v.Index), Rbrack: v.Rbrack}
	case *ast.CallExpr:
		c := &ast.CallExpr{Fun: x.subst(v.Fun), Lparen: v.Lparen, Ellipsis: v.Ellipsis, Rparen: v.Rparen}
		for _, a := range v.Args {
			c.Args = append(c.Args, x.subst(a))
		}
		return c
	}
	return e
}

// Expand returns the defining expression of a boolean local that is assigned
// exactly once from an expression over stable operands (parameters, locals
// assigned at most once, configuration fields), or nil.
func (x *X) Expand(id *ast.Ident) ast.Expr {
	o := BoolLocal(x.Info, id)
	if o == nil {
		return nil
	}
	if r, ok := x.expd[o]; ok {
		return r
	}
	x.expd[o] = nil
	d, ok := SingleDef(x.Info, x.G.Body, id)
	if !ok || d.Rhs == nil || d.Index != -1 || d.Range != nil {
		return nil
	}
	if _, isConst := BoolConst(x.Info, d.Rhs); isConst {
		return nil
	}
	stable := true
	ast.Inspect(d.Rhs, func(n ast.Node) bool {
		if m, ok := n.(*ast.Ident); ok && stable {
			if v, ok := core.ObjOf(x.Info, m).(*types.Var); ok && !v.IsField() && v.Pkg() != nil && v.Parent() != v.Pkg().Scope() {
				if defs := DefsOf(x.Info, x.G.Body, v); len(defs) > 1 {
					// assigned several times: still the same value at every use when none of the
					// assignments can run after the boolean has been computed
					from, found := Find(x.G, d.Stmt)
					if !found {
						stable = false
						return false
					}
					for _, od := range defs {
						target := od.Stmt
						if w := x.G.Path(cfgq.Query{From: from, After: true, Target: func(n ast.Node) bool { return n == target }}); w != nil {
							stable = false
						}
						if _, inGraph := Find(x.G, target); !inGraph {
							stable = false
						}
					}
				}
			}
		}
		return stable
	})
	if !stable {
		return nil
	}
	x.expd[o] = d.Rhs
	return d.Rhs
}

// Atoms returns the sorted atom names used by rows.
func Atoms(rows []Row) []string {
	m := map[string]bool{}
	for _, r := range rows {
		for a := range r.Lits {
			m[a] = true
		}
	}
	for _, r := range rows {
		for _, set := range r.Not {
			for _, a := range set {
				m[a] = true
			}
		}
	}
	var out []string
	for a := range m {
		out = append(out, a)
	}
	sort.Strings(out)
	return out
}

// Want is one row of a reference table: for every feasible valuation that
// extends When the predicate must answer Out.
type Want struct {
	Name  string
	When  map[string]bool
	Out   string
	Input string // the concrete input this row stands for (for messages)
}

// Verdict of one reference row.
type Verdict struct {
	Want      Want
	OK        bool
	Undecided bool
	Witness   string
}

// Compare evaluates rows on every feasible valuation of universe.
func Compare(rows []Row, universe []string, feasible func(map[string]bool) bool, wants []Want) []Verdict {
	var out []Verdict
	n := len(universe)
	for _, w := range wants {
		v := Verdict{Want: w, OK: true}
		for m := 0; m < 1<<n && v.OK && !v.Undecided; m++ {
			as := map[string]bool{}
			for i, a := range universe {
				as[a] = m&(1<<i) != 0
			}
			ext := true
			for a, val := range w.When {
				if as[a] != val {
					ext = false
				}
			}
			if !ext || (feasible != nil && !feasible(as)) {
				continue
			}
			matched := 0
			for _, r := range rows {
				ok := true
				for a, val := range r.Lits {
					if as[a] != val {
						ok = false
					}
				}
				for _, set := range r.Not {
					all := true
					for _, a := range set {
						if !as[a] {
							all = false
						}
					}
					if all {
						ok = false
					}
				}
				if !ok {
					continue
				}
				matched++
				if r.Out != w.Out {
					v.OK = false
					v.Witness = fmt.Sprintf("with %s the code takes the path [%s], expected %s", Valuation(as), r, w.Out)
				}
			}
			if matched == 0 {
				v.Undecided = true
				v.Witness = "no extracted path covers " + Valuation(as)
			}
		}
		out = append(out, v)
	}
	return out
}

// Valuation prints a valuation.
func Valuation(as map[string]bool) string {
	var ks []string
	for k := range as {
		ks = append(ks, k)
	}
	sort.Strings(ks)
	var s []string
	for _, k := range ks {
		s = append(s, fmt.Sprintf("%s=%v", k, as[k]))
	}
	return "{" + strings.Join(s, ", ") + "}"
}
