package tt

import (
	"fmt"
	"go/printer"
	"os"
	"sync"

	"go/ast"
	"go/token"
	"go/types"
	"golang.org/x/tools/go/packages"
	"regexp"

	"rscheck/cfgq"
	"rscheck/core"
	"rscheck/pat"
)

// View is a function body in which the calls of same-package helpers that stand
// as a statement (`h(a)`, `x, y := h(a)`, `return h(a)`, also as the init of an
// if/switch) are replaced by the helper's body:
//
//	{ p := a; <body, every `return e` rewritten to `x, y = e; goto L`>; L: }
//
// The helper's statements and expressions are the original nodes (their type
// information stays valid, parameters are bound by the synthetic definitions
// `p := a`, which every single-definition lookup follows), only the statements
// on the way to a return are rebuilt. A rule that works on a View sees the same
// mechanism whether or not parts of it were extracted into helpers or methods.
type View struct {
	Body *ast.BlockStmt
	G    *cfgq.Graph
	// Exits maps the `goto` that replaces a helper's return to that return.
	Exits map[*ast.BranchStmt]*ast.ReturnStmt
	// ExitVals: the values a helper hands back at such an exit (also for the exits of helpers
	// that the loader's source normalisation expanded in place).
	ExitVals map[*ast.BranchStmt][]ast.Expr
	// Root maps a statement of an inlined helper to the helper's body (for cfgq.ClassifyReturn).
	helperOf map[*ast.ReturnStmt]*ast.BlockStmt
	// Inlined lists the helpers whose bodies are part of the view.
	Inlined []*core.Fn
	// Named: the named results of the inlined helpers (they start with the zero value).
	Named map[types.Object]bool
}

// X builds the fact/trace helper over the view's graph.
func (v *View) X(p *core.Program) *X {
	x := New(v.G)
	x.Prog = p
	x.ZeroInit = v.Named
	return x
}

// IsErrorExit reports whether br replaces an error return of an inlined helper: the last value
// handed back is an error that is a fresh error value or is known to be non-nil at the exit.
func (v *View) IsErrorExit(x *X, br *ast.BranchStmt) bool {
	if r := v.Exits[br]; r != nil && cfgq.ClassifyReturn(x.Info, v.helperOf[r], r) == cfgq.RetErr {
		return true
	}
	vals := v.ExitVals[br]
	if len(vals) == 0 {
		return false
	}
	last := ast.Unparen(vals[len(vals)-1])
	if core.IsNil(x.Info, last) {
		return false
	}
	if tv, ok := x.Info.Types[last]; !ok || !cfgq.IsErrorType(tv.Type) {
		if id, isId := last.(*ast.Ident); !isId || core.ObjOf(x.Info, id) == nil || !cfgq.IsErrorType(core.ObjOf(x.Info, id).Type()) {
			return false
		}
	}
	if _, isCall := last.(*ast.CallExpr); isCall {
		return true
	}
	o := core.ObjOf(x.Info, last)
	ok, _ := x.OnlyVia(cfgq.Point{}, br, func(f cfgq.Fact) bool {
		be, isBin := ast.Unparen(f.Expr).(*ast.BinaryExpr)
		if !isBin || be.Op != token.NEQ && be.Op != token.EQL || (be.Op == token.NEQ) != f.Val {
			return false
		}
		return o != nil && (core.IsNil(x.Info, be.Y) && core.ObjOf(x.Info, be.X) == o || core.IsNil(x.Info, be.X) && core.ObjOf(x.Info, be.Y) == o)
	})
	return ok
}

type inliner struct {
	p      *core.Program
	info   *types.Info
	opaque func(*types.Func) bool
	stack  map[*ast.BlockStmt]bool
	used   map[*ast.BlockStmt]bool
	nlabel int
	v      *View
	calls  map[*types.Func]int
	// closures: a function literal bound once to a local, or handed to a helper's parameter, and
	// called exactly once is inlined like a helper (its free variables are the variables of the
	// scopes it is written in, which the view keeps)
	copies   map[*types.Func]int
	copyOf   map[*ast.CallExpr]*core.Fn
	origBody map[*ast.BlockStmt]*ast.BlockStmt
	noCopies bool
	root     *ast.BlockStmt
	bound    map[types.Object]ast.Expr // parameter of an inlined helper -> argument
	scope    map[types.Object]ast.Node // parameter of an inlined helper -> the helper's body
	lits     map[*ast.FuncLit]*core.Fn // literals wrapped as helpers
	litDone  map[*ast.FuncLit]bool     // literals inlined at their only call
	pkg      *packages.Package
	pseudo   map[string]*pctx // label of an expanded helper (source normalisation) -> how its exits are rewritten
}

// pctx describes one helper expansion made by the loader's source normalisation
// (core/inline.go): `var r0_xK T ...; { var a0_xK = ..; L_xK: for { <body>; break L_xK } }`,
// followed by the statement that consumes r0_xK...
type pctx struct {
	temps map[string]bool // names of the result temporaries
	end   *ast.Ident      // label that replaces the pseudo loop's exit
	mode  int             // 0: keep the temporaries, 1: assign to lhs, 2: return
	lhs   []ast.Expr
	tok   token.Token
	last  []ast.Expr // values of the latest rewritten assignment to the temporaries
}

// ViewOf builds (once per opaque-set name) the inlined view of fn. opaque
// names the helpers that must stay calls because a rule anchors on the call.
func ViewOf(p *core.Program, fn *core.Fn, tag string, opaque func(*types.Func) bool) *View {
	key := fmt.Sprintf("tt.view.%p.%s", fn.Decl, tag)
	if v, ok := p.Shared[key]; ok {
		return v.(*View)
	}
	v := viewOfBody(p, fn.Pkg.TypesInfo, fn.Decl.Body, opaque)
	p.Shared[key] = v
	return v
}

// ViewOfLit is ViewOf for a function literal.
func ViewOfLit(p *core.Program, info *types.Info, lit *ast.FuncLit, tag string, opaque func(*types.Func) bool) *View {
	key := fmt.Sprintf("tt.view.%p.%s", lit, tag)
	if v, ok := p.Shared[key]; ok {
		return v.(*View)
	}
	v := viewOfBody(p, info, lit.Body, opaque)
	p.Shared[key] = v
	return v
}

func viewOfBody(p *core.Program, info *types.Info, body *ast.BlockStmt, opaque func(*types.Func) bool) *View {
	v := &View{Exits: map[*ast.BranchStmt]*ast.ReturnStmt{}, ExitVals: map[*ast.BranchStmt][]ast.Expr{}, helperOf: map[*ast.ReturnStmt]*ast.BlockStmt{}, Named: map[types.Object]bool{}}
	in := &inliner{p: p, info: info, opaque: opaque, stack: map[*ast.BlockStmt]bool{body: true}, used: map[*ast.BlockStmt]bool{}, v: v, pseudo: map[string]*pctx{},
		copies: map[*types.Func]int{}, copyOf: map[*ast.CallExpr]*core.Fn{}, origBody: map[*ast.BlockStmt]*ast.BlockStmt{},
		root: body, bound: map[types.Object]ast.Expr{}, scope: map[types.Object]ast.Node{}, lits: map[*ast.FuncLit]*core.Fn{}, litDone: map[*ast.FuncLit]bool{}}
	for _, pk := range p.Pkgs {
		if pk.TypesInfo == info {
			in.pkg = pk
		}
	}
	// a helper that is called from several places of the body stays a call everywhere (its nodes
	// would otherwise occur twice in one tree)
	in.calls = map[*types.Func]int{}
	ast.Inspect(body, func(n ast.Node) bool {
		if call, ok := n.(*ast.CallExpr); ok {
			if f := core.CalleeFunc(info, call); f != nil {
				in.calls[f]++
			}
		}
		return true
	})
	v.Body = in.block(body, 3, nil)
	in.dropBindings(v.Body)
	// loops over fixed tables are the sequence of their rows
	un := &unroller{p: p, info: info, root: v.Body, tables: map[types.Object][]ast.Expr{}, known: map[types.Object]bool{}}
	un.onCopy = func(old, new ast.Node, tr map[ast.Node]ast.Node) {
		switch o := old.(type) {
		case *ast.BranchStmt:
			if r, ok := v.Exits[o]; ok {
				v.Exits[new.(*ast.BranchStmt)] = r
			}
			if vals, ok := v.ExitVals[o]; ok {
				var nv []ast.Expr
				for _, e := range vals {
					if t, ok := tr[e].(ast.Expr); ok {
						e = t
					}
					nv = append(nv, e)
				}
				v.ExitVals[new.(*ast.BranchStmt)] = nv
			}
		case *ast.ReturnStmt:
			if b, ok := v.helperOf[o]; ok {
				v.helperOf[new.(*ast.ReturnStmt)] = b
			}
		}
	}
	v.Body = inlineExprHelpers(p, info, v.Body, opaque, body, un.onCopy)
	v.Body = derefPointers(info, v.Body, un.onCopy)
	v.Body = splitRecords(info, v.Body, un.onCopy)
	un.root = v.Body
	v.Body = un.block(v.Body)
	if os.Getenv("TT_DUMP") != "" {
		printer.Fprint(os.Stderr, p.Fset, v.Body)
		fmt.Fprintln(os.Stderr)
	}
	v.G = cfgq.New(p.Fset, info, v.Body, cfgq.NR(p))
	v.G.Prog = p
	return v
}

// exit describes how a return of the helper being inlined is rewritten.
type exit struct {
	lhs   []ast.Expr
	tok   token.Token
	label *ast.Ident
	named []*ast.Ident // named results of the helper
	body  *ast.BlockStmt
}

func (in *inliner) helper(call *ast.CallExpr, depth int) *core.Fn {
	if depth <= 0 || call.Ellipsis.IsValid() {
		return nil
	}
	f := core.CalleeFunc(in.info, call)
	if f == nil {
		return in.closure(call)
	}
	if in.opaque != nil && in.opaque(f) {
		return nil
	}
	h := in.p.FnOf(f)
	if h == nil || h.Decl.Body == nil || h.Pkg.TypesInfo != in.info || in.stack[h.Decl.Body] {
		return nil
	}
	// a helper that is called from several places (or was expanded already) is expanded as a copy,
	// with its own variables: small helpers only, and only a few times
	multi := in.calls[f] > 1 || in.used[h.Decl.Body]
	if multi {
		size := 0
		ast.Inspect(h.Decl.Body, func(n ast.Node) bool {
			if _, isStmt := n.(ast.Stmt); isStmt {
				size++
			}
			if _, isLit := n.(*ast.FuncLit); isLit {
				size += 1000 // literals inside a copied helper are not followed
			}
			return true
		})
		if size > 25 || in.copies[f] >= 8 || in.noCopies {
			return nil
		}
	}
	sig := f.Type().(*types.Signature)
	if sig.Variadic() || sig.Params().Len() != len(call.Args) {
		return nil
	}
	for _, fl := range h.Decl.Type.Params.List {
		if len(fl.Names) == 0 && sig.Params().Len() > 0 {
			return nil // unnamed parameters
		}
	}
	// a helper that contains defer keeps its own exit discipline: not inlined, unless all it defers
	// is the release of a resource (conn.Close(), mu.Unlock(), ...), which decides nothing
	hasDefer := false
	core.Inspect(h.Decl.Body, func(n ast.Node) bool {
		if d, ok := n.(*ast.DeferStmt); ok {
			sel, isSel := ast.Unparen(d.Call.Fun).(*ast.SelectorExpr)
			if !isSel || len(d.Call.Args) != 0 || !releaseNames[sel.Sel.Name] {
				hasDefer = true
			}
		}
		return !hasDefer
	})
	if hasDefer {
		return nil
	}
	if multi {
		if c := in.copyOf[call]; c != nil {
			return c
		}
		c := in.cloneFn(h)
		in.copyOf[call] = c
		in.copies[f]++
		return c
	}
	return h
}

// cloneFn copies the declaration of a helper, with fresh objects for everything it declares.
func (in *inliner) cloneFn(h *core.Fn) *core.Fn {
	cl := &cloner{info: in.info, lo: h.Decl.Pos(), hi: h.Decl.End()}
	decl := cl.clone(h.Decl).(*ast.FuncDecl)
	cl.transfer(nil)
	in.origBody[decl.Body] = h.Decl.Body
	return &core.Fn{Obj: h.Obj, Decl: decl, Pkg: h.Pkg}
}

var releaseNames = map[string]bool{"Close": true, "Unlock": true, "RUnlock": true, "Done": true, "Stop": true}

// closure resolves a call of a function value to the literal it denotes: the callee is a local
// bound once to a literal, or a parameter of an inlined helper whose argument is a literal, and
// this call is the only use of that variable.
func (in *inliner) closure(call *ast.CallExpr) *core.Fn {
	if in.pkg == nil {
		return nil
	}
	// a function literal invoked in place
	if lit, ok := ast.Unparen(call.Fun).(*ast.FuncLit); ok {
		sig, ok := in.info.TypeOf(lit).(*types.Signature)
		if !ok || sig.Variadic() || sig.Params().Len() != len(call.Args) || in.stack[lit.Body] || in.used[lit.Body] {
			return nil
		}
		for _, fl := range lit.Type.Params.List {
			if len(fl.Names) == 0 {
				return nil
			}
		}
		hasDefer := false
		core.Inspect(lit.Body, func(n ast.Node) bool {
			if _, ok := n.(*ast.DeferStmt); ok {
				hasDefer = true
			}
			return !hasDefer
		})
		if hasDefer {
			return nil
		}
		if h := in.lits[lit]; h != nil {
			return h
		}
		h := &core.Fn{
			Obj:  types.NewFunc(lit.Pos(), in.pkg.Types, "func", sig),
			Decl: &ast.FuncDecl{Name: &ast.Ident{NamePos: lit.Pos(), Name: "func"}, Type: lit.Type, Body: lit.Body},
			Pkg:  in.pkg,
		}
		in.lits[lit] = h
		return h
	}
	id, ok := ast.Unparen(call.Fun).(*ast.Ident)
	if !ok {
		return nil
	}
	o, ok := core.ObjOf(in.info, id).(*types.Var)
	if !ok || o.IsField() {
		return nil
	}
	sig, ok := o.Type().Underlying().(*types.Signature)
	if !ok || sig.Variadic() || sig.Params().Len() != len(call.Args) {
		return nil
	}
	var lit *ast.FuncLit
	var where ast.Node
	if a, isParam := in.bound[o]; isParam {
		lit, _ = ast.Unparen(a).(*ast.FuncLit)
		where = in.scope[o]
	} else if d, ok := SingleDef(in.info, in.root, id); ok && d.Rhs != nil && d.Index == -1 && d.Range == nil {
		lit, _ = ast.Unparen(d.Rhs).(*ast.FuncLit)
		where = in.root
	}
	if lit == nil || where == nil || in.stack[lit.Body] || in.used[lit.Body] {
		return nil
	}
	uses := 0
	ast.Inspect(where, func(n ast.Node) bool {
		if u, ok := n.(*ast.Ident); ok && in.info.Uses[u] == types.Object(o) {
			uses++
		}
		return true
	})
	if uses != 1 {
		return nil
	}
	for _, fl := range lit.Type.Params.List {
		if len(fl.Names) == 0 {
			return nil
		}
	}
	bad := false
	core.Inspect(lit.Body, func(n ast.Node) bool {
		if _, ok := n.(*ast.DeferStmt); ok {
			bad = true
		}
		return !bad
	})
	if bad {
		return nil
	}
	if h := in.lits[lit]; h != nil {
		return h
	}
	h := &core.Fn{
		Obj:  types.NewFunc(lit.Pos(), in.pkg.Types, id.Name, sig),
		Decl: &ast.FuncDecl{Name: &ast.Ident{NamePos: lit.Pos(), Name: id.Name}, Type: lit.Type, Body: lit.Body},
		Pkg:  in.pkg,
	}
	in.lits[lit] = h
	return h
}

// dropBindings removes `f := func..` / the parameter binding of a literal that was inlined at its
// only call: the literal is no longer a nested function of the view.
func (in *inliner) dropBindings(root ast.Node) {
	if len(in.litDone) == 0 {
		return
	}
	keep := func(list []ast.Stmt) []ast.Stmt {
		var out []ast.Stmt
		for _, s := range list {
			if as, ok := s.(*ast.AssignStmt); ok && len(as.Lhs) == 1 && len(as.Rhs) == 1 {
				if lit, ok := ast.Unparen(as.Rhs[0]).(*ast.FuncLit); ok && in.litDone[lit] {
					continue
				}
			}
			out = append(out, s)
		}
		return out
	}
	ast.Inspect(root, func(n ast.Node) bool {
		switch b := n.(type) {
		case *ast.FuncLit:
			return false
		case *ast.BlockStmt:
			b.List = keep(b.List)
		case *ast.CaseClause:
			b.Body = keep(b.Body)
		case *ast.CommClause:
			b.Body = keep(b.Body)
		}
		return true
	})
}

func (in *inliner) prelude(h *core.Fn, call *ast.CallExpr) []ast.Stmt {
	var out []ast.Stmt
	if h.Decl.Recv != nil && len(h.Decl.Recv.List) == 1 && len(h.Decl.Recv.List[0].Names) == 1 {
		if sel, ok := ast.Unparen(call.Fun).(*ast.SelectorExpr); ok && h.Decl.Recv.List[0].Names[0].Name != "_" {
			recv := sel.X
			// `v.m()` with a pointer receiver on an addressable value is `(&v).m()`; with a value
			// receiver on a pointer it is `(*p).m()`
			if ro := in.info.Defs[h.Decl.Recv.List[0].Names[0]]; ro != nil {
				_, wantPtr := ro.Type().Underlying().(*types.Pointer)
				at := in.info.TypeOf(sel.X)
				if at != nil {
					_, havePtr := at.Underlying().(*types.Pointer)
					switch {
					case wantPtr && !havePtr:
						u := &ast.UnaryExpr{OpPos: sel.X.Pos(), Op: token.AND, X: sel.X}
						in.info.Types[u] = types.TypeAndValue{Type: ro.Type()}
						recv = u
					case !wantPtr && havePtr:
						st := &ast.StarExpr{Star: sel.X.Pos(), X: sel.X}
						in.info.Types[st] = types.TypeAndValue{Type: ro.Type()}
						recv = st
					}
				}
			}
			out = append(out, &ast.AssignStmt{Lhs: []ast.Expr{h.Decl.Recv.List[0].Names[0]}, TokPos: call.Pos(), Tok: token.DEFINE, Rhs: []ast.Expr{recv}})
		}
	}
	i := 0
	for _, fl := range h.Decl.Type.Params.List {
		for _, n := range fl.Names {
			if n.Name != "_" {
				out = append(out, &ast.AssignStmt{Lhs: []ast.Expr{n}, TokPos: call.Pos(), Tok: token.DEFINE, Rhs: []ast.Expr{call.Args[i]}})
				if o := in.info.Defs[n]; o != nil {
					in.bound[o], in.scope[o] = call.Args[i], h.Decl.Body
					noteBinding(o, call.Args[i])
				}
			}
			i++
		}
	}
	return out
}

func (in *inliner) noteLit(h *core.Fn) {
	for lit, w := range in.lits {
		if w == h {
			in.litDone[lit] = true
		}
	}
}

func (in *inliner) noteNamed(h *core.Fn) {
	for _, n := range namedResults(h) {
		if o := in.info.Defs[n]; o != nil {
			in.v.Named[o] = true
		}
	}
}

func namedResults(h *core.Fn) []*ast.Ident {
	var out []*ast.Ident
	if h.Decl.Type.Results != nil {
		for _, fl := range h.Decl.Type.Results.List {
			out = append(out, fl.Names...)
		}
	}
	return out
}

// expand inlines a call whose results are assigned to lhs (nil: discarded).
func (in *inliner) expand(h *core.Fn, call *ast.CallExpr, lhs []ast.Expr, tok token.Token, depth int) ast.Stmt {
	in.nlabel++
	label := &ast.Ident{NamePos: call.End(), Name: fmt.Sprintf("inl$%d", in.nlabel)}
	ex := &exit{lhs: lhs, tok: tok, label: label, named: namedResults(h), body: h.Decl.Body}
	skey := h.Decl.Body
	if o := in.origBody[skey]; o != nil {
		skey = o
	}
	in.stack[skey], in.used[skey] = true, true
	in.v.Inlined = append(in.v.Inlined, h)
	in.noteNamed(h)
	in.noteLit(h)
	pre := in.prelude(h, call)
	body := in.block(h.Decl.Body, depth-1, ex)
	delete(in.stack, skey)
	list := append(pre, body.List...)
	list = append(list, &ast.LabeledStmt{Label: label, Colon: call.End(), Stmt: &ast.EmptyStmt{Semicolon: call.End(), Implicit: true}})
	return &ast.BlockStmt{Lbrace: call.Pos(), List: list, Rbrace: call.End()}
}

// tail inlines `return h(a)`: the helper's returns stay returns.
func (in *inliner) tail(h *core.Fn, call *ast.CallExpr, depth int, outer *exit) ast.Stmt {
	skey := h.Decl.Body
	if o := in.origBody[skey]; o != nil {
		skey = o
	}
	in.stack[skey], in.used[skey] = true, true
	in.v.Inlined = append(in.v.Inlined, h)
	in.noteNamed(h)
	var ex *exit
	if outer != nil {
		// a tail call inside an inlined helper: its returns are the outer helper's returns
		ex = &exit{lhs: outer.lhs, tok: outer.tok, label: outer.label, named: namedResults(h), body: h.Decl.Body}
	} else if nr := namedResults(h); len(nr) > 0 {
		ex = &exit{named: nr, body: h.Decl.Body} // bare returns become explicit
	}
	in.noteLit(h)
	pre := in.prelude(h, call)
	body := in.block(h.Decl.Body, depth-1, ex)
	delete(in.stack, skey)
	return &ast.BlockStmt{Lbrace: call.Pos(), List: append(pre, body.List...), Rbrace: call.End()}
}

func (in *inliner) block(b *ast.BlockStmt, depth int, ex *exit) *ast.BlockStmt {
	if b == nil {
		return nil
	}
	return &ast.BlockStmt{Lbrace: b.Lbrace, List: in.list(b.List, depth, ex), Rbrace: b.Rbrace}
}

var (
	reLabel = regexp.MustCompile(`^L_(x\d+)$`)
	reTemp  = regexp.MustCompile(`^r\d+_(x\d+)$`)
)

// expansionOf recognises `{ var a_i = ..; L_xK: for { .. } }`.
func expansionOf(s ast.Stmt) (blk *ast.BlockStmt, loop *ast.ForStmt, label string, k string) {
	b, ok := s.(*ast.BlockStmt)
	if !ok || len(b.List) == 0 {
		return nil, nil, "", ""
	}
	ls, ok := b.List[len(b.List)-1].(*ast.LabeledStmt)
	if !ok {
		return nil, nil, "", ""
	}
	m := reLabel.FindStringSubmatch(ls.Label.Name)
	fs, isFor := ls.Stmt.(*ast.ForStmt)
	if m == nil || !isFor || fs.Cond != nil || fs.Init != nil || fs.Post != nil {
		return nil, nil, "", ""
	}
	return b, fs, ls.Label.Name, m[1]
}

func tempNames(es []ast.Expr, k string) bool {
	if len(es) == 0 {
		return false
	}
	for _, e := range es {
		id, ok := e.(*ast.Ident)
		if !ok {
			return false
		}
		if m := reTemp.FindStringSubmatch(id.Name); m == nil || m[1] != k {
			return false
		}
	}
	return true
}

func (in *inliner) list(ss []ast.Stmt, depth int, ex *exit) []ast.Stmt {
	var out []ast.Stmt
	for i := 0; i < len(ss); i++ {
		s := ss[i]
		blk, loop, label, k := expansionOf(s)
		if blk == nil {
			out = append(out, in.stmt(s, depth, ex)...)
			continue
		}
		// a helper expanded in place by the source normalisation: turn the pseudo loop into a
		// block with gotos and hand the results directly to the consuming statement
		in.nlabel++
		pc := &pctx{temps: map[string]bool{}, end: &ast.Ident{NamePos: blk.End(), Name: fmt.Sprintf("end$%d", in.nlabel)}}
		nDecl := 0
		for j := len(out) - 1; j >= 0; j-- {
			ds, ok := out[j].(*ast.DeclStmt)
			if !ok {
				break
			}
			gd, _ := ds.Decl.(*ast.GenDecl)
			if gd == nil || len(gd.Specs) != 1 {
				break
			}
			vs, _ := gd.Specs[0].(*ast.ValueSpec)
			if vs == nil || len(vs.Names) != 1 || len(vs.Values) != 0 {
				break
			}
			if m := reTemp.FindStringSubmatch(vs.Names[0].Name); m == nil || m[1] != k {
				break
			}
			pc.temps[vs.Names[0].Name] = true
			nDecl++
		}
		var consumer ast.Stmt
		if i+1 < len(ss) {
			switch c := ss[i+1].(type) {
			case *ast.AssignStmt:
				if tempNames(c.Rhs, k) && len(c.Rhs) == len(pc.temps) && len(c.Lhs) == len(c.Rhs) {
					pc.mode, pc.lhs, pc.tok = 1, c.Lhs, c.Tok
					i++
				}
			case *ast.ReturnStmt:
				if tempNames(c.Results, k) && len(c.Results) == len(pc.temps) {
					pc.mode = 2
					i++
				}
			case *ast.IfStmt:
				if init, ok := c.Init.(*ast.AssignStmt); ok && tempNames(init.Rhs, k) && len(init.Rhs) == len(pc.temps) && len(init.Lhs) == len(init.Rhs) {
					pc.mode, pc.lhs, pc.tok = 1, init.Lhs, init.Tok
					consumer = &ast.IfStmt{If: c.If, Cond: c.Cond, Body: c.Body, Else: c.Else}
					i++
				}
			case *ast.ExprStmt:
				// the helper's results are not used (`_ = r0` is not generated for a call statement)
			}
		}
		if pc.mode != 0 {
			out = out[:len(out)-nDecl] // the temporaries are gone
		}
		in.pseudo[label] = pc
		inner := in.list(blk.List[:len(blk.List)-1], depth, ex)
		inner = append(inner, in.block(loop.Body, depth, ex).List...)
		delete(in.pseudo, label)
		inner = append(inner, &ast.LabeledStmt{Label: pc.end, Colon: blk.End(), Stmt: &ast.EmptyStmt{Semicolon: blk.End(), Implicit: true}})
		out = append(out, &ast.BlockStmt{Lbrace: blk.Lbrace, List: inner, Rbrace: blk.Rbrace})
		if consumer != nil {
			out = append(out, in.stmt(consumer, depth, ex)...)
		}
	}
	return out
}

// callOf returns the inlinable call a simple statement consists of.
func (in *inliner) callOf(s ast.Stmt, depth int) (*core.Fn, *ast.CallExpr, []ast.Expr, token.Token) {
	switch v := s.(type) {
	case *ast.ExprStmt:
		if call, ok := ast.Unparen(v.X).(*ast.CallExpr); ok {
			if h := in.helper(call, depth); h != nil {
				return h, call, nil, token.ASSIGN
			}
		}
	case *ast.AssignStmt:
		if len(v.Rhs) == 1 && (v.Tok == token.ASSIGN || v.Tok == token.DEFINE) {
			if call, ok := ast.Unparen(v.Rhs[0]).(*ast.CallExpr); ok {
				if h := in.helper(call, depth); h != nil && h.Obj.Type().(*types.Signature).Results().Len() == len(v.Lhs) {
					return h, call, v.Lhs, v.Tok
				}
			}
		}
	}
	return nil, nil, nil, 0
}

func (in *inliner) stmt(s ast.Stmt, depth int, ex *exit) []ast.Stmt {
	switch v := s.(type) {
	case *ast.BranchStmt:
		if v.Tok == token.BREAK && v.Label != nil {
			if pc := in.pseudo[v.Label.Name]; pc != nil {
				br := &ast.BranchStmt{TokPos: v.TokPos, Tok: token.GOTO, Label: pc.end}
				in.v.ExitVals[br] = pc.last
				pc.last = nil
				return []ast.Stmt{br}
			}
		}
	case *ast.AssignStmt:
		for _, pc := range in.pseudo {
			all := len(v.Lhs) > 0
			for _, l := range v.Lhs {
				if id, ok := l.(*ast.Ident); !ok || !pc.temps[id.Name] {
					all = false
				}
			}
			if !all {
				continue
			}
			pc.last = v.Rhs
			switch pc.mode {
			case 1:
				return []ast.Stmt{&ast.AssignStmt{Lhs: pc.lhs, TokPos: v.TokPos, Tok: pc.tok, Rhs: v.Rhs}}
			case 2:
				return in.stmt(&ast.ReturnStmt{Return: v.Pos(), Results: v.Rhs}, depth, ex)
			}
			return []ast.Stmt{v}
		}
	}
	if h, call, lhs, tok := in.callOf(s, depth); h != nil {
		return []ast.Stmt{in.expand(h, call, lhs, tok, depth)}
	}
	one := func(x ast.Stmt) ast.Stmt {
		if x == nil {
			return nil
		}
		r := in.stmt(x, depth, ex)
		if len(r) == 1 {
			return r[0]
		}
		return &ast.BlockStmt{Lbrace: x.Pos(), List: r, Rbrace: x.End()}
	}
	switch v := s.(type) {
	case *ast.ReturnStmt:
		if len(v.Results) == 1 {
			if call, ok := ast.Unparen(v.Results[0]).(*ast.CallExpr); ok {
				if h := in.helper(call, depth); h != nil && (ex == nil || len(ex.lhs) == h.Obj.Type().(*types.Signature).Results().Len() || ex.label == nil) {
					return []ast.Stmt{in.tail(h, call, depth, ex)}
				}
			}
		}
		if ex == nil {
			return []ast.Stmt{v}
		}
		results := v.Results
		if len(results) == 0 && len(ex.named) > 0 {
			for _, n := range ex.named {
				results = append(results, n)
			}
		}
		if ex.label == nil { // tail position: keep the return, made explicit
			return []ast.Stmt{&ast.ReturnStmt{Return: v.Return, Results: results}}
		}
		var out []ast.Stmt
		if len(ex.lhs) > 0 && len(results) > 0 {
			out = append(out, &ast.AssignStmt{Lhs: ex.lhs, TokPos: v.Return, Tok: ex.tok, Rhs: results})
		} else {
			for _, r := range results { // results discarded: still evaluated
				out = append(out, &ast.ExprStmt{X: r})
			}
		}
		br := &ast.BranchStmt{TokPos: v.Return, Tok: token.GOTO, Label: ex.label}
		in.v.Exits[br] = v
		in.v.ExitVals[br] = results
		in.v.helperOf[v] = ex.body
		return append(out, br)
	case *ast.BlockStmt:
		return []ast.Stmt{in.block(v, depth, ex)}
	case *ast.IfStmt:
		n := &ast.IfStmt{If: v.If, Init: v.Init, Cond: v.Cond, Body: in.block(v.Body, depth, ex), Else: one(v.Else)}
		if h, call, lhs, tok := in.callOf(v.Init, depth); h != nil {
			n.Init = nil
			return []ast.Stmt{in.expand(h, call, lhs, tok, depth), n}
		}
		return []ast.Stmt{n}
	case *ast.ForStmt:
		return []ast.Stmt{&ast.ForStmt{For: v.For, Init: v.Init, Cond: v.Cond, Post: v.Post, Body: in.block(v.Body, depth, ex)}}
	case *ast.RangeStmt:
		return []ast.Stmt{&ast.RangeStmt{For: v.For, Key: v.Key, Value: v.Value, TokPos: v.TokPos, Tok: v.Tok, Range: v.Range, X: v.X, Body: in.block(v.Body, depth, ex)}}
	case *ast.SwitchStmt:
		n := &ast.SwitchStmt{Switch: v.Switch, Init: v.Init, Tag: v.Tag, Body: in.block(v.Body, depth, ex)}
		if h, call, lhs, tok := in.callOf(v.Init, depth); h != nil {
			n.Init = nil
			return []ast.Stmt{in.expand(h, call, lhs, tok, depth), n}
		}
		// `switch h(a) { .. }`: the helper's answer is computed into a variable first
		if call, ok := ast.Unparen(v.Tag).(*ast.CallExpr); ok && v.Init == nil && in.pkg != nil {
			if h := in.helper(call, depth); h != nil && h.Obj.Type().(*types.Signature).Results().Len() == 1 {
				in.nlabel++
				tv := types.NewVar(call.Pos(), in.pkg.Types, fmt.Sprintf("tag$%d", in.nlabel), h.Obj.Type().(*types.Signature).Results().At(0).Type())
				def := &ast.Ident{NamePos: call.Pos(), Name: tv.Name()}
				use := &ast.Ident{NamePos: call.Pos(), Name: tv.Name()}
				in.info.Defs[def] = tv
				in.info.Uses[use] = tv
				n.Tag = use
				return []ast.Stmt{in.expand(h, call, []ast.Expr{def}, token.DEFINE, depth), n}
			}
		}
		return []ast.Stmt{n}
	case *ast.TypeSwitchStmt:
		return []ast.Stmt{&ast.TypeSwitchStmt{Switch: v.Switch, Init: v.Init, Assign: v.Assign, Body: in.block(v.Body, depth, ex)}}
	case *ast.SelectStmt:
		return []ast.Stmt{&ast.SelectStmt{Select: v.Select, Body: in.block(v.Body, depth, ex)}}
	case *ast.CaseClause:
		return []ast.Stmt{&ast.CaseClause{Case: v.Case, List: v.List, Colon: v.Colon, Body: in.list(v.Body, depth, ex)}}
	case *ast.CommClause:
		return []ast.Stmt{&ast.CommClause{Case: v.Case, Comm: v.Comm, Colon: v.Colon, Body: in.list(v.Body, depth, ex)}}
	case *ast.LabeledStmt:
		return []ast.Stmt{&ast.LabeledStmt{Label: v.Label, Colon: v.Colon, Stmt: one(v.Stmt)}}
	}
	return []ast.Stmt{s}
}

// The parameter bindings made by the views (`p := a` in front of an inlined body) are not part of
// the shared single-assignment index (pat.DefOf), which is built from the files. DefOf answers
// for both: the index first, then the binding of a parameter that every view binds to the same
// argument expression.
var (
	bindMu    sync.Mutex
	bindings  = map[types.Object]ast.Expr{}
	ambiguous = map[types.Object]bool{}
)

func noteBinding(o types.Object, a ast.Expr) {
	bindMu.Lock()
	defer bindMu.Unlock()
	if ambiguous[o] {
		return
	}
	if old, ok := bindings[o]; ok && old != a {
		ambiguous[o] = true
		delete(bindings, o)
		return
	}
	bindings[o] = a
}

// DefOf returns the defining expression of a transparent local (pat.DefOf) or the argument a view
// bound to the parameter e of an inlined helper or function literal.
func DefOf(info *types.Info, e ast.Expr) ast.Expr {
	if d := pat.DefOf(info, e); d != nil {
		return d
	}
	id, ok := e.(*ast.Ident)
	if !ok || info == nil {
		return nil
	}
	bindMu.Lock()
	defer bindMu.Unlock()
	return bindings[info.Uses[id]]
}
