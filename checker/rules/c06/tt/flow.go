package tt

import (
	"fmt"
	"go/ast"
	"go/token"
	"go/types"
	"sort"
	"strings"

	"golang.org/x/tools/go/cfg"

	"rscheck/cfgq"
	"rscheck/core"
)

// ---------------------------------------------------------------------------
// flag-tracking reachability

// Env is the known value of boolean locals.
type Env map[types.Object]bool

func (e Env) key() string {
	var s []string
	for o, v := range e {
		s = append(s, fmt.Sprintf("%s@%d=%v", o.Name(), o.Pos(), v))
	}
	sort.Strings(s)
	return strings.Join(s, ",")
}

func (e Env) clone() Env {
	c := Env{}
	for k, v := range e {
		c[k] = v
	}
	return c
}

func (x *X) boolLocal(e ast.Expr) types.Object { return BoolLocal(x.Info, e) }

// BoolLocal returns the boolean local variable denoted by e, or nil.
func BoolLocal(info *types.Info, e ast.Expr) types.Object {
	id, ok := ast.Unparen(e).(*ast.Ident)
	if !ok {
		return nil
	}
	v, ok := core.ObjOf(info, id).(*types.Var)
	if !ok || v.IsField() || v.Pkg() == nil || v.Parent() == v.Pkg().Scope() {
		return nil
	}
	if b, ok := v.Type().Underlying().(*types.Basic); !ok || b.Kind() != types.Bool {
		return nil
	}
	return v
}

// eval3 evaluates cond under env: 1 true, -1 false, 0 unknown.
func (x *X) eval3(e ast.Expr, env Env) int {
	e = ast.Unparen(e)
	if bv, ok := BoolConst(x.Info, e); ok {
		if bv {
			return 1
		}
		return -1
	}
	if o := x.boolLocal(e); o != nil {
		if v, ok := env[o]; ok {
			if v {
				return 1
			}
			return -1
		}
		return 0
	}
	switch c := e.(type) {
	case *ast.UnaryExpr:
		if c.Op == token.NOT {
			return -x.eval3(c.X, env)
		}
	case *ast.BinaryExpr:
		a, b := x.eval3(c.X, env), x.eval3(c.Y, env)
		switch c.Op {
		case token.LAND:
			if a == -1 || b == -1 {
				return -1
			}
			if a == 1 && b == 1 {
				return 1
			}
		case token.LOR:
			if a == 1 || b == 1 {
				return 1
			}
			if a == -1 && b == -1 {
				return -1
			}
		case token.EQL, token.NEQ:
			if a != 0 && b != 0 {
				if (a == b) == (c.Op == token.EQL) {
					return 1
				}
				return -1
			}
		}
	}
	return 0
}

// step applies the effect of executing node n on env.
func (x *X) step(n ast.Node, env Env) {
	assign := func(l ast.Expr, r ast.Expr) {
		o := x.boolLocal(l)
		if o == nil {
			return
		}
		if r == nil {
			delete(env, o)
			return
		}
		switch x.eval3(r, env) {
		case 1:
			env[o] = true
		case -1:
			env[o] = false
		default:
			delete(env, o)
		}
	}
	switch s := n.(type) {
	case *ast.AssignStmt:
		for i, l := range s.Lhs {
			if len(s.Lhs) == len(s.Rhs) && (s.Tok == token.ASSIGN || s.Tok == token.DEFINE) {
				assign(l, s.Rhs[i])
			} else {
				assign(l, nil)
			}
		}
	case *ast.DeclStmt:
		gd, ok := s.Decl.(*ast.GenDecl)
		if !ok {
			return
		}
		for _, sp := range gd.Specs {
			vs, ok := sp.(*ast.ValueSpec)
			if !ok {
				continue
			}
			for i, name := range vs.Names {
				o := x.boolLocal(name)
				if o == nil {
					continue
				}
				switch {
				case len(vs.Values) == 0:
					env[o] = false
				case len(vs.Values) == len(vs.Names):
					assign(name, vs.Values[i])
				default:
					delete(env, o)
				}
			}
		}
	}
}

// ReachQuery is a flag-tracking path search.
type ReachQuery struct {
	From     cfgq.Point // search starts after this point
	FromSucc int        // when >= 0: start on successor FromSucc of From.B instead
	Env      Env
	Target   func(ast.Node) bool
	Cut      func(ast.Node) bool               // the path ends (without success) before executing such a node
	CutBlock func(*cfg.Block) bool             // the path ends when it enters such a block
	CutEdge  func(b *cfg.Block, succ int) bool // such an edge is not followed
}

// Reach returns a witness path to a target node on which the tracked boolean
// locals never contradict the branch decisions taken, or nil.
func (x *X) Reach(q ReachQuery) []string {
	type state struct {
		b    *cfg.Block
		i    int
		env  Env
		prev *state
		note string
	}
	seen := map[string]bool{}
	var queue []*state
	push := func(b *cfg.Block, i int, env Env, prev *state, note string) {
		k := fmt.Sprintf("%d/%d/%s", b.Index, i, env.key())
		if seen[k] {
			return
		}
		seen[k] = true
		queue = append(queue, &state{b, i, env, prev, note})
	}
	env0 := q.Env.clone()
	if q.FromSucc >= 0 {
		for _, f := range x.EdgeFacts(q.From.B, q.FromSucc) {
			if o := x.boolLocal(f.Expr); o != nil {
				env0[o] = f.Val
			}
		}
		push(q.From.B.Succs[q.FromSucc], 0, env0, nil, "")
	} else {
		push(q.From.B, q.From.I+1, env0, nil, "")
	}
	witness := func(s *state, last ast.Node) []string {
		var chain []*state
		for y := s; y != nil; y = y.prev {
			chain = append([]*state{y}, chain...)
		}
		var out []string
		for _, y := range chain {
			d := fmt.Sprintf("block %d (%s)", y.b.Index, y.b.Kind)
			if y.i < len(y.b.Nodes) {
				d += fmt.Sprintf(" L%d: %s", x.G.Fset.Position(y.b.Nodes[y.i].Pos()).Line, core.NodeString(x.G.Fset, y.b.Nodes[y.i]))
			}
			if y.note != "" {
				d += "  [" + y.note + "]"
			}
			out = append(out, d)
		}
		out = append(out, fmt.Sprintf("reaches L%d: %s", x.G.Fset.Position(last.Pos()).Line, core.NodeString(x.G.Fset, last)))
		return out
	}
	for len(queue) > 0 && len(seen) < 50000 {
		s := queue[0]
		queue = queue[1:]
		if q.CutBlock != nil && s.prev != nil && q.CutBlock(s.b) {
			continue
		}
		env := s.env.clone()
		cond := x.Cond(s.b)
		cut := false
		for i := s.i; i < len(s.b.Nodes); i++ {
			n := s.b.Nodes[i]
			if q.Target != nil && q.Target(n) {
				return witness(s, n)
			}
			if q.Cut != nil && q.Cut(n) {
				cut = true
				break
			}
			if cond != nil && i == len(s.b.Nodes)-1 {
				break
			}
			x.step(n, env)
		}
		if cut {
			continue
		}
		for si, t := range s.b.Succs {
			if q.CutEdge != nil && q.CutEdge(s.b, si) {
				continue
			}
			e2 := env
			note := ""
			if cond != nil && len(s.b.Succs) == 2 {
				v := x.eval3(cond, env)
				if v == 1 && si == 1 || v == -1 && si == 0 {
					continue
				}
				e2 = env.clone()
				for _, f := range x.Facts(cond, si == 0) {
					if o := x.boolLocal(f.Expr); o != nil {
						e2[o] = f.Val
					}
				}
				note = fmt.Sprintf("%s is %v", core.NodeString(x.G.Fset, cond), si == 0)
			}
			push(t, 0, e2, s, note)
		}
	}
	return nil
}

// ---------------------------------------------------------------------------
// definitions of locals

// Def is a definition site of a local variable.
type Def struct {
	Rhs   ast.Expr       // assigned expression (the call for a multi-value assignment; the ranged expression for a range variable)
	Index int            // result index for a multi-value assignment, -1 otherwise
	Range *ast.RangeStmt // set when the variable is a range key/value
	IsKey bool
	Stmt  ast.Node
}

// DefsOf lists every definition/assignment of obj under root (closures included).
func DefsOf(info *types.Info, root ast.Node, obj types.Object) []Def {
	var out []Def
	is := func(e ast.Expr) bool {
		id, ok := ast.Unparen(e).(*ast.Ident)
		return ok && obj != nil && core.ObjOf(info, id) == obj
	}
	ast.Inspect(root, func(n ast.Node) bool {
		switch s := n.(type) {
		case *ast.AssignStmt:
			for i, l := range s.Lhs {
				if !is(l) {
					continue
				}
				switch {
				case s.Tok != token.ASSIGN && s.Tok != token.DEFINE:
					out = append(out, Def{Index: -1, Stmt: s})
				case len(s.Lhs) == len(s.Rhs):
					out = append(out, Def{Rhs: s.Rhs[i], Index: -1, Stmt: s})
				default:
					out = append(out, Def{Rhs: s.Rhs[0], Index: i, Stmt: s})
				}
			}
		case *ast.ValueSpec:
			for i, name := range s.Names {
				if !is(name) {
					continue
				}
				switch {
				case len(s.Values) == len(s.Names):
					out = append(out, Def{Rhs: s.Values[i], Index: -1, Stmt: s})
				case len(s.Values) == 1:
					out = append(out, Def{Rhs: s.Values[0], Index: i, Stmt: s})
				default:
					out = append(out, Def{Index: -1, Stmt: s})
				}
			}
		case *ast.RangeStmt:
			if s.Key != nil && is(s.Key) {
				out = append(out, Def{Rhs: s.X, Index: -1, Range: s, IsKey: true, Stmt: s})
			}
			if s.Value != nil && is(s.Value) {
				out = append(out, Def{Rhs: s.X, Index: -1, Range: s, Stmt: s})
			}
		case *ast.IncDecStmt:
			if is(s.X) {
				out = append(out, Def{Index: -1, Stmt: s})
			}
		}
		return true
	})
	return out
}

// SingleDef returns the only definition of the local denoted by e.
func SingleDef(info *types.Info, root ast.Node, e ast.Expr) (Def, bool) {
	id, ok := ast.Unparen(e).(*ast.Ident)
	if !ok {
		return Def{}, false
	}
	v, ok := core.ObjOf(info, id).(*types.Var)
	if !ok || v.IsField() || v.Pkg() == nil || v.Parent() == v.Pkg().Scope() {
		return Def{}, false
	}
	ds := DefsOf(info, root, v)
	if len(ds) != 1 {
		return Def{}, false
	}
	return ds[0], true
}

// Resolve follows single definitions of locals (1:1 assignments only) up to
// depth steps and returns the defining expression.
func Resolve(info *types.Info, root ast.Node, e ast.Expr, depth int) ast.Expr {
	for ; depth > 0; depth-- {
		d, ok := SingleDef(info, root, e)
		if !ok || d.Rhs == nil || d.Index != -1 || d.Range != nil {
			break
		}
		e = d.Rhs
	}
	return ast.Unparen(e)
}

// MentionsResolved reports whether e, or the single definition of a local
// mentioned in e (transitively, depth steps), mentions obj.
func MentionsResolved(info *types.Info, root ast.Node, e ast.Node, obj types.Object, depth int) bool {
	if core.Mentions(info, e, obj) {
		return true
	}
	if depth == 0 {
		return false
	}
	found := false
	ast.Inspect(e, func(n ast.Node) bool {
		id, ok := n.(*ast.Ident)
		if !ok || found {
			return !found
		}
		if d, ok := SingleDef(info, root, id); ok && d.Rhs != nil {
			if MentionsResolved(info, root, d.Rhs, obj, depth-1) {
				found = true
			}
		}
		return true
	})
	return found
}

// IsConfField reports whether e selects field `field` of the configuration
// singleton (conf.Options.<field>); field "" accepts any and returns its name.
func IsConfField(info *types.Info, e ast.Expr, field string) (string, bool) {
	sel, ok := ast.Unparen(e).(*ast.SelectorExpr)
	if !ok {
		return "", false
	}
	f := core.FieldOf(info, sel)
	if f == nil || f.Pkg() == nil || f.Pkg().Path() != core.Module+"/redis-shake/configure" {
		return "", false
	}
	if field != "" && f.Name() != field {
		return "", false
	}
	return f.Name(), true
}

// Bodies lists the body of fn and of all function literals nested in it.
type Body struct {
	Name string
	Root ast.Node // *ast.BlockStmt of the declaration or *ast.FuncLit
	G    *cfgq.Graph
}

// BodiesOf returns the declaration body and every nested literal with graphs.
func BodiesOf(p *core.Program, fn *core.Fn) []Body {
	out := []Body{{Name: fn.Decl.Name.Name, Root: fn.Decl.Body, G: cfgq.Of(p, fn)}}
	k := 0
	ast.Inspect(fn.Decl.Body, func(n ast.Node) bool {
		if fl, ok := n.(*ast.FuncLit); ok {
			k++
			out = append(out, Body{Name: fmt.Sprintf("%s$%d", fn.Decl.Name.Name, k), Root: fl, G: cfgq.OfLit(p, fn.Pkg.TypesInfo, fl)})
		}
		return true
	})
	return out
}

// BreaksLoop reports whether the unlabelled `break` br, found under the body of
// a loop, leaves that loop (and not a nested switch, select or loop). A
// labelled break is assumed to leave it.
func BreaksLoop(body *ast.BlockStmt, br *ast.BranchStmt) bool {
	if br.Label != nil {
		return true
	}
	path := core.PathTo(body, br)
	for _, n := range path {
		switch n.(type) {
		case *ast.SwitchStmt, *ast.TypeSwitchStmt, *ast.SelectStmt, *ast.ForStmt, *ast.RangeStmt:
			return false
		}
	}
	return len(path) > 0
}
