package tt

import (
	"fmt"
	"go/ast"
	"go/token"
	"go/types"
	"sort"
	"strings"

	"golang.org/x/tools/go/cfg"

	"rscheck/cfgq"
	"rscheck/core"
)

// ---------------------------------------------------------------------------
// flag-tracking reachability

// Env is the known value of boolean locals.
type Env map[types.Object]bool

func (e Env) key() string {
	var s []string
	for o, v := range e {
		s = append(s, fmt.Sprintf("%s@%d=%v", o.Name(), o.Pos(), v))
	}
	sort.Strings(s)
	return strings.Join(s, ",")
}

func (e Env) clone() Env {
	c := Env{}
	for k, v := range e {
		c[k] = v
	}
	return c
}

func (x *X) boolLocal(e ast.Expr) types.Object { return BoolLocal(x.Info, e) }

// ErrLocal returns the error-typed local variable denoted by e, or nil. In an Env its value
// means "is nil".
func ErrLocal(info *types.Info, e ast.Expr) types.Object {
	id, ok := ast.Unparen(e).(*ast.Ident)
	if !ok {
		return nil
	}
	v, ok := core.ObjOf(info, id).(*types.Var)
	if !ok || v.IsField() || v.Pkg() == nil || v.Parent() == v.Pkg().Scope() || !cfgq.IsErrorType(v.Type()) {
		return nil
	}
	return v
}

// nilTest: e is `v == nil` / `v != nil` for an error local v; eq tells which.
func (x *X) nilTest(e ast.Expr) (types.Object, bool, bool) {
	be, ok := ast.Unparen(e).(*ast.BinaryExpr)
	if !ok || be.Op != token.EQL && be.Op != token.NEQ {
		return nil, false, false
	}
	var o types.Object
	switch {
	case core.IsNil(x.Info, be.Y):
		o = ErrLocal(x.Info, be.X)
	case core.IsNil(x.Info, be.X):
		o = ErrLocal(x.Info, be.Y)
	}
	return o, be.Op == token.EQL, o != nil
}

// errValue: 1 the expression is a nil error, -1 it is certainly non-nil (a fresh error value), 0 unknown.
func (x *X) errValue(e ast.Expr, env Env) int {
	e = ast.Unparen(e)
	if core.IsNil(x.Info, e) {
		return 1
	}
	if o := ErrLocal(x.Info, e); o != nil {
		if v, ok := env[o]; ok {
			if v {
				return 1
			}
			return -1
		}
		return 0
	}
	if call, ok := e.(*ast.CallExpr); ok {
		if f := core.CalleeFunc(x.Info, call); f != nil && f.Pkg() != nil {
			switch {
			case f.Pkg().Path() == "fmt" && f.Name() == "Errorf", f.Pkg().Path() == "errors" && f.Name() == "New",
				strings.HasSuffix(f.Pkg().Path(), "/libs/errors") && (f.Name() == "New" || f.Name() == "Errorf" || f.Name() == "Trace"):
				return -1
			}
		}
	}
	return 0
}

// BoolLocal returns the boolean local variable denoted by e, or nil.
func BoolLocal(info *types.Info, e ast.Expr) types.Object {
	id, ok := ast.Unparen(e).(*ast.Ident)
	if !ok {
		return nil
	}
	v, ok := core.ObjOf(info, id).(*types.Var)
	if !ok || v.IsField() || v.Pkg() == nil || v.Parent() == v.Pkg().Scope() {
		return nil
	}
	if b, ok := v.Type().Underlying().(*types.Basic); !ok || b.Kind() != types.Bool {
		return nil
	}
	return v
}

// eval3 evaluates cond under env: 1 true, -1 false, 0 unknown.
func (x *X) eval3(e ast.Expr, env Env) int {
	e = ast.Unparen(e)
	if x.assume != nil {
		if v := x.assume(e); v != 0 {
			return v
		}
	}
	if bv, ok := BoolConst(x.Info, e); ok {
		if bv {
			return 1
		}
		return -1
	}
	if o := x.boolLocal(e); o != nil {
		if v, ok := env[o]; ok {
			if v {
				return 1
			}
			return -1
		}
		return 0
	}
	if o, eq, ok := x.nilTest(e); ok {
		if v, known := env[o]; known {
			if v == eq {
				return 1
			}
			return -1
		}
		return 0
	}
	if atom, eq, ok := x.constCmp(e); ok {
		if v, known := env[atom]; known {
			if v == eq {
				return 1
			}
			return -1
		}
		return 0
	}
	switch c := e.(type) {
	case *ast.CallExpr:
		// a one-line predicate helper: its returned expression over the arguments
		if body := x.predicateOf(c); body != nil {
			return x.eval3(body, env)
		}
	case *ast.UnaryExpr:
		if c.Op == token.NOT {
			return -x.eval3(c.X, env)
		}
	case *ast.BinaryExpr:
		a, b := x.eval3(c.X, env), x.eval3(c.Y, env)
		switch c.Op {
		case token.LAND:
			if a == -1 || b == -1 {
				return -1
			}
			if a == 1 && b == 1 {
				return 1
			}
		case token.LOR:
			if a == 1 || b == 1 {
				return 1
			}
			if a == -1 && b == -1 {
				return -1
			}
		case token.EQL, token.NEQ:
			if a != 0 && b != 0 {
				if (a == b) == (c.Op == token.EQL) {
					return 1
				}
				return -1
			}
		}
	}
	return 0
}

// refine records in env what the outcome val of cond implies for the tracked locals, including
// what follows from the parts whose value is already known: (a && b) false with a known true
// means b false; (a || b) true with a known false means b true.
func (x *X) refine(cond ast.Expr, val bool, env Env) {
	cond = ast.Unparen(cond)
	switch c := cond.(type) {
	case *ast.UnaryExpr:
		if c.Op == token.NOT {
			x.refine(c.X, !val, env)
			return
		}
	case *ast.BinaryExpr:
		switch c.Op {
		case token.LAND:
			if val {
				x.refine(c.X, true, env)
				x.refine(c.Y, true, env)
			} else if x.eval3(c.X, env) == 1 {
				x.refine(c.Y, false, env)
			} else if x.eval3(c.Y, env) == 1 {
				x.refine(c.X, false, env)
			}
			return
		case token.LOR:
			if !val {
				x.refine(c.X, false, env)
				x.refine(c.Y, false, env)
			} else if x.eval3(c.X, env) == -1 {
				x.refine(c.Y, true, env)
			} else if x.eval3(c.Y, env) == -1 {
				x.refine(c.X, true, env)
			}
			return
		case token.EQL, token.NEQ:
			if bv, ok := BoolConst(x.Info, c.Y); ok {
				x.refine(c.X, val == ((c.Op == token.EQL) == bv), env)
				return
			}
			if bv, ok := BoolConst(x.Info, c.X); ok {
				x.refine(c.Y, val == ((c.Op == token.EQL) == bv), env)
				return
			}
		}
	case *ast.Ident:
		if rhs := x.Expand(c); rhs != nil {
			x.refine(rhs, val, env)
		}
	case *ast.CallExpr:
		if body := x.predicateOf(c); body != nil {
			x.refine(body, val, env)
			return
		}
	}
	if o := x.boolLocal(cond); o != nil {
		env[o] = val
	}
	if o, eq, ok := x.nilTest(cond); ok {
		env[o] = eq == val
	}
	if atom, eq, ok := x.constCmp(cond); ok {
		x.setAtom(atom, eq == val, env)
	}
}

// step applies the effect of executing node n on env.
func (x *X) step(n ast.Node, env Env) {
	assign := func(l ast.Expr, r ast.Expr) {
		if eo := ErrLocal(x.Info, l); eo != nil {
			if r == nil {
				delete(env, eo)
				return
			}
			switch x.errValue(r, env) {
			case 1:
				env[eo] = true
			case -1:
				env[eo] = false
			default:
				delete(env, eo)
			}
			return
		}
		if cv := x.constLocal(l); cv != nil {
			x.assignConst(cv, r, env)
			return
		}
		o := x.boolLocal(l)
		if o == nil {
			return
		}
		if r == nil {
			delete(env, o)
			return
		}
		switch x.eval3(r, env) {
		case 1:
			env[o] = true
		case -1:
			env[o] = false
		default:
			delete(env, o)
		}
	}
	switch s := n.(type) {
	case *ast.AssignStmt:
		for i, l := range s.Lhs {
			if len(s.Lhs) == len(s.Rhs) && (s.Tok == token.ASSIGN || s.Tok == token.DEFINE) {
				assign(l, s.Rhs[i])
			} else {
				assign(l, nil)
			}
		}
	case *ast.DeclStmt:
		gd, ok := s.Decl.(*ast.GenDecl)
		if !ok {
			return
		}
		for _, sp := range gd.Specs {
			vs, ok := sp.(*ast.ValueSpec)
			if !ok {
				continue
			}
			for i, name := range vs.Names {
				if cv := x.constLocal(name); cv != nil {
					switch {
					case len(vs.Values) == len(vs.Names):
						x.assignConst(cv, vs.Values[i], env)
					case len(vs.Values) == 0:
						x.assignZero(cv, env)
					default:
						x.assignConst(cv, nil, env)
					}
					continue
				}
				if eo := ErrLocal(x.Info, name); eo != nil {
					if len(vs.Values) == 0 {
						env[eo] = true // var err error: nil
					} else if len(vs.Values) == len(vs.Names) {
						assign(name, vs.Values[i])
					} else {
						delete(env, eo)
					}
					continue
				}
				o := x.boolLocal(name)
				if o == nil {
					continue
				}
				switch {
				case len(vs.Values) == 0:
					env[o] = false
				case len(vs.Values) == len(vs.Names):
					assign(name, vs.Values[i])
				default:
					delete(env, o)
				}
			}
		}
	}
}

// ReachQuery is a flag-tracking path search.
type ReachQuery struct {
	// Assume gives the value of an atomic condition that is taken for granted on the whole path
	// (1 true, -1 false, 0 not assumed): "is the target reachable under the assumption depth == 0?"
	Assume   func(ast.Expr) int
	From     cfgq.Point // search starts after this point
	FromSucc int        // when >= 0: start on successor FromSucc of From.B instead
	Env      Env
	Target   func(ast.Node) bool
	Cut      func(ast.Node) bool               // the path ends (without success) before executing such a node
	CutBlock func(*cfg.Block) bool             // the path ends when it enters such a block
	CutEdge  func(b *cfg.Block, succ int) bool // such an edge is not followed
}

// Reach returns a witness path to a target node on which the tracked boolean
// locals never contradict the branch decisions taken, or nil.
func (x *X) Reach(q ReachQuery) []string {
	x.assume = q.Assume
	defer func() { x.assume = nil }()
	x.Shaky = false
	type state struct {
		b     *cfg.Block
		i     int
		env   Env
		prev  *state
		note  string
		shaky bool // the path took a branch whose condition hands a tracked value to code that is not evaluated
	}
	seen := map[string]bool{}
	var queue []*state
	push := func(b *cfg.Block, i int, env Env, prev *state, note string, shaky bool) {
		if prev != nil && prev.shaky {
			shaky = true
		}
		k := fmt.Sprintf("%d/%d/%v/%s", b.Index, i, shaky, env.key())
		if seen[k] {
			return
		}
		seen[k] = true
		queue = append(queue, &state{b, i, env, prev, note, shaky})
	}
	var shakyWitness []string
	env0 := q.Env.clone()
	if q.FromSucc >= 0 {
		for _, f := range x.EdgeFacts(q.From.B, q.FromSucc) {
			if o := x.boolLocal(f.Expr); o != nil {
				env0[o] = f.Val
			}
			if o, eq, ok := x.nilTest(f.Expr); ok {
				env0[o] = eq == f.Val
			}
		}
		push(q.From.B.Succs[q.FromSucc], 0, env0, nil, "", false)
	} else {
		push(q.From.B, q.From.I+1, env0, nil, "", false)
	}
	witness := func(s *state, last ast.Node) []string {
		var chain []*state
		for y := s; y != nil; y = y.prev {
			chain = append([]*state{y}, chain...)
		}
		var out []string
		for _, y := range chain {
			d := fmt.Sprintf("block %d (%s)", y.b.Index, y.b.Kind)
			if y.i < len(y.b.Nodes) {
				d += fmt.Sprintf(" L%d: %s", x.G.Fset.Position(y.b.Nodes[y.i].Pos()).Line, core.NodeString(x.G.Fset, y.b.Nodes[y.i]))
			}
			if y.note != "" {
				d += "  [" + y.note + "]"
			}
			out = append(out, d)
		}
		out = append(out, fmt.Sprintf("reaches L%d: %s", x.G.Fset.Position(last.Pos()).Line, core.NodeString(x.G.Fset, last)))
		return out
	}
	for len(queue) > 0 && len(seen) < 50000 {
		s := queue[0]
		queue = queue[1:]
		if q.CutBlock != nil && s.prev != nil && q.CutBlock(s.b) {
			continue
		}
		env := s.env.clone()
		cond := x.Cond(s.b)
		cut := false
		for i := s.i; i < len(s.b.Nodes); i++ {
			n := s.b.Nodes[i]
			if q.Target != nil && q.Target(n) {
				if !s.shaky {
					return witness(s, n)
				}
				if shakyWitness == nil {
					shakyWitness = witness(s, n)
				}
				cut = true
				break
			}
			if q.Cut != nil && q.Cut(n) {
				cut = true
				break
			}
			if cond != nil && i == len(s.b.Nodes)-1 {
				break
			}
			x.step(n, env)
		}
		if cut {
			continue
		}
		for si, t := range s.b.Succs {
			if q.CutEdge != nil && q.CutEdge(s.b, si) {
				continue
			}
			e2 := env
			note := ""
			shaky := false
			if cond != nil && len(s.b.Succs) == 2 {
				v := x.eval3(cond, env)
				if v == 1 && si == 1 || v == -1 && si == 0 {
					continue
				}
				if v == 0 && x.opaqueUse(cond, env) {
					shaky = true
				}
				e2 = env.clone()
				x.refine(cond, si == 0, e2)
				note = fmt.Sprintf("%s is %v", core.NodeString(x.G.Fset, cond), si == 0)
			}
			push(t, 0, e2, s, note, shaky)
		}
	}
	if shakyWitness != nil {
		x.Shaky = true
		return shakyWitness
	}
	return nil
}

// opaqueUse: cond contains a call that is not evaluated (not a one-line predicate helper) and that
// is handed a local whose value the search tracks and knows: the call's answer may depend on that
// value, so both outcomes are followed without justification.
func (x *X) opaqueUse(cond ast.Expr, env Env) bool {
	hit := false
	var visit func(e ast.Expr)
	visit = func(e ast.Expr) {
		ast.Inspect(e, func(n ast.Node) bool {
			if hit {
				return false
			}
			call, ok := n.(*ast.CallExpr)
			if !ok {
				return true
			}
			if body := x.predicateOf(call); body != nil {
				visit(body)
				return false
			}
			ast.Inspect(call, func(m ast.Node) bool {
				if id, ok := m.(*ast.Ident); ok {
					if o := core.ObjOf(x.Info, id); o != nil {
						if _, known := env[o]; known {
							hit = true
						}
					}
				}
				return !hit
			})
			return false
		})
	}
	visit(cond)
	return hit
}

// ---------------------------------------------------------------------------
// definitions of locals

// Def is a definition site of a local variable.
type Def struct {
	Rhs   ast.Expr       // assigned expression (the call for a multi-value assignment; the ranged expression for a range variable)
	Index int            // result index for a multi-value assignment, -1 otherwise
	Range *ast.RangeStmt // set when the variable is a range key/value
	IsKey bool
	Stmt  ast.Node
}

// DefsOf lists every definition/assignment of obj under root (closures included).
func DefsOf(info *types.Info, root ast.Node, obj types.Object) []Def {
	var out []Def
	is := func(e ast.Expr) bool {
		id, ok := ast.Unparen(e).(*ast.Ident)
		return ok && obj != nil && core.ObjOf(info, id) == obj
	}
	ast.Inspect(root, func(n ast.Node) bool {
		switch s := n.(type) {
		case *ast.AssignStmt:
			for i, l := range s.Lhs {
				if !is(l) {
					continue
				}
				switch {
				case s.Tok != token.ASSIGN && s.Tok != token.DEFINE:
					out = append(out, Def{Index: -1, Stmt: s})
				case len(s.Lhs) == len(s.Rhs):
					out = append(out, Def{Rhs: s.Rhs[i], Index: -1, Stmt: s})
				default:
					out = append(out, Def{Rhs: s.Rhs[0], Index: i, Stmt: s})
				}
			}
		case *ast.ValueSpec:
			for i, name := range s.Names {
				if !is(name) {
					continue
				}
				switch {
				case len(s.Values) == len(s.Names):
					out = append(out, Def{Rhs: s.Values[i], Index: -1, Stmt: s})
				case len(s.Values) == 1:
					out = append(out, Def{Rhs: s.Values[0], Index: i, Stmt: s})
				default:
					out = append(out, Def{Index: -1, Stmt: s})
				}
			}
		case *ast.RangeStmt:
			if s.Key != nil && is(s.Key) {
				out = append(out, Def{Rhs: s.X, Index: -1, Range: s, IsKey: true, Stmt: s})
			}
			if s.Value != nil && is(s.Value) {
				out = append(out, Def{Rhs: s.X, Index: -1, Range: s, Stmt: s})
			}
		case *ast.IncDecStmt:
			if is(s.X) {
				out = append(out, Def{Index: -1, Stmt: s})
			}
		}
		return true
	})
	return out
}

// SingleDef returns the only definition of the local denoted by e.
func SingleDef(info *types.Info, root ast.Node, e ast.Expr) (Def, bool) {
	id, ok := ast.Unparen(e).(*ast.Ident)
	if !ok {
		return Def{}, false
	}
	v, ok := core.ObjOf(info, id).(*types.Var)
	if !ok || v.IsField() || v.Pkg() == nil || v.Parent() == v.Pkg().Scope() {
		return Def{}, false
	}
	ds := DefsOf(info, root, v)
	if len(ds) != 1 {
		return Def{}, false
	}
	return ds[0], true
}

// Resolve follows single definitions of locals (1:1 assignments only) up to
// depth steps and returns the defining expression.
func Resolve(info *types.Info, root ast.Node, e ast.Expr, depth int) ast.Expr {
	for ; depth > 0; depth-- {
		d, ok := SingleDef(info, root, e)
		if !ok || d.Rhs == nil || d.Index != -1 || d.Range != nil {
			break
		}
		e = d.Rhs
	}
	return ast.Unparen(e)
}

// MentionsResolved reports whether e, or the single definition of a local
// mentioned in e (transitively, depth steps), mentions obj.
func MentionsResolved(info *types.Info, root ast.Node, e ast.Node, obj types.Object, depth int) bool {
	if core.Mentions(info, e, obj) {
		return true
	}
	if depth == 0 {
		return false
	}
	found := false
	ast.Inspect(e, func(n ast.Node) bool {
		id, ok := n.(*ast.Ident)
		if !ok || found {
			return !found
		}
		if d, ok := SingleDef(info, root, id); ok && d.Rhs != nil {
			if MentionsResolved(info, root, d.Rhs, obj, depth-1) {
				found = true
			}
		}
		return true
	})
	return found
}

// IsConfField reports whether e selects field `field` of the configuration
// singleton (conf.Options.<field>); field "" accepts any and returns its name.
func IsConfField(info *types.Info, e ast.Expr, field string) (string, bool) {
	sel, ok := ast.Unparen(e).(*ast.SelectorExpr)
	if !ok {
		return "", false
	}
	f := core.FieldOf(info, sel)
	if f == nil || f.Pkg() == nil || f.Pkg().Path() != core.Module+"/redis-shake/configure" {
		return "", false
	}
	if field != "" && f.Name() != field {
		return "", false
	}
	return f.Name(), true
}

// Bodies lists the body of fn and of all function literals nested in it.
type Body struct {
	Name  string
	Root  ast.Node // *ast.BlockStmt of the declaration or *ast.FuncLit
	G     *cfgq.Graph
	Outer ast.Node // body of the enclosing declaration: where the free variables of a literal are defined
	View  *View    // set by ViewBodies
	// Params: the parameters (and receiver) when the body is a helper called from the anchored
	// region: a sink on a parameter belongs to the call site, not to the helper.
	Params map[types.Object]bool
}

// ViewBodies returns the region anchored at fn as a list of bodies, each with the same-package
// helpers inlined (ViewOf): the declaration, every function literal nested in it, and - because a
// worker body or a guarded block may have been moved into a method that is started with `go`, kept
// apart because it defers, or called from a closure - every same-package function called from these
// bodies that could not be inlined (two levels). opaque names the anchored functions of other
// sites, which are not part of this region.
func ViewBodies(p *core.Program, fn *core.Fn, tag string, opaque func(*types.Func) bool) []Body {
	info := fn.Pkg.TypesInfo
	var out []Body
	seen := map[*ast.BlockStmt]bool{}
	var add func(name string, v *View, outer ast.Node, depth int)
	add = func(name string, v *View, outer ast.Node, depth int) {
		if outer == nil {
			outer = v.Body
		}
		out = append(out, Body{Name: name, Root: v.Body, G: v.G, Outer: outer, View: v})
		k := 0
		var lits []*ast.FuncLit
		core.Inspect(v.Body, func(n ast.Node) bool { return true })
		ast.Inspect(v.Body, func(n ast.Node) bool {
			if fl, ok := n.(*ast.FuncLit); ok {
				lits = append(lits, fl)
				return false // nested literals are found when this one is added
			}
			return true
		})
		for _, fl := range lits {
			k++
			first := len(out)
			add(fmt.Sprintf("%s$%d", name, k), ViewOfLit(p, info, fl, tag, opaque), outer, depth)
			if first < len(out) {
				// a sink on the literal's own parameter belongs to where the literal is called
				params := map[types.Object]bool{}
				for _, f := range fl.Type.Params.List {
					for _, n := range f.Names {
						params[info.Defs[n]] = true
					}
				}
				out[first].Params = params
			}
		}
		if depth == 0 {
			return
		}
		for _, call := range core.Calls(v.Body, info, func(*ast.CallExpr, types.Object) bool { return true }) {
			f := core.CalleeFunc(info, call)
			if f == nil || opaque != nil && opaque(f) {
				continue
			}
			h := p.FnOf(f)
			if h == nil || h.Decl.Body == nil || h.Pkg.TypesInfo != info || seen[h.Decl.Body] || h.Obj == fn.Obj {
				continue
			}
			seen[h.Decl.Body] = true
			first := len(out)
			add(h.Decl.Name.Name, ViewOf(p, h, tag, opaque), nil, depth-1)
			params := map[types.Object]bool{}
			for _, fl := range h.Decl.Type.Params.List {
				for _, n := range fl.Names {
					params[info.Defs[n]] = true
				}
			}
			if h.Decl.Recv != nil {
				for _, fl := range h.Decl.Recv.List {
					for _, n := range fl.Names {
						params[info.Defs[n]] = true
					}
				}
			}
			if first < len(out) {
				out[first].Params = params
			}
		}
	}
	seen[fn.Decl.Body] = true
	add(fn.Decl.Name.Name, ViewOf(p, fn, tag, opaque), nil, 2)
	return out
}

// BodiesOf returns the declaration body and every nested literal with graphs.
func BodiesOf(p *core.Program, fn *core.Fn) []Body {
	out := []Body{{Name: fn.Decl.Name.Name, Root: fn.Decl.Body, G: cfgq.Of(p, fn), Outer: fn.Decl.Body}}
	k := 0
	ast.Inspect(fn.Decl.Body, func(n ast.Node) bool {
		if fl, ok := n.(*ast.FuncLit); ok {
			k++
			out = append(out, Body{Name: fmt.Sprintf("%s$%d", fn.Decl.Name.Name, k), Root: fl, G: cfgq.OfLit(p, fn.Pkg.TypesInfo, fl), Outer: fn.Decl.Body})
		}
		return true
	})
	return out
}

// BreaksLoop reports whether the unlabelled `break` br, found under the body of
// a loop, leaves that loop (and not a nested switch, select or loop). A
// labelled break is assumed to leave it.
func BreaksLoop(body *ast.BlockStmt, br *ast.BranchStmt) bool {
	if br.Label != nil {
		return true
	}
	path := core.PathTo(body, br)
	for _, n := range path {
		switch n.(type) {
		case *ast.SwitchStmt, *ast.TypeSwitchStmt, *ast.SelectStmt, *ast.ForStmt, *ast.RangeStmt:
			return false
		}
	}
	return len(path) > 0
}

// LoopElem abstracts the loop form of a scan over a list: `for _, x := range l` (element x),
// `for i := range l` and `for i := 0; i < len(l); i++` (element l[i]). It returns the list and a
// test for "this expression is the current element".
func LoopElem(info *types.Info, loop ast.Stmt) (ast.Expr, func(ast.Expr) bool) {
	same := func(a, b ast.Expr) bool { return a != nil && b != nil && sameExpr(info, a, b) }
	indexed := func(list ast.Expr, idx ast.Expr) func(ast.Expr) bool {
		return func(e ast.Expr) bool {
			ix, ok := ast.Unparen(e).(*ast.IndexExpr)
			return ok && same(ix.X, list) && same(ix.Index, idx)
		}
	}
	switch s := loop.(type) {
	case *ast.RangeStmt:
		if s.Value != nil {
			byIdx := indexed(s.X, s.Key)
			return s.X, func(e ast.Expr) bool { return same(e, s.Value) || s.Key != nil && byIdx(e) }
		}
		if s.Key != nil {
			return s.X, indexed(s.X, s.Key)
		}
	case *ast.ForStmt:
		// for i := 0; i < len(l); i++
		if b := matchLenBound(info, s.Cond); b != nil {
			return b[1], indexed(b[1], b[0])
		}
	}
	return nil, func(ast.Expr) bool { return false }
}

// SameExpr: structurally equal expressions over the same objects.
func SameExpr(info *types.Info, a, b ast.Expr) bool { return sameExpr(info, a, b) }

// sameExpr: structurally equal expressions over the same objects.
func sameExpr(info *types.Info, a, b ast.Expr) bool {
	a, b = ast.Unparen(a), ast.Unparen(b)
	switch x := a.(type) {
	case *ast.Ident:
		y, ok := b.(*ast.Ident)
		return ok && core.ObjOf(info, x) != nil && core.ObjOf(info, x) == core.ObjOf(info, y)
	case *ast.SelectorExpr:
		y, ok := b.(*ast.SelectorExpr)
		return ok && x.Sel.Name == y.Sel.Name && sameExpr(info, x.X, y.X)
	case *ast.IndexExpr:
		y, ok := b.(*ast.IndexExpr)
		return ok && sameExpr(info, x.X, y.X) && sameExpr(info, x.Index, y.Index)
	}
	return false
}

// matchLenBound matches `i < len(l)` (also `len(l) > i`) and returns [i, l].
func matchLenBound(info *types.Info, cond ast.Expr) []ast.Expr {
	be, ok := ast.Unparen(cond).(*ast.BinaryExpr)
	if !ok {
		return nil
	}
	if be.Op == token.LAND { // `i < len(l) && !found`: the bound is one of the conjuncts
		if r := matchLenBound(info, be.X); r != nil {
			return r
		}
		return matchLenBound(info, be.Y)
	}
	lenOf := func(e ast.Expr) ast.Expr {
		call, ok := ast.Unparen(e).(*ast.CallExpr)
		if !ok || len(call.Args) != 1 {
			return nil
		}
		if id, ok := call.Fun.(*ast.Ident); !ok || id.Name != "len" {
			return nil
		}
		return call.Args[0]
	}
	switch be.Op {
	case token.LSS:
		if l := lenOf(be.Y); l != nil {
			return []ast.Expr{be.X, l}
		}
	case token.GTR:
		if l := lenOf(be.X); l != nil {
			return []ast.Expr{be.Y, l}
		}
	}
	return nil
}

// PrefixMarker is the callee name of the synthesised call that PrefixBySlicing produces.
const PrefixMarker = "hasPrefix$"

// PrefixBySlicing returns a Rewrite that turns the hand-written prefix test
// `len(s) >= len(p) && s[:len(p)] == p` (either operand order of the parts) into the synthesised
// call PrefixMarker(s, p), which rules treat like strings.HasPrefix(s, p).
func PrefixBySlicing(info *types.Info) func(ast.Expr) ast.Expr {
	memo := map[ast.Expr]ast.Expr{}
	lenOf := func(e ast.Expr) ast.Expr {
		call, ok := ast.Unparen(e).(*ast.CallExpr)
		if !ok || len(call.Args) != 1 {
			return nil
		}
		if id, ok := call.Fun.(*ast.Ident); !ok || id.Name != "len" {
			return nil
		}
		return call.Args[0]
	}
	return func(e ast.Expr) ast.Expr {
		if r, ok := memo[e]; ok {
			return r
		}
		be, ok := ast.Unparen(e).(*ast.BinaryExpr)
		if !ok {
			return nil
		}
		// strings.TrimPrefix(s, p) != s (p a non-empty constant) is strings.HasPrefix(s, p); == s its negation
		if be.Op == token.EQL || be.Op == token.NEQ {
			for _, pair := range [][2]ast.Expr{{be.X, be.Y}, {be.Y, be.X}} {
				call, ok := ast.Unparen(pair[0]).(*ast.CallExpr)
				if !ok || len(call.Args) != 2 {
					continue
				}
				if f := core.CalleeFunc(info, call); f == nil || f.Pkg() == nil || f.Pkg().Path() != "strings" && f.Pkg().Path() != "bytes" || f.Name() != "TrimPrefix" {
					continue
				}
				if f := core.CalleeFunc(info, call); f.Pkg().Path() == "bytes" {
					continue // slices are not comparable with == / !=
				}
				if c, isConst := core.StringConst(info, call.Args[1]); !isConst || c == "" {
					continue
				}
				if !sameExpr(info, call.Args[0], pair[1]) {
					continue
				}
				var r ast.Expr = &ast.CallExpr{Fun: &ast.Ident{NamePos: e.Pos(), Name: PrefixMarker}, Lparen: e.Pos(), Args: []ast.Expr{call.Args[0], call.Args[1]}, Rparen: e.End()}
				if be.Op == token.EQL {
					r = &ast.UnaryExpr{OpPos: e.Pos(), Op: token.NOT, X: r}
				}
				memo[e] = r
				return r
			}
		}
		// strings.Index(s, p) == 0 is strings.HasPrefix(s, p); != 0 its negation
		if be.Op == token.EQL || be.Op == token.NEQ {
			for _, pair := range [][2]ast.Expr{{be.X, be.Y}, {be.Y, be.X}} {
				tv, isConst := info.Types[ast.Unparen(pair[1])]
				if !isConst || tv.Value == nil || tv.Value.String() != "0" {
					continue
				}
				call, ok := ast.Unparen(pair[0]).(*ast.CallExpr)
				if !ok || len(call.Args) != 2 {
					continue
				}
				if f := core.CalleeFunc(info, call); f == nil || f.Pkg() == nil || f.Pkg().Path() != "strings" && f.Pkg().Path() != "bytes" || f.Name() != "Index" {
					continue
				}
				var r ast.Expr = &ast.CallExpr{Fun: &ast.Ident{NamePos: e.Pos(), Name: PrefixMarker}, Lparen: e.Pos(), Args: []ast.Expr{call.Args[0], call.Args[1]}, Rparen: e.End()}
				if be.Op == token.NEQ {
					r = &ast.UnaryExpr{OpPos: e.Pos(), Op: token.NOT, X: r}
				}
				memo[e] = r
				return r
			}
			return nil
		}
		if be.Op != token.LAND {
			return nil
		}
		for _, pair := range [][2]ast.Expr{{be.X, be.Y}, {be.Y, be.X}} {
			lenCmp, ok1 := ast.Unparen(pair[0]).(*ast.BinaryExpr)
			eq, ok2 := ast.Unparen(pair[1]).(*ast.BinaryExpr)
			if !ok1 || !ok2 || eq.Op != token.EQL {
				continue
			}
			var s, p ast.Expr
			switch lenCmp.Op {
			case token.GEQ:
				s, p = lenOf(lenCmp.X), lenOf(lenCmp.Y)
			case token.LEQ:
				s, p = lenOf(lenCmp.Y), lenOf(lenCmp.X)
			}
			if s == nil || p == nil {
				continue
			}
			for _, sides := range [][2]ast.Expr{{eq.X, eq.Y}, {eq.Y, eq.X}} {
				sl, ok := ast.Unparen(sides[0]).(*ast.SliceExpr)
				if !ok || sl.Low != nil || sl.Slice3 || !sameExpr(info, sl.X, s) || !sameExpr(info, sides[1], p) {
					continue
				}
				if hp := lenOf(sl.High); hp == nil || !sameExpr(info, hp, p) {
					continue
				}
				r := &ast.CallExpr{Fun: &ast.Ident{NamePos: e.Pos(), Name: PrefixMarker}, Lparen: e.Pos(), Args: []ast.Expr{s, p}, Rparen: e.End()}
				memo[e] = r
				return r
			}
		}
		return nil
	}
}

// ReachesFunc reports whether root mentions the function f (a call, a method value, a function
// value) directly or inside a same-package function or function literal it can call (depth levels
// of helpers). It is the guard of an absence claim "f is never called from here".
func ReachesFunc(p *core.Program, info *types.Info, root ast.Node, f types.Object, depth int) bool {
	seen := map[ast.Node]bool{}
	var visit func(n ast.Node, depth int) bool
	visit = func(n ast.Node, depth int) bool {
		if n == nil || seen[n] {
			return false
		}
		seen[n] = true
		found := false
		ast.Inspect(n, func(m ast.Node) bool {
			if found {
				return false
			}
			switch v := m.(type) {
			case *ast.Ident:
				if info.Uses[v] == f {
					found = true
				}
			case *ast.CallExpr:
				if depth > 0 {
					if h := p.FnOf(core.CalleeFunc(info, v)); h != nil && h.Decl.Body != nil && h.Pkg.TypesInfo == info {
						if visit(h.Decl.Body, depth-1) {
							found = true
						}
					}
				}
			}
			return !found
		})
		return found
	}
	return visit(root, depth)
}

// predicateOf: call invokes a same-package function, method or function literal bound once to a
// local whose body is the single statement `return <boolean expression>`; the result is that
// expression with the parameters replaced by the arguments (nil otherwise). Arguments are
// substituted as written: they must be free of effects for the substitution to mean the same,
// which holds for the identifiers, selectors and literals accepted here.
func (x *X) predicateOf(call *ast.CallExpr) ast.Expr {
	if x.preds == nil {
		x.preds = map[*ast.CallExpr]ast.Expr{}
	}
	if r, ok := x.preds[call]; ok {
		return r
	}
	x.preds[call] = nil
	if call.Ellipsis.IsValid() || x.Prog == nil {
		return nil
	}
	var params *ast.FieldList
	var recv *ast.FieldList
	var body *ast.BlockStmt
	if f := core.CalleeFunc(x.Info, call); f != nil {
		h := x.Prog.FnOf(f)
		if h == nil || h.Decl.Body == nil || h.Pkg.TypesInfo != x.Info {
			return nil
		}
		params, recv, body = h.Decl.Type.Params, h.Decl.Recv, h.Decl.Body
	} else if id, ok := ast.Unparen(call.Fun).(*ast.Ident); ok {
		d, ok := SingleDef(x.Info, x.G.Body, id)
		if !ok || d.Rhs == nil || d.Index != -1 {
			return nil
		}
		lit, ok := ast.Unparen(d.Rhs).(*ast.FuncLit)
		if !ok {
			return nil
		}
		params, body = lit.Type.Params, lit.Body
	} else {
		return nil
	}
	if len(body.List) != 1 {
		return nil
	}
	ret, ok := body.List[0].(*ast.ReturnStmt)
	if !ok || len(ret.Results) != 1 {
		return nil
	}
	if b, ok := x.Info.TypeOf(ret.Results[0]).Underlying().(*types.Basic); !ok || b.Kind() != types.Bool && b.Kind() != types.UntypedBool {
		return nil
	}
	bind := map[types.Object]ast.Expr{}
	k := 0
	for _, fl := range params.List {
		if len(fl.Names) == 0 {
			return nil
		}
		for _, n := range fl.Names {
			if k >= len(call.Args) {
				return nil
			}
			if o := x.Info.Defs[n]; o != nil {
				bind[o] = call.Args[k]
			}
			k++
		}
	}
	if k != len(call.Args) {
		return nil
	}
	if recv != nil && len(recv.List) == 1 && len(recv.List[0].Names) == 1 {
		if sel, ok := ast.Unparen(call.Fun).(*ast.SelectorExpr); ok {
			if o := x.Info.Defs[recv.List[0].Names[0]]; o != nil {
				bind[o] = sel.X
			}
		}
	}
	for _, a := range bind {
		pure := true
		ast.Inspect(a, func(n ast.Node) bool {
			switch n.(type) {
			case *ast.CallExpr, *ast.FuncLit, *ast.UnaryExpr:
				if u, isU := n.(*ast.UnaryExpr); isU && u.Op != token.ARROW {
					return true
				}
				pure = false
			}
			return pure
		})
		if !pure {
			return nil
		}
	}
	cl := &cloner{info: x.Info}
	cl.repl = func(e ast.Expr) ast.Expr {
		if id, ok := e.(*ast.Ident); ok {
			if a, bound := bind[x.Info.Uses[id]]; bound {
				return a
			}
		}
		return nil
	}
	out := cl.clone(ret.Results[0]).(ast.Expr)
	cl.transfer(nil)
	x.preds[call] = out
	return out
}

// Locals of a basic non-boolean type that are compared with constants (a verdict carried as an
// enumeration value: `verdict = drop ... if verdict != forward { continue }`). The knowledge "v == K"
// is an entry of the Env keyed by a synthetic object per (v, K); the pairs are collected once from
// the comparisons and assignments of the body, so that an assignment of one constant decides
// every comparison of that local.

type constAtoms struct {
	of   map[*types.Var]map[string]types.Object // v -> K (exact string) -> atom
	back map[types.Object]*types.Var
	val  map[types.Object]string
}

func (x *X) atoms() *constAtoms {
	if x.catoms != nil {
		return x.catoms
	}
	ca := &constAtoms{of: map[*types.Var]map[string]types.Object{}, back: map[types.Object]*types.Var{}, val: map[types.Object]string{}}
	x.catoms = ca
	local := func(e ast.Expr) *types.Var {
		id, ok := ast.Unparen(e).(*ast.Ident)
		if !ok {
			return nil
		}
		v, ok := core.ObjOf(x.Info, id).(*types.Var)
		if !ok || v.IsField() || v.Pkg() == nil || v.Parent() == v.Pkg().Scope() {
			return nil
		}
		b, ok := v.Type().Underlying().(*types.Basic)
		if !ok || b.Info()&(types.IsInteger|types.IsString) == 0 {
			return nil
		}
		return v
	}
	constOf := func(e ast.Expr) (string, bool) {
		tv, ok := x.Info.Types[ast.Unparen(e)]
		if !ok || tv.Value == nil {
			return "", false
		}
		return tv.Value.ExactString(), true
	}
	add := func(v *types.Var, k string) {
		if ca.of[v] == nil {
			ca.of[v] = map[string]types.Object{}
		}
		if ca.of[v][k] == nil {
			a := types.NewVar(v.Pos(), v.Pkg(), v.Name()+"=="+k, types.Typ[types.Bool])
			ca.of[v][k] = a
			ca.back[a] = v
			ca.val[a] = k
		}
	}
	compared := map[*types.Var]bool{}
	ast.Inspect(x.G.Body, func(n ast.Node) bool {
		switch st := n.(type) {
		case *ast.BinaryExpr:
			if st.Op == token.EQL || st.Op == token.NEQ {
				for _, pair := range [][2]ast.Expr{{st.X, st.Y}, {st.Y, st.X}} {
					if v := local(pair[0]); v != nil {
						if k, ok := constOf(pair[1]); ok {
							add(v, k)
							compared[v] = true
						}
					}
				}
			}
		case *ast.SwitchStmt:
			if v := local(st.Tag); v != nil && st.Tag != nil {
				for _, cl := range st.Body.List {
					for _, e := range cl.(*ast.CaseClause).List {
						if k, ok := constOf(e); ok {
							add(v, k)
							compared[v] = true
						}
					}
				}
			}
		}
		return true
	})
	ast.Inspect(x.G.Body, func(n ast.Node) bool {
		if as, ok := n.(*ast.AssignStmt); ok && len(as.Lhs) == len(as.Rhs) {
			for i, l := range as.Lhs {
				if v := local(l); v != nil && compared[v] {
					if k, ok := constOf(as.Rhs[i]); ok {
						add(v, k)
					}
				}
			}
		}
		return true
	})
	for v := range ca.of {
		if !compared[v] {
			delete(ca.of, v)
		}
	}
	return ca
}

// constLocal: e is a local whose comparisons with constants are tracked.
func (x *X) constLocal(e ast.Expr) *types.Var {
	id, ok := ast.Unparen(e).(*ast.Ident)
	if !ok {
		return nil
	}
	v, ok := core.ObjOf(x.Info, id).(*types.Var)
	if !ok || x.atoms().of[v] == nil {
		return nil
	}
	return v
}

// constCmp: e is `v == K` / `v != K` (either order, also the synthesised case test of a tagged
// switch) for a tracked local; returns the atom "v == K" and whether e asserts equality.
func (x *X) constCmp(e ast.Expr) (types.Object, bool, bool) {
	be, ok := ast.Unparen(e).(*ast.BinaryExpr)
	if !ok || be.Op != token.EQL && be.Op != token.NEQ {
		return nil, false, false
	}
	for _, pair := range [][2]ast.Expr{{be.X, be.Y}, {be.Y, be.X}} {
		v := x.constLocal(pair[0])
		if v == nil {
			continue
		}
		tv, ok := x.Info.Types[ast.Unparen(pair[1])]
		if !ok || tv.Value == nil {
			continue
		}
		if a := x.atoms().of[v][tv.Value.ExactString()]; a != nil {
			return a, be.Op == token.EQL, true
		}
	}
	return nil, false, false
}

// setAtom records that the atom "v == K" holds (then every other constant of v is excluded) or does not.
func (x *X) setAtom(atom types.Object, holds bool, env Env) {
	ca := x.atoms()
	v := ca.back[atom]
	if !holds {
		env[atom] = false
		return
	}
	for _, a := range ca.of[v] {
		env[a] = a == atom
	}
}

func (x *X) assignConst(v *types.Var, r ast.Expr, env Env) {
	ca := x.atoms()
	for _, a := range ca.of[v] {
		delete(env, a)
	}
	if r == nil {
		return
	}
	r = ast.Unparen(r)
	if tv, ok := x.Info.Types[r]; ok && tv.Value != nil {
		k := tv.Value.ExactString()
		for _, a := range ca.of[v] {
			env[a] = ca.val[a] == k
		}
		return
	}
	// a copy of another tracked local carries its knowledge
	if w := x.constLocal(r); w != nil && w != v {
		for _, a := range ca.of[v] {
			if b := ca.of[w][ca.val[a]]; b != nil {
				if known, ok := env[b]; ok {
					env[a] = known
				}
			}
		}
	}
}

func (x *X) assignZero(v *types.Var, env Env) {
	ca := x.atoms()
	zero := "0"
	if b, ok := v.Type().Underlying().(*types.Basic); ok && b.Info()&types.IsString != 0 {
		zero = `""`
	}
	for _, a := range ca.of[v] {
		env[a] = ca.val[a] == zero
	}
}
