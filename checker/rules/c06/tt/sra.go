package tt

import (
	"go/ast"
	"go/constant"
	"go/token"
	"go/types"

	"rscheck/core"
)

// Result records. A local of a struct type that is only ever
//
//   - defined or assigned as a whole from a composite literal or from another such local
//     (`r := result{offset: -1}`, `r = result{}`, `outer := inner`), and
//   - read, written or address-taken field by field (`r.found = true`, `p := &r.node`),
//
// is a bundle of independent variables. The view replaces it by one local per field
// (`r.found` becomes the variable r$found), so that a value carried in a field of a
// small result struct is analysed exactly like a value carried in a local. The body is
// copied for that (the original tree is untouched), with type information for the new
// identifiers entered into the package's types.Info.

const maxFields = 8

type splitter struct {
	info *types.Info
	cand map[*types.Var]bool
	fvar map[*types.Var]map[string]*types.Var
}

func structOf(v *types.Var) *types.Struct {
	st, _ := v.Type().Underlying().(*types.Struct)
	return st
}

// splitRecords returns body with the record locals split (body itself when there are none).
func splitRecords(info *types.Info, body *ast.BlockStmt, onCopy func(old, new ast.Node, tr map[ast.Node]ast.Node)) *ast.BlockStmt {
	sp := &splitter{info: info, cand: map[*types.Var]bool{}, fvar: map[*types.Var]map[string]*types.Var{}}
	localVar := func(e ast.Expr) *types.Var {
		id, ok := ast.Unparen(e).(*ast.Ident)
		if !ok {
			return nil
		}
		v, ok := core.ObjOf(info, id).(*types.Var)
		if !ok || v.IsField() || v.Pkg() == nil || v.Parent() == v.Pkg().Scope() {
			return nil
		}
		if st := structOf(v); st == nil || st.NumFields() == 0 || st.NumFields() > maxFields {
			return nil
		}
		return v
	}
	defined := map[*types.Var]bool{}
	bad := map[*types.Var]bool{}
	links := map[*types.Var][]*types.Var{}
	seen := map[*types.Var]bool{}
	litOK := func(v *types.Var, e ast.Expr, tok token.Token) bool {
		lit, ok := ast.Unparen(e).(*ast.CompositeLit)
		if !ok || !types.Identical(info.TypeOf(lit), v.Type()) {
			return false
		}
		st := structOf(v)
		for i := 0; i < st.NumFields(); i++ {
			if sp.fieldValue(lit, st, i) == nil && zeroExpr(info, st.Field(i).Type(), lit.Pos()) == nil {
				return false
			}
		}
		return true
	}
	var stack []ast.Node
	ast.Inspect(body, func(n ast.Node) bool {
		if n == nil {
			stack = stack[:len(stack)-1]
			return true
		}
		stack = append(stack, n)
		id, ok := n.(*ast.Ident)
		if !ok {
			return true
		}
		v := localVar(id)
		if v == nil {
			return true
		}
		seen[v] = true
		k := len(stack) - 2
		child := ast.Node(id)
		for k >= 0 {
			if _, isParen := stack[k].(*ast.ParenExpr); !isParen {
				break
			}
			child = stack[k]
			k--
		}
		if k < 0 {
			bad[v] = true
			return true
		}
		switch p := stack[k].(type) {
		case *ast.SelectorExpr:
			if p.X != child {
				return true // the Sel of some other selector cannot be a local
			}
			if f, isField := info.Uses[p.Sel].(*types.Var); !isField || !f.IsField() {
				bad[v] = true
			} else if sel := info.Selections[p]; sel == nil || len(sel.Index()) != 1 {
				bad[v] = true // promoted through an embedded field
			}
		case *ast.AssignStmt:
			if len(p.Lhs) != len(p.Rhs) || p.Tok != token.ASSIGN && p.Tok != token.DEFINE {
				bad[v] = true
				return true
			}
			for i := range p.Lhs {
				if p.Lhs[i] == child {
					if w := localVar(p.Rhs[i]); w != nil && types.Identical(w.Type(), v.Type()) {
						links[v] = append(links[v], w)
						links[w] = append(links[w], v)
						defined[v] = true
					} else if litOK(v, p.Rhs[i], p.Tok) {
						defined[v] = true
					} else {
						bad[v] = true
					}
				}
				if p.Rhs[i] == child {
					if w := localVar(p.Lhs[i]); w == nil || !types.Identical(w.Type(), v.Type()) {
						bad[v] = true
					}
				}
			}
		case *ast.ValueSpec:
			isName := false
			for i, nm := range p.Names {
				if ast.Node(nm) == child {
					isName = true
					switch {
					case len(p.Values) == 0:
						st := structOf(v)
						for j := 0; j < st.NumFields(); j++ {
							if zeroExpr(info, st.Field(j).Type(), nm.Pos()) == nil {
								bad[v] = true
							}
						}
						defined[v] = true
					case len(p.Values) == len(p.Names) && litOK(v, p.Values[i], token.DEFINE):
						defined[v] = true
					default:
						bad[v] = true
					}
				}
			}
			if !isName {
				bad[v] = true
			}
		default:
			bad[v] = true
		}
		return true
	})
	// a copy ties two records together: both are split or neither
	for changed := true; changed; {
		changed = false
		for v := range seen {
			if bad[v] || !defined[v] {
				for _, w := range links[v] {
					if !bad[w] {
						bad[w] = true
						changed = true
					}
				}
				if !bad[v] {
					bad[v] = true
					changed = true
				}
			}
		}
	}
	any := false
	for v := range seen {
		if !bad[v] && defined[v] {
			sp.cand[v] = true
			any = true
		}
	}
	if !any {
		return body
	}
	// a local computed from a split record gets a new identity in the copy: what the shared
	// single-assignment index knows about it (its defining expression in the original tree) no
	// longer describes the copy
	dirty := map[types.Object]bool{}
	mentions := func(e ast.Expr) bool {
		hit := false
		ast.Inspect(e, func(n ast.Node) bool {
			if id, ok := n.(*ast.Ident); ok {
				if v, isVar := core.ObjOf(info, id).(*types.Var); isVar && (sp.cand[v] || dirty[v]) {
					hit = true
				}
			}
			return !hit
		})
		return hit
	}
	for changed := true; changed; {
		changed = false
		ast.Inspect(body, func(n ast.Node) bool {
			mark := func(l ast.Expr, r ast.Expr) {
				id, ok := ast.Unparen(l).(*ast.Ident)
				if !ok {
					return
				}
				v, isVar := core.ObjOf(info, id).(*types.Var)
				if !isVar || v.IsField() || sp.cand[v] || dirty[v] || v.Pkg() == nil || v.Parent() == v.Pkg().Scope() {
					return
				}
				if mentions(r) {
					dirty[v] = true
					changed = true
				}
			}
			switch st := n.(type) {
			case *ast.AssignStmt:
				for i, l := range st.Lhs {
					if len(st.Lhs) == len(st.Rhs) {
						mark(l, st.Rhs[i])
					} else if len(st.Rhs) == 1 {
						mark(l, st.Rhs[0])
					}
				}
			case *ast.ValueSpec:
				for i, nm := range st.Names {
					if len(st.Values) == len(st.Names) {
						mark(nm, st.Values[i])
					}
				}
			}
			return true
		})
	}
	cl := &cloner{info: info, lo: token.NoPos, hi: token.NoPos, force: dirty}
	cl.repl = func(e ast.Expr) ast.Expr {
		sel, ok := e.(*ast.SelectorExpr)
		if !ok {
			return nil
		}
		v := localVar(sel.X)
		if v == nil || !sp.cand[v] {
			return nil
		}
		return sp.use(v, sel.Sel.Name, sel.Pos())
	}
	cl.stmts = func(s ast.Stmt) []ast.Stmt {
		switch st := s.(type) {
		case *ast.AssignStmt:
			hit := false
			for _, l := range st.Lhs {
				if v := localVar(l); v != nil && sp.cand[v] {
					hit = true
				}
			}
			if !hit {
				return nil
			}
			n := &ast.AssignStmt{TokPos: st.TokPos, Tok: st.Tok}
			for i := range st.Lhs {
				v := localVar(st.Lhs[i])
				if v == nil || !sp.cand[v] {
					n.Lhs = append(n.Lhs, cl.clone(st.Lhs[i]).(ast.Expr))
					n.Rhs = append(n.Rhs, cl.clone(st.Rhs[i]).(ast.Expr))
					continue
				}
				str := structOf(v)
				for j := 0; j < str.NumFields(); j++ {
					f := str.Field(j)
					var lhs *ast.Ident
					if st.Tok == token.DEFINE {
						lhs = sp.def(v, f.Name(), st.Lhs[i].Pos())
					} else {
						lhs = sp.use(v, f.Name(), st.Lhs[i].Pos())
					}
					n.Lhs = append(n.Lhs, lhs)
					if w := localVar(st.Rhs[i]); w != nil {
						n.Rhs = append(n.Rhs, sp.use(w, f.Name(), st.Rhs[i].Pos()))
						continue
					}
					lit := ast.Unparen(st.Rhs[i]).(*ast.CompositeLit)
					if val := sp.fieldValue(lit, str, j); val != nil {
						n.Rhs = append(n.Rhs, cl.clone(val).(ast.Expr))
					} else {
						n.Rhs = append(n.Rhs, zeroExpr(info, f.Type(), lit.Pos()))
					}
				}
			}
			return []ast.Stmt{n}
		case *ast.DeclStmt:
			gd, ok := st.Decl.(*ast.GenDecl)
			if !ok || gd.Tok != token.VAR {
				return nil
			}
			hit := false
			for _, spc := range gd.Specs {
				if vs, ok := spc.(*ast.ValueSpec); ok {
					for _, nm := range vs.Names {
						if v := localVar(nm); v != nil && sp.cand[v] {
							hit = true
						}
					}
				}
			}
			if !hit {
				return nil
			}
			var out []ast.Stmt
			for _, spc := range gd.Specs {
				vs := spc.(*ast.ValueSpec)
				for i, nm := range vs.Names {
					v := localVar(nm)
					if v == nil || !sp.cand[v] {
						one := &ast.ValueSpec{Names: []*ast.Ident{cl.clone(nm).(*ast.Ident)}, Type: vs.Type}
						if len(vs.Values) == len(vs.Names) {
							one.Values = []ast.Expr{cl.clone(vs.Values[i]).(ast.Expr)}
						}
						out = append(out, &ast.DeclStmt{Decl: &ast.GenDecl{TokPos: gd.TokPos, Tok: token.VAR, Specs: []ast.Spec{one}}})
						continue
					}
					str := structOf(v)
					n := &ast.AssignStmt{TokPos: nm.Pos(), Tok: token.DEFINE}
					for j := 0; j < str.NumFields(); j++ {
						f := str.Field(j)
						n.Lhs = append(n.Lhs, sp.def(v, f.Name(), nm.Pos()))
						var val ast.Expr
						if len(vs.Values) == len(vs.Names) {
							val = sp.fieldValue(ast.Unparen(vs.Values[i]).(*ast.CompositeLit), str, j)
						}
						if val != nil {
							n.Rhs = append(n.Rhs, cl.clone(val).(ast.Expr))
						} else {
							n.Rhs = append(n.Rhs, zeroExpr(info, f.Type(), nm.Pos()))
						}
					}
					out = append(out, n)
				}
			}
			return out
		}
		return nil
	}
	nb := cl.clone(body).(*ast.BlockStmt)
	cl.transfer(onCopy)
	return nb
}

func (sp *splitter) fieldValue(lit *ast.CompositeLit, st *types.Struct, j int) ast.Expr {
	name := st.Field(j).Name()
	for k, el := range lit.Elts {
		if kv, ok := el.(*ast.KeyValueExpr); ok {
			if id, ok := kv.Key.(*ast.Ident); ok && id.Name == name {
				return kv.Value
			}
			continue
		}
		if k == j {
			return el
		}
	}
	return nil
}

func (sp *splitter) varOf(v *types.Var, field string) *types.Var {
	if sp.fvar[v] == nil {
		sp.fvar[v] = map[string]*types.Var{}
	}
	if fv := sp.fvar[v][field]; fv != nil {
		return fv
	}
	st := structOf(v)
	for j := 0; j < st.NumFields(); j++ {
		if st.Field(j).Name() == field {
			fv := types.NewVar(v.Pos(), v.Pkg(), v.Name()+"$"+field, st.Field(j).Type())
			sp.fvar[v][field] = fv
			return fv
		}
	}
	return nil
}

func (sp *splitter) use(v *types.Var, field string, pos token.Pos) *ast.Ident {
	fv := sp.varOf(v, field)
	id := &ast.Ident{NamePos: pos, Name: fv.Name()}
	sp.info.Uses[id] = fv
	return id
}

func (sp *splitter) def(v *types.Var, field string, pos token.Pos) *ast.Ident {
	fv := sp.varOf(v, field)
	id := &ast.Ident{NamePos: pos, Name: fv.Name()}
	sp.info.Defs[id] = fv
	return id
}

// zeroExpr writes the zero value of t as an expression (nil: no simple spelling).
func zeroExpr(info *types.Info, t types.Type, pos token.Pos) ast.Expr {
	switch u := t.Underlying().(type) {
	case *types.Basic:
		switch {
		case u.Info()&types.IsBoolean != 0:
			id := &ast.Ident{NamePos: pos, Name: "false"}
			info.Uses[id] = types.Universe.Lookup("false")
			info.Types[id] = types.TypeAndValue{Type: t, Value: constant.MakeBool(false)}
			return id
		case u.Info()&types.IsString != 0:
			l := &ast.BasicLit{ValuePos: pos, Kind: token.STRING, Value: `""`}
			info.Types[l] = types.TypeAndValue{Type: t, Value: constant.MakeString("")}
			return l
		case u.Info()&types.IsNumeric != 0:
			l := &ast.BasicLit{ValuePos: pos, Kind: token.INT, Value: "0"}
			info.Types[l] = types.TypeAndValue{Type: t, Value: constant.MakeInt64(0)}
			return l
		}
	case *types.Pointer, *types.Slice, *types.Map, *types.Chan, *types.Signature, *types.Interface:
		id := &ast.Ident{NamePos: pos, Name: "nil"}
		info.Uses[id] = types.Universe.Lookup("nil")
		info.Types[id] = types.TypeAndValue{Type: t}
		return id
	}
	return nil
}
