// Package tt holds the helpers shared by the C06, C14 and C20 rule sets:
//
//   - branch facts that also understand `x == true`, tag-less and tagged
//     switches (engine E2 additions that cfgq does not have),
//   - enumeration of the acyclic paths of a small body with short-circuit
//     expansion of the branch conditions (engine E9: truth tables),
//   - comparison of the extracted decision table with a reference table,
//   - a path search that tracks the values of boolean locals (flag variables),
//   - resolution of a local to its single defining expression.
package tt

import (
	"fmt"
	"go/ast"
	"go/constant"
	"go/token"
	"go/types"
	"sort"
	"strings"

	"golang.org/x/tools/go/cfg"

	"rscheck/cfgq"
	"rscheck/core"
)

// X wraps the graph of one body.
type X struct {
	G      *cfgq.Graph
	Info   *types.Info
	caseOf map[ast.Expr]*ast.SwitchStmt
	synth  map[ast.Expr]ast.Expr
	loops  []ast.Stmt
	inLoop map[ast.Node]ast.Stmt
	assume func(ast.Expr) int // set while a Reach query with an assumption runs
	// Prog enables the inlining of same-package helper predicates in Table.
	Prog *core.Program
	// ZeroInit: boolean locals that start with the zero value without an assignment statement
	// (named results of the function and of the helpers inlined into its view).
	ZeroInit map[types.Object]bool
	// Deps (filled by Table): for an existential in-loop atom, the in-loop atoms that are true on
	// every path that tests it (`if isRoleLine(l) { if isMaster(l) {..} }`: master implies role-line).
	Deps map[string]map[string]bool
	// Named: the named results of the analysed function (for bare returns).
	Named []*ast.Ident
	// LoopDecisions: the head test of a `for` statement is a loop decision (enter / done) and not a
	// branch literal (set for predicates whose loops scan a list).
	LoopDecisions bool
	bind          map[types.Object]ast.Expr // parameter -> argument, when this body is an inlined helper
	expd          map[types.Object]ast.Expr // memo of expandable boolean locals (nil entry: not expandable)
	depth         int
}

// New indexes the switch statements and loops of g's body.
func New(g *cfgq.Graph) *X {
	x := &X{G: g, Info: g.Info, caseOf: map[ast.Expr]*ast.SwitchStmt{}, synth: map[ast.Expr]ast.Expr{}, expd: map[types.Object]ast.Expr{}, depth: 3}
	core.Inspect(g.Body, func(n ast.Node) bool {
		switch s := n.(type) {
		case *ast.SwitchStmt:
			for _, cl := range s.Body.List {
				for _, e := range cl.(*ast.CaseClause).List {
					x.caseOf[e] = s
				}
			}
		case *ast.ForStmt:
			x.loops = append(x.loops, s)
		case *ast.RangeStmt:
			x.loops = append(x.loops, s)
		}
		return true
	})
	return x
}

// LoopOf returns the innermost loop statement whose body contains n. The
// containment is structural (the body may be an inlined view whose nodes come
// from several functions); for a node that is not part of the body tree (a
// synthesised condition) the position is used.
func (x *X) LoopOf(n ast.Node) ast.Stmt {
	if x.inLoop == nil {
		x.inLoop = map[ast.Node]ast.Stmt{}
		var stack []ast.Stmt // innermost loop whose BODY we are in
		var walk func(n ast.Node, cur ast.Stmt)
		walk = func(n ast.Node, cur ast.Stmt) {
			ast.Inspect(n, func(m ast.Node) bool {
				if m == nil {
					return false
				}
				if _, isLit := m.(*ast.FuncLit); isLit && m != n {
					return false
				}
				if _, seen := x.inLoop[m]; !seen {
					x.inLoop[m] = cur
				}
				switch s := m.(type) {
				case *ast.ForStmt:
					if m != n {
						for _, part := range []ast.Node{s.Init, s.Cond, s.Post} {
							if part != nil && !isNilNode(part) {
								walk(part, cur)
							}
						}
						walk(s.Body, s)
						return false
					}
				case *ast.RangeStmt:
					if m != n {
						for _, part := range []ast.Node{s.Key, s.Value, s.X} {
							if part != nil && !isNilNode(part) {
								walk(part, cur)
							}
						}
						walk(s.Body, s)
						return false
					}
				}
				return true
			})
		}
		_ = stack
		walk(x.G.Body, nil)
	}
	if l, ok := x.inLoop[n]; ok {
		return l
	}
	var best ast.Stmt
	for _, l := range x.loops {
		var body *ast.BlockStmt
		switch s := l.(type) {
		case *ast.ForStmt:
			body = s.Body
		case *ast.RangeStmt:
			body = s.Body
		}
		if body.Pos() <= n.Pos() && n.End() <= body.End() {
			if best == nil || best.Pos() <= l.Pos() {
				best = l
			}
		}
	}
	return best
}

func isNilNode(n ast.Node) bool {
	switch v := n.(type) {
	case ast.Expr:
		return v == nil
	case ast.Stmt:
		return v == nil
	}
	return false
}

// Cond returns the boolean condition that decides the two successors of b
// (if/for conditions, tag-less case expressions, `tag == value` synthesised for
// tagged switches); nil for range heads, type switches and everything else.
func (x *X) Cond(b *cfg.Block) ast.Expr {
	if len(b.Succs) != 2 || len(b.Nodes) == 0 || b.Kind == cfg.KindRangeLoop {
		return nil
	}
	e, ok := b.Nodes[len(b.Nodes)-1].(ast.Expr)
	if !ok {
		return nil
	}
	if b.Succs[0].Kind == cfg.KindSwitchCaseBody {
		sw := x.caseOf[e]
		if sw == nil {
			return nil
		}
		if sw.Tag == nil {
			return e
		}
		if s, ok := x.synth[e]; ok {
			return s
		}
		s := &ast.BinaryExpr{X: sw.Tag, OpPos: e.Pos(), Op: token.EQL, Y: e}
		x.synth[e] = s
		return s
	}
	return e
}

// BoolConst reports the value of a constant boolean expression.
func BoolConst(info *types.Info, e ast.Expr) (bool, bool) {
	tv, ok := info.Types[ast.Unparen(e)]
	if !ok || tv.Value == nil || tv.Value.Kind() != constant.Bool {
		return false, false
	}
	return constant.BoolVal(tv.Value), true
}

// Facts is cfgq.Facts plus the reduction of comparisons with true/false.
func (x *X) Facts(e ast.Expr, val bool) []cfgq.Fact {
	e = ast.Unparen(e)
	switch c := e.(type) {
	case *ast.Ident:
		if rhs := x.Expand(c); rhs != nil {
			return append([]cfgq.Fact{{Expr: e, Val: val}}, x.Facts(rhs, val)...)
		}
	case *ast.UnaryExpr:
		if c.Op == token.NOT {
			return x.Facts(c.X, !val)
		}
	case *ast.BinaryExpr:
		switch c.Op {
		case token.LAND:
			if val {
				return append(x.Facts(c.X, true), x.Facts(c.Y, true)...)
			}
			return nil
		case token.LOR:
			if !val {
				return append(x.Facts(c.X, false), x.Facts(c.Y, false)...)
			}
			return nil
		case token.EQL, token.NEQ:
			if bv, ok := BoolConst(x.Info, c.Y); ok {
				return x.Facts(c.X, val == ((c.Op == token.EQL) == bv))
			}
			if bv, ok := BoolConst(x.Info, c.X); ok {
				return x.Facts(c.Y, val == ((c.Op == token.EQL) == bv))
			}
		}
	}
	if r := x.lenSum(e); r != nil {
		return x.Facts(r, val)
	}
	return []cfgq.Fact{{Expr: e, Val: val}}
}

// lenSum rewrites a comparison of a sum of lengths with a constant into the equivalent boolean
// combination of emptiness tests: `len(a)+len(b) < 1` is `len(a) == 0 && len(b) == 0`,
// `len(a)+len(b) > 0` is `len(a) != 0 || len(b) != 0` (any operand order, any of the six
// comparison operators as far as it says "sum is zero" / "sum is not zero").
func (x *X) lenSum(e ast.Expr) ast.Expr {
	if r, ok := x.synth[e]; ok {
		return r
	}
	be, ok := ast.Unparen(e).(*ast.BinaryExpr)
	if !ok {
		return nil
	}
	var terms func(e ast.Expr) []ast.Expr
	terms = func(e ast.Expr) []ast.Expr {
		e = ast.Unparen(e)
		if b, ok := e.(*ast.BinaryExpr); ok && b.Op == token.ADD {
			l, r := terms(b.X), terms(b.Y)
			if l == nil || r == nil {
				return nil
			}
			return append(l, r...)
		}
		if call, ok := e.(*ast.CallExpr); ok && len(call.Args) == 1 {
			if id, ok := call.Fun.(*ast.Ident); ok && id.Name == "len" {
				return []ast.Expr{e}
			}
		}
		return nil
	}
	konst := func(e ast.Expr) (int64, bool) { return core.IntConst(x.Info, ast.Unparen(e)) }
	op, sum, k := be.Op, be.X, be.Y
	if _, isConst := konst(be.X); isConst {
		sum, k = be.Y, be.X
		op = map[token.Token]token.Token{token.LSS: token.GTR, token.GTR: token.LSS, token.LEQ: token.GEQ, token.GEQ: token.LEQ, token.EQL: token.EQL, token.NEQ: token.NEQ}[op]
	}
	ts := terms(sum)
	kv, isConst := konst(k)
	if len(ts) < 2 || !isConst {
		return nil
	}
	zero := false
	switch {
	case op == token.LSS && kv == 1, op == token.LEQ && kv == 0, op == token.EQL && kv == 0:
		zero = true
	case op == token.GTR && kv == 0, op == token.GEQ && kv == 1, op == token.NEQ && kv == 0:
	default:
		return nil
	}
	var out ast.Expr
	for _, t := range ts {
		cmp := ast.Expr(&ast.BinaryExpr{X: t, OpPos: be.OpPos, Op: token.NEQ, Y: &ast.BasicLit{ValuePos: be.OpPos, Kind: token.INT, Value: "0"}})
		joiner := token.LOR
		if zero {
			cmp.(*ast.BinaryExpr).Op = token.EQL
			joiner = token.LAND
		}
		if out == nil {
			out = cmp
		} else {
			out = &ast.BinaryExpr{X: out, OpPos: be.OpPos, Op: joiner, Y: cmp}
		}
	}
	x.synth[e] = out
	return out
}

// EdgeFacts returns the atoms implied by leaving b through successor succ.
func (x *X) EdgeFacts(b *cfg.Block, succ int) []cfgq.Fact {
	c := x.Cond(b)
	if c == nil {
		return nil
	}
	out := x.Facts(c, succ == 0)
	// facts implied by the outcome of same-package predicate helpers (cfgq), normalised
	seen := map[ast.Expr]bool{}
	for _, f := range out {
		seen[f.Expr] = true
	}
	for _, f := range x.G.EdgeFacts(b, succ) {
		for _, nf := range x.Facts(f.Expr, f.Val) {
			if !seen[nf.Expr] {
				seen[nf.Expr] = true
				out = append(out, nf)
			}
		}
	}
	return out
}

// Establishes reports whether the edge implies a fact accepted by match.
func (x *X) Establishes(b *cfg.Block, succ int, match func(cfgq.Fact) bool) bool {
	for _, f := range x.EdgeFacts(b, succ) {
		if match(f) {
			return true
		}
	}
	return false
}

// OnlyVia reports whether every path from `from` (the entry when from.B is
// nil) to target crosses an edge establishing a fact accepted by match.
func (x *X) OnlyVia(from cfgq.Point, target ast.Node, match func(cfgq.Fact) bool) (bool, []string) {
	w := x.G.Path(cfgq.Query{
		From:      from,
		After:     from.B != nil,
		Target:    func(n ast.Node) bool { return n == target },
		AvoidEdge: func(b *cfg.Block, s int) bool { return x.Establishes(b, s, match) },
	})
	return w == nil, w
}

// ---------------------------------------------------------------------------
// path enumeration (E9)

// Lit is one atomic branch decision on a path.
type Lit struct {
	Expr  ast.Expr
	Val   bool
	Loop  ast.Stmt                // innermost loop whose body contains the test
	Root  ast.Node                // body in which the locals of Expr are defined
	Subst func(ast.Expr) ast.Expr // maps an expression of that body to the analysed predicate's terms (parameters of an inlined helper replaced by the arguments)
}

// In returns the expression e of the literal's body in the terms of the analysed predicate.
func (l Lit) In(e ast.Expr) ast.Expr {
	if l.Subst == nil || e == nil {
		return e
	}
	return l.Subst(e)
}

// Ev is one event of a trace: an executed node, a branch literal, or the
// decision of a range loop (Enter: at least one more element / Done: exhausted).
type Ev struct {
	Node  ast.Node
	Lit   *Lit
	Enter ast.Stmt
	Done  ast.Stmt
}

// End kinds of a trace.
const (
	EndReturn = iota
	EndFall
	EndAbort
	EndBack // reached a block that is already on the path (loop back edge)
	EndStop // reached a block accepted by the stop predicate
)

// Trace is one acyclic path.
type Trace struct {
	Evs      []Ev
	End      int
	Ret      *ast.ReturnStmt
	EndBlock *cfg.Block
}

// Nodes returns the executed (non-condition) nodes of the trace.
func (t *Trace) Nodes() []ast.Node {
	var out []ast.Node
	for _, e := range t.Evs {
		if e.Node != nil {
			out = append(out, e.Node)
		}
	}
	return out
}

// Lits returns the branch literals of the trace.
func (t *Trace) Lits() []Lit {
	var out []Lit
	for _, e := range t.Evs {
		if e.Lit != nil {
			out = append(out, *e.Lit)
		}
	}
	return out
}

// shortCircuit enumerates the atom sequences with which e evaluates to val.
func (x *X) shortCircuit(e ast.Expr, val bool) [][]Lit {
	e = ast.Unparen(e)
	product := func(a, b [][]Lit) [][]Lit {
		var out [][]Lit
		for _, p := range a {
			for _, q := range b {
				out = append(out, append(append([]Lit(nil), p...), q...))
			}
		}
		return out
	}
	switch c := e.(type) {
	case *ast.Ident:
		if rhs := x.Expand(c); rhs != nil {
			return x.shortCircuit(rhs, val)
		}
	case *ast.UnaryExpr:
		if c.Op == token.NOT {
			return x.shortCircuit(c.X, !val)
		}
	case *ast.BinaryExpr:
		switch c.Op {
		case token.LAND:
			if val {
				return product(x.shortCircuit(c.X, true), x.shortCircuit(c.Y, true))
			}
			return append(x.shortCircuit(c.X, false), product(x.shortCircuit(c.X, true), x.shortCircuit(c.Y, false))...)
		case token.LOR:
			if val {
				return append(x.shortCircuit(c.X, true), product(x.shortCircuit(c.X, false), x.shortCircuit(c.Y, true))...)
			}
			return product(x.shortCircuit(c.X, false), x.shortCircuit(c.Y, false))
		case token.EQL, token.NEQ:
			if bv, ok := BoolConst(x.Info, c.Y); ok {
				return x.shortCircuit(c.X, val == ((c.Op == token.EQL) == bv))
			}
			if bv, ok := BoolConst(x.Info, c.X); ok {
				return x.shortCircuit(c.Y, val == ((c.Op == token.EQL) == bv))
			}
		}
	}
	if r := x.lenSum(e); r != nil {
		return x.shortCircuit(r, val)
	}
	return [][]Lit{{{Expr: e, Val: val, Loop: x.LoopOf(e), Root: x.G.Body, Subst: x.subst}}}
}

// Traces enumerates the acyclic paths that start at node idx of block from.
// A path ends at an exit, at a block already on the path (EndBack) or at a
// block accepted by stop (EndStop). More than max paths is an error.
func (x *X) Traces(from *cfg.Block, idx int, stop func(*cfg.Block) bool, max int) ([]Trace, error) {
	var out []Trace
	var err error
	onPath := map[*cfg.Block]bool{}
	var walk func(b *cfg.Block, i int, evs []Ev, first bool)
	emit := func(evs []Ev, end int, ret *ast.ReturnStmt, b *cfg.Block) {
		if len(out) >= max {
			err = fmt.Errorf("more than %d paths", max)
			return
		}
		out = append(out, Trace{Evs: append([]Ev(nil), evs...), End: end, Ret: ret, EndBlock: b})
	}
	walk = func(b *cfg.Block, i int, evs []Ev, first bool) {
		if err != nil {
			return
		}
		if !first && stop != nil && stop(b) {
			emit(evs, EndStop, nil, b)
			return
		}
		if onPath[b] {
			emit(evs, EndBack, nil, b)
			return
		}
		onPath[b] = true
		defer func() { onPath[b] = false }()
		cond := x.Cond(b)
		nodes := b.Nodes
		if cond != nil {
			nodes = nodes[:len(nodes)-1]
		}
		for ; i < len(nodes); i++ {
			evs = append(evs, Ev{Node: nodes[i]})
		}
		switch len(b.Succs) {
		case 0:
			switch x.G.Exit(b) {
			case cfgq.ExitRet:
				emit(evs, EndReturn, b.Nodes[len(b.Nodes)-1].(*ast.ReturnStmt), b)
			case cfgq.ExitAbort:
				emit(evs, EndAbort, nil, b)
			default:
				emit(evs, EndFall, nil, b)
			}
		case 1:
			walk(b.Succs[0], 0, evs, false)
		case 2:
			if fs, isFor := b.Stmt.(*ast.ForStmt); isFor && b.Kind == cfg.KindForLoop && x.LoopDecisions {
				// `for i := 0; i < len(l); i++`: one more element / exhausted, like a range loop
				walk(b.Succs[0], 0, append(append([]Ev(nil), evs...), Ev{Enter: fs}), false)
				walk(b.Succs[1], 0, append(append([]Ev(nil), evs...), Ev{Done: fs}), false)
				return
			}
			if cond != nil {
				for si, val := range []bool{true, false} {
					for _, alt := range x.shortCircuit(cond, val) {
						e2 := append([]Ev(nil), evs...)
						for k := range alt {
							e2 = append(e2, Ev{Lit: &alt[k]})
						}
						walk(b.Succs[si], 0, e2, false)
					}
				}
				return
			}
			if b.Kind == cfg.KindRangeLoop {
				walk(b.Succs[0], 0, append(append([]Ev(nil), evs...), Ev{Enter: b.Stmt}), false)
				walk(b.Succs[1], 0, append(append([]Ev(nil), evs...), Ev{Done: b.Stmt}), false)
				return
			}
			err = fmt.Errorf("two-way branch without a recognised condition (block %d, %s)", b.Index, b.Kind)
		default:
			err = fmt.Errorf("multi-way branch (select/type switch) in block %d", b.Index)
		}
	}
	walk(from, idx, nil, true)
	return out, err
}

// ---------------------------------------------------------------------------
// decision tables

// Row is one path of a predicate: the atoms it decided and its outcome.
type Row struct {
	Lits map[string]bool
	Out  string
}

func (r Row) String() string {
	var ks []string
	for k := range r.Lits {
		ks = append(ks, k)
	}
	sort.Strings(ks)
	var s []string
	for _, k := range ks {
		if r.Lits[k] {
			s = append(s, k)
		} else {
			s = append(s, "!"+k)
		}
	}
	return strings.Join(s, " & ") + " -> " + r.Out
}

// Classifier maps a branch literal to a named atom; pol=false means that the
// literal is the negation of the atom. ok=false: the test is not recognised.
type Classifier func(l Lit) (atom string, pol bool, ok bool)

// Table turns the returning traces of a predicate into rows. result is the
// index of the boolean result. Tests inside a loop are existential: a path that
// leaves the function from inside the loop keeps its positive in-loop atoms, a
// path on which the loop runs to completion has all those atoms false.
func (x *X) Table(traces []Trace, result int, cls Classifier) ([]Row, error) {
	loopAtoms := map[ast.Stmt]map[string]bool{}
	type pre struct {
		lits map[string]bool
		done []ast.Stmt
		out  string
		dead bool
	}
	clone := func(p *pre) *pre {
		q := &pre{lits: map[string]bool{}, done: p.done, out: p.out, dead: p.dead}
		for k, v := range p.lits {
			q.lits[k] = v
		}
		return q
	}
	set := func(p *pre, a string, v bool) {
		if old, ok := p.lits[a]; ok && old != v {
			p.dead = true
		}
		p.lits[a] = v
	}
	// addLits extends every partial row by the literals; a literal that the
	// classifier does not know and that calls a helper of the same package is
	// replaced by the helper's own rows (parameters bound to the arguments).
	guards := map[ast.Stmt][]string{} // per trace: positive in-loop atoms so far
	addLits := func(ps []*pre, lits []Lit) ([]*pre, error) {
		for _, l := range lits {
			l.Expr = x.subst(l.Expr)
			if l.Root == nil {
				l.Root, l.Subst = x.G.Body, x.subst
			}
			a, pol, ok := cls(l)
			if ok {
				v := l.Val == pol
				if l.Loop != nil {
					if !v {
						continue
					}
					if loopAtoms[l.Loop] == nil {
						loopAtoms[l.Loop] = map[string]bool{}
					}
					loopAtoms[l.Loop][a] = true
					// the in-loop atoms already true on this path guard this one
					cur := map[string]bool{}
					for _, g := range guards[l.Loop] {
						if g != a {
							cur[g] = true
						}
					}
					if x.Deps == nil {
						x.Deps = map[string]map[string]bool{}
					}
					if old, seen := x.Deps[a]; seen {
						for g := range old {
							if !cur[g] {
								delete(old, g)
							}
						}
					} else {
						x.Deps[a] = cur
					}
					guards[l.Loop] = append(guards[l.Loop], a)
				}
				for _, p := range ps {
					set(p, a, v)
				}
				continue
			}
			rows, ierr := x.inline(l, cls)
			if ierr != nil || l.Loop != nil {
				return nil, fmt.Errorf("unrecognised test `%s`", core.NodeString(x.G.Fset, l.Expr))
			}
			var next []*pre
			for _, p := range ps {
				for _, r := range rows {
					if r.Out != fmt.Sprint(l.Val) {
						continue
					}
					q := clone(p)
					for a, v := range r.Lits {
						set(q, a, v)
					}
					next = append(next, q)
				}
			}
			ps = next
		}
		return ps, nil
	}
	// boolean locals assigned on the path stand for the assigned expression (a verdict carried in a
	// local: `rejected := A(x); if !rejected { rejected = B(x) }; return rejected`)
	type bind struct {
		expr ast.Expr
		env  map[types.Object]*bind
	}
	var expandLits func(lits []Lit, env map[types.Object]*bind, depth int) [][]Lit
	expandLits = func(lits []Lit, env map[types.Object]*bind, depth int) [][]Lit {
		alts := [][]Lit{nil}
		for _, l := range lits {
			var repl [][]Lit
			if id, ok := ast.Unparen(l.Expr).(*ast.Ident); ok && depth > 0 {
				b := env[BoolLocal(x.Info, id)]
				if b == nil && BoolLocal(x.Info, id) != nil && x.ZeroInit[BoolLocal(x.Info, id)] {
					b = &bind{} // never assigned on this path: false
				}
				if b != nil && BoolLocal(x.Info, id) != nil {
					if bv, isConst := BoolConst(x.Info, b.expr); isConst || b.expr == nil {
						// a constant (nil: the zero value false): the path is feasible only for that value
						if bv == l.Val {
							repl = [][]Lit{{}}
						} else {
							repl = [][]Lit{}
						}
					} else {
						repl = [][]Lit{}
					}
					var scs [][]Lit
					if b.expr != nil {
						if _, isConst := BoolConst(x.Info, b.expr); !isConst {
							scs = x.shortCircuit(b.expr, l.Val)
						}
					}
					for _, a := range scs {
						for k := range a {
							a[k].Loop = l.Loop
						}
						repl = append(repl, expandLits(a, b.env, depth-1)...)
					}
				}
			}
			if repl == nil {
				repl = [][]Lit{{l}}
			}
			var next [][]Lit
			for _, a := range alts {
				for _, r := range repl {
					next = append(next, append(append([]Lit(nil), a...), r...))
				}
			}
			alts = next
		}
		return alts
	}
	assigned := func(n ast.Node, env map[types.Object]*bind) map[types.Object]*bind {
		set := func(lhs ast.Expr, rhs ast.Expr) {
			o := BoolLocal(x.Info, lhs)
			if o == nil {
				return
			}
			ne := map[types.Object]*bind{}
			for k, v := range env {
				ne[k] = v
			}
			if rhs == nil {
				delete(ne, o)
			} else {
				ne[o] = &bind{expr: rhs, env: env}
			}
			env = ne
		}
		setZero := func(lhs ast.Expr) {
			if o := BoolLocal(x.Info, lhs); o != nil {
				ne := map[types.Object]*bind{}
				for k, v := range env {
					ne[k] = v
				}
				ne[o] = &bind{expr: nil, env: env}
				env = ne
			}
		}
		switch st := n.(type) {
		case *ast.AssignStmt:
			for i, l := range st.Lhs {
				if len(st.Lhs) == len(st.Rhs) && (st.Tok == token.ASSIGN || st.Tok == token.DEFINE) {
					set(l, st.Rhs[i])
				} else {
					set(l, nil)
				}
			}
		case *ast.DeclStmt:
			if gd, ok := st.Decl.(*ast.GenDecl); ok {
				for _, sp := range gd.Specs {
					if vs, ok := sp.(*ast.ValueSpec); ok {
						for i, nm := range vs.Names {
							switch {
							case len(vs.Values) == len(vs.Names):
								set(nm, vs.Values[i])
							case len(vs.Values) == 0:
								setZero(nm)
							default:
								set(nm, nil)
							}
						}
					}
				}
			}
		}
		return env
	}
	var pres []*pre
	for ti := range traces {
		t := &traces[ti]
		if t.End != EndReturn {
			if t.End == EndBack || t.End == EndAbort {
				continue
			}
			return nil, fmt.Errorf("a path leaves the predicate without a return statement")
		}
		p := &pre{lits: map[string]bool{}}
		for _, e := range t.Evs {
			if e.Done != nil {
				p.done = append(p.done, e.Done)
			}
		}
		ps := []*pre{p}
		env := map[types.Object]*bind{}
		cenv := map[types.Object]constant.Value{} // locals holding a constant on this path
		guards = map[ast.Stmt][]string{}
		var err error
		infeasible := false
		for _, e := range t.Evs {
			switch {
			case e.Node != nil:
				env = assigned(e.Node, env)
				x.constStep(e.Node, cenv)
			case e.Lit != nil:
				if v, known := x.constTest(e.Lit.Expr, cenv); known {
					if v != e.Lit.Val {
						infeasible = true
					}
					continue // decided by the constant the local holds on this path
				}
				var next []*pre
				for _, alt := range expandLits([]Lit{*e.Lit}, env, 4) {
					var cp []*pre
					for _, q := range ps {
						cp = append(cp, clone(q))
					}
					cp, err = addLits(cp, alt)
					if err != nil {
						return nil, err
					}
					next = append(next, cp...)
				}
				ps = next
			}
		}
		if infeasible {
			continue
		}
		var res ast.Expr
		switch {
		case result < len(t.Ret.Results):
			res = t.Ret.Results[result]
		case len(t.Ret.Results) == 0 && result < len(x.Named):
			res = x.Named[result] // bare return of a named result
		default:
			return nil, fmt.Errorf("return statement without result %d", result)
		}
		if bv, ok := BoolConst(x.Info, res); ok {
			for _, q := range ps {
				q.out = fmt.Sprint(bv)
			}
			pres = append(pres, ps...)
			continue
		}
		for _, val := range []bool{true, false} {
			var alts [][]Lit
			for _, a := range x.shortCircuit(res, val) {
				for k := range a {
					a[k].Loop = nil
				}
				alts = append(alts, expandLits(a, env, 4)...)
			}
			for _, alt := range alts {
				var qs []*pre
				for _, q := range ps {
					c := clone(q)
					c.out = fmt.Sprint(val)
					qs = append(qs, c)
				}
				for k := range alt {
					alt[k].Loop = nil
				}
				qs, err := addLits(qs, alt)
				if err != nil {
					return nil, err
				}
				pres = append(pres, qs...)
			}
		}
	}
	var rows []Row
	for _, p := range pres {
		for _, l := range p.done {
			for a := range loopAtoms[l] {
				set(p, a, false)
			}
		}
		if !p.dead {
			rows = append(rows, Row{Lits: p.lits, Out: p.out})
		}
	}
	return rows, nil
}

// constStep records which locals hold a constant after executing n.
func (x *X) constStep(n ast.Node, cenv map[types.Object]constant.Value) {
	set := func(l, r ast.Expr) {
		id, ok := ast.Unparen(l).(*ast.Ident)
		if !ok {
			return
		}
		v, ok := core.ObjOf(x.Info, id).(*types.Var)
		if !ok || v.IsField() || v.Pkg() == nil || v.Parent() == v.Pkg().Scope() {
			return
		}
		if r != nil {
			if tv, ok := x.Info.Types[ast.Unparen(r)]; ok && tv.Value != nil {
				cenv[v] = tv.Value
				return
			}
		}
		delete(cenv, v)
	}
	switch st := n.(type) {
	case *ast.AssignStmt:
		for i, l := range st.Lhs {
			if len(st.Lhs) == len(st.Rhs) && (st.Tok == token.ASSIGN || st.Tok == token.DEFINE) {
				set(l, st.Rhs[i])
			} else {
				set(l, nil)
			}
		}
	case *ast.IncDecStmt:
		set(st.X, nil)
	case *ast.DeclStmt:
		if gd, ok := st.Decl.(*ast.GenDecl); ok {
			for _, sp := range gd.Specs {
				if vs, ok := sp.(*ast.ValueSpec); ok && len(vs.Values) == len(vs.Names) {
					for i, nm := range vs.Names {
						set(nm, vs.Values[i])
					}
				}
			}
		}
	}
}

// constTest decides `v == K` / `v != K` for a local v that holds a constant on the path.
func (x *X) constTest(e ast.Expr, cenv map[types.Object]constant.Value) (bool, bool) {
	be, ok := ast.Unparen(e).(*ast.BinaryExpr)
	if !ok || be.Op != token.EQL && be.Op != token.NEQ {
		return false, false
	}
	for _, pair := range [][2]ast.Expr{{be.X, be.Y}, {be.Y, be.X}} {
		id, ok := ast.Unparen(pair[0]).(*ast.Ident)
		if !ok {
			continue
		}
		cv, held := cenv[core.ObjOf(x.Info, id)]
		tv, isConst := x.Info.Types[ast.Unparen(pair[1])]
		if !held || !isConst || tv.Value == nil || cv.Kind() != tv.Value.Kind() {
			continue
		}
		return constant.Compare(cv, be.Op, tv.Value), true
	}
	return false, false
}

// inline computes the rows of the helper behind an unrecognised literal, with the helper's
// parameters (and receiver) bound to the call's arguments. The literal is a call of a
// same-package function or method, of a function literal (also one passed as an argument or
// bound to a local), or a boolean local that holds result #k of such a call.
func (x *X) inline(l Lit, cls Classifier) ([]Row, error) {
	if x.Prog == nil || x.depth <= 0 {
		return nil, fmt.Errorf("no inlining")
	}
	idx := 0
	var call *ast.CallExpr
	switch v := ast.Unparen(l.Expr).(type) {
	case *ast.CallExpr:
		call = v
	case *ast.Ident:
		if BoolLocal(x.Info, v) == nil {
			return nil, fmt.Errorf("not a call")
		}
		d, ok := SingleDef(x.Info, x.G.Body, v)
		if !ok || d.Rhs == nil || d.Index < 0 || d.Range != nil {
			return nil, fmt.Errorf("not a call result")
		}
		c, ok := ast.Unparen(x.subst(d.Rhs)).(*ast.CallExpr)
		if !ok {
			return nil, fmt.Errorf("not a call result")
		}
		call, idx = c, d.Index
	default:
		return nil, fmt.Errorf("not a call")
	}
	if call.Ellipsis.IsValid() {
		return nil, fmt.Errorf("variadic call")
	}
	var params *ast.FieldList
	var results *ast.FieldList
	var recv *ast.FieldList
	var hg *cfgq.Graph
	lit, _ := ast.Unparen(call.Fun).(*ast.FuncLit)
	if id, ok := ast.Unparen(call.Fun).(*ast.Ident); ok && lit == nil {
		if d, ok := SingleDef(x.Info, x.G.Body, id); ok && d.Rhs != nil && d.Index == -1 {
			lit, _ = ast.Unparen(d.Rhs).(*ast.FuncLit)
		}
	}
	if lit != nil {
		if lit.Body == x.G.Body {
			return nil, fmt.Errorf("recursive")
		}
		params, results, hg = lit.Type.Params, lit.Type.Results, cfgq.OfLit(x.Prog, x.Info, lit)
	} else {
		f := core.CalleeFunc(x.Info, call)
		h := x.Prog.FnOf(f)
		if h == nil || h.Decl.Body == nil || h.Pkg.TypesInfo != x.Info || h.Decl.Body == x.G.Body {
			return nil, fmt.Errorf("not a helper of the same package")
		}
		params, results, recv, hg = h.Decl.Type.Params, h.Decl.Type.Results, h.Decl.Recv, cfgq.Of(x.Prog, h)
	}
	// result #idx must be boolean
	var rtypes []ast.Expr
	if results != nil {
		for _, fl := range results.List {
			n := len(fl.Names)
			if n == 0 {
				n = 1
			}
			for k := 0; k < n; k++ {
				rtypes = append(rtypes, fl.Type)
			}
		}
	}
	if idx >= len(rtypes) {
		return nil, fmt.Errorf("no such result")
	}
	if b, ok := x.Info.TypeOf(rtypes[idx]).Underlying().(*types.Basic); !ok || b.Kind() != types.Bool {
		return nil, fmt.Errorf("no boolean result")
	}
	bind := map[types.Object]ast.Expr{}
	for k, v := range x.bind {
		bind[k] = v
	}
	i := 0
	for _, fl := range params.List {
		if _, variadic := fl.Type.(*ast.Ellipsis); variadic {
			return nil, fmt.Errorf("variadic helper")
		}
		for _, n := range fl.Names {
			if i >= len(call.Args) {
				return nil, fmt.Errorf("argument count")
			}
			if o := x.Info.Defs[n]; o != nil {
				bind[o] = call.Args[i]
			}
			i++
		}
		if len(fl.Names) == 0 {
			i++
		}
	}
	if i != len(call.Args) {
		return nil, fmt.Errorf("argument count")
	}
	if recv != nil && len(recv.List) == 1 && len(recv.List[0].Names) == 1 {
		if sel, ok := ast.Unparen(call.Fun).(*ast.SelectorExpr); ok {
			bind[x.Info.Defs[recv.List[0].Names[0]]] = sel.X
		}
	}
	hx := New(hg)
	hx.Prog, hx.bind, hx.depth, hx.LoopDecisions = x.Prog, bind, x.depth-1, x.LoopDecisions
	hx.ZeroInit = map[types.Object]bool{}
	if results != nil {
		for _, fl := range results.List {
			for _, n := range fl.Names {
				hx.Named = append(hx.Named, n)
				hx.ZeroInit[x.Info.Defs[n]] = true
			}
		}
	}
	traces, err := hx.Traces(hx.G.CFG.Blocks[0], 0, nil, 200)
	if err != nil {
		return nil, err
	}
	return hx.Table(traces, idx, cls)
}

// subst replaces the bound parameters of an inlined helper in e by the
// arguments. Sub-trees without a bound parameter are returned as they are
// (original nodes keep their type information).
func (x *X) subst(e ast.Expr) ast.Expr {
	if len(x.bind) == 0 || e == nil {
		return e
	}
	mentions := false
	ast.Inspect(e, func(n ast.Node) bool {
		if id, ok := n.(*ast.Ident); ok {
			if _, bound := x.bind[core.ObjOf(x.Info, id)]; bound && core.ObjOf(x.Info, id) != nil {
				mentions = true
			}
		}
		return !mentions
	})
	if !mentions {
		return e
	}
	switch v := e.(type) {
	case *ast.Ident:
		if r, ok := x.bind[core.ObjOf(x.Info, v)]; ok {
			return r
		}
	case *ast.ParenExpr:
		return &ast.ParenExpr{Lparen: v.Lparen, X: x.subst(v.X), Rparen: v.Rparen}
	case *ast.UnaryExpr:
		return &ast.UnaryExpr{OpPos: v.OpPos, Op: v.Op, X: x.subst(v.X)}
	case *ast.StarExpr:
		return &ast.StarExpr{Star: v.Star, X: x.subst(v.X)}
	case *ast.BinaryExpr:
		return &ast.BinaryExpr{X: x.subst(v.X), OpPos: v.OpPos, Op: v.Op, Y: x.subst(v.Y)}
	case *ast.SelectorExpr:
		return &ast.SelectorExpr{X: x.subst(v.X), Sel: v.Sel}
	case *ast.IndexExpr:
		return &ast.IndexExpr{X: x.subst(v.X), Lbrack: v.Lbrack, Index: x.subst(v.Index), Rbrack: v.Rbrack}
	case *ast.CallExpr:
		c := &ast.CallExpr{Fun: x.subst(v.Fun), Lparen: v.Lparen, Ellipsis: v.Ellipsis, Rparen: v.Rparen}
		for _, a := range v.Args {
			c.Args = append(c.Args, x.subst(a))
		}
		return c
	}
	return e
}

// Expand returns the defining expression of a boolean local that is assigned
// exactly once from an expression over stable operands (parameters, locals
// assigned at most once, configuration fields), or nil.
func (x *X) Expand(id *ast.Ident) ast.Expr {
	o := BoolLocal(x.Info, id)
	if o == nil {
		return nil
	}
	if r, ok := x.expd[o]; ok {
		return r
	}
	x.expd[o] = nil
	d, ok := SingleDef(x.Info, x.G.Body, id)
	if !ok || d.Rhs == nil || d.Index != -1 || d.Range != nil {
		return nil
	}
	if _, isConst := BoolConst(x.Info, d.Rhs); isConst {
		return nil
	}
	stable := true
	ast.Inspect(d.Rhs, func(n ast.Node) bool {
		if m, ok := n.(*ast.Ident); ok && stable {
			if v, ok := core.ObjOf(x.Info, m).(*types.Var); ok && !v.IsField() && v.Pkg() != nil && v.Parent() != v.Pkg().Scope() {
				if len(DefsOf(x.Info, x.G.Body, v)) > 1 {
					stable = false
				}
			}
		}
		return stable
	})
	if !stable {
		return nil
	}
	x.expd[o] = d.Rhs
	return d.Rhs
}

// Atoms returns the sorted atom names used by rows.
func Atoms(rows []Row) []string {
	m := map[string]bool{}
	for _, r := range rows {
		for a := range r.Lits {
			m[a] = true
		}
	}
	var out []string
	for a := range m {
		out = append(out, a)
	}
	sort.Strings(out)
	return out
}

// Want is one row of a reference table: for every feasible valuation that
// extends When the predicate must answer Out.
type Want struct {
	Name  string
	When  map[string]bool
	Out   string
	Input string // the concrete input this row stands for (for messages)
}

// Verdict of one reference row.
type Verdict struct {
	Want      Want
	OK        bool
	Undecided bool
	Witness   string
}

// Compare evaluates rows on every feasible valuation of universe.
func Compare(rows []Row, universe []string, feasible func(map[string]bool) bool, wants []Want) []Verdict {
	var out []Verdict
	n := len(universe)
	for _, w := range wants {
		v := Verdict{Want: w, OK: true}
		for m := 0; m < 1<<n && v.OK && !v.Undecided; m++ {
			as := map[string]bool{}
			for i, a := range universe {
				as[a] = m&(1<<i) != 0
			}
			ext := true
			for a, val := range w.When {
				if as[a] != val {
					ext = false
				}
			}
			if !ext || (feasible != nil && !feasible(as)) {
				continue
			}
			matched := 0
			for _, r := range rows {
				ok := true
				for a, val := range r.Lits {
					if as[a] != val {
						ok = false
					}
				}
				if !ok {
					continue
				}
				matched++
				if r.Out != w.Out {
					v.OK = false
					v.Witness = fmt.Sprintf("with %s the code takes the path [%s], expected %s", Valuation(as), r, w.Out)
				}
			}
			if matched == 0 {
				v.Undecided = true
				v.Witness = "no extracted path covers " + Valuation(as)
			}
		}
		out = append(out, v)
	}
	return out
}

// Valuation prints a valuation.
func Valuation(as map[string]bool) string {
	var ks []string
	for k := range as {
		ks = append(ks, k)
	}
	sort.Strings(ks)
	var s []string
	for _, k := range ks {
		s = append(s, fmt.Sprintf("%s=%v", k, as[k]))
	}
	return "{" + strings.Join(s, ", ") + "}"
}
