// Package tt holds the helpers shared by the C06, C14 and C20 rule sets:
//
//   - branch facts that also understand `x == true`, tag-less and tagged
//     switches (engine E2 additions that cfgq does not have),
//   - enumeration of the acyclic paths of a small body with short-circuit
//     expansion of the branch conditions (engine E9: truth tables),
//   - comparison of the extracted decision table with a reference table,
//   - a path search that tracks the values of boolean locals (flag variables),
//   - resolution of a local to its single defining expression.
package tt

import (
	"fmt"
	"go/ast"
	"go/constant"
	"go/token"
	"go/types"
	"sync"

	"golang.org/x/tools/go/cfg"

	"rscheck/cfgq"
	"rscheck/core"
)

// X wraps the graph of one body.
type X struct {
	G      *cfgq.Graph
	Info   *types.Info
	caseOf map[ast.Expr]*ast.SwitchStmt
	synth  map[ast.Expr]ast.Expr
	loops  []ast.Stmt
	inLoop map[ast.Node]ast.Stmt
	assume func(ast.Expr) int // set while a Reach query with an assumption runs
	// Prog enables the inlining of same-package helper predicates in Table.
	Prog *core.Program
	// Rewrite maps a condition to an equivalent one the rule's classifier knows (nil: unchanged); it
	// sees a whole conjunction/disjunction before it is split into atoms.
	Rewrite func(ast.Expr) ast.Expr
	// ZeroInit: boolean locals that start with the zero value without an assignment statement
	// (named results of the function and of the helpers inlined into its view).
	ZeroInit map[types.Object]bool
	// Deps (filled by Table): for an existential in-loop atom, the in-loop atoms that are true on
	// every path that tests it (`if isRoleLine(l) { if isMaster(l) {..} }`: master implies role-line).
	Deps map[string]map[string]bool
	// Named: the named results of the analysed function (for bare returns).
	Named []*ast.Ident
	// LoopDecisions: the head test of a `for` statement is a loop decision (enter / done) and not a
	// branch literal (set for predicates whose loops scan a list).
	LoopDecisions bool
	bind          map[types.Object]ast.Expr // parameter -> argument, when this body is an inlined helper
	expd          map[types.Object]ast.Expr // memo of expandable boolean locals (nil entry: not expandable)
	// Shaky is set by Reach when the only witnesses it found pass a branch on a call that is not
	// evaluated and receives a tracked value: such a witness does not justify a violation.
	Shaky  bool
	preds  map[*ast.CallExpr]ast.Expr
	catoms *constAtoms
	roots  []ast.Node // bodies of the callers when this is the table of an inlined helper (innermost first) // memo of one-line predicate helpers written out over their arguments
	depth  int
}

// New indexes the switch statements and loops of g's body.
func New(g *cfgq.Graph) *X {
	x := &X{G: g, Info: g.Info, caseOf: map[ast.Expr]*ast.SwitchStmt{}, synth: map[ast.Expr]ast.Expr{}, expd: map[types.Object]ast.Expr{}, depth: 3}
	core.Inspect(g.Body, func(n ast.Node) bool {
		switch s := n.(type) {
		case *ast.SwitchStmt:
			for _, cl := range s.Body.List {
				for _, e := range cl.(*ast.CaseClause).List {
					x.caseOf[e] = s
				}
			}
		case *ast.ForStmt:
			x.loops = append(x.loops, s)
		case *ast.RangeStmt:
			x.loops = append(x.loops, s)
		}
		return true
	})
	return x
}

// LoopOf returns the innermost loop statement whose body contains n. The
// containment is structural (the body may be an inlined view whose nodes come
// from several functions); for a node that is not part of the body tree (a
// synthesised condition) the position is used.
func (x *X) LoopOf(n ast.Node) ast.Stmt {
	if x.inLoop == nil {
		x.inLoop = map[ast.Node]ast.Stmt{}
		var stack []ast.Stmt // innermost loop whose BODY we are in
		var walk func(n ast.Node, cur ast.Stmt)
		walk = func(n ast.Node, cur ast.Stmt) {
			ast.Inspect(n, func(m ast.Node) bool {
				if m == nil {
					return false
				}
				if _, isLit := m.(*ast.FuncLit); isLit && m != n {
					return false
				}
				if _, seen := x.inLoop[m]; !seen {
					x.inLoop[m] = cur
				}
				switch s := m.(type) {
				case *ast.ForStmt:
					if m != n {
						for _, part := range []ast.Node{s.Init, s.Cond, s.Post} {
							if part != nil && !isNilNode(part) {
								walk(part, cur)
							}
						}
						walk(s.Body, s)
						return false
					}
				case *ast.RangeStmt:
					if m != n {
						for _, part := range []ast.Node{s.Key, s.Value, s.X} {
							if part != nil && !isNilNode(part) {
								walk(part, cur)
							}
						}
						walk(s.Body, s)
						return false
					}
				}
				return true
			})
		}
		_ = stack
		walk(x.G.Body, nil)
	}
	if l, ok := x.inLoop[n]; ok {
		return l
	}
	var best ast.Stmt
	for _, l := range x.loops {
		var body *ast.BlockStmt
		switch s := l.(type) {
		case *ast.ForStmt:
			body = s.Body
		case *ast.RangeStmt:
			body = s.Body
		}
		if body.Pos() <= n.Pos() && n.End() <= body.End() {
			if best == nil || best.Pos() <= l.Pos() {
				best = l
			}
		}
	}
	return best
}

func isNilNode(n ast.Node) bool {
	switch v := n.(type) {
	case ast.Expr:
		return v == nil
	case ast.Stmt:
		return v == nil
	}
	return false
}

// Cond returns the boolean condition that decides the two successors of b
// (if/for conditions, tag-less case expressions, `tag == value` synthesised for
// tagged switches); nil for range heads, type switches and everything else.
func (x *X) Cond(b *cfg.Block) ast.Expr {
	if len(b.Succs) != 2 || len(b.Nodes) == 0 || b.Kind == cfg.KindRangeLoop {
		return nil
	}
	e, ok := b.Nodes[len(b.Nodes)-1].(ast.Expr)
	if !ok {
		return nil
	}
	if b.Succs[0].Kind == cfg.KindSwitchCaseBody {
		sw := x.caseOf[e]
		if sw == nil {
			return nil
		}
		if sw.Tag == nil {
			return e
		}
		if s, ok := x.synth[e]; ok {
			return s
		}
		s := &ast.BinaryExpr{X: sw.Tag, OpPos: e.Pos(), Op: token.EQL, Y: e}
		x.synth[e] = s
		return s
	}
	return e
}

// BoolConst reports the value of a constant boolean expression.
func BoolConst(info *types.Info, e ast.Expr) (bool, bool) {
	tv, ok := info.Types[ast.Unparen(e)]
	if !ok || tv.Value == nil || tv.Value.Kind() != constant.Bool {
		return false, false
	}
	return constant.BoolVal(tv.Value), true
}

// Facts is cfgq.Facts plus the reduction of comparisons with true/false.
func (x *X) Facts(e ast.Expr, val bool) []cfgq.Fact {
	e = ast.Unparen(e)
	if x.Rewrite != nil {
		if r := x.Rewrite(e); r != nil {
			e = r
		}
	}
	if r := x.closureResult(e); r != nil {
		return append([]cfgq.Fact{{Expr: e, Val: val}}, x.Facts(r, val)...)
	}
	switch c := e.(type) {
	case *ast.Ident:
		if rhs := x.Expand(c); rhs != nil {
			return append([]cfgq.Fact{{Expr: e, Val: val}}, x.Facts(rhs, val)...)
		}
	case *ast.UnaryExpr:
		if c.Op == token.NOT {
			return x.Facts(c.X, !val)
		}
	case *ast.BinaryExpr:
		switch c.Op {
		case token.LAND:
			if val {
				return append(x.Facts(c.X, true), x.Facts(c.Y, true)...)
			}
			return nil
		case token.LOR:
			if !val {
				return append(x.Facts(c.X, false), x.Facts(c.Y, false)...)
			}
			return nil
		case token.EQL, token.NEQ:
			if bv, ok := BoolConst(x.Info, c.Y); ok {
				return x.Facts(c.X, val == ((c.Op == token.EQL) == bv))
			}
			if bv, ok := BoolConst(x.Info, c.X); ok {
				return x.Facts(c.Y, val == ((c.Op == token.EQL) == bv))
			}
		}
	}
	if r := x.lenSum(e); r != nil {
		return x.Facts(r, val)
	}
	return []cfgq.Fact{{Expr: e, Val: val}}
}

// closureResult: e calls a function literal (directly or bound once to a local) whose body is one
// return statement: the returned expression with the parameters replaced by the arguments.
func (x *X) closureResult(e ast.Expr) ast.Expr {
	call, ok := e.(*ast.CallExpr)
	if !ok || call.Ellipsis.IsValid() {
		return nil
	}
	if r, seen := x.synth[e]; seen {
		return r
	}
	lit, _ := ast.Unparen(call.Fun).(*ast.FuncLit)
	if id, isId := ast.Unparen(call.Fun).(*ast.Ident); isId && lit == nil {
		if d, ok := SingleDef(x.Info, x.G.Body, id); ok && d.Rhs != nil && d.Index == -1 {
			lit, _ = ast.Unparen(d.Rhs).(*ast.FuncLit)
		}
	}
	if lit == nil || len(lit.Body.List) != 1 {
		return nil
	}
	ret, ok := lit.Body.List[0].(*ast.ReturnStmt)
	if !ok || len(ret.Results) != 1 {
		return nil
	}
	bind := map[types.Object]ast.Expr{}
	i := 0
	for _, fl := range lit.Type.Params.List {
		if _, variadic := fl.Type.(*ast.Ellipsis); variadic {
			return nil
		}
		for _, n := range fl.Names {
			if i >= len(call.Args) {
				return nil
			}
			bind[x.Info.Defs[n]] = call.Args[i]
			i++
		}
	}
	if i != len(call.Args) {
		return nil
	}
	r := (&X{Info: x.Info, bind: bind}).subst(ret.Results[0])
	x.synth[e] = r
	return r
}

// lenSum rewrites a comparison of a sum of lengths with a constant into the equivalent boolean
// combination of emptiness tests: `len(a)+len(b) < 1` is `len(a) == 0 && len(b) == 0`,
// `len(a)+len(b) > 0` is `len(a) != 0 || len(b) != 0` (any operand order, any of the six
// comparison operators as far as it says "sum is zero" / "sum is not zero").
func (x *X) lenSum(e ast.Expr) ast.Expr {
	if r, ok := x.synth[e]; ok {
		return r
	}
	be, ok := ast.Unparen(e).(*ast.BinaryExpr)
	if !ok {
		return nil
	}
	var terms func(e ast.Expr) []ast.Expr
	terms = func(e ast.Expr) []ast.Expr {
		e = ast.Unparen(e)
		if b, ok := e.(*ast.BinaryExpr); ok && b.Op == token.ADD {
			l, r := terms(b.X), terms(b.Y)
			if l == nil || r == nil {
				return nil
			}
			return append(l, r...)
		}
		if call, ok := e.(*ast.CallExpr); ok && len(call.Args) == 1 {
			if id, ok := call.Fun.(*ast.Ident); ok && id.Name == "len" {
				return []ast.Expr{e}
			}
		}
		return nil
	}
	konst := func(e ast.Expr) (int64, bool) { return core.IntConst(x.Info, ast.Unparen(e)) }
	op, sum, k := be.Op, be.X, be.Y
	if _, isConst := konst(be.X); isConst {
		sum, k = be.Y, be.X
		op = map[token.Token]token.Token{token.LSS: token.GTR, token.GTR: token.LSS, token.LEQ: token.GEQ, token.GEQ: token.LEQ, token.EQL: token.EQL, token.NEQ: token.NEQ}[op]
	}
	ts := terms(sum)
	kv, isConst := konst(k)
	if len(ts) < 2 || !isConst {
		return nil
	}
	zero := false
	switch {
	case op == token.LSS && kv == 1, op == token.LEQ && kv == 0, op == token.EQL && kv == 0:
		zero = true
	case op == token.GTR && kv == 0, op == token.GEQ && kv == 1, op == token.NEQ && kv == 0:
	default:
		return nil
	}
	var out ast.Expr
	for _, t := range ts {
		cmp := ast.Expr(&ast.BinaryExpr{X: t, OpPos: be.OpPos, Op: token.NEQ, Y: &ast.BasicLit{ValuePos: be.OpPos, Kind: token.INT, Value: "0"}})
		joiner := token.LOR
		if zero {
			cmp.(*ast.BinaryExpr).Op = token.EQL
			joiner = token.LAND
		}
		if out == nil {
			out = cmp
		} else {
			out = &ast.BinaryExpr{X: out, OpPos: be.OpPos, Op: joiner, Y: cmp}
		}
	}
	x.synth[e] = out
	return out
}

// EdgeFacts returns the atoms implied by leaving b through successor succ.
func (x *X) EdgeFacts(b *cfg.Block, succ int) []cfgq.Fact {
	c := x.Cond(b)
	if c == nil {
		return nil
	}
	out := x.Facts(c, succ == 0)
	// facts implied by the outcome of same-package predicate helpers (cfgq), normalised
	seen := map[ast.Expr]bool{}
	for _, f := range out {
		seen[f.Expr] = true
	}
	for _, f := range x.G.EdgeFacts(b, succ) {
		for _, nf := range x.Facts(f.Expr, f.Val) {
			if !seen[nf.Expr] {
				seen[nf.Expr] = true
				out = append(out, nf)
			}
		}
	}
	return out
}

// Establishes reports whether the edge implies a fact accepted by match.
func (x *X) Establishes(b *cfg.Block, succ int, match func(cfgq.Fact) bool) bool {
	for _, f := range x.EdgeFacts(b, succ) {
		if match(f) {
			return true
		}
	}
	return false
}

// OnlyVia reports whether every path from `from` (the entry when from.B is
// nil) to target crosses an edge establishing a fact accepted by match.
func (x *X) OnlyVia(from cfgq.Point, target ast.Node, match func(cfgq.Fact) bool) (bool, []string) {
	w := x.G.Path(cfgq.Query{
		From:      from,
		After:     from.B != nil,
		Target:    func(n ast.Node) bool { return n == target },
		AvoidEdge: func(b *cfg.Block, s int) bool { return x.Establishes(b, s, match) },
	})
	return w == nil, w
}

// ---------------------------------------------------------------------------
// path enumeration (E9)

// Lit is one atomic branch decision on a path.
type Lit struct {
	Expr  ast.Expr
	Val   bool
	Loop  ast.Stmt                // innermost loop whose body contains the test
	Root  ast.Node                // body in which the locals of Expr are defined
	Subst func(ast.Expr) ast.Expr // maps an expression of that body to the analysed predicate's terms (parameters of an inlined helper replaced by the arguments)
}

// In returns the expression e of the literal's body in the terms of the analysed predicate.
func (l Lit) In(e ast.Expr) ast.Expr {
	if l.Subst == nil || e == nil {
		return e
	}
	return l.Subst(e)
}

// Ev is one event of a trace: an executed node, a branch literal, or the
// decision of a range loop (Enter: at least one more element / Done: exhausted).
type Ev struct {
	Node  ast.Node
	Lit   *Lit
	Enter ast.Stmt
	Done  ast.Stmt
	// Again: this Done follows an iteration that ran to the end of the loop body: "some iteration
	// took this path (its tests held for some element), later the loop ended". The positive
	// in-loop atoms of the path stay true.
	Again bool
}

// End kinds of a trace.
const (
	EndReturn = iota
	EndFall
	EndAbort
	EndBack // reached a block that is already on the path (loop back edge)
	EndStop // reached a block accepted by the stop predicate
)

// Trace is one acyclic path.
type Trace struct {
	Evs      []Ev
	End      int
	Ret      *ast.ReturnStmt
	EndBlock *cfg.Block
}

// Nodes returns the executed (non-condition) nodes of the trace.
func (t *Trace) Nodes() []ast.Node {
	var out []ast.Node
	for _, e := range t.Evs {
		if e.Node != nil {
			out = append(out, e.Node)
		}
	}
	return out
}

// Lits returns the branch literals of the trace.
func (t *Trace) Lits() []Lit {
	var out []Lit
	for _, e := range t.Evs {
		if e.Lit != nil {
			out = append(out, *e.Lit)
		}
	}
	return out
}

// shortCircuit enumerates the atom sequences with which e evaluates to val.
func (x *X) shortCircuit(e ast.Expr, val bool) [][]Lit {
	e = ast.Unparen(e)
	if x.Rewrite != nil {
		if r := x.Rewrite(e); r != nil {
			e = r
		}
	}
	if r := x.closureResult(e); r != nil {
		return x.shortCircuit(r, val)
	}
	product := func(a, b [][]Lit) [][]Lit {
		var out [][]Lit
		for _, p := range a {
			for _, q := range b {
				out = append(out, append(append([]Lit(nil), p...), q...))
			}
		}
		return out
	}
	switch c := e.(type) {
	case *ast.Ident:
		if rhs := x.Expand(c); rhs != nil {
			return x.shortCircuit(rhs, val)
		}
	case *ast.UnaryExpr:
		if c.Op == token.NOT {
			return x.shortCircuit(c.X, !val)
		}
	case *ast.BinaryExpr:
		switch c.Op {
		case token.LAND:
			if val {
				return product(x.shortCircuit(c.X, true), x.shortCircuit(c.Y, true))
			}
			return append(x.shortCircuit(c.X, false), product(x.shortCircuit(c.X, true), x.shortCircuit(c.Y, false))...)
		case token.LOR:
			if val {
				return append(x.shortCircuit(c.X, true), product(x.shortCircuit(c.X, false), x.shortCircuit(c.Y, true))...)
			}
			return product(x.shortCircuit(c.X, false), x.shortCircuit(c.Y, false))
		case token.EQL, token.NEQ:
			if bv, ok := BoolConst(x.Info, c.Y); ok {
				return x.shortCircuit(c.X, val == ((c.Op == token.EQL) == bv))
			}
			if bv, ok := BoolConst(x.Info, c.X); ok {
				return x.shortCircuit(c.Y, val == ((c.Op == token.EQL) == bv))
			}
		}
	}
	if r := x.lenSum(e); r != nil {
		return x.shortCircuit(r, val)
	}
	return [][]Lit{{{Expr: e, Val: val, Loop: x.LoopOf(e), Root: x.G.Body, Subst: x.subst}}}
}

// Traces enumerates the acyclic paths that start at node idx of block from.
// A path ends at an exit, at a block already on the path (EndBack) or at a
// block accepted by stop (EndStop). More than max paths is an error.
func (x *X) Traces(from *cfg.Block, idx int, stop func(*cfg.Block) bool, max int) ([]Trace, error) {
	var out []Trace
	var err error
	onPath := map[*cfg.Block]bool{}
	againDepth := 0
	var walk func(b *cfg.Block, i int, evs []Ev, first bool)
	emit := func(evs []Ev, end int, ret *ast.ReturnStmt, b *cfg.Block) {
		if len(out) >= max {
			err = fmt.Errorf("more than %d paths", max)
			return
		}
		out = append(out, Trace{Evs: append([]Ev(nil), evs...), End: end, Ret: ret, EndBlock: b})
	}
	walk = func(b *cfg.Block, i int, evs []Ev, first bool) {
		if err != nil {
			return
		}
		if !first && stop != nil && stop(b) {
			emit(evs, EndStop, nil, b)
			return
		}
		if onPath[b] {
			emit(evs, EndBack, nil, b)
			// a loop head reached again: the effects of this iteration (a flag set under an
			// element test) persist when the loop ends afterwards
			if len(b.Succs) == 2 && againDepth < 2 {
				isHead := b.Kind == cfg.KindRangeLoop
				if fs, isFor := b.Stmt.(*ast.ForStmt); isFor && b.Kind == cfg.KindForLoop && x.LoopDecisions {
					_ = fs
					isHead = true
				}
				// only an iteration that changed a boolean local can matter after the loop
				effect := false
				for k := len(evs) - 1; k >= 0 && evs[k].Enter != b.Stmt; k-- {
					switch st := evs[k].Node.(type) {
					case *ast.AssignStmt:
						for _, l := range st.Lhs {
							if BoolLocal(x.Info, l) != nil {
								effect = true
							}
						}
					}
				}
				if isHead && effect {
					againDepth++
					onPath[b.Succs[1]] = onPath[b.Succs[1]] // no-op: done block is entered normally
					walk(b.Succs[1], 0, append(append([]Ev(nil), evs...), Ev{Done: b.Stmt, Again: true}), false)
					againDepth--
				}
			}
			return
		}
		onPath[b] = true
		defer func() { onPath[b] = false }()
		cond := x.Cond(b)
		nodes := b.Nodes
		if cond != nil {
			nodes = nodes[:len(nodes)-1]
		}
		for ; i < len(nodes); i++ {
			evs = append(evs, Ev{Node: nodes[i]})
		}
		switch len(b.Succs) {
		case 0:
			switch x.G.Exit(b) {
			case cfgq.ExitRet:
				emit(evs, EndReturn, b.Nodes[len(b.Nodes)-1].(*ast.ReturnStmt), b)
			case cfgq.ExitAbort:
				emit(evs, EndAbort, nil, b)
			default:
				emit(evs, EndFall, nil, b)
			}
		case 1:
			walk(b.Succs[0], 0, evs, false)
		case 2:
			if fs, isFor := b.Stmt.(*ast.ForStmt); isFor && b.Kind == cfg.KindForLoop && x.LoopDecisions {
				// `for i := 0; i < len(l); i++`: one more element / exhausted, like a range loop
				walk(b.Succs[0], 0, append(append([]Ev(nil), evs...), Ev{Enter: fs}), false)
				walk(b.Succs[1], 0, append(append([]Ev(nil), evs...), Ev{Done: fs}), false)
				return
			}
			if cond != nil {
				for si, val := range []bool{true, false} {
					for _, alt := range x.shortCircuit(cond, val) {
						e2 := append([]Ev(nil), evs...)
						for k := range alt {
							e2 = append(e2, Ev{Lit: &alt[k]})
						}
						walk(b.Succs[si], 0, e2, false)
					}
				}
				return
			}
			if b.Kind == cfg.KindRangeLoop {
				walk(b.Succs[0], 0, append(append([]Ev(nil), evs...), Ev{Enter: b.Stmt}), false)
				walk(b.Succs[1], 0, append(append([]Ev(nil), evs...), Ev{Done: b.Stmt}), false)
				return
			}
			err = fmt.Errorf("two-way branch without a recognised condition (block %d, %s)", b.Index, b.Kind)
		default:
			err = fmt.Errorf("multi-way branch (select/type switch) in block %d", b.Index)
		}
	}
	walk(from, idx, nil, true)
	return out, err
}

// Find locates the control-flow node that contains n, by identity: in a view, the copies
// of an unrolled loop body share their source positions, so a lookup by position (cfgq.Graph.Find)
// may answer with another copy. Nodes that are not part of the graph's tree (synthesised
// expressions) fall back to the lookup by position.
func Find(g *cfgq.Graph, n ast.Node) (cfgq.Point, bool) {
	findMu.Lock()
	idx := findIdx[g]
	if idx == nil {
		idx = map[ast.Node]cfgq.Point{}
		for _, b := range g.CFG.Blocks {
			for i, m := range b.Nodes {
				pt := cfgq.Point{B: b, I: i}
				ast.Inspect(m, func(s ast.Node) bool {
					if s == nil {
						return false
					}
					if _, isLit := s.(*ast.FuncLit); isLit && s != m {
						if _, seen := idx[s]; !seen {
							idx[s] = pt
						}
						return false
					}
					if _, seen := idx[s]; !seen {
						idx[s] = pt
					}
					return true
				})
			}
		}
		findIdx[g] = idx
	}
	findMu.Unlock()
	if pt, ok := idx[n]; ok {
		return pt, true
	}
	return g.Find(n)
}

var (
	findMu  sync.Mutex
	findIdx = map[*cfgq.Graph]map[ast.Node]cfgq.Point{}
)
