// Package tt holds the helpers shared by the C06, C14 and C20 rule sets:
//
//   - branch facts that also understand `x == true`, tag-less and tagged
//     switches (engine E2 additions that cfgq does not have),
//   - enumeration of the acyclic paths of a small body with short-circuit
//     expansion of the branch conditions (engine E9: truth tables),
//   - comparison of the extracted decision table with a reference table,
//   - a path search that tracks the values of boolean locals (flag variables),
//   - resolution of a local to its single defining expression.
package tt

import (
	"fmt"
	"go/ast"
	"go/constant"
	"go/token"
	"go/types"
	"sort"
	"strings"

	"golang.org/x/tools/go/cfg"

	"rscheck/cfgq"
	"rscheck/core"
)

// X wraps the graph of one body.
type X struct {
	G      *cfgq.Graph
	Info   *types.Info
	caseOf map[ast.Expr]*ast.SwitchStmt
	synth  map[ast.Expr]ast.Expr
	loops  []ast.Stmt
}

// New indexes the switch statements and loops of g's body.
func New(g *cfgq.Graph) *X {
	x := &X{G: g, Info: g.Info, caseOf: map[ast.Expr]*ast.SwitchStmt{}, synth: map[ast.Expr]ast.Expr{}}
	core.Inspect(g.Body, func(n ast.Node) bool {
		switch s := n.(type) {
		case *ast.SwitchStmt:
			for _, cl := range s.Body.List {
				for _, e := range cl.(*ast.CaseClause).List {
					x.caseOf[e] = s
				}
			}
		case *ast.ForStmt:
			x.loops = append(x.loops, s)
		case *ast.RangeStmt:
			x.loops = append(x.loops, s)
		}
		return true
	})
	return x
}

// LoopOf returns the innermost loop statement whose body contains n.
func (x *X) LoopOf(n ast.Node) ast.Stmt {
	var best ast.Stmt
	for _, l := range x.loops {
		var body *ast.BlockStmt
		switch s := l.(type) {
		case *ast.ForStmt:
			body = s.Body
		case *ast.RangeStmt:
			body = s.Body
		}
		if body.Pos() <= n.Pos() && n.End() <= body.End() {
			if best == nil || best.Pos() <= l.Pos() {
				best = l
			}
		}
	}
	return best
}

// Cond returns the boolean condition that decides the two successors of b
// (if/for conditions, tag-less case expressions, `tag == value` synthesised for
// tagged switches); nil for range heads, type switches and everything else.
func (x *X) Cond(b *cfg.Block) ast.Expr {
	if len(b.Succs) != 2 || len(b.Nodes) == 0 || b.Kind == cfg.KindRangeLoop {
		return nil
	}
	e, ok := b.Nodes[len(b.Nodes)-1].(ast.Expr)
	if !ok {
		return nil
	}
	if b.Succs[0].Kind == cfg.KindSwitchCaseBody {
		sw := x.caseOf[e]
		if sw == nil {
			return nil
		}
		if sw.Tag == nil {
			return e
		}
		if s, ok := x.synth[e]; ok {
			return s
		}
		s := &ast.BinaryExpr{X: sw.Tag, OpPos: e.Pos(), Op: token.EQL, Y: e}
		x.synth[e] = s
		return s
	}
	return e
}

// BoolConst reports the value of a constant boolean expression.
func BoolConst(info *types.Info, e ast.Expr) (bool, bool) {
	tv, ok := info.Types[ast.Unparen(e)]
	if !ok || tv.Value == nil || tv.Value.Kind() != constant.Bool {
		return false, false
	}
	return constant.BoolVal(tv.Value), true
}

// Facts is cfgq.Facts plus the reduction of comparisons with true/false.
func (x *X) Facts(e ast.Expr, val bool) []cfgq.Fact {
	e = ast.Unparen(e)
	switch c := e.(type) {
	case *ast.UnaryExpr:
		if c.Op == token.NOT {
			return x.Facts(c.X, !val)
		}
	case *ast.BinaryExpr:
		switch c.Op {
		case token.LAND:
			if val {
				return append(x.Facts(c.X, true), x.Facts(c.Y, true)...)
			}
			return nil
		case token.LOR:
			if !val {
				return append(x.Facts(c.X, false), x.Facts(c.Y, false)...)
			}
			return nil
		case token.EQL, token.NEQ:
			if bv, ok := BoolConst(x.Info, c.Y); ok {
				return x.Facts(c.X, val == ((c.Op == token.EQL) == bv))
			}
			if bv, ok := BoolConst(x.Info, c.X); ok {
				return x.Facts(c.Y, val == ((c.Op == token.EQL) == bv))
			}
		}
	}
	return []cfgq.Fact{{Expr: e, Val: val}}
}

// EdgeFacts returns the atoms implied by leaving b through successor succ.
func (x *X) EdgeFacts(b *cfg.Block, succ int) []cfgq.Fact {
	c := x.Cond(b)
	if c == nil {
		return nil
	}
	return x.Facts(c, succ == 0)
}

// Establishes reports whether the edge implies a fact accepted by match.
func (x *X) Establishes(b *cfg.Block, succ int, match func(cfgq.Fact) bool) bool {
	for _, f := range x.EdgeFacts(b, succ) {
		if match(f) {
			return true
		}
	}
	return false
}

// OnlyVia reports whether every path from `from` (the entry when from.B is
// nil) to target crosses an edge establishing a fact accepted by match.
func (x *X) OnlyVia(from cfgq.Point, target ast.Node, match func(cfgq.Fact) bool) (bool, []string) {
	w := x.G.Path(cfgq.Query{
		From:      from,
		After:     from.B != nil,
		Target:    func(n ast.Node) bool { return n == target },
		AvoidEdge: func(b *cfg.Block, s int) bool { return x.Establishes(b, s, match) },
	})
	return w == nil, w
}

// ---------------------------------------------------------------------------
// path enumeration (E9)

// Lit is one atomic branch decision on a path.
type Lit struct {
	Expr ast.Expr
	Val  bool
	Loop ast.Stmt // innermost loop whose body contains the test
}

// Ev is one event of a trace: an executed node, a branch literal, or the
// decision of a range loop (Enter: at least one more element / Done: exhausted).
type Ev struct {
	Node  ast.Node
	Lit   *Lit
	Enter ast.Stmt
	Done  ast.Stmt
}

// End kinds of a trace.
const (
	EndReturn = iota
	EndFall
	EndAbort
	EndBack // reached a block that is already on the path (loop back edge)
	EndStop // reached a block accepted by the stop predicate
)

// Trace is one acyclic path.
type Trace struct {
	Evs      []Ev
	End      int
	Ret      *ast.ReturnStmt
	EndBlock *cfg.Block
}

// Nodes returns the executed (non-condition) nodes of the trace.
func (t *Trace) Nodes() []ast.Node {
	var out []ast.Node
	for _, e := range t.Evs {
		if e.Node != nil {
			out = append(out, e.Node)
		}
	}
	return out
}

// Lits returns the branch literals of the trace.
func (t *Trace) Lits() []Lit {
	var out []Lit
	for _, e := range t.Evs {
		if e.Lit != nil {
			out = append(out, *e.Lit)
		}
	}
	return out
}

// shortCircuit enumerates the atom sequences with which e evaluates to val.
func (x *X) shortCircuit(e ast.Expr, val bool) [][]Lit {
	e = ast.Unparen(e)
	product := func(a, b [][]Lit) [][]Lit {
		var out [][]Lit
		for _, p := range a {
			for _, q := range b {
				out = append(out, append(append([]Lit(nil), p...), q...))
			}
		}
		return out
	}
	switch c := e.(type) {
	case *ast.UnaryExpr:
		if c.Op == token.NOT {
			return x.shortCircuit(c.X, !val)
		}
	case *ast.BinaryExpr:
		switch c.Op {
		case token.LAND:
			if val {
				return product(x.shortCircuit(c.X, true), x.shortCircuit(c.Y, true))
			}
			return append(x.shortCircuit(c.X, false), product(x.shortCircuit(c.X, true), x.shortCircuit(c.Y, false))...)
		case token.LOR:
			if val {
				return append(x.shortCircuit(c.X, true), product(x.shortCircuit(c.X, false), x.shortCircuit(c.Y, true))...)
			}
			return product(x.shortCircuit(c.X, false), x.shortCircuit(c.Y, false))
		case token.EQL, token.NEQ:
			if bv, ok := BoolConst(x.Info, c.Y); ok {
				return x.shortCircuit(c.X, val == ((c.Op == token.EQL) == bv))
			}
			if bv, ok := BoolConst(x.Info, c.X); ok {
				return x.shortCircuit(c.Y, val == ((c.Op == token.EQL) == bv))
			}
		}
	}
	return [][]Lit{{{Expr: e, Val: val, Loop: x.LoopOf(e)}}}
}

// Traces enumerates the acyclic paths that start at node idx of block from.
// A path ends at an exit, at a block already on the path (EndBack) or at a
// block accepted by stop (EndStop). More than max paths is an error.
func (x *X) Traces(from *cfg.Block, idx int, stop func(*cfg.Block) bool, max int) ([]Trace, error) {
	var out []Trace
	var err error
	onPath := map[*cfg.Block]bool{}
	var walk func(b *cfg.Block, i int, evs []Ev, first bool)
	emit := func(evs []Ev, end int, ret *ast.ReturnStmt, b *cfg.Block) {
		if len(out) >= max {
			err = fmt.Errorf("more than %d paths", max)
			return
		}
		out = append(out, Trace{Evs: append([]Ev(nil), evs...), End: end, Ret: ret, EndBlock: b})
	}
	walk = func(b *cfg.Block, i int, evs []Ev, first bool) {
		if err != nil {
			return
		}
		if !first && stop != nil && stop(b) {
			emit(evs, EndStop, nil, b)
			return
		}
		if onPath[b] {
			emit(evs, EndBack, nil, b)
			return
		}
		onPath[b] = true
		defer func() { onPath[b] = false }()
		cond := x.Cond(b)
		nodes := b.Nodes
		if cond != nil {
			nodes = nodes[:len(nodes)-1]
		}
		for ; i < len(nodes); i++ {
			evs = append(evs, Ev{Node: nodes[i]})
		}
		switch len(b.Succs) {
		case 0:
			switch x.G.Exit(b) {
			case cfgq.ExitRet:
				emit(evs, EndReturn, b.Nodes[len(b.Nodes)-1].(*ast.ReturnStmt), b)
			case cfgq.ExitAbort:
				emit(evs, EndAbort, nil, b)
			default:
				emit(evs, EndFall, nil, b)
			}
		case 1:
			walk(b.Succs[0], 0, evs, false)
		case 2:
			if cond != nil {
				for si, val := range []bool{true, false} {
					for _, alt := range x.shortCircuit(cond, val) {
						e2 := append([]Ev(nil), evs...)
						for k := range alt {
							e2 = append(e2, Ev{Lit: &alt[k]})
						}
						walk(b.Succs[si], 0, e2, false)
					}
				}
				return
			}
			if b.Kind == cfg.KindRangeLoop {
				walk(b.Succs[0], 0, append(append([]Ev(nil), evs...), Ev{Enter: b.Stmt}), false)
				walk(b.Succs[1], 0, append(append([]Ev(nil), evs...), Ev{Done: b.Stmt}), false)
				return
			}
			err = fmt.Errorf("two-way branch without a recognised condition (block %d, %s)", b.Index, b.Kind)
		default:
			err = fmt.Errorf("multi-way branch (select/type switch) in block %d", b.Index)
		}
	}
	walk(from, idx, nil, true)
	return out, err
}

// ---------------------------------------------------------------------------
// decision tables

// Row is one path of a predicate: the atoms it decided and its outcome.
type Row struct {
	Lits map[string]bool
	Out  string
}

func (r Row) String() string {
	var ks []string
	for k := range r.Lits {
		ks = append(ks, k)
	}
	sort.Strings(ks)
	var s []string
	for _, k := range ks {
		if r.Lits[k] {
			s = append(s, k)
		} else {
			s = append(s, "!"+k)
		}
	}
	return strings.Join(s, " & ") + " -> " + r.Out
}

// Classifier maps a branch literal to a named atom; pol=false means that the
// literal is the negation of the atom. ok=false: the test is not recognised.
type Classifier func(l Lit) (atom string, pol bool, ok bool)

// Table turns the returning traces of a predicate into rows. result is the
// index of the boolean result. Tests inside a loop are existential: a path that
// leaves the function from inside the loop keeps its positive in-loop atoms, a
// path on which the loop runs to completion has all those atoms false.
func (x *X) Table(traces []Trace, result int, cls Classifier) ([]Row, error) {
	loopAtoms := map[ast.Stmt]map[string]bool{}
	type pre struct {
		lits map[string]bool
		done []ast.Stmt
		out  string
		dead bool
	}
	var pres []*pre
	set := func(p *pre, a string, v bool) {
		if old, ok := p.lits[a]; ok && old != v {
			p.dead = true
		}
		p.lits[a] = v
	}
	addLits := func(p *pre, lits []Lit) error {
		for _, l := range lits {
			a, pol, ok := cls(l)
			if !ok {
				return fmt.Errorf("unrecognised test `%s`", core.NodeString(x.G.Fset, l.Expr))
			}
			v := l.Val == pol
			if l.Loop != nil {
				if !v {
					continue
				}
				if loopAtoms[l.Loop] == nil {
					loopAtoms[l.Loop] = map[string]bool{}
				}
				loopAtoms[l.Loop][a] = true
			}
			set(p, a, v)
		}
		return nil
	}
	for ti := range traces {
		t := &traces[ti]
		if t.End != EndReturn {
			if t.End == EndBack || t.End == EndAbort {
				continue
			}
			return nil, fmt.Errorf("a path leaves the predicate without a return statement")
		}
		p := &pre{lits: map[string]bool{}}
		if err := addLits(p, t.Lits()); err != nil {
			return nil, err
		}
		for _, e := range t.Evs {
			if e.Done != nil {
				p.done = append(p.done, e.Done)
			}
		}
		if result >= len(t.Ret.Results) {
			return nil, fmt.Errorf("return statement without result %d", result)
		}
		res := t.Ret.Results[result]
		if bv, ok := BoolConst(x.Info, res); ok {
			p.out = fmt.Sprint(bv)
			pres = append(pres, p)
			continue
		}
		for _, val := range []bool{true, false} {
			for _, alt := range x.shortCircuit(res, val) {
				q := &pre{lits: map[string]bool{}, done: p.done, out: fmt.Sprint(val), dead: p.dead}
				for k, v := range p.lits {
					q.lits[k] = v
				}
				for k := range alt {
					alt[k].Loop = nil
				}
				if err := addLits(q, alt); err != nil {
					return nil, err
				}
				pres = append(pres, q)
			}
		}
	}
	var rows []Row
	for _, p := range pres {
		for _, l := range p.done {
			for a := range loopAtoms[l] {
				set(p, a, false)
			}
		}
		if !p.dead {
			rows = append(rows, Row{Lits: p.lits, Out: p.out})
		}
	}
	return rows, nil
}

// Atoms returns the sorted atom names used by rows.
func Atoms(rows []Row) []string {
	m := map[string]bool{}
	for _, r := range rows {
		for a := range r.Lits {
			m[a] = true
		}
	}
	var out []string
	for a := range m {
		out = append(out, a)
	}
	sort.Strings(out)
	return out
}

// Want is one row of a reference table: for every feasible valuation that
// extends When the predicate must answer Out.
type Want struct {
	Name  string
	When  map[string]bool
	Out   string
	Input string // the concrete input this row stands for (for messages)
}

// Verdict of one reference row.
type Verdict struct {
	Want      Want
	OK        bool
	Undecided bool
	Witness   string
}

// Compare evaluates rows on every feasible valuation of universe.
func Compare(rows []Row, universe []string, feasible func(map[string]bool) bool, wants []Want) []Verdict {
	var out []Verdict
	n := len(universe)
	for _, w := range wants {
		v := Verdict{Want: w, OK: true}
		for m := 0; m < 1<<n && v.OK && !v.Undecided; m++ {
			as := map[string]bool{}
			for i, a := range universe {
				as[a] = m&(1<<i) != 0
			}
			ext := true
			for a, val := range w.When {
				if as[a] != val {
					ext = false
				}
			}
			if !ext || (feasible != nil && !feasible(as)) {
				continue
			}
			matched := 0
			for _, r := range rows {
				ok := true
				for a, val := range r.Lits {
					if as[a] != val {
						ok = false
					}
				}
				if !ok {
					continue
				}
				matched++
				if r.Out != w.Out {
					v.OK = false
					v.Witness = fmt.Sprintf("with %s the code takes the path [%s], expected %s", Valuation(as), r, w.Out)
				}
			}
			if matched == 0 {
				v.Undecided = true
				v.Witness = "no extracted path covers " + Valuation(as)
			}
		}
		out = append(out, v)
	}
	return out
}

// Valuation prints a valuation.
func Valuation(as map[string]bool) string {
	var ks []string
	for k := range as {
		ks = append(ks, k)
	}
	sort.Strings(ks)
	var s []string
	for _, k := range ks {
		s = append(s, fmt.Sprintf("%s=%v", k, as[k]))
	}
	return "{" + strings.Join(s, ", ") + "}"
}

// ---------------------------------------------------------------------------
// flag-tracking reachability

// Env is the known value of boolean locals.
type Env map[types.Object]bool

func (e Env) key() string {
	var s []string
	for o, v := range e {
		s = append(s, fmt.Sprintf("%s@%d=%v", o.Name(), o.Pos(), v))
	}
	sort.Strings(s)
	return strings.Join(s, ",")
}

func (e Env) clone() Env {
	c := Env{}
	for k, v := range e {
		c[k] = v
	}
	return c
}

func (x *X) boolLocal(e ast.Expr) types.Object { return BoolLocal(x.Info, e) }

// BoolLocal returns the boolean local variable denoted by e, or nil.
func BoolLocal(info *types.Info, e ast.Expr) types.Object {
	id, ok := ast.Unparen(e).(*ast.Ident)
	if !ok {
		return nil
	}
	v, ok := core.ObjOf(info, id).(*types.Var)
	if !ok || v.IsField() || v.Pkg() == nil || v.Parent() == v.Pkg().Scope() {
		return nil
	}
	if b, ok := v.Type().Underlying().(*types.Basic); !ok || b.Kind() != types.Bool {
		return nil
	}
	return v
}

// eval3 evaluates cond under env: 1 true, -1 false, 0 unknown.
func (x *X) eval3(e ast.Expr, env Env) int {
	e = ast.Unparen(e)
	if bv, ok := BoolConst(x.Info, e); ok {
		if bv {
			return 1
		}
		return -1
	}
	if o := x.boolLocal(e); o != nil {
		if v, ok := env[o]; ok {
			if v {
				return 1
			}
			return -1
		}
		return 0
	}
	switch c := e.(type) {
	case *ast.UnaryExpr:
		if c.Op == token.NOT {
			return -x.eval3(c.X, env)
		}
	case *ast.BinaryExpr:
		a, b := x.eval3(c.X, env), x.eval3(c.Y, env)
		switch c.Op {
		case token.LAND:
			if a == -1 || b == -1 {
				return -1
			}
			if a == 1 && b == 1 {
				return 1
			}
		case token.LOR:
			if a == 1 || b == 1 {
				return 1
			}
			if a == -1 && b == -1 {
				return -1
			}
		case token.EQL, token.NEQ:
			if a != 0 && b != 0 {
				if (a == b) == (c.Op == token.EQL) {
					return 1
				}
				return -1
			}
		}
	}
	return 0
}

// step applies the effect of executing node n on env.
func (x *X) step(n ast.Node, env Env) {
	assign := func(l ast.Expr, r ast.Expr) {
		o := x.boolLocal(l)
		if o == nil {
			return
		}
		if r == nil {
			delete(env, o)
			return
		}
		switch x.eval3(r, env) {
		case 1:
			env[o] = true
		case -1:
			env[o] = false
		default:
			delete(env, o)
		}
	}
	switch s := n.(type) {
	case *ast.AssignStmt:
		for i, l := range s.Lhs {
			if len(s.Lhs) == len(s.Rhs) && (s.Tok == token.ASSIGN || s.Tok == token.DEFINE) {
				assign(l, s.Rhs[i])
			} else {
				assign(l, nil)
			}
		}
	case *ast.DeclStmt:
		gd, ok := s.Decl.(*ast.GenDecl)
		if !ok {
			return
		}
		for _, sp := range gd.Specs {
			vs, ok := sp.(*ast.ValueSpec)
			if !ok {
				continue
			}
			for i, name := range vs.Names {
				o := x.boolLocal(name)
				if o == nil {
					continue
				}
				switch {
				case len(vs.Values) == 0:
					env[o] = false
				case len(vs.Values) == len(vs.Names):
					assign(name, vs.Values[i])
				default:
					delete(env, o)
				}
			}
		}
	}
}

// ReachQuery is a flag-tracking path search.
type ReachQuery struct {
	From     cfgq.Point // search starts after this point
	FromSucc int        // when >= 0: start on successor FromSucc of From.B instead
	Env      Env
	Target   func(ast.Node) bool
	Cut      func(ast.Node) bool               // the path ends (without success) before executing such a node
	CutBlock func(*cfg.Block) bool             // the path ends when it enters such a block
	CutEdge  func(b *cfg.Block, succ int) bool // such an edge is not followed
}

// Reach returns a witness path to a target node on which the tracked boolean
// locals never contradict the branch decisions taken, or nil.
func (x *X) Reach(q ReachQuery) []string {
	type state struct {
		b    *cfg.Block
		i    int
		env  Env
		prev *state
		note string
	}
	seen := map[string]bool{}
	var queue []*state
	push := func(b *cfg.Block, i int, env Env, prev *state, note string) {
		k := fmt.Sprintf("%d/%d/%s", b.Index, i, env.key())
		if seen[k] {
			return
		}
		seen[k] = true
		queue = append(queue, &state{b, i, env, prev, note})
	}
	env0 := q.Env.clone()
	if q.FromSucc >= 0 {
		for _, f := range x.EdgeFacts(q.From.B, q.FromSucc) {
			if o := x.boolLocal(f.Expr); o != nil {
				env0[o] = f.Val
			}
		}
		push(q.From.B.Succs[q.FromSucc], 0, env0, nil, "")
	} else {
		push(q.From.B, q.From.I+1, env0, nil, "")
	}
	witness := func(s *state, last ast.Node) []string {
		var chain []*state
		for y := s; y != nil; y = y.prev {
			chain = append([]*state{y}, chain...)
		}
		var out []string
		for _, y := range chain {
			d := fmt.Sprintf("block %d (%s)", y.b.Index, y.b.Kind)
			if y.i < len(y.b.Nodes) {
				d += fmt.Sprintf(" L%d: %s", x.G.Fset.Position(y.b.Nodes[y.i].Pos()).Line, core.NodeString(x.G.Fset, y.b.Nodes[y.i]))
			}
			if y.note != "" {
				d += "  [" + y.note + "]"
			}
			out = append(out, d)
		}
		out = append(out, fmt.Sprintf("reaches L%d: %s", x.G.Fset.Position(last.Pos()).Line, core.NodeString(x.G.Fset, last)))
		return out
	}
	for len(queue) > 0 && len(seen) < 50000 {
		s := queue[0]
		queue = queue[1:]
		if q.CutBlock != nil && s.prev != nil && q.CutBlock(s.b) {
			continue
		}
		env := s.env.clone()
		cond := x.Cond(s.b)
		cut := false
		for i := s.i; i < len(s.b.Nodes); i++ {
			n := s.b.Nodes[i]
			if q.Target != nil && q.Target(n) {
				return witness(s, n)
			}
			if q.Cut != nil && q.Cut(n) {
				cut = true
				break
			}
			if cond != nil && i == len(s.b.Nodes)-1 {
				break
			}
			x.step(n, env)
		}
		if cut {
			continue
		}
		for si, t := range s.b.Succs {
			if q.CutEdge != nil && q.CutEdge(s.b, si) {
				continue
			}
			e2 := env
			note := ""
			if cond != nil && len(s.b.Succs) == 2 {
				v := x.eval3(cond, env)
				if v == 1 && si == 1 || v == -1 && si == 0 {
					continue
				}
				e2 = env.clone()
				for _, f := range x.Facts(cond, si == 0) {
					if o := x.boolLocal(f.Expr); o != nil {
						e2[o] = f.Val
					}
				}
				note = fmt.Sprintf("%s is %v", core.NodeString(x.G.Fset, cond), si == 0)
			}
			push(t, 0, e2, s, note)
		}
	}
	return nil
}

// ---------------------------------------------------------------------------
// definitions of locals

// Def is a definition site of a local variable.
type Def struct {
	Rhs   ast.Expr       // assigned expression (the call for a multi-value assignment; the ranged expression for a range variable)
	Index int            // result index for a multi-value assignment, -1 otherwise
	Range *ast.RangeStmt // set when the variable is a range key/value
	IsKey bool
	Stmt  ast.Node
}

// DefsOf lists every definition/assignment of obj under root (closures included).
func DefsOf(info *types.Info, root ast.Node, obj types.Object) []Def {
	var out []Def
	is := func(e ast.Expr) bool {
		id, ok := ast.Unparen(e).(*ast.Ident)
		return ok && obj != nil && core.ObjOf(info, id) == obj
	}
	ast.Inspect(root, func(n ast.Node) bool {
		switch s := n.(type) {
		case *ast.AssignStmt:
			for i, l := range s.Lhs {
				if !is(l) {
					continue
				}
				switch {
				case s.Tok != token.ASSIGN && s.Tok != token.DEFINE:
					out = append(out, Def{Index: -1, Stmt: s})
				case len(s.Lhs) == len(s.Rhs):
					out = append(out, Def{Rhs: s.Rhs[i], Index: -1, Stmt: s})
				default:
					out = append(out, Def{Rhs: s.Rhs[0], Index: i, Stmt: s})
				}
			}
		case *ast.ValueSpec:
			for i, name := range s.Names {
				if !is(name) {
					continue
				}
				switch {
				case len(s.Values) == len(s.Names):
					out = append(out, Def{Rhs: s.Values[i], Index: -1, Stmt: s})
				case len(s.Values) == 1:
					out = append(out, Def{Rhs: s.Values[0], Index: i, Stmt: s})
				default:
					out = append(out, Def{Index: -1, Stmt: s})
				}
			}
		case *ast.RangeStmt:
			if s.Key != nil && is(s.Key) {
				out = append(out, Def{Rhs: s.X, Index: -1, Range: s, IsKey: true, Stmt: s})
			}
			if s.Value != nil && is(s.Value) {
				out = append(out, Def{Rhs: s.X, Index: -1, Range: s, Stmt: s})
			}
		case *ast.IncDecStmt:
			if is(s.X) {
				out = append(out, Def{Index: -1, Stmt: s})
			}
		}
		return true
	})
	return out
}

// SingleDef returns the only definition of the local denoted by e.
func SingleDef(info *types.Info, root ast.Node, e ast.Expr) (Def, bool) {
	id, ok := ast.Unparen(e).(*ast.Ident)
	if !ok {
		return Def{}, false
	}
	v, ok := core.ObjOf(info, id).(*types.Var)
	if !ok || v.IsField() || v.Pkg() == nil || v.Parent() == v.Pkg().Scope() {
		return Def{}, false
	}
	ds := DefsOf(info, root, v)
	if len(ds) != 1 {
		return Def{}, false
	}
	return ds[0], true
}

// Resolve follows single definitions of locals (1:1 assignments only) up to
// depth steps and returns the defining expression.
func Resolve(info *types.Info, root ast.Node, e ast.Expr, depth int) ast.Expr {
	for ; depth > 0; depth-- {
		d, ok := SingleDef(info, root, e)
		if !ok || d.Rhs == nil || d.Index != -1 || d.Range != nil {
			break
		}
		e = d.Rhs
	}
	return ast.Unparen(e)
}

// MentionsResolved reports whether e, or the single definition of a local
// mentioned in e (transitively, depth steps), mentions obj.
func MentionsResolved(info *types.Info, root ast.Node, e ast.Node, obj types.Object, depth int) bool {
	if core.Mentions(info, e, obj) {
		return true
	}
	if depth == 0 {
		return false
	}
	found := false
	ast.Inspect(e, func(n ast.Node) bool {
		id, ok := n.(*ast.Ident)
		if !ok || found {
			return !found
		}
		if d, ok := SingleDef(info, root, id); ok && d.Rhs != nil {
			if MentionsResolved(info, root, d.Rhs, obj, depth-1) {
				found = true
			}
		}
		return true
	})
	return found
}

// IsConfField reports whether e selects field `field` of the configuration
// singleton (conf.Options.<field>); field "" accepts any and returns its name.
func IsConfField(info *types.Info, e ast.Expr, field string) (string, bool) {
	sel, ok := ast.Unparen(e).(*ast.SelectorExpr)
	if !ok {
		return "", false
	}
	f := core.FieldOf(info, sel)
	if f == nil || f.Pkg() == nil || f.Pkg().Path() != core.Module+"/redis-shake/configure" {
		return "", false
	}
	if field != "" && f.Name() != field {
		return "", false
	}
	return f.Name(), true
}

// Bodies lists the body of fn and of all function literals nested in it.
type Body struct {
	Name string
	Root ast.Node // *ast.BlockStmt of the declaration or *ast.FuncLit
	G    *cfgq.Graph
}

// BodiesOf returns the declaration body and every nested literal with graphs.
func BodiesOf(p *core.Program, fn *core.Fn) []Body {
	out := []Body{{Name: fn.Decl.Name.Name, Root: fn.Decl.Body, G: cfgq.Of(p, fn)}}
	k := 0
	ast.Inspect(fn.Decl.Body, func(n ast.Node) bool {
		if fl, ok := n.(*ast.FuncLit); ok {
			k++
			out = append(out, Body{Name: fmt.Sprintf("%s$%d", fn.Decl.Name.Name, k), Root: fl, G: cfgq.OfLit(p, fn.Pkg.TypesInfo, fl)})
		}
		return true
	})
	return out
}

// BreaksLoop reports whether the unlabelled `break` br, found under the body of
// a loop, leaves that loop (and not a nested switch, select or loop). A
// labelled break is assumed to leave it.
func BreaksLoop(body *ast.BlockStmt, br *ast.BranchStmt) bool {
	if br.Label != nil {
		return true
	}
	path := core.PathTo(body, br)
	for _, n := range path {
		switch n.(type) {
		case *ast.SwitchStmt, *ast.TypeSwitchStmt, *ast.SelectStmt, *ast.ForStmt, *ast.RangeStmt:
			return false
		}
	}
	return len(path) > 0
}
