package tt

import (
	"go/ast"
	"go/token"
	"go/types"

	"rscheck/core"
)

// Expression helpers. A same-package function or method whose body is the single statement
// `return <expr>` (one result) is written out where it is called, wherever that is - as an operand,
// an argument, a condition - and however often: the returned expression is copied with the
// parameters replaced by the arguments. The arguments must be free of effects and cheap to repeat
// (identifiers, field selections, index expressions over such, literals, conversions), so that the
// copy means what the call meant. `hashValue(reply, i)` becomes
// `utils.Bytes2String(reply[i+1].([]byte))`, `checkpointField(src, x)` becomes `src + "-" + x`.
func inlineExprHelpers(p *core.Program, info *types.Info, body *ast.BlockStmt, opaque func(*types.Func) bool, self *ast.BlockStmt, onCopy func(old, new ast.Node, tr map[ast.Node]ast.Node)) *ast.BlockStmt {
	simple := func(e ast.Expr) bool {
		ok := true
		ast.Inspect(e, func(n ast.Node) bool {
			switch v := n.(type) {
			case *ast.CallExpr:
				if tv, isType := info.Types[v.Fun]; !isType || !tv.IsType() {
					if id, isId := v.Fun.(*ast.Ident); !isId || id.Name != "len" {
						ok = false
					}
				}
			case *ast.FuncLit, *ast.CompositeLit:
				ok = false
			case *ast.UnaryExpr:
				if v.Op == token.ARROW || v.Op == token.AND {
					ok = false
				}
			}
			return ok
		})
		return ok
	}
	type helper struct {
		params []types.Object
		recv   types.Object
		ret    ast.Expr
	}
	memo := map[*types.Func]*helper{}
	helperOf := func(f *types.Func) *helper {
		if h, ok := memo[f]; ok {
			return h
		}
		memo[f] = nil
		if f == nil || opaque != nil && opaque(f) {
			return nil
		}
		fn := p.FnOf(f)
		if fn == nil || fn.Decl.Body == nil || fn.Pkg.TypesInfo != info || fn.Decl.Body == self || len(fn.Decl.Body.List) != 1 {
			return nil
		}
		sig := f.Type().(*types.Signature)
		if sig.Variadic() || sig.Results().Len() != 1 {
			return nil
		}
		ret, ok := fn.Decl.Body.List[0].(*ast.ReturnStmt)
		if !ok || len(ret.Results) != 1 {
			return nil
		}
		// the returned expression itself has no statements-worth of effects we could reorder: any
		// expression is fine, it is evaluated where the call was
		h := &helper{ret: ret.Results[0]}
		for _, fl := range fn.Decl.Type.Params.List {
			if len(fl.Names) == 0 {
				return nil
			}
			for _, n := range fl.Names {
				h.params = append(h.params, info.Defs[n])
			}
		}
		if fn.Decl.Recv != nil && len(fn.Decl.Recv.List) == 1 {
			if len(fn.Decl.Recv.List[0].Names) == 1 {
				h.recv = info.Defs[fn.Decl.Recv.List[0].Names[0]]
			}
		}
		// a parameter that is written or address-taken inside the expression (a closure) is not a value name
		bad := false
		ast.Inspect(h.ret, func(n ast.Node) bool {
			if _, isLit := n.(*ast.FuncLit); isLit {
				bad = true
			}
			return !bad
		})
		if bad {
			return nil
		}
		memo[f] = h
		return h
	}
	found := false
	ast.Inspect(body, func(n ast.Node) bool {
		if call, ok := n.(*ast.CallExpr); ok && !found {
			if h := helperOf(core.CalleeFunc(info, call)); h != nil {
				found = true
			}
		}
		return !found
	})
	if !found {
		return body
	}
	var all []pair
	var expand func(call *ast.CallExpr, depth int) ast.Expr
	var mk func(depth int) *cloner
	mk = func(depth int) *cloner {
		cl := &cloner{info: info}
		cl.repl = func(e ast.Expr) ast.Expr {
			if call, ok := e.(*ast.CallExpr); ok && depth > 0 {
				if r := expand(call, depth); r != nil {
					return r
				}
			}
			return nil
		}
		return cl
	}
	expand = func(call *ast.CallExpr, depth int) ast.Expr {
		f := core.CalleeFunc(info, call)
		h := helperOf(f)
		if h == nil || call.Ellipsis.IsValid() || len(call.Args) != len(h.params) {
			return nil
		}
		bind := map[types.Object]ast.Expr{}
		for i, a := range call.Args {
			if !simple(a) {
				return nil
			}
			if h.params[i] != nil {
				bind[h.params[i]] = a
			}
		}
		if h.recv != nil {
			sel, ok := ast.Unparen(call.Fun).(*ast.SelectorExpr)
			if !ok || !simple(sel.X) {
				return nil
			}
			// only when the receiver expression has the receiver's type (no implicit & or *)
			if at := info.TypeOf(sel.X); at == nil || !types.Identical(at, h.recv.Type()) {
				return nil
			}
			bind[h.recv] = sel.X
		}
		// the arguments, themselves written out
		args := map[types.Object]ast.Expr{}
		for o, a := range bind {
			ac := mk(depth - 1)
			args[o] = ac.clone(a).(ast.Expr)
			all = append(all, ac.pairs...)
		}
		bc := mk(depth - 1)
		inner := bc.repl
		bc.repl = func(e ast.Expr) ast.Expr {
			if id, ok := e.(*ast.Ident); ok {
				if a, bound := args[info.Uses[id]]; bound {
					c2 := &cloner{info: info}
					r := c2.clone(a).(ast.Expr)
					all = append(all, c2.pairs...)
					return moveTo(r, call.Pos()).(ast.Expr)
				}
			}
			return inner(e)
		}
		out := bc.clone(h.ret).(ast.Expr)
		all = append(all, bc.pairs...)
		moveTo(out, call.Pos())
		par := &ast.ParenExpr{Lparen: call.Pos(), X: out, Rparen: call.Pos()}
		if tv, ok := info.Types[call]; ok {
			info.Types[par] = tv
		}
		return par
	}
	top := mk(3)
	nb := top.clone(body).(*ast.BlockStmt)
	top.pairs = append(top.pairs, all...)
	top.transfer(onCopy)
	return nb
}
