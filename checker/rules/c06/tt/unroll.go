package tt

import (
	"fmt"
	"go/ast"
	"go/token"
	"go/types"
	"reflect"

	"rscheck/core"
)

// Table-driven dispatch. A `for _, m := range T` whose T is a fixed table
//
//   - a composite literal written in place,
//   - a local assigned once with such a literal and only read afterwards,
//   - an unexported package-level variable initialised with such a literal and
//     only read (ranged over, indexed, measured) in its package,
//
// is the sequence of its rows: the view replaces the loop by one copy of the
// body per row, with m (and m.f for a row that is a struct literal) replaced by
// the row's expression. `continue` becomes a jump to the end of the copy,
// `break` a jump behind the last copy. The copies are new nodes: their type
// information is entered into the package's types.Info (variables defined in
// the body get one fresh object per copy), so every engine works on them as on
// code written by hand. Nothing of the original tree is modified: the
// statements on the way to an unrolled loop are rebuilt.

const maxRows = 8

type unroller struct {
	p      *core.Program
	info   *types.Info
	root   ast.Node // the view's body (for the definitions of locals)
	n      int
	onCopy func(old, new ast.Node, tr map[ast.Node]ast.Node)
	tables map[types.Object][]ast.Expr
	known  map[types.Object]bool
}

func (u *unroller) block(b *ast.BlockStmt) *ast.BlockStmt {
	if b == nil {
		return nil
	}
	list, changed := u.list(b.List)
	if !changed {
		return b
	}
	return &ast.BlockStmt{Lbrace: b.Lbrace, List: list, Rbrace: b.Rbrace}
}

func (u *unroller) list(ss []ast.Stmt) ([]ast.Stmt, bool) {
	var out []ast.Stmt
	changed := false
	for i, s := range ss {
		ns := u.stmt(s)
		if ns != s && !changed {
			changed = true
			out = append(out, ss[:i]...)
		}
		if changed {
			out = append(out, ns)
		}
	}
	if !changed {
		return ss, false
	}
	return out, true
}

func (u *unroller) stmt(s ast.Stmt) ast.Stmt {
	switch v := s.(type) {
	case *ast.BlockStmt:
		return u.block(v)
	case *ast.IfStmt:
		nb := u.block(v.Body)
		var ne ast.Stmt
		if v.Else != nil {
			ne = u.stmt(v.Else)
		}
		if nb == v.Body && ne == v.Else {
			return s
		}
		c := *v
		c.Body, c.Else = nb, ne
		return &c
	case *ast.ForStmt:
		nb := u.block(v.Body)
		if nb == v.Body {
			return s
		}
		c := *v
		c.Body = nb
		return &c
	case *ast.RangeStmt:
		nb := u.block(v.Body)
		r := v
		if nb != v.Body {
			c := *v
			c.Body = nb
			r = &c
		}
		if un := u.unroll(r); un != nil {
			return un
		}
		return r
	case *ast.LabeledStmt:
		// a labelled loop keeps its form (the label may be the target of a jump); its body is visited
		var ns ast.Stmt
		switch in := v.Stmt.(type) {
		case *ast.RangeStmt:
			nb := u.block(in.Body)
			ns = in
			if nb != in.Body {
				c := *in
				c.Body = nb
				ns = &c
			}
		default:
			ns = u.stmt(v.Stmt)
		}
		if ns == v.Stmt {
			return s
		}
		c := *v
		c.Stmt = ns
		return &c
	case *ast.SwitchStmt:
		if nb := u.clauses(v.Body); nb != v.Body {
			c := *v
			c.Body = nb
			return &c
		}
	case *ast.TypeSwitchStmt:
		if nb := u.clauses(v.Body); nb != v.Body {
			c := *v
			c.Body = nb
			return &c
		}
	case *ast.SelectStmt:
		if nb := u.clauses(v.Body); nb != v.Body {
			c := *v
			c.Body = nb
			return &c
		}
	}
	return s
}

func (u *unroller) clauses(b *ast.BlockStmt) *ast.BlockStmt {
	if b == nil {
		return nil
	}
	var out []ast.Stmt
	changed := false
	for _, s := range b.List {
		ns := s
		switch cc := s.(type) {
		case *ast.CaseClause:
			if l, ch := u.list(cc.Body); ch {
				c := *cc
				c.Body = l
				ns = &c
				if o, ok := u.info.Implicits[cc]; ok {
					u.info.Implicits[&c] = o
				}
			}
		case *ast.CommClause:
			if l, ch := u.list(cc.Body); ch {
				c := *cc
				c.Body = l
				ns = &c
			}
		}
		if ns != s {
			changed = true
		}
		out = append(out, ns)
	}
	if !changed {
		return b
	}
	return &ast.BlockStmt{Lbrace: b.Lbrace, List: out, Rbrace: b.Rbrace}
}

// rows returns the rows of the fixed table e denotes (nil: not a fixed table).
func (u *unroller) rows(e ast.Expr) []ast.Expr {
	e = ast.Unparen(e)
	litRows := func(x ast.Expr) []ast.Expr {
		lit, ok := ast.Unparen(x).(*ast.CompositeLit)
		if !ok {
			return nil
		}
		t := u.info.TypeOf(lit)
		if t == nil {
			return nil
		}
		switch t.Underlying().(type) {
		case *types.Array, *types.Slice:
		default:
			return nil
		}
		if len(lit.Elts) == 0 || len(lit.Elts) > maxRows {
			return nil
		}
		for _, el := range lit.Elts {
			if _, keyed := el.(*ast.KeyValueExpr); keyed {
				return nil
			}
		}
		return lit.Elts
	}
	if r := litRows(e); r != nil {
		return r
	}
	id, ok := e.(*ast.Ident)
	if !ok {
		return nil
	}
	v, ok := core.ObjOf(u.info, id).(*types.Var)
	if !ok || v.IsField() {
		return nil
	}
	if u.known[v] {
		return u.tables[v]
	}
	u.known[v] = true
	var rows []ast.Expr
	if v.Pkg() != nil && v.Parent() == v.Pkg().Scope() {
		if v.Exported() {
			return nil
		}
		var files []ast.Node
		for _, pk := range u.p.Pkgs {
			if pk.TypesInfo != u.info {
				continue
			}
			for _, f := range pk.Syntax {
				files = append(files, f)
				for _, d := range f.Decls {
					gd, ok := d.(*ast.GenDecl)
					if !ok || gd.Tok != token.VAR {
						continue
					}
					for _, sp := range gd.Specs {
						if vs, ok := sp.(*ast.ValueSpec); ok && len(vs.Values) == len(vs.Names) {
							for i, n := range vs.Names {
								if u.info.Defs[n] == types.Object(v) {
									rows = litRows(vs.Values[i])
								}
							}
						}
					}
				}
			}
		}
		if rows == nil || !readOnly(u.info, files, v) {
			return nil
		}
	} else {
		d, ok := SingleDef(u.info, u.root, id)
		if !ok || d.Rhs == nil || d.Index != -1 || d.Range != nil {
			return nil
		}
		rows = litRows(d.Rhs)
		if rows == nil || !readOnly(u.info, []ast.Node{u.root}, v) {
			return nil
		}
	}
	u.tables[v] = rows
	return rows
}

// readOnly: every use of the table variable v under roots is `range v`, len(v)/cap(v), or an
// element read v[i] (possibly followed by field selections) that is not assigned, incremented or
// address-taken.
func readOnly(info *types.Info, roots []ast.Node, v types.Object) bool {
	ok := true
	for _, root := range roots {
		var stack []ast.Node
		ast.Inspect(root, func(n ast.Node) bool {
			if n == nil {
				stack = stack[:len(stack)-1]
				return true
			}
			stack = append(stack, n)
			id, isId := n.(*ast.Ident)
			if !isId || info.Uses[id] != v {
				return ok
			}
			// climb over parentheses
			k := len(stack) - 2
			child := ast.Node(id)
			for k >= 0 {
				if _, isParen := stack[k].(*ast.ParenExpr); !isParen {
					break
				}
				child = stack[k]
				k--
			}
			if k < 0 {
				ok = false
				return false
			}
			switch p := stack[k].(type) {
			case *ast.RangeStmt:
				if p.X != child {
					ok = false
				}
			case *ast.CallExpr:
				if f, isId := ast.Unparen(p.Fun).(*ast.Ident); !isId || f.Name != "len" && f.Name != "cap" || len(p.Args) != 1 {
					ok = false
				} else if _, builtin := info.Uses[f].(*types.Builtin); !builtin {
					ok = false
				}
			case *ast.IndexExpr:
				if p.X != child {
					ok = false
					return false
				}
				// the access chain v[i].f.g...
				top := ast.Node(p)
				j := k - 1
				for j >= 0 {
					switch q := stack[j].(type) {
					case *ast.ParenExpr:
						top = q
						j--
						continue
					case *ast.SelectorExpr:
						if q.X == top {
							top = q
							j--
							continue
						}
					case *ast.IndexExpr:
						if q.X == top {
							top = q
							j--
							continue
						}
					}
					break
				}
				if j >= 0 {
					switch q := stack[j].(type) {
					case *ast.AssignStmt:
						for _, l := range q.Lhs {
							if l == top {
								ok = false
							}
						}
					case *ast.IncDecStmt:
						ok = false
					case *ast.UnaryExpr:
						if q.Op == token.AND {
							ok = false
						}
					case *ast.SliceExpr:
						ok = false
					case *ast.CallExpr:
						// a method with a pointer receiver could modify the element
						if q.Fun == top {
							ok = false
						}
					}
				}
			default:
				ok = false
			}
			return ok
		})
		if !ok {
			return false
		}
	}
	return ok
}

// field returns the expression a struct-literal row gives to the field name.
func (u *unroller) field(row ast.Expr, name string) ast.Expr {
	row = ast.Unparen(row)
	if un, ok := row.(*ast.UnaryExpr); ok && un.Op == token.AND {
		row = ast.Unparen(un.X)
	}
	lit, ok := row.(*ast.CompositeLit)
	if !ok {
		return nil
	}
	t := u.info.TypeOf(lit)
	if t == nil {
		return nil
	}
	if pt, ok := t.Underlying().(*types.Pointer); ok {
		t = pt.Elem()
	}
	st, ok := t.Underlying().(*types.Struct)
	if !ok {
		return nil
	}
	for k, el := range lit.Elts {
		if kv, ok := el.(*ast.KeyValueExpr); ok {
			if id, ok := kv.Key.(*ast.Ident); ok && id.Name == name {
				return kv.Value
			}
			continue
		}
		if k < st.NumFields() && st.Field(k).Name() == name {
			return el
		}
	}
	return nil
}

func (u *unroller) unroll(r *ast.RangeStmt) ast.Stmt {
	if r.Key != nil {
		k, ok := r.Key.(*ast.Ident)
		if !ok {
			return nil
		}
		if k.Name != "_" {
			// the index must be unused
			ko := core.ObjOf(u.info, k)
			used := false
			ast.Inspect(r.Body, func(n ast.Node) bool {
				if id, ok := n.(*ast.Ident); ok && ko != nil && u.info.Uses[id] == ko {
					used = true
				}
				return !used
			})
			if used || ko == nil {
				return nil
			}
		}
	}
	var val types.Object
	if r.Value != nil {
		vid, ok := r.Value.(*ast.Ident)
		if !ok || r.Tok != token.DEFINE {
			return nil
		}
		if vid.Name != "_" {
			val = u.info.Defs[vid]
			if val == nil {
				return nil
			}
		}
	}
	rows := u.rows(r.X)
	if rows == nil {
		return nil
	}
	// variables the rows mention
	mentioned := map[types.Object]bool{}
	for _, row := range rows {
		ast.Inspect(row, func(n ast.Node) bool {
			if id, ok := n.(*ast.Ident); ok {
				if o, ok := u.info.Uses[id].(*types.Var); ok && !o.IsField() {
					mentioned[o] = true
				}
			}
			return true
		})
	}
	// the body: no labels, goto or defer; the loop variable and the variables of the rows are only read
	okBody := true
	written := func(e ast.Expr) {
		for {
			switch v := ast.Unparen(e).(type) {
			case *ast.Ident:
				if o := core.ObjOf(u.info, v); o != nil && (o == val || mentioned[o]) {
					okBody = false
				}
				return
			case *ast.SelectorExpr:
				e = v.X
			case *ast.IndexExpr:
				e = v.X
			case *ast.StarExpr:
				e = v.X
			default:
				return
			}
		}
	}
	ast.Inspect(r.Body, func(n ast.Node) bool {
		switch s := n.(type) {
		case *ast.LabeledStmt, *ast.DeferStmt:
			okBody = false
		case *ast.AssignStmt:
			if s.Tok != token.DEFINE {
				for _, l := range s.Lhs {
					written(l)
				}
			}
		case *ast.IncDecStmt:
			written(s.X)
		case *ast.UnaryExpr:
			if s.Op == token.AND {
				written(s.X)
			}
		}
		return okBody
	})
	if !okBody {
		return nil
	}
	// the row fields the body reads must be given by every row
	if val != nil {
		ast.Inspect(r.Body, func(n ast.Node) bool {
			if sel, ok := n.(*ast.SelectorExpr); ok {
				if id, ok := ast.Unparen(sel.X).(*ast.Ident); ok && u.info.Uses[id] == val {
					if _, isField := u.info.Uses[sel.Sel].(*types.Var); isField {
						for _, row := range rows {
							if u.field(row, sel.Sel.Name) == nil {
								okBody = false
							}
						}
					} else {
						okBody = false // a method of the row
					}
				}
			}
			return okBody
		})
		if !okBody {
			return nil
		}
	}
	// the break/continue statements that belong to this loop
	mine := map[*ast.BranchStmt]bool{}
	var walk func(n ast.Node, brk, cont bool)
	walk = func(n ast.Node, brk, cont bool) {
		ast.Inspect(n, func(m ast.Node) bool {
			if m == n || m == nil {
				return true
			}
			switch s := m.(type) {
			case *ast.FuncLit:
				return false
			case *ast.ForStmt, *ast.RangeStmt:
				walk(s, false, false)
				return false
			case *ast.SwitchStmt, *ast.TypeSwitchStmt, *ast.SelectStmt:
				walk(s, false, cont)
				return false
			case *ast.BranchStmt:
				if s.Label == nil && (s.Tok == token.BREAK && brk || s.Tok == token.CONTINUE && cont) {
					mine[s] = true
				}
			}
			return true
		})
	}
	walk(r.Body, true, true)

	u.n++
	id := u.n
	usesBreak := false
	var copies []ast.Stmt
	for k, row := range rows {
		cl := &cloner{info: u.info, lo: r.Body.Pos(), hi: r.Body.End()}
		usesCont := false
		contLabel := fmt.Sprintf("unr$%d_%d", id, k)
		brkLabel := fmt.Sprintf("unr$%d", id)
		plain := &cloner{info: u.info, pairs: nil}
		cl.repl = func(e ast.Expr) ast.Expr {
			if val == nil {
				return nil
			}
			switch v := e.(type) {
			case *ast.SelectorExpr:
				if x, ok := ast.Unparen(v.X).(*ast.Ident); ok && u.info.Uses[x] == val {
					if f := u.field(row, v.Sel.Name); f != nil {
						return moveTo(plain.clone(f), e.Pos()).(ast.Expr)
					}
				}
			case *ast.Ident:
				if u.info.Uses[v] == val {
					return moveTo(plain.clone(row), e.Pos()).(ast.Expr)
				}
			}
			return nil
		}
		cl.branch = func(b *ast.BranchStmt) ast.Stmt {
			if !mine[b] {
				return nil
			}
			if b.Tok == token.CONTINUE {
				usesCont = true
				return &ast.BranchStmt{TokPos: b.TokPos, Tok: token.GOTO, Label: &ast.Ident{NamePos: b.TokPos, Name: contLabel}}
			}
			usesBreak = true
			return &ast.BranchStmt{TokPos: b.TokPos, Tok: token.GOTO, Label: &ast.Ident{NamePos: b.TokPos, Name: brkLabel}}
		}
		body := cl.clone(r.Body).(*ast.BlockStmt)
		cl.pairs = append(cl.pairs, plain.pairs...)
		cl.transfer(u.onCopy)
		if usesCont {
			body.List = append(body.List, &ast.LabeledStmt{Label: &ast.Ident{NamePos: r.End(), Name: contLabel}, Colon: r.End(), Stmt: &ast.EmptyStmt{Semicolon: r.End(), Implicit: true}})
		}
		copies = append(copies, body)
	}
	if usesBreak {
		copies = append(copies, &ast.LabeledStmt{Label: &ast.Ident{NamePos: r.End(), Name: fmt.Sprintf("unr$%d", id)}, Colon: r.End(), Stmt: &ast.EmptyStmt{Semicolon: r.End(), Implicit: true}})
	}
	return &ast.BlockStmt{Lbrace: r.Pos(), List: copies, Rbrace: r.End()}
}

// ---------------------------------------------------------------------------
// deep copy of syntax with its type information

type pair struct{ old, new ast.Node }

type cloner struct {
	info   *types.Info
	pairs  []pair
	repl   func(ast.Expr) ast.Expr
	branch func(*ast.BranchStmt) ast.Stmt
	stmts  func(ast.Stmt) []ast.Stmt // replaces one statement of a list by several (nil: copy it)
	lo, hi token.Pos                 // source range of the copied code
	force  map[types.Object]bool     // variables that get a fresh object although declared elsewhere
	subst  map[ast.Node]ast.Node     // replaced expressions (not copies: they keep their own type information)
}

var (
	nodeType    = reflect.TypeOf((*ast.Node)(nil)).Elem()
	commentType = reflect.TypeOf((*ast.CommentGroup)(nil))
	objectType  = reflect.TypeOf((*ast.Object)(nil))
	scopeType   = reflect.TypeOf((*ast.Scope)(nil))
)

func (c *cloner) clone(n ast.Node) ast.Node {
	if n == nil || reflect.ValueOf(n).IsNil() {
		return n
	}
	if e, ok := n.(ast.Expr); ok && c.repl != nil {
		if r := c.repl(e); r != nil {
			if c.subst == nil {
				c.subst = map[ast.Node]ast.Node{}
			}
			c.subst[n] = r
			return r
		}
	}
	if b, ok := n.(*ast.BranchStmt); ok && c.branch != nil {
		if r := c.branch(b); r != nil {
			return r
		}
	}
	rv := reflect.ValueOf(n)
	if rv.Kind() != reflect.Ptr || rv.Elem().Kind() != reflect.Struct {
		return n
	}
	nv := reflect.New(rv.Elem().Type())
	nv.Elem().Set(rv.Elem())
	for i := 0; i < nv.Elem().NumField(); i++ {
		f := nv.Elem().Field(i)
		if !f.CanSet() {
			continue
		}
		switch f.Kind() {
		case reflect.Ptr, reflect.Interface:
			if f.IsNil() || f.Type() == commentType || f.Type() == objectType || f.Type() == scopeType {
				continue
			}
			if child, ok := f.Interface().(ast.Node); ok {
				nc := c.clone(child)
				f.Set(reflect.ValueOf(nc))
			}
		case reflect.Slice:
			if f.IsNil() || !f.Type().Elem().Implements(nodeType) {
				continue
			}
			if list, isStmts := f.Interface().([]ast.Stmt); isStmts && c.stmts != nil {
				var out []ast.Stmt
				for _, st := range list {
					if st == nil {
						out = append(out, nil)
						continue
					}
					if r := c.stmts(st); r != nil {
						out = append(out, r...)
						continue
					}
					out = append(out, c.clone(st).(ast.Stmt))
				}
				f.Set(reflect.ValueOf(out))
				continue
			}
			ns := reflect.MakeSlice(f.Type(), f.Len(), f.Len())
			for j := 0; j < f.Len(); j++ {
				el := f.Index(j)
				if (el.Kind() == reflect.Ptr || el.Kind() == reflect.Interface) && el.IsNil() {
					continue
				}
				nc := c.clone(el.Interface().(ast.Node))
				ns.Index(j).Set(reflect.ValueOf(nc))
			}
			f.Set(ns)
		}
	}
	out := nv.Interface().(ast.Node)
	c.pairs = append(c.pairs, pair{n, out})
	return out
}

// transfer enters the type information of the copies: variables defined inside the copied code get
// a fresh object per copy.
func (c *cloner) transfer(onCopy func(old, new ast.Node, tr map[ast.Node]ast.Node)) {
	info := c.info
	tr := map[ast.Node]ast.Node{}
	for _, p := range c.pairs {
		tr[p.old] = p.new
	}
	for o, n := range c.subst {
		tr[o] = n
	}
	fresh := map[types.Object]types.Object{}
	for _, p := range c.pairs {
		if id, ok := p.old.(*ast.Ident); ok {
			if o, ok := info.Defs[id]; ok {
				// declared inside the copied code (syntactically: an identifier of an enclosing scope may
				// stand in a defining position of a rebuilt assignment as well)
				if v, isVar := o.(*types.Var); isVar && !v.IsField() && (c.lo <= v.Pos() && v.Pos() < c.hi || c.force[o]) {
					nv, again := fresh[o]
					if !again {
						nv = types.NewVar(v.Pos(), v.Pkg(), v.Name(), v.Type())
						fresh[o] = nv
					}
					info.Defs[p.new.(*ast.Ident)] = nv
				} else {
					info.Defs[p.new.(*ast.Ident)] = o
				}
			}
		}
	}
	for _, p := range c.pairs {
		switch old := p.old.(type) {
		case *ast.Ident:
			if o, ok := info.Uses[old]; ok {
				if f, ok := fresh[o]; ok {
					o = f
				}
				info.Uses[p.new.(*ast.Ident)] = o
			}
		case *ast.SelectorExpr:
			if s, ok := info.Selections[old]; ok {
				info.Selections[p.new.(*ast.SelectorExpr)] = s
			}
		}
		if e, ok := p.old.(ast.Expr); ok {
			if tv, ok := info.Types[e]; ok {
				info.Types[p.new.(ast.Expr)] = tv
			}
		}
		if o, ok := info.Implicits[p.old]; ok {
			info.Implicits[p.new] = o
		}
		if onCopy != nil {
			onCopy(p.old, p.new, tr)
		}
	}
}

var posType = reflect.TypeOf(token.NoPos)

// moveTo gives every position inside the (freshly copied) subtree n the value pos: an expression
// substituted from elsewhere lies, for position-based lookups, where the expression it replaces lay.
func moveTo(n ast.Node, pos token.Pos) ast.Node {
	ast.Inspect(n, func(m ast.Node) bool {
		if m == nil {
			return false
		}
		rv := reflect.ValueOf(m)
		if rv.Kind() != reflect.Ptr || rv.IsNil() || rv.Elem().Kind() != reflect.Struct {
			return true
		}
		el := rv.Elem()
		for i := 0; i < el.NumField(); i++ {
			f := el.Field(i)
			if f.Type() == posType && f.CanSet() && f.Int() != 0 {
				f.SetInt(int64(pos))
			}
		}
		return true
	})
	return n
}
