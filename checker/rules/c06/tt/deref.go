package tt

import (
	"go/ast"
	"go/token"
	"go/types"

	"rscheck/core"
)

// Pointer out-parameters. A pointer local that is bound once to the address of a
// variable (`p := &x`, typically the parameter binding of an inlined helper or of a
// function literal invoked in place) and is only ever dereferenced (`*p`, `p.f`)
// is another name of that variable: the view writes x for *p and x.f for p.f and
// drops the binding. The body is copied for that, with the type information of the
// new nodes entered into types.Info; the original tree is untouched.

func derefPointers(info *types.Info, body *ast.BlockStmt, onCopy func(old, new ast.Node, tr map[ast.Node]ast.Node)) *ast.BlockStmt {
	local := func(e ast.Expr) *types.Var {
		id, ok := ast.Unparen(e).(*ast.Ident)
		if !ok {
			return nil
		}
		v, ok := core.ObjOf(info, id).(*types.Var)
		if !ok || v.IsField() || v.Pkg() == nil || v.Parent() == v.Pkg().Scope() {
			return nil
		}
		return v
	}
	// the variable an addressable path x, x.f, x.f.g starts at
	var base func(e ast.Expr) *types.Var
	base = func(e ast.Expr) *types.Var {
		switch v := ast.Unparen(e).(type) {
		case *ast.Ident:
			return local(v)
		case *ast.SelectorExpr:
			if f, ok := info.Uses[v.Sel].(*types.Var); ok && f.IsField() {
				if _, viaPtr := info.TypeOf(v.X).Underlying().(*types.Pointer); viaPtr {
					return nil // x.f with x a pointer: another object may be swapped in
				}
				return base(v.X)
			}
		}
		return nil
	}
	// candidates: pointer locals bound once
	//   kind 1  p := &x.f.g      p denotes the variable path
	//   kind 2  p := &T{...}     p denotes a fresh record (the state of a small type built by its
	//                            constructor); the view gives the record a value variable
	//   kind 3  p := q           another name of pointer q (the receiver binding of an inlined method)
	type ptrInfo struct {
		kind int
		path ast.Expr
		lit  *ast.CompositeLit
		src  *types.Var
		stmt *ast.AssignStmt
		val  *types.Var
	}
	cands := map[*types.Var]*ptrInfo{}
	ndefs := map[*types.Var]int{}
	ranged := map[*types.Var]bool{}
	ast.Inspect(body, func(n ast.Node) bool {
		switch st := n.(type) {
		case *ast.AssignStmt:
			for i, l := range st.Lhs {
				p := local(l)
				if p == nil {
					continue
				}
				ndefs[p]++
				if st.Tok != token.ASSIGN && st.Tok != token.DEFINE {
					ndefs[p]++ // op-assignment
				}
				if _, isPtr := p.Type().Underlying().(*types.Pointer); !isPtr {
					// kind 4: p := q, another name of a value that is never written again (the parameter
					// binding of an inlined helper whose argument is a variable)
					if len(st.Lhs) == 1 && len(st.Rhs) == 1 && st.Tok == token.DEFINE {
						if q := local(st.Rhs[0]); q != nil && q != p && types.Identical(q.Type(), p.Type()) {
							if _, isId := ast.Unparen(st.Rhs[0]).(*ast.Ident); isId {
								cands[p] = &ptrInfo{kind: 4, src: q, stmt: st}
							}
						}
					}
					continue
				}
				if len(st.Lhs) != 1 || len(st.Rhs) != 1 || st.Tok != token.DEFINE || i != 0 {
					continue
				}
				rhs := ast.Unparen(st.Rhs[0])
				if u, ok := rhs.(*ast.UnaryExpr); ok && u.Op == token.AND {
					if lit, isLit := ast.Unparen(u.X).(*ast.CompositeLit); isLit {
						if _, isStruct := info.TypeOf(lit).Underlying().(*types.Struct); isStruct {
							cands[p] = &ptrInfo{kind: 2, lit: lit, stmt: st}
						}
					} else if base(u.X) != nil {
						cands[p] = &ptrInfo{kind: 1, path: u.X, stmt: st}
					}
				} else if q := local(rhs); q != nil && q != p {
					if _, isPtr := q.Type().Underlying().(*types.Pointer); isPtr && types.Identical(q.Type(), p.Type()) {
						cands[p] = &ptrInfo{kind: 3, src: q, stmt: st}
					}
				}
			}
		case *ast.ValueSpec:
			for _, nm := range st.Names {
				if p := local(nm); p != nil {
					ndefs[p] += 2 // declared separately: not the single-binding form
				}
			}
		case *ast.RangeStmt:
			for _, e := range []ast.Expr{st.Key, st.Value} {
				if e != nil {
					if p := local(e); p != nil {
						ndefs[p]++
						ranged[p] = true
					}
				}
			}
		case *ast.IncDecStmt:
			if p := local(st.X); p != nil {
				ndefs[p] += 2
			}
		case *ast.UnaryExpr:
			if st.Op == token.AND {
				if p := local(st.X); p != nil {
					ndefs[p] += 2 // &p: may be written through the pointer
				}
			}
		}
		return true
	})
	for p, ci := range cands {
		if ndefs[p] != 1 || ranged[p] {
			delete(cands, p)
			continue
		}
		// the value a name stands for must not change while the name is in use: it is never written
		// after its definition (a range variable is written by its loop only, and the name lives inside
		// one iteration)
		if ci.kind == 4 && ndefs[ci.src] > 1 {
			delete(cands, p)
		}
	}
	if len(cands) == 0 {
		return body
	}
	// every use is a dereference, or the right-hand side of the binding of another name
	for changed := true; changed; {
		changed = false
		var stack []ast.Node
		ast.Inspect(body, func(n ast.Node) bool {
			if n == nil {
				stack = stack[:len(stack)-1]
				return true
			}
			stack = append(stack, n)
			id, ok := n.(*ast.Ident)
			if !ok {
				return true
			}
			p, isVar := info.Uses[id].(*types.Var)
			if !isVar || cands[p] == nil {
				return true
			}
			k := len(stack) - 2
			child := ast.Node(id)
			for k >= 0 {
				if _, isParen := stack[k].(*ast.ParenExpr); !isParen {
					break
				}
				child = stack[k]
				k--
			}
			okUse := cands[p].kind == 4 // a value name may be read anywhere
			if k >= 0 && !okUse {
				switch par := stack[k].(type) {
				case *ast.StarExpr:
					okUse = par.X == child
				case *ast.SelectorExpr:
					if par.X == child {
						if f, isField := info.Uses[par.Sel].(*types.Var); isField && f.IsField() {
							okUse = true
						}
					}
				case *ast.AssignStmt:
					if len(par.Lhs) == 1 && len(par.Rhs) == 1 && par.Rhs[0] == child {
						if r := local(par.Lhs[0]); r != nil && cands[r] != nil && cands[r].kind == 3 && cands[r].src == p && cands[r].stmt == par {
							okUse = true
						}
						// renamed by a plain alias that itself is only a name (kind 4 of a kind 4)
						if r := local(par.Lhs[0]); r != nil && cands[r] != nil && cands[r].kind == 4 && cands[r].src == p && cands[r].stmt == par && cands[p].kind == 4 {
							okUse = true
						}
					}
				}
			}
			if !okUse {
				// another name of a pointer that is used as a pointer (handed on, compared): still a
				// plain rename when the pointer it names keeps its value
				if ci := cands[p]; ci.kind == 3 && ndefs[ci.src] <= 1 {
					ci.kind = 4
				} else {
					delete(cands, p)
				}
				changed = true
			}
			return true
		})
		// another name of a pointer that is not itself written out needs that pointer to keep its value
		for p, ci := range cands {
			if ci.kind == 3 && cands[ci.src] == nil && (ndefs[ci.src] > 1 || ranged[ci.src]) {
				delete(cands, p)
				changed = true
			}
		}
	}
	if len(cands) == 0 {
		return body
	}
	pkgOf := func(v *types.Var) *types.Package { return v.Pkg() }
	for p, ci := range cands {
		if ci.kind == 2 {
			ci.val = types.NewVar(p.Pos(), pkgOf(p), p.Name()+"$v", p.Type().Underlying().(*types.Pointer).Elem())
		}
	}
	cl := &cloner{info: info}
	plain := &cloner{info: info}
	// what p stands for at pos: a value expression (value=true) or another pointer
	var resolve func(p *types.Var, pos token.Pos, depth int) (ast.Expr, bool)
	resolve = func(p *types.Var, pos token.Pos, depth int) (ast.Expr, bool) {
		ci := cands[p]
		switch ci.kind {
		case 1:
			return moveTo(plain.clone(ci.path), pos).(ast.Expr), true
		case 2:
			id := &ast.Ident{NamePos: pos, Name: ci.val.Name()}
			info.Uses[id] = ci.val
			return id, true
		default:
			if cands[ci.src] != nil && depth > 0 && (cands[ci.src].kind == ci.kind || ci.kind == 4 && cands[ci.src].kind == 4) {
				return resolve(ci.src, pos, depth-1)
			}
			if ci.kind == 3 && cands[ci.src] != nil && depth > 0 {
				return resolve(ci.src, pos, depth-1)
			}
			id := &ast.Ident{NamePos: pos, Name: ci.src.Name()}
			info.Uses[id] = ci.src
			return id, false
		}
	}
	cl.repl = func(e ast.Expr) ast.Expr {
		switch v := e.(type) {
		case *ast.Ident:
			if p, ok := info.Uses[v].(*types.Var); ok && cands[p] != nil && cands[p].kind == 4 {
				t, _ := resolve(p, e.Pos(), 8)
				return t
			}
		case *ast.StarExpr:
			if p := local(v.X); p != nil && cands[p] != nil {
				if _, isId := ast.Unparen(v.X).(*ast.Ident); isId {
					t, isValue := resolve(p, e.Pos(), 8)
					if isValue {
						return t
					}
					ns := &ast.StarExpr{Star: v.Star, X: t}
					if tv, ok := info.Types[v]; ok {
						info.Types[ns] = tv
					}
					return ns
				}
			}
		case *ast.SelectorExpr:
			if p := local(v.X); p != nil && cands[p] != nil {
				if _, isId := ast.Unparen(v.X).(*ast.Ident); isId {
					sel := &ast.Ident{NamePos: v.Sel.NamePos, Name: v.Sel.Name}
					if o, ok := info.Uses[v.Sel]; ok {
						info.Uses[sel] = o
					}
					t, _ := resolve(p, e.Pos(), 8)
					ns := &ast.SelectorExpr{X: t, Sel: sel}
					if tv, ok := info.Types[v]; ok {
						info.Types[ns] = tv
					}
					if s, ok := info.Selections[v]; ok {
						info.Selections[ns] = s
					}
					return ns
				}
			}
		}
		return nil
	}
	cl.stmts = func(s ast.Stmt) []ast.Stmt {
		as, ok := s.(*ast.AssignStmt)
		if !ok || len(as.Lhs) != 1 {
			return nil
		}
		p := local(as.Lhs[0])
		if p == nil || cands[p] == nil || cands[p].stmt != as {
			return nil
		}
		if ci := cands[p]; ci.kind == 2 {
			// the record itself: v := T{...}
			id := &ast.Ident{NamePos: as.Lhs[0].Pos(), Name: ci.val.Name()}
			info.Defs[id] = ci.val
			return []ast.Stmt{&ast.AssignStmt{Lhs: []ast.Expr{id}, TokPos: as.TokPos, Tok: token.DEFINE, Rhs: []ast.Expr{cl.clone(ci.lit).(ast.Expr)}}}
		}
		return []ast.Stmt{}
	}
	nb := cl.clone(body).(*ast.BlockStmt)
	cl.pairs = append(cl.pairs, plain.pairs...)
	cl.transfer(onCopy)
	return nb
}
