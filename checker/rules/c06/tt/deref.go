package tt

import (
	"go/ast"
	"go/token"
	"go/types"

	"rscheck/core"
)

// Pointer out-parameters. A pointer local that is bound once to the address of a
// variable (`p := &x`, typically the parameter binding of an inlined helper or of a
// function literal invoked in place) and is only ever dereferenced (`*p`, `p.f`)
// is another name of that variable: the view writes x for *p and x.f for p.f and
// drops the binding. The body is copied for that, with the type information of the
// new nodes entered into types.Info; the original tree is untouched.

func derefPointers(info *types.Info, body *ast.BlockStmt, onCopy func(old, new ast.Node, tr map[ast.Node]ast.Node)) *ast.BlockStmt {
	local := func(e ast.Expr) *types.Var {
		id, ok := ast.Unparen(e).(*ast.Ident)
		if !ok {
			return nil
		}
		v, ok := core.ObjOf(info, id).(*types.Var)
		if !ok || v.IsField() || v.Pkg() == nil || v.Parent() == v.Pkg().Scope() {
			return nil
		}
		return v
	}
	// the variable an addressable path x, x.f, x.f.g starts at
	var base func(e ast.Expr) *types.Var
	base = func(e ast.Expr) *types.Var {
		switch v := ast.Unparen(e).(type) {
		case *ast.Ident:
			return local(v)
		case *ast.SelectorExpr:
			if f, ok := info.Uses[v.Sel].(*types.Var); ok && f.IsField() {
				if _, viaPtr := info.TypeOf(v.X).Underlying().(*types.Pointer); viaPtr {
					return nil // x.f with x a pointer: another object may be swapped in
				}
				return base(v.X)
			}
		}
		return nil
	}
	target := map[*types.Var]ast.Expr{}
	binding := map[ast.Stmt]*types.Var{}
	ndefs := map[*types.Var]int{}
	ast.Inspect(body, func(n ast.Node) bool {
		switch st := n.(type) {
		case *ast.AssignStmt:
			for i, l := range st.Lhs {
				p := local(l)
				if p == nil {
					continue
				}
				if _, isPtr := p.Type().Underlying().(*types.Pointer); !isPtr {
					continue
				}
				ndefs[p]++
				if len(st.Lhs) == 1 && len(st.Rhs) == 1 && st.Tok == token.DEFINE && i == 0 {
					if u, ok := ast.Unparen(st.Rhs[0]).(*ast.UnaryExpr); ok && u.Op == token.AND && base(u.X) != nil {
						target[p] = u.X
						binding[st] = p
					}
				}
			}
		case *ast.ValueSpec:
			for _, nm := range st.Names {
				if p := local(nm); p != nil {
					ndefs[p] += 2 // declared separately: not the single-binding form
				}
			}
		case *ast.RangeStmt:
			for _, e := range []ast.Expr{st.Key, st.Value} {
				if e != nil {
					if p := local(e); p != nil {
						ndefs[p] += 2
					}
				}
			}
		case *ast.IncDecStmt:
			if p := local(st.X); p != nil {
				ndefs[p] += 2
			}
		}
		return true
	})
	for p := range target {
		if ndefs[p] != 1 {
			delete(target, p)
		}
	}
	if len(target) == 0 {
		return body
	}
	// every use is a dereference
	var stack []ast.Node
	ast.Inspect(body, func(n ast.Node) bool {
		if n == nil {
			stack = stack[:len(stack)-1]
			return true
		}
		stack = append(stack, n)
		id, ok := n.(*ast.Ident)
		if !ok {
			return true
		}
		p, isVar := info.Uses[id].(*types.Var)
		if !isVar || target[p] == nil {
			return true
		}
		k := len(stack) - 2
		child := ast.Node(id)
		for k >= 0 {
			if _, isParen := stack[k].(*ast.ParenExpr); !isParen {
				break
			}
			child = stack[k]
			k--
		}
		okUse := false
		if k >= 0 {
			switch par := stack[k].(type) {
			case *ast.StarExpr:
				okUse = par.X == child
			case *ast.SelectorExpr:
				if par.X == child {
					if f, isField := info.Uses[par.Sel].(*types.Var); isField && f.IsField() {
						okUse = true
					}
				}
			}
		}
		if !okUse {
			delete(target, p)
		}
		return true
	})
	if len(target) == 0 {
		return body
	}
	cl := &cloner{info: info}
	plain := &cloner{info: info}
	cl.repl = func(e ast.Expr) ast.Expr {
		switch v := e.(type) {
		case *ast.StarExpr:
			if p := local(v.X); p != nil && target[p] != nil {
				if _, isId := ast.Unparen(v.X).(*ast.Ident); isId {
					return moveTo(plain.clone(target[p]), e.Pos()).(ast.Expr)
				}
			}
		case *ast.SelectorExpr:
			if p := local(v.X); p != nil && target[p] != nil {
				if _, isId := ast.Unparen(v.X).(*ast.Ident); isId {
					sel := &ast.Ident{NamePos: v.Sel.NamePos, Name: v.Sel.Name}
					if o, ok := info.Uses[v.Sel]; ok {
						info.Uses[sel] = o
					}
					ns := &ast.SelectorExpr{X: moveTo(plain.clone(target[p]), e.Pos()).(ast.Expr), Sel: sel}
					if tv, ok := info.Types[v]; ok {
						info.Types[ns] = tv
					}
					if s, ok := info.Selections[v]; ok {
						info.Selections[ns] = s
					}
					return ns
				}
			}
		}
		return nil
	}
	cl.stmts = func(s ast.Stmt) []ast.Stmt {
		if p, ok := binding[s]; ok && target[p] != nil {
			return []ast.Stmt{}
		}
		return nil
	}
	nb := cl.clone(body).(*ast.BlockStmt)
	cl.pairs = append(cl.pairs, plain.pairs...)
	cl.transfer(onCopy)
	return nb
}
