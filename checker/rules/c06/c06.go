// Package c06 decides the structural clauses of property C06 (filters are
// honoured identically in every mode and phase).
package c06

import (
	"fmt"
	"go/ast"
	"go/constant"
	"go/token"
	"go/types"
	"strings"

	"rscheck/core"
	"rscheck/driver"
	"rscheck/pat"
	"rscheck/rules/c06/tt"
)

const (
	pkgFilter = "redis-shake/filter"
	pkgSync   = "redis-shake/dbSync"
	pkgRun    = "redis-shake"
	pkgUtils  = "redis-shake/common"
	pkgRedis  = "pkg/redis"
)

var Def = driver.PropDef{
	ID: "C06",
	Explanation: "Structural necessary conditions of 'filters are honoured identically': " +
		"R1 decision tables of FilterCommands/FilterKey/FilterDB/FilterSlot/HandleFilterKeyWithCommand extracted from all their paths (branch atoms opaque, loops existential) and compared with the reference table on every feasible valuation (checkpoint prefix first, blacklist, whitelist, no list, slot list, opinfo, script commands iff filter.lua); " +
		"R2 matcher kinds (key lists: strings.HasPrefix(key, prefix); db lists: equality on the decimal rendering; slot list: integer equality; commands: EqualFold); " +
		"R3 application matrix (each sink - RestoreRdbEntry in full sync and restore, sendBuf<- in incremental sync, MustEncode in restore-command, doFetch/db list/key list in rump - evaluates exactly the predicates the statement lists for that path, for the item that is sent); " +
		"R4 polarity (no path leads from a 'filtered' answer to the sink for the same item; flag variables are tracked); " +
		"R5 no other reader of conf.Options.Filter*; R6 Lua script entries are loaded iff filter.lua is unset and never reach a key route.",
	NotDecided: "that prefix semantics is what the user means for arbitrary bytes (strings.HasPrefix trusted); slot computation (C15); key rewriting inside getMatchKeys (C13); configurations with both a whitelist and a blacklist (rejected by sanitizeOptions in the ill-typed main package, treated as don't-care where the two lists disagree).",
	Trusted:    []string{"go/parser, go/types, go/cfg (x/tools v0.29.0)", "strings.HasPrefix / strings.EqualFold / strconv semantics", "redis.ParseArgs lower-cases command names"},
	Run:        Run,
}

// configuration list fields
const (
	fKB   = "FilterKeyBlacklist"
	fKW   = "FilterKeyWhitelist"
	fDB   = "FilterDBBlacklist"
	fDW   = "FilterDBWhitelist"
	fSlot = "FilterSlot"
	fLua  = "FilterLua"
)

func Run(c *core.Ctx) {
	if c.Pkg(pkgFilter) == nil {
		c.Undecidedf("anchor", pkgFilter, token.NoPos, "package not loaded")
		return
	}
	predicates(c)
	sites(c)
	readers(c)
	lua(c)
	c.Expect("R1.table", 30)
	c.Expect("R2.matcher", 7)
	c.Expect("R3.matrix", 16)
	c.Expect("R4.polarity", 12)
	c.Expect("R6.lua", 4)
}

// ---------------------------------------------------------------------------
// R1 / R2: the predicates

type predicate struct {
	c      *core.Ctx
	fn     *core.Fn
	info   *types.Info
	x      *tt.X
	params []types.Object
	// what the classifier learnt on the way (R2)
	helpers map[string]*ast.CallExpr // list field -> call of the matching helper
	root    ast.Node                 // body of the literal being classified
	folded  map[string]bool          // command names tested case-insensitively
	r2      map[string]func()
	body    *ast.BlockStmt // the analysed form of the predicate's body
}

func newPredicate(c *core.Ctx, name string) *predicate {
	fn := c.Func(pkgFilter, "", name)
	if fn == nil {
		return nil
	}
	// the predicate's body with loops over fixed tables written out row by row (helpers stay calls:
	// the decision table follows them itself, with parameter binding)
	view := tt.ViewOf(c.Program, fn, "c06pred", func(*types.Func) bool { return true })
	p := &predicate{c: c, fn: fn, info: fn.Pkg.TypesInfo, x: view.X(c.Program), body: view.Body, helpers: map[string]*ast.CallExpr{}, r2: map[string]func(){}, folded: map[string]bool{}}
	p.x.Prog, p.x.LoopDecisions = c.Program, true
	p.x.Rewrite = tt.PrefixBySlicing(p.info)
	for _, f := range fn.Decl.Type.Params.List {
		for _, n := range f.Names {
			p.params = append(p.params, p.info.Defs[n])
		}
	}
	return p
}

func (p *predicate) isParam(e ast.Expr, i int) bool {
	id, ok := ast.Unparen(e).(*ast.Ident)
	return ok && i < len(p.params) && core.ObjOf(p.info, id) == p.params[i]
}

// confList: e is conf.Options.<list field>.
func (p *predicate) confList(e ast.Expr) (string, bool) {
	if f, ok := tt.IsConfField(p.info, e, ""); ok {
		return f, true
	}
	// a local holding the list: blacklist := conf.Options.FilterKeyBlacklist
	for _, root := range []ast.Node{p.root, p.body} {
		if root != nil {
			if f, ok := tt.IsConfField(p.info, tt.Resolve(p.info, root, e, 2), ""); ok {
				return f, true
			}
		}
	}
	return "", false
}

func lenTest(info *types.Info, e ast.Expr) (arg ast.Expr, nonEmpty bool, ok bool) {
	for _, t := range []struct {
		p   string
		pol bool
	}{{"len(_x) != 0", true}, {"len(_x) > 0", true}, {"len(_x) >= 1", true}, {"len(_x) == 0", false}, {"len(_x) < 1", false}, {"len(_x) <= 0", false}} {
		if b := pat.Expr(t.p).Match(info, e, nil); b != nil {
			return b["_x"].(ast.Expr), t.pol, true
		}
	}
	return nil, false, false
}

func stringsCall(info *types.Info, e ast.Expr) (name string, args []ast.Expr) {
	call, ok := ast.Unparen(e).(*ast.CallExpr)
	if !ok {
		return "", nil
	}
	if id, ok := call.Fun.(*ast.Ident); ok && id.Name == tt.PrefixMarker {
		return "HasPrefix", call.Args // the prefix test written by slicing (tt.PrefixBySlicing)
	}
	f := core.CalleeFunc(info, call)
	if f == nil || f.Pkg() == nil || f.Pkg().Path() != "strings" {
		return "", nil
	}
	return f.Name(), call.Args
}

// commaOkMap: id is the `ok` of `_, ok := M[k]`; returns M's object and k.
func commaOkMap(info *types.Info, root ast.Node, e ast.Expr) (types.Object, ast.Expr) {
	d, ok := tt.SingleDef(info, root, e)
	if !ok {
		// declared first (`var ok bool`) and assigned once: the declaration's zero value is never read
		// when the assignment comes before every use, which holds for the test the caller asks about
		// if the assignment is the only one
		if id, isId := ast.Unparen(e).(*ast.Ident); isId {
			var assigns []tt.Def
			for _, dd := range tt.DefsOf(info, root, core.ObjOf(info, id)) {
				if _, isDecl := dd.Stmt.(*ast.ValueSpec); isDecl && dd.Rhs == nil {
					continue
				}
				assigns = append(assigns, dd)
			}
			if len(assigns) == 1 && assigns[0].Stmt != nil && assigns[0].Stmt.Pos() < e.Pos() {
				d, ok = assigns[0], true
			}
		}
	}
	if !ok || d.Index != 1 {
		return nil, nil
	}
	ix, ok := ast.Unparen(d.Rhs).(*ast.IndexExpr)
	if !ok {
		return nil, nil
	}
	return core.ObjOf(info, ix.X), ix.Index
}

// classify names the branch atoms of the five predicates.
func (p *predicate) classify(l tt.Lit) (string, bool, bool) {
	info, body := p.info, l.Root
	if body == nil {
		body = p.body
	}
	p.root = body
	e := ast.Unparen(l.Expr)
	if arg, pol, ok := lenTest(info, e); ok {
		if f, ok := p.confList(arg); ok {
			return "nonempty(" + f + ")", pol, true
		}
		if id, ok := ast.Unparen(arg).(*ast.Ident); ok {
			for i, o := range p.params {
				if core.ObjOf(info, id) == o && i > 0 {
					return "argv-nonempty", pol, true
				}
			}
		}
		return "", false, false
	}
	if f, ok := tt.IsConfField(info, e, fLua); ok {
		return f, true, true
	}
	// strings.ToLower(cmd) == "name" (also as a tagged switch) is EqualFold(cmd, "name") for a lower-case name
	if be, ok := e.(*ast.BinaryExpr); ok && (be.Op == token.EQL || be.Op == token.NEQ) {
		for _, pair := range [][2]ast.Expr{{be.X, be.Y}, {be.Y, be.X}} {
			if name, args := stringsCall(info, tt.Resolve(info, body, pair[0], 2)); name == "ToLower" && len(args) == 1 && p.isParam(args[0], 0) {
				if s, ok := core.StringConst(info, pair[1]); ok && s == strings.ToLower(s) {
					p.folded[s] = true
					return "cmd~" + s, be.Op == token.EQL, true
				}
			}
		}
	}
	if name, args := stringsCall(info, e); name != "" && len(args) == 2 {
		a, b := args[0], args[1]
		switch name {
		case "EqualFold":
			if s, ok := core.StringConst(info, a); ok && p.isParam(b, 0) {
				p.folded[strings.ToLower(s)] = true
				return "cmd~" + strings.ToLower(s), true, true
			}
			if s, ok := core.StringConst(info, b); ok && p.isParam(a, 0) {
				p.folded[strings.ToLower(s)] = true
				return "cmd~" + strings.ToLower(s), true, true
			}
		case "HasPrefix":
			ck := p.checkpointKey()
			if s, ok := core.StringConst(info, b); ok && s == ck && p.isParam(a, 0) {
				p.r2["ckpt"] = func() {
					p.c.Okf("R2.matcher", p.fn.Decl.Name.Name+"/checkpoint-prefix", e.Pos(), "checkpoint keys are recognised by strings.HasPrefix(key, %q)", ck)
				}
				return "ckpt", true, true
			}
			if s, ok := core.StringConst(info, a); ok && s == ck && p.isParam(b, 0) {
				p.r2["ckpt"] = func() {
					p.c.Failf("R2.matcher", p.fn.Decl.Name.Name+"/checkpoint-prefix", e.Pos(), "HasPrefix(%q, key) tests whether the key is a prefix of the checkpoint name: the sharded checkpoint key %q-<slot> is not recognised and is copied to the target", ck, ck)
				}
				return "ckpt", true, true
			}
		}
		return "", false, false
	}
	if call, ok := e.(*ast.CallExpr); ok {
		// helper(subject, conf.Options.<list>): exactly the subject and one list
		f := core.CalleeFunc(info, call)
		if f != nil && f.Pkg() != nil && strings.HasPrefix(f.Pkg().Path(), core.Module) && len(call.Args) == 2 {
			f0, ok0 := p.confList(call.Args[0])
			f1, ok1 := p.confList(call.Args[1])
			if ok0 != ok1 {
				fld := f0 + f1
				p.helpers[fld] = call
				return "match(" + fld + ")", true, true
			}
		}
		return "", false, false
	}
	if id, ok := e.(*ast.Ident); ok {
		if m, k := commaOkMap(info, body, id); m != nil && p.isParam(l.In(k), 0) {
			if v, ok := m.(*types.Var); ok && v.Parent() == v.Pkg().Scope() {
				if v.Name() == "RedisCommands" {
					return "known-command", true, true
				}
				return "inner-key", true, true
			}
		}
		if d, ok := tt.SingleDef(info, body, id); ok && d.Index == 1 {
			if call, ok := ast.Unparen(d.Rhs).(*ast.CallExpr); ok && core.IsFunc(core.CalleeFunc(info, call), pkgFilter, "", "getMatchKeys") {
				return "keys-pass", true, true
			}
		}
		return "", false, false
	}
	// slot == <Atoi of a list element>
	if be, ok := e.(*ast.BinaryExpr); ok && (be.Op == token.EQL || be.Op == token.NEQ) && l.Loop != nil {
		list, isElem := tt.LoopElem(info, l.Loop)
		for _, pair := range [][2]ast.Expr{{be.X, be.Y}, {be.Y, be.X}} {
			if !p.isParam(pair[0], 0) || list == nil {
				continue
			}
			fld, ok := p.confList(list)
			if !ok {
				continue
			}
			if p.intOfElement(pair[1], isElem) {
				return "listed(" + fld + ")", be.Op == token.EQL, true
			}
		}
	}
	return "", false, false
}

// intOfElement: e is the integer parsed from the range value of rs.
func (p *predicate) intOfElement(e ast.Expr, isElem func(ast.Expr) bool) bool {
	d, ok := tt.SingleDef(p.info, p.body, e)
	if !ok || d.Rhs == nil {
		return false
	}
	call, ok := ast.Unparen(d.Rhs).(*ast.CallExpr)
	if !ok || len(call.Args) == 0 {
		return false
	}
	f := core.CalleeFunc(p.info, call)
	if f == nil || f.Pkg() == nil || f.Pkg().Path() != "strconv" || f.Name() != "Atoi" || d.Index != 0 {
		return false
	}
	return isElem(call.Args[0])
}

func (p *predicate) checkpointKey() string {
	pk := p.c.Pkg(pkgUtils)
	if pk == nil {
		return "\x00"
	}
	if k, ok := pk.Types.Scope().Lookup("CheckpointKey").(*types.Const); ok && k.Val().Kind() == constant.String {
		return constant.StringVal(k.Val())
	}
	return "\x00"
}

func feasible(as map[string]bool) bool {
	cmds := 0
	for a, v := range as {
		if !v {
			continue
		}
		switch {
		case strings.HasPrefix(a, "match("):
			if !as["nonempty("+a[len("match("):]] {
				return false
			}
		case strings.HasPrefix(a, "listed("):
			if !as["nonempty("+a[len("listed("):]] {
				return false
			}
		case a == "inner-key":
			if !as["ckpt"] {
				return false
			}
		case strings.HasPrefix(a, "cmd~"):
			cmds++
		}
	}
	return cmds <= 1
}

func ne(f string) string { return "nonempty(" + f + ")" }
func m(f string) string  { return "match(" + f + ")" }

func with(base map[string]bool, kv ...interface{}) map[string]bool {
	out := map[string]bool{}
	for k, v := range base {
		out[k] = v
	}
	for i := 0; i+1 < len(kv); i += 2 {
		out[kv[i].(string)] = kv[i+1].(bool)
	}
	return out
}

// listWants is the reference for one blacklist/whitelist pair.
func listWants(b, w, what string, base map[string]bool) []tt.Want {
	return []tt.Want{
		{Name: "blacklist-hit", When: with(base, ne(b), true, m(b), true, ne(w), false), Out: "true", Input: what + " on the blacklist must be filtered"},
		{Name: "blacklist-miss", When: with(base, ne(b), true, m(b), false, ne(w), false), Out: "false", Input: what + " not on the configured blacklist must pass"},
		{Name: "whitelist-hit", When: with(base, ne(b), false, ne(w), true, m(w), true), Out: "false", Input: what + " on the whitelist must pass"},
		{Name: "whitelist-miss", When: with(base, ne(b), false, ne(w), true, m(w), false), Out: "true", Input: what + " not on the configured whitelist must be filtered"},
		{Name: "no-list", When: with(base, ne(b), false, ne(w), false), Out: "false", Input: what + " must pass when neither list is configured"},
		{Name: "both-lists-agree-filter", When: with(base, ne(b), true, m(b), true, ne(w), true, m(w), false), Out: "true", Input: what + " on the blacklist and not on the whitelist must be filtered"},
		{Name: "both-lists-agree-pass", When: with(base, ne(b), true, m(b), false, ne(w), true, m(w), true), Out: "false", Input: what + " on the whitelist and not on the blacklist must pass"},
	}
}

func predicates(c *core.Ctx) {
	table := func(name string, result int, universe []string, wants []tt.Want) *predicate {
		p := newPredicate(c, name)
		if p == nil {
			return nil
		}
		g := p.x.G
		traces, err := p.x.Traces(g.CFG.Blocks[0], 0, nil, 400)
		var rows []tt.Row
		if err == nil {
			rows, err = p.x.Table(traces, result, p.classify)
		}
		if err != nil {
			c.Undecidedf("R1.table", name, p.fn.Decl.Pos(), "cannot extract the decision table of %s: %v", name, err)
			return nil
		}
		seen := map[string]bool{}
		for _, a := range universe {
			seen[a] = true
		}
		for _, a := range tt.Atoms(rows) {
			if !seen[a] {
				universe = append(universe, a)
			}
		}
		for _, v := range tt.Compare(rows, universe, feasible, wants) {
			key := name + "/" + v.Want.Name
			switch {
			case v.Undecided:
				c.Undecidedf("R1.table", key, p.fn.Decl.Pos(), "%s", v.Witness)
			default:
				c.Check("R1.table", key, p.fn.Decl.Pos(), v.OK, fmt.Sprintf("%s (expected result %s, 'true means not pass')", v.Want.Input, v.Want.Out), v.Witness)
			}
		}
		for _, f := range p.r2 {
			f()
		}
		return p
	}

	// FilterCommands
	none := map[string]bool{"cmd~opinfo": false, "cmd~eval": false, "cmd~evalsha": false, "cmd~script": false}
	pc := table("FilterCommands", 0, []string{"cmd~opinfo", "cmd~eval", "cmd~evalsha", "cmd~script", fLua}, []tt.Want{
		{Name: "opinfo", When: map[string]bool{"cmd~opinfo": true}, Out: "true", Input: "the internal bookkeeping command opinfo (any letter case) is never forwarded"},
		{Name: "eval+lua", When: map[string]bool{"cmd~eval": true, fLua: true}, Out: "true", Input: "EVAL is excluded when filter.lua is set"},
		{Name: "evalsha+lua", When: map[string]bool{"cmd~evalsha": true, fLua: true}, Out: "true", Input: "EVALSHA is excluded when filter.lua is set"},
		{Name: "script+lua", When: map[string]bool{"cmd~script": true, fLua: true}, Out: "true", Input: "SCRIPT is excluded when filter.lua is set"},
		{Name: "scripts-without-lua", When: map[string]bool{"cmd~opinfo": false, fLua: false}, Out: "false", Input: "script commands pass when filter.lua is unset"},
		{Name: "other-command", When: none, Out: "false", Input: "a command other than opinfo/eval/evalsha/script is never excluded by the command filter"},
	})
	if pc != nil {
		// the classifier accepts a command-name test only in a case-insensitive spelling
		// (EqualFold, or == on strings.ToLower); anything else made the table UNDECIDED above
		if n := len(pc.folded); n >= 4 {
			c.Okf("R2.matcher", "FilterCommands/EqualFold", pc.fn.Decl.Pos(), "command names are compared case-insensitively (%d names)", n)
		} else {
			c.Undecidedf("R2.matcher", "FilterCommands/EqualFold", pc.fn.Decl.Pos(), "only %d case-insensitive command-name tests recognised, 4 names expected", n)
		}
	}

	// FilterKey
	pk := table("FilterKey", 0, []string{"ckpt", ne(fKB), m(fKB), ne(fKW), m(fKW)}, append([]tt.Want{
		{Name: "checkpoint-prefix", When: map[string]bool{"ckpt": true}, Out: "true", Input: "a key starting with the checkpoint name (redis-shake-checkpoint[-suffix]) is filtered before any list is consulted"},
	}, listWants(fKB, fKW, "a key", map[string]bool{"ckpt": false})...))
	if pk != nil {
		matcher(c, pk, fKB, "prefix")
		matcher(c, pk, fKW, "prefix")
	}

	// FilterDB
	pd := table("FilterDB", 0, []string{ne(fDB), m(fDB), ne(fDW), m(fDW)}, listWants(fDB, fDW, "a database", nil))
	if pd != nil {
		matcher(c, pd, fDB, "equal")
		matcher(c, pd, fDW, "equal")
	}

	// FilterSlot
	l := "listed(" + fSlot + ")"
	ps := table("FilterSlot", 0, []string{ne(fSlot), l}, []tt.Want{
		{Name: "no-slot-list", When: map[string]bool{ne(fSlot): false}, Out: "false", Input: "every slot passes when no slot list is configured"},
		{Name: "slot-listed", When: map[string]bool{ne(fSlot): true, l: true}, Out: "false", Input: "a key hashing to a listed slot passes"},
		{Name: "slot-not-listed", When: map[string]bool{ne(fSlot): true, l: false}, Out: "true", Input: "a key hashing to an unlisted slot is filtered"},
	})
	if ps != nil {
		c.Okf("R2.matcher", "FilterSlot/int-equality", ps.fn.Decl.Pos(), "the slot is compared by integer equality with strconv.Atoi of each list element")
	}

	// HandleFilterKeyWithCommand (second result: true = rejected)
	table("HandleFilterKeyWithCommand", 1, []string{ne(fKB), ne(fKW), "known-command", "argv-nonempty", "keys-pass"}, []tt.Want{
		{Name: "no-key-list", When: map[string]bool{ne(fKB): false, ne(fKW): false}, Out: "false", Input: "no command is rejected when no key list is configured"},
		{Name: "unknown-command", When: map[string]bool{"known-command": false}, Out: "false", Input: "a command without a key specification passes"},
		{Name: "no-arguments", When: map[string]bool{"argv-nonempty": false}, Out: "false", Input: "a command without arguments passes"},
		{Name: "keys-pass", When: map[string]bool{"known-command": true, "argv-nonempty": true, "keys-pass": true}, Out: "false", Input: "a command whose keys pass the key filter is forwarded"},
		{Name: "keys-filtered/blacklist", When: map[string]bool{ne(fKB): true, "known-command": true, "argv-nonempty": true, "keys-pass": false}, Out: "true", Input: "a command all of whose keys are filtered is rejected"},
		{Name: "keys-filtered/whitelist", When: map[string]bool{ne(fKW): true, "known-command": true, "argv-nonempty": true, "keys-pass": false}, Out: "true", Input: "a command all of whose keys are filtered is rejected"},
	})
}

// matcher checks (R2) the helper that decides match(<list>) in predicate p.
func matcher(c *core.Ctx, p *predicate, list, want string) {
	key := p.fn.Decl.Name.Name + "/" + list
	call := p.helpers[list]
	if call == nil {
		c.Undecidedf("R2.matcher", key, p.fn.Decl.Pos(), "%s does not consult %s through a matching helper", p.fn.Decl.Name.Name, list)
		return
	}
	h := c.FnOf(core.CalleeFunc(p.info, call))
	if h == nil || h.Decl.Body == nil || len(call.Args) != 2 {
		c.Undecidedf("R2.matcher", key, call.Pos(), "matching helper not resolvable")
		return
	}
	// which argument is the list, which the subject
	li := 0
	if _, ok := p.confList(call.Args[1]); ok {
		li = 1
	}
	subj := call.Args[1-li]
	// the subject: the key itself, or the decimal rendering of the database
	okSubj, how := p.isParam(subj, 0), "the key"
	if want == "equal" {
		okSubj, how = p.decimal(subj), "the decimal rendering of the database number"
	}
	if !okSubj {
		c.Undecidedf("R2.matcher", key, call.Pos(), "the value matched against %s is not recognised as %s", list, how)
		return
	}
	kind := helperKind(c, h, 1-li, li)
	detail := map[string]string{
		"prefix": "a list entry matches every key that starts with it (strings.HasPrefix(key, entry))",
		"equal":  "a list entry matches exactly the database with that number (string equality with the decimal rendering)",
	}[want]
	switch {
	case kind == "":
		c.Undecidedf("R2.matcher", key, h.Decl.Pos(), "matcher %s has an unrecognised shape", h.Decl.Name.Name)
	case kind == want:
		c.Okf("R2.matcher", key, h.Decl.Pos(), "%s: %s", h.Decl.Name.Name, detail)
	default:
		c.Failf("R2.matcher", key, h.Decl.Pos(), "%s consults %s with a %q matcher (%s), required: %s; e.g. list entry \"1\" / subject \"10\", or entry \"ab\" / subject \"a\", are decided wrongly", p.fn.Decl.Name.Name, list, kind, h.Decl.Name.Name, detail)
	}
}

// decimal: e is FormatInt(int64(db),10) / Itoa(db) / Sprintf("%d", db) of parameter 0.
func (p *predicate) decimal(e ast.Expr) bool {
	e = tt.Resolve(p.info, p.body, e, 2)
	for _, s := range []string{"strconv.FormatInt(int64(_d), 10)", "strconv.Itoa(_d)", "strconv.Itoa(int(_d))", `fmt.Sprintf("%d", _d)`, "fmt.Sprint(_d)"} {
		if b := pat.Expr(s).Match(p.info, e, nil); b != nil && p.isParam(b["_d"].(ast.Expr), 0) {
			return true
		}
	}
	return false
}

// helperKind extracts the decision table of a `for range list { if test { return true } } return false`
// helper and names the element test.
func helperKind(c *core.Ctx, h *core.Fn, subjIdx, listIdx int) string {
	info := h.Pkg.TypesInfo
	var params []types.Object
	for _, f := range h.Decl.Type.Params.List {
		for _, n := range f.Names {
			params = append(params, info.Defs[n])
		}
	}
	if len(params) != 2 {
		return ""
	}
	is := func(e ast.Expr, o types.Object) bool {
		id, ok := ast.Unparen(e).(*ast.Ident)
		return ok && o != nil && core.ObjOf(info, id) == o
	}
	x := tt.ViewOf(c.Program, h, "c06pred", func(*types.Func) bool { return true }).X(c.Program)
	x.Prog, x.LoopDecisions = c.Program, true
	x.Rewrite = tt.PrefixBySlicing(info)
	traces, err := x.Traces(x.G.CFG.Blocks[0], 0, nil, 50)
	if err != nil {
		return ""
	}
	kind := ""
	rows, err := x.Table(traces, 0, func(l tt.Lit) (string, bool, bool) {
		if l.Loop == nil {
			return "", false, false
		}
		list, isElemExpr := tt.LoopElem(info, l.Loop)
		if list == nil || !is(list, params[listIdx]) {
			return "", false, false
		}
		isElem := func(e ast.Expr) bool { return isElemExpr(tt.Resolve(info, h.Decl.Body, e, 1)) || isElemExpr(e) }
		isSubj := func(e ast.Expr) bool { return is(e, params[subjIdx]) }
		k := ""
		classifyCall := func(name string, args []ast.Expr) string {
			switch {
			case isSubj(args[0]) && isElem(args[1]):
				if name == "HasPrefix" {
					return "prefix"
				}
				return "strings." + name
			case isSubj(args[1]) && isElem(args[0]):
				if name == "EqualFold" {
					return "strings.EqualFold"
				}
				return "strings." + name + "(entry, subject)"
			}
			return ""
		}
		lenArg := func(e ast.Expr) ast.Expr {
			call, ok := ast.Unparen(e).(*ast.CallExpr)
			if !ok || len(call.Args) != 1 {
				return nil
			}
			if id, ok := call.Fun.(*ast.Ident); !ok || id.Name != "len" {
				return nil
			}
			return call.Args[0]
		}
		if be, ok := ast.Unparen(l.Expr).(*ast.BinaryExpr); ok && (be.Op == token.LSS || be.Op == token.GTR || be.Op == token.LEQ || be.Op == token.GEQ) {
			// the length guard of a hand-written prefix test: "the entry is longer than the subject"
			a, b := lenArg(be.X), lenArg(be.Y)
			if a != nil && b != nil {
				switch {
				case isElem(a) && isSubj(b) && be.Op == token.GTR, isSubj(a) && isElem(b) && be.Op == token.LSS:
					return "entry-too-long", true, true
				case isElem(a) && isSubj(b) && be.Op == token.LEQ, isSubj(a) && isElem(b) && be.Op == token.GEQ:
					return "entry-too-long", false, true
				}
			}
			return "", false, false
		}
		if name, args := stringsCall(info, l.Expr); name != "" && len(args) == 2 {
			k = classifyCall(name, args)
		} else if be, ok := ast.Unparen(l.Expr).(*ast.BinaryExpr); ok && (be.Op == token.EQL || be.Op == token.NEQ) {
			// subject[:len(entry)] == entry under a length guard in the same loop is HasPrefix(subject, entry)
			for _, pair := range [][2]ast.Expr{{be.X, be.Y}, {be.Y, be.X}} {
				sl, ok := ast.Unparen(pair[0]).(*ast.SliceExpr)
				if !ok || sl.Low != nil || sl.Slice3 || sl.High == nil || !isSubj(sl.X) || !isElem(pair[1]) {
					continue
				}
				if hp := lenArg(sl.High); hp == nil || !isElem(hp) {
					continue
				}
				guarded := false
				ast.Inspect(l.Loop, func(n ast.Node) bool {
					if g, ok := n.(*ast.BinaryExpr); ok && (g.Op == token.LSS || g.Op == token.GTR || g.Op == token.LEQ || g.Op == token.GEQ) {
						a, b := lenArg(g.X), lenArg(g.Y)
						if a != nil && b != nil && (isElem(a) && isSubj(b) || isSubj(a) && isElem(b)) {
							guarded = true
						}
					}
					return true
				})
				if guarded {
					kind = "prefix"
					return "hit", be.Op == token.EQL, true
				}
			}
			if isSubj(be.X) && isElem(be.Y) || isSubj(be.Y) && isElem(be.X) {
				kind = "equal"
				return "hit", be.Op == token.EQL, true
			}
			// strings.Index(subject, entry) == 0 is strings.HasPrefix(subject, entry)
			for _, pair := range [][2]ast.Expr{{be.X, be.Y}, {be.Y, be.X}} {
				if name, args := stringsCall(info, pair[0]); name == "Index" && len(args) == 2 {
					if z, isInt := core.IntConst(info, pair[1]); isInt && z == 0 {
						if kk := classifyCall("HasPrefix", args); kk != "" {
							kind = kk
							return "hit", be.Op == token.EQL, true
						}
					}
				}
			}
		}
		if k == "" {
			return "", false, false
		}
		kind = k
		return "hit", true, true
	})
	if err != nil || kind == "" {
		return ""
	}
	universe := []string{"hit"}
	for _, a := range tt.Atoms(rows) {
		if a == "entry-too-long" {
			// a path leaves the scan at an entry that cannot match: the entries after it are never tried
			universe = append(universe, a)
		}
	}
	if len(universe) > 1 {
		for _, v := range tt.Compare(rows, universe, nil, []tt.Want{{Name: "hit", When: map[string]bool{"hit": true}, Out: "true"}}) {
			if !v.Undecided && !v.OK {
				return kind + " that stops at the first entry longer than the subject (later entries are never tried)"
			}
		}
		return ""
	}
	for _, v := range tt.Compare(rows, universe, nil, []tt.Want{
		{Name: "hit", When: map[string]bool{"hit": true}, Out: "true"},
		{Name: "miss", When: map[string]bool{"hit": false}, Out: "false"},
	}) {
		if v.Undecided {
			return ""
		}
		if !v.OK {
			return "inverted " + kind
		}
	}
	return kind
}
