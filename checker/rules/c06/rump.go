package c06

import (
	"go/ast"
	"go/token"
	"go/types"

	"golang.org/x/tools/go/cfg"

	"rscheck/cfgq"
	"rscheck/core"
	"rscheck/pat"
	"rscheck/rules/c06/tt"
)

func rumpKeys(c *core.Ctx) {
	fn := c.Func(pkgRun, "dbRumperExecutor", "doFetch")
	pf := c.Func(pkgFilter, "", "FilterKey")
	if fn == nil || pf == nil {
		return
	}
	info := fn.Pkg.TypesInfo
	view := tt.ViewOf(c.Program, fn, "c06keys", nil)
	g, x := view.G, view.X(c.Program)
	key := "rump-keys/FilterKey"
	keyListFuncs = map[string]bool{"doFetch": true}
	for _, h := range view.Inlined {
		keyListFuncs[h.Decl.Name.Name] = true
	}
	// the send: dre.keyChan <- &KeyNode{<key>, ...} where <key> is the element of a loop over the key list
	var listObj types.Object
	var send ast.Node
	for _, p := range g.Points(func(n ast.Node) bool {
		s, ok := n.(*ast.SendStmt)
		if !ok {
			return false
		}
		ch := ast.Unparen(s.Chan)
		if d := pat.DefOf(info, identOf(ch)); d != nil {
			ch = ast.Unparen(d) // out := dre.keyChan
		}
		return core.IsFieldNamed(info, ch, "dbRumperExecutor", "keyChan")
	}) {
		val := ast.Unparen(p.Node().(*ast.SendStmt).Value)
		if d := pat.DefOf(info, identOf(val)); d != nil {
			val = ast.Unparen(d) // node := &KeyNode{...}; ch <- node
		}
		if u, ok := val.(*ast.UnaryExpr); ok && u.Op == token.AND {
			val = ast.Unparen(u.X)
		}
		lit, ok := val.(*ast.CompositeLit)
		if !ok || len(lit.Elts) == 0 {
			continue
		}
		var keyExpr ast.Expr
		for i, el := range lit.Elts {
			if kv, isKV := el.(*ast.KeyValueExpr); isKV {
				if id, ok := kv.Key.(*ast.Ident); ok && id.Name == "key" {
					keyExpr = kv.Value
				}
			} else if i == 0 {
				keyExpr = el
			}
		}
		loop := x.LoopOf(p.Node())
		list, isElem := tt.LoopElem(info, loop)
		if keyExpr == nil || list == nil {
			continue
		}
		if isElem(keyExpr) || isElem(tt.Resolve(info, view.Body, keyExpr, 3)) {
			listObj, send = identObj(info, list), p.Node()
		}
	}
	if listObj == nil {
		c.Undecidedf("R3.matrix", key, fn.Decl.Pos(), "cannot find `keyChan <- &KeyNode{key, ...}` with the key being the element of a loop over a key list")
		return
	}
	kl := &keyLister{c: c, info: info, pf: pf, body: view.Body, g: g, x: x, send: send, seen: map[types.Object]bool{}}
	if kl.list(listObj, listObj, 3) == 0 {
		c.Undecidedf("R3.matrix", key, fn.Decl.Pos(), "no filtered `keys = append(keys, key)` found for the key list of doFetch")
	}
}

func identObj(info *types.Info, e ast.Expr) types.Object {
	id, ok := ast.Unparen(e).(*ast.Ident)
	if !ok {
		return nil
	}
	return core.ObjOf(info, id)
}

// keyListFuncs: the functions whose handling of the rump key list was analysed.
var keyListFuncs = map[string]bool{}

type keyLister struct {
	c    *core.Ctx
	info *types.Info
	pf   *core.Fn
	body *ast.BlockStmt
	g    *cfgq.Graph
	x    *tt.X
	send ast.Node // where the list is consumed
	seen map[types.Object]bool
}

func (kl *keyLister) emptyFact(f string) func(cfgq.Fact) bool {
	return func(ft cfgq.Fact) bool {
		arg, pol, ok := lenTest(kl.info, ft.Expr)
		if !ok {
			return false
		}
		name, isConf := tt.IsConfField(kl.info, arg, f)
		return isConf && name == f && ft.Val != pol
	}
}

// unfiltered: the definition at node n makes top (the list that is sent) the unfiltered scan
// result. That value may reach the send only when both key lists are empty: there must be no path
// entry -> n -> send on which n's value survives (no other definition of top that does not extend
// it) and no branch establishes that the list is empty.
func (kl *keyLister) unfiltered(n ast.Node, top types.Object) {
	np, ok := tt.Find(kl.g, n)
	if !ok {
		return
	}
	kills := func(m ast.Node) bool {
		if m == n {
			return false
		}
		for _, d := range tt.DefsOf(kl.info, m, top) {
			if d.Stmt == m && (d.Rhs == nil || !core.Mentions(kl.info, d.Rhs, top)) {
				return true
			}
		}
		return false
	}
	for _, f := range []string{fKB, fKW} {
		empty := kl.emptyFact(f)
		avoid := func(b *cfg.Block, si int) bool { return kl.x.Establishes(b, si, empty) }
		w1 := kl.g.Path(cfgq.Query{From: kl.g.Entry(), Target: func(m ast.Node) bool { return m == np.Node() }, AvoidEdge: avoid})
		var w2 []string
		if w1 != nil {
			w2 = kl.g.Path(cfgq.Query{From: np, After: true, Avoid: kills, Target: func(m ast.Node) bool { return m == kl.send }, AvoidEdge: avoid})
		}
		kl.c.Check("R3.matrix", "rump-keys/unfiltered-only-without-"+f, n.Pos(), w1 == nil || w2 == nil,
			"the scanned keys may be copied unfiltered only when "+f+" is empty; otherwise an excluded key is dumped and copied by rump", append(w1, w2...)...)
	}
}

// list checks every definition of the list variable obj (a carrier of the list top that is sent)
// and returns the number of filtered appends found.
func (kl *keyLister) list(obj, top types.Object, depth int) int {
	c, info, g, x := kl.c, kl.info, kl.g, kl.x
	key := "rump-keys/FilterKey"
	why := "an excluded key is dumped and copied by rump"
	if kl.seen[obj] || depth == 0 {
		return 0
	}
	kl.seen[obj] = true
	nAppend := 0
	for _, d := range tt.DefsOf(info, kl.body, obj) {
		as, ok := d.Stmt.(*ast.AssignStmt)
		if !ok || d.Rhs == nil || d.Index != -1 {
			if ok && d.Index >= 0 && obj == top {
				kl.unfiltered(as, top) // result of a multi-value call: the scan itself
			}
			continue // var declaration
		}
		if _, ok := tt.Find(g, as); !ok {
			continue
		}
		if b := pat.Expr("append(_l, _x)").Match(info, d.Rhs, nil); b != nil && identObj(info, b["_l"].(ast.Expr)) == obj {
			nAppend++
			item := rootVar(info, b["_x"].(ast.Expr))
			itemRoot := tt.Resolve(info, kl.body, b["_x"].(ast.Expr), 3)
			var calls []*ast.CallExpr
			for _, call := range core.Calls(kl.body, info, func(call *ast.CallExpr, callee types.Object) bool { return callee == types.Object(kl.pf.Obj) }) {
				if len(call.Args) == 1 && (item != nil && rootVar(info, call.Args[0]) == item || tt.SameExpr(info, tt.Resolve(info, kl.body, call.Args[0], 3), itemRoot)) {
					calls = append(calls, call)
				}
			}
			if len(calls) == 0 {
				if core.Mentions(info, kl.body, kl.pf.Obj) {
					c.Undecidedf("R3.matrix", key, as.Pos(), "cannot relate the key that is appended to an evaluation of filter.FilterKey")
				} else {
					c.Failf("R3.matrix", key, as.Pos(), "a scanned key is put on the list of keys to copy without evaluating filter.FilterKey for it: %s", why)
				}
				continue
			}
			passFact := func(f cfgq.Fact) bool {
				for _, call := range calls {
					if ast.Unparen(f.Expr) == ast.Expr(call) {
						return !f.Val
					}
				}
				return false
			}
			ok, w := x.OnlyVia(cfgq.Point{}, as, passFact)
			c.Check("R3.matrix", key, as.Pos(), ok, "a scanned key may be put on the list of keys to copy only after filter.FilterKey answered 'pass'; otherwise "+why, w...)
			loop := x.LoopOf(as)
			for _, call := range calls {
				var w []string
				for _, bk := range g.CFG.Blocks {
					if !bk.Live || x.Cond(bk) == nil {
						continue
					}
					for si := range bk.Succs {
						mentions := x.Establishes(bk, si, func(f cfgq.Fact) bool { return ast.Unparen(f.Expr) == ast.Expr(call) }) ||
							x.Establishes(bk, 1-si, func(f cfgq.Fact) bool { return ast.Unparen(f.Expr) == ast.Expr(call) })
						if !mentions || len(bk.Succs) != 2 || x.Establishes(bk, si, passFact) || w != nil {
							continue
						}
						w = x.Reach(tt.ReachQuery{From: cfgq.Point{B: bk}, FromSucc: si, Env: tt.Env{}, Target: func(n ast.Node) bool { return n == ast.Node(as) },
							CutBlock: func(b2 *cfg.Block) bool {
								return loop != nil && (b2.Kind == cfg.KindRangeLoop || b2.Kind == cfg.KindForLoop) && b2.Stmt == loop
							}})
					}
				}
				if w != nil && x.Shaky {
					c.Undecidedf("R4.polarity", key, call.Pos(), "whether a key for which filter.FilterKey answered true is put on the list depends on a call that receives the answer and is not evaluated")
					continue
				}
				c.Check("R4.polarity", key, call.Pos(), w == nil, "'return true means not pass': a key for which filter.FilterKey answered true must not be put on the list of keys to copy; otherwise "+why, w...)
			}
			continue
		}
		rhs := ast.Unparen(d.Rhs)
		if call, ok := rhs.(*ast.CallExpr); ok {
			if id, ok := call.Fun.(*ast.Ident); ok && id.Name == "make" {
				continue
			}
		}
		if cl, ok := rhs.(*ast.CompositeLit); ok && len(cl.Elts) == 0 {
			continue // an empty list
		}
		if core.IsNil(info, rhs) {
			continue
		}
		// a copy of another list variable: the same list
		if o, isVar := identObj(info, rhs).(*types.Var); isVar && !o.IsField() && o.Pkg() != nil && o.Parent() != o.Pkg().Scope() && kl.filtered(o, 3) {
			nAppend += kl.list(o, top, depth-1)
			continue
		}
		// the list is produced by a helper that could not be inlined: look at what it returns
		if call, ok := rhs.(*ast.CallExpr); ok {
			if h := c.FnOf(core.CalleeFunc(info, call)); h != nil && h.Decl.Body != nil && h.Pkg.TypesInfo == info {
				hv := tt.ViewOf(c.Program, h, "c06keys", nil)
				keyListFuncs[h.Decl.Name.Name] = true
				okRets := true
				core.Inspect(hv.Body, func(n ast.Node) bool {
					r, isRet := n.(*ast.ReturnStmt)
					if !isRet {
						return true
					}
					o, _ := identObj(info, firstResult(r)).(*types.Var)
					if len(r.Results) != 1 || o == nil || o.IsField() {
						okRets = false
						return true
					}
					hk := &keyLister{c: c, info: info, pf: kl.pf, body: hv.Body, g: hv.G, x: hv.X(c.Program), send: r, seen: map[types.Object]bool{}}
					if hk.filtered(o, 3) {
						nAppend += hk.list(o, o, 3)
					} else {
						hk.unfiltered(r, o)
					}
					return true
				})
				if !okRets {
					c.Undecidedf("R3.matrix", key, call.Pos(), "the key list is produced by %s in an unrecognised way", h.Decl.Name.Name)
				}
				continue
			}
		}
		// anything else: the unfiltered scan result (or an alias of it)
		kl.unfiltered(as, top)
	}
	return nAppend
}

func firstResult(r *ast.ReturnStmt) ast.Expr {
	if len(r.Results) == 0 {
		return nil
	}
	return r.Results[0]
}

// filtered: the list variable o is built by appending (make/empty literal + append(o, ..)), as
// opposed to being the scan result or an alias of it.
func (kl *keyLister) filtered(o types.Object, depth int) bool {
	if depth == 0 {
		return false
	}
	appends := 0
	for _, d := range tt.DefsOf(kl.info, kl.body, o) {
		if d.Rhs == nil {
			if _, isDecl := d.Stmt.(*ast.ValueSpec); isDecl {
				continue
			}
			return false
		}
		if d.Index != -1 {
			return false
		}
		rhs := ast.Unparen(d.Rhs)
		if b := pat.Expr("append(_l, _x)").Match(kl.info, rhs, nil); b != nil && identObj(kl.info, b["_l"].(ast.Expr)) == o {
			appends++
			continue
		}
		if call, ok := rhs.(*ast.CallExpr); ok {
			if id, ok := call.Fun.(*ast.Ident); ok && id.Name == "make" {
				continue
			}
		}
		if cl, ok := rhs.(*ast.CompositeLit); ok && len(cl.Elts) == 0 {
			continue
		}
		if core.IsNil(kl.info, rhs) {
			continue
		}
		if v, isVar := identObj(kl.info, rhs).(*types.Var); isVar && !v.IsField() && kl.filtered(v, depth-1) {
			appends++
			continue
		}
		return false
	}
	return appends > 0
}
