package c06

import (
	"fmt"
	"go/ast"
	"go/token"
	"go/types"
	"strings"

	"golang.org/x/tools/go/cfg"

	"rscheck/cfgq"
	"rscheck/core"
	"rscheck/pat"
	"rscheck/rules/c06/tt"
)

// ---------------------------------------------------------------------------
// R3 / R4: application matrix and polarity

type cell struct {
	pred    string // filter predicate
	tracked bool   // the decision is kept in a variable across items (SELECT tracking)
	field   string // field of the item the predicate is applied to ("" = the item itself)
	via     string // function the field goes through first (KeyToSlot)
	skipCmd bool   // commands that the predicate can never exclude may bypass it
	why     string
}

type site struct {
	name          string
	pkg, recv, fn string
	sink          func(info *types.Info, n ast.Node) ast.Expr // item expression of the sink executed by cfg node n
	cells         []cell
}

func calleeIs(info *types.Info, call *ast.CallExpr, pkg, recv, name string) bool {
	return core.IsFunc(core.CalleeFunc(info, call), pkg, recv, name)
}

// callSink: the item is argument idx of a call to pkg.(recv).name.
func callSink(pkg, recv, name string, idx int) func(*types.Info, ast.Node) ast.Expr {
	return func(info *types.Info, n ast.Node) ast.Expr {
		var item ast.Expr
		for _, call := range cfgq.ExecCalls(n) {
			if calleeIs(info, call, pkg, recv, name) && idx < len(call.Args) {
				item = call.Args[idx]
			}
		}
		return item
	}
}

// sendBufSink: `ds.sendBuf <- cmdDetail{Cmd: <non-constant>, ...}`; the item is the command name.
func sendBufSink(info *types.Info, n ast.Node) ast.Expr {
	s, ok := n.(*ast.SendStmt)
	if !ok {
		return nil
	}
	// the queue itself or a single-assignment alias of it (`out := ds.sendBuf`)
	ch := ast.Unparen(s.Chan)
	if d := tt.DefOf(info, identOf(ch)); d != nil {
		ch = ast.Unparen(d)
	}
	if !core.IsFieldNamed(info, ch, "DbSyncer", "sendBuf") {
		return nil
	}
	// the value: the literal, or a local holding it (`detail := cmdDetail{...}; ch <- detail`)
	val := ast.Unparen(s.Value)
	if d := tt.DefOf(info, identOf(val)); d != nil {
		val = ast.Unparen(d)
	}
	lit, ok := val.(*ast.CompositeLit)
	if !ok {
		return nil
	}
	for _, el := range lit.Elts {
		if kv, ok := el.(*ast.KeyValueExpr); ok {
			if k, ok := kv.Key.(*ast.Ident); ok && k.Name == "Cmd" {
				if _, isConst := core.StringConst(info, kv.Value); !isConst {
					if d := tt.DefOf(info, identOf(kv.Value)); d != nil {
						if _, isConst := core.StringConst(info, d); isConst {
							continue // a local holding a constant command name
						}
					}
					return kv.Value
				}
			}
		}
	}
	return nil
}

// appendSink: `list = append(list, item)`.
func appendSink(info *types.Info, n ast.Node) ast.Expr {
	as, ok := n.(*ast.AssignStmt)
	if !ok || len(as.Lhs) != len(as.Rhs) {
		return nil
	}
	for i := range as.Lhs { // also one pair of a tuple assignment
		call, ok := ast.Unparen(as.Rhs[i]).(*ast.CallExpr)
		if !ok || len(call.Args) != 2 || call.Ellipsis.IsValid() {
			continue
		}
		if id, ok := call.Fun.(*ast.Ident); ok && id.Name == "append" && pat.Same(info, as.Lhs[i], call.Args[0]) {
			return call.Args[1]
		}
	}
	return nil
}

// rootExprOf strips conversions, & and * down to the variable (or returns e).
func rootExprOf(info *types.Info, e ast.Expr) ast.Expr {
	for e != nil {
		switch v := ast.Unparen(e).(type) {
		case *ast.CallExpr:
			if tv, ok := info.Types[v.Fun]; ok && tv.IsType() && len(v.Args) == 1 {
				e = v.Args[0]
				continue
			}
		case *ast.UnaryExpr:
			e = v.X
			continue
		case *ast.StarExpr:
			e = v.X
			continue
		}
		return ast.Unparen(e)
	}
	return e
}

// liftSink also accepts, as a sink, a call of a same-package helper whose body executes the
// primitive sink on one of the helper's parameters: the item is then the corresponding argument
// (a constant argument, e.g. the rewritten "SELECT", is not an item of the data path).
func liftSink(c *core.Ctx, base func(*types.Info, ast.Node) ast.Expr) func(*types.Info, ast.Node) ast.Expr {
	return func(info *types.Info, n ast.Node) ast.Expr {
		if e := base(info, n); e != nil {
			return e
		}
		for _, call := range cfgq.ExecCalls(n) {
			if call.Ellipsis.IsValid() {
				continue
			}
			var plist *ast.FieldList
			var hg *cfgq.Graph
			if h := c.FnOf(core.CalleeFunc(info, call)); h != nil && h.Decl.Body != nil && h.Pkg.TypesInfo == info {
				plist, hg = h.Decl.Type.Params, cfgq.Of(c.Program, h)
			} else if id, ok := ast.Unparen(call.Fun).(*ast.Ident); ok {
				// a closure bound once to a local
				if d := pat.DefOf(info, id); d != nil {
					if lit, ok := ast.Unparen(d).(*ast.FuncLit); ok {
						plist, hg = lit.Type.Params, cfgq.OfLit(c.Program, info, lit)
					}
				}
			}
			if hg == nil {
				continue
			}
			var params []types.Object
			for _, fl := range plist.List {
				for _, nm := range fl.Names {
					params = append(params, info.Defs[nm])
				}
			}
			for _, p := range hg.Points(func(m ast.Node) bool { return base(info, m) != nil }) {
				item := rootVar(info, base(info, p.Node()))
				for j, po := range params {
					if item != nil && po == item && j < len(call.Args) {
						if _, isConst := core.StringConst(info, call.Args[j]); !isConst {
							return call.Args[j]
						}
					}
				}
			}
		}
		return nil
	}
}

// siteOpaque: the anchored functions of the sites stay calls in every view (a sink such as doFetch
// is recognised by its call).
func siteOpaque(c *core.Ctx) func(*types.Func) bool {
	set := map[*types.Func]bool{}
	for _, s := range siteTable {
		if fn := c.LookupFunc(s.pkg, s.recv, s.fn); fn != nil {
			set[fn.Obj] = true
		}
	}
	if fn := c.LookupFunc(pkgRun, "dbRumperExecutor", "doFetch"); fn != nil {
		set[fn.Obj] = true
	}
	return func(f *types.Func) bool { return set[f] }
}

var siteTable = []site{
	{name: "full", pkg: pkgSync, recv: "DbSyncer", fn: "syncRDBFile", sink: callSink(pkgUtils, "", "RestoreRdbEntry", 1), cells: []cell{
		{pred: "FilterDB", field: "DB", why: "a key of an excluded database is restored by full sync"},
		{pred: "FilterKey", field: "Key", why: "an excluded key (or the tool's checkpoint key) is restored by full sync"},
		{pred: "FilterSlot", field: "Key", via: "KeyToSlot", why: "a key hashing to an unlisted slot is restored by full sync"},
	}},
	{name: "restore", pkg: pkgRun, recv: "dbRestorer", fn: "restoreRDBFile", sink: callSink(pkgUtils, "", "RestoreRdbEntry", 1), cells: []cell{
		{pred: "FilterDB", field: "DB", why: "a key of an excluded database is restored in restore mode"},
		{pred: "FilterKey", field: "Key", why: "an excluded key (or the tool's checkpoint key) is restored in restore mode"},
	}},
	{name: "incremental", pkg: pkgSync, recv: "DbSyncer", fn: "parseSourceCommand", sink: sendBufSink, cells: []cell{
		{pred: "FilterDB", tracked: true, why: "commands of an excluded database are forwarded by incremental sync"},
		{pred: "FilterCommands", skipCmd: true, why: "opinfo / script commands are forwarded although excluded"},
		{pred: "HandleFilterKeyWithCommand", why: "a command on excluded keys is forwarded by incremental sync"},
	}},
	{name: "restore-command", pkg: pkgRun, recv: "dbRestorer", fn: "restoreCommand", sink: callSink(pkgRedis, "", "MustEncode", 1), cells: []cell{
		{pred: "FilterDB", tracked: true, why: "commands of an excluded database are forwarded by restore mode"},
	}},
	{name: "rump-fetcher", pkg: pkgRun, recv: "dbRumperExecutor", fn: "fetcher", sink: callSink(pkgRun, "dbRumperExecutor", "doFetch", 0), cells: []cell{
		{pred: "FilterDB", why: "an excluded database is scanned and copied by rump"},
	}},
	{name: "rump-dblist", pkg: pkgRun, recv: "dbRumperExecutor", fn: "getSourceDbList", sink: appendSink, cells: []cell{
		{pred: "FilterDB", why: "an excluded database is put on rump's database list"},
	}},
}

func sites(c *core.Ctx) {
	for _, s := range siteTable {
		fn := c.Func(s.pkg, s.recv, s.fn)
		if fn == nil {
			continue
		}
		info := fn.Pkg.TypesInfo
		found := 0
		s.sink = liftSink(c, s.sink)
		for _, b := range tt.ViewBodies(c.Program, fn, "c06", siteOpaque(c)) {
			x := b.View.X(c.Program)
			for _, sp := range b.G.Points(func(n ast.Node) bool { return s.sink(info, n) != nil }) {
				// the item that is sent, seen through single-assignment copies (`entry := e`)
				root := rootVar(info, tt.Resolve(info, b.Root, rootExprOf(info, s.sink(info, sp.Node())), 3))
				if root == nil {
					root = rootVar(info, s.sink(info, sp.Node()))
				}
				if root != nil && b.Params[root] {
					continue // the sink of a helper on its own parameter: analysed at the call sites
				}
				found++
				expected := map[string]bool{}
				for _, cl := range s.cells {
					expected[cl.pred] = true
					checkCell(c, s, cl, fn, b, x, sp, root)
				}
				for _, call := range core.Calls(b.Root, info, func(call *ast.CallExpr, callee types.Object) bool {
					f, ok := callee.(*types.Func)
					return ok && f.Pkg() != nil && f.Pkg().Path() == core.Module+"/"+pkgFilter && f.Exported() && !expected[f.Name()]
				}) {
					c.Undecidedf("R3.matrix", s.name+"/unexpected/"+core.CalleeFunc(info, call).Name(), call.Pos(), "the %s path applies %s, which the statement does not list for it", s.name, core.CalleeFunc(info, call).Name())
				}
			}
		}
		if found == 0 {
			c.Undecidedf("R3.matrix", s.name+"/sink", fn.Decl.Pos(), "the sink of the %s path was not found in %s", s.name, s.fn)
		}
	}
	rumpKeys(c)
}

// rootVar strips conversions, & and * and returns the local variable an item expression is built on.
func rootVar(info *types.Info, e ast.Expr) types.Object {
	for {
		switch v := ast.Unparen(e).(type) {
		case *ast.Ident:
			if o, ok := core.ObjOf(info, v).(*types.Var); ok && !o.IsField() {
				return o
			}
			return nil
		case *ast.CallExpr:
			if tv, ok := info.Types[v.Fun]; ok && tv.IsType() && len(v.Args) == 1 {
				e = v.Args[0]
				continue
			}
			return nil
		case *ast.UnaryExpr:
			e = v.X
		case *ast.StarExpr:
			e = v.X
		default:
			return nil
		}
	}
}

// commandVar: e is the command name returned by redis.ParseArgs.
func commandVar(info *types.Info, root ast.Node, e ast.Expr) bool {
	id, ok := ast.Unparen(e).(*ast.Ident)
	if !ok {
		return false
	}
	// through plain copies (the parameter binding of an inlined helper, a renamed local)
	for depth := 0; depth < 4; depth++ {
		defs := tt.DefsOf(info, root, core.ObjOf(info, id))
		if len(defs) != 1 || defs[0].Rhs == nil || defs[0].Index != -1 || defs[0].Range != nil {
			break
		}
		src, isId := ast.Unparen(defs[0].Rhs).(*ast.Ident)
		if !isId {
			break
		}
		id = src
	}
	for _, d := range tt.DefsOf(info, root, core.ObjOf(info, id)) {
		if call, ok := ast.Unparen(d.Rhs).(*ast.CallExpr); ok && d.Index == 0 && calleeIs(info, call, pkgRedis, "", "ParseArgs") {
			return true
		}
	}
	return false
}

// cmdIs: the fact says that the parsed command name equals a constant accepted by accept.
func cmdIs(info *types.Info, root ast.Node, f cfgq.Fact, accept func(string) bool) bool {
	check := func(a, b ast.Expr) bool {
		s, ok := core.StringConst(info, b)
		return ok && commandVar(info, root, a) && accept(strings.ToLower(s))
	}
	switch e := ast.Unparen(f.Expr).(type) {
	case *ast.BinaryExpr:
		if (e.Op == token.EQL) == f.Val && (e.Op == token.EQL || e.Op == token.NEQ) {
			return check(e.X, e.Y) || check(e.Y, e.X)
		}
	case *ast.CallExpr:
		if name, args := stringsCall(info, e); name == "EqualFold" && len(args) == 2 && f.Val {
			return check(args[0], args[1]) || check(args[1], args[0])
		}
	}
	return false
}

func isPing(s string) bool { return s == "ping" }

// neverFiltered: command names FilterCommands cannot exclude under any configuration.
func neverFiltered(s string) bool {
	return s != "opinfo" && s != "eval" && s != "evalsha" && s != "script"
}

// closure returns e and the defining expressions of the locals it mentions.
func closure(info *types.Info, root ast.Node, e ast.Expr, depth int) []ast.Expr {
	out := []ast.Expr{e}
	if depth == 0 {
		return out
	}
	ast.Inspect(e, func(n ast.Node) bool {
		if id, ok := n.(*ast.Ident); ok {
			if d, ok := tt.SingleDef(info, root, id); ok && d.Rhs != nil && d.Range == nil {
				out = append(out, closure(info, root, d.Rhs, depth-1)...)
			}
		}
		return true
	})
	return out
}

func checkCell(c *core.Ctx, s site, cl cell, fn *core.Fn, b tt.Body, x *tt.X, sp cfgq.Point, root types.Object) {
	info, g := b.G.Info, b.G
	sink := sp.Node()
	key := s.name + "/" + cl.pred
	pf := c.Func(pkgFilter, "", cl.pred)
	if pf == nil {
		return
	}
	var mine []*ast.CallExpr
	subjArg := map[*ast.CallExpr]ast.Expr{} // the argument that stands for the item
	var viaExprs []ast.Expr                 // what a proxy helper does with its parameter before calling the predicate
	predObj := types.Object(pf.Obj)
	// calls of the predicate in this body and in the predicate closures it invokes
	// (`keep := func() bool { return n > 0 && !filter.FilterDB(db) }; if keep() {`)
	isPred := func(call *ast.CallExpr, callee types.Object) bool {
		return funcValue(info, b.Outer, call.Fun) == types.Object(pf.Obj)
	}
	predCalls := core.Calls(b.Root, info, isPred)
	for _, call := range core.Calls(b.Root, info, func(*ast.CallExpr, types.Object) bool { return true }) {
		lit, _ := ast.Unparen(call.Fun).(*ast.FuncLit)
		if id, ok := ast.Unparen(call.Fun).(*ast.Ident); ok && lit == nil {
			if d, ok := tt.SingleDef(info, b.Outer, id); ok && d.Rhs != nil && d.Index == -1 {
				lit, _ = ast.Unparen(d.Rhs).(*ast.FuncLit)
			}
		}
		if lit != nil && len(lit.Body.List) == 1 {
			if _, isRet := lit.Body.List[0].(*ast.ReturnStmt); isRet {
				predCalls = append(predCalls, core.Calls(lit.Body, info, isPred)...)
			}
		}
	}
	for _, call := range predCalls {
		if cl.tracked || root != nil && len(call.Args) > 0 && tt.MentionsResolved(info, b.Root, call.Args[0], root, 2) {
			mine = append(mine, call)
			if len(call.Args) > 0 {
				subjArg[call] = call.Args[0]
			}
		}
	}
	if len(mine) == 0 {
		// applied through a boolean helper of the same package whose `false` answer implies that the
		// predicate answered false for the helper's parameter: the helper stands for the predicate
		indirect := false
		for _, call := range core.Calls(b.Root, info, func(*ast.CallExpr, types.Object) bool { return true }) {
			// the callee: a function/method of the module, or a closure bound once to a local
			var params *ast.FieldList
			var results *ast.FieldList
			var hbody *ast.BlockStmt
			var hg *cfgq.Graph
			var hobj types.Object
			samePkg := false
			if h := c.FnOf(core.CalleeFunc(info, call)); h != nil && h.Decl.Body != nil && strings.HasPrefix(h.Obj.Pkg().Path(), core.Module) {
				params, results, hbody, hg, hobj, samePkg = h.Decl.Type.Params, h.Decl.Type.Results, h.Decl.Body, cfgq.Of(c.Program, h), h.Obj, h.Pkg.TypesInfo == info
			} else if id, ok := ast.Unparen(call.Fun).(*ast.Ident); ok {
				if d, ok := tt.SingleDef(info, b.Outer, id); ok && d.Rhs != nil && d.Index == -1 {
					if lit, ok := ast.Unparen(d.Rhs).(*ast.FuncLit); ok {
						params, results, hbody, hg, hobj, samePkg = lit.Type.Params, lit.Type.Results, lit.Body, cfgq.OfLit(c.Program, info, lit), core.ObjOf(info, id), true
					}
				}
			}
			if hbody == nil {
				continue
			}
			hinfo := hg.Info
			inner := core.CallsAll(hbody, hinfo, func(_ *ast.CallExpr, callee types.Object) bool { return callee == types.Object(pf.Obj) })
			if len(inner) == 0 {
				continue
			}
			indirect = true
			if j, ok := proxyFor(c, hinfo, params, results, hbody, hg, pf.Obj, inner); ok && !cl.tracked && samePkg && !call.Ellipsis.IsValid() && j < len(call.Args) && root != nil && tt.MentionsResolved(info, b.Root, call.Args[j], root, 2) {
				mine = append(mine, call)
				subjArg[call] = call.Args[j]
				predObj = hobj
				for _, in := range inner {
					viaExprs = append(viaExprs, closure(info, hbody, in.Args[0], 2)...)
				}
			}
		}
		if len(mine) == 0 {
			if indirect || core.Mentions(info, b.Outer, pf.Obj) {
				c.Undecidedf("R3.matrix", key, sink.Pos(), "%s is applied through a helper function or a function value, not analysed", cl.pred)
			} else {
				c.Failf("R3.matrix", key, sink.Pos(), "the %s path never evaluates filter.%s for the item it sends: %s", s.name, cl.pred, cl.why)
			}
			return
		}
	}
	exempt := func(f cfgq.Fact) bool {
		if cl.tracked && cmdIs(info, b.Outer, f, isPing) {
			return true // PING carries no data and is forwarded whatever the database
		}
		return cl.skipCmd && cmdIs(info, b.Outer, f, neverFiltered)
	}
	redefines := func(n ast.Node) bool {
		if cl.tracked || root == nil {
			return false
		}
		if as, ok := n.(*ast.AssignStmt); ok {
			for _, l := range as.Lhs {
				if id, ok := l.(*ast.Ident); ok && core.ObjOf(info, id) == root {
					return true
				}
			}
		}
		return false
	}
	nextItem := func(bk *cfg.Block) bool {
		if cl.tracked || root == nil || bk.Kind != cfg.KindRangeLoop {
			return false
		}
		rs, ok := bk.Stmt.(*ast.RangeStmt)
		if !ok {
			return false
		}
		for _, e := range []ast.Expr{rs.Key, rs.Value} {
			if id, ok := e.(*ast.Ident); ok && core.ObjOf(info, id) == root {
				return true
			}
		}
		return false
	}
	isMine := func(e ast.Expr) bool {
		for _, call := range mine {
			if ast.Unparen(e) == ast.Expr(call) {
				return true
			}
		}
		return false
	}

	// the item field the predicate looks at
	if cl.field != "" {
		okField, mentions := false, false
		for _, call := range mine {
			hasSel, hasVia := false, cl.via == ""
			for _, e := range append(closure(info, b.Root, subjArg[call], 2), viaExprs...) {
				ast.Inspect(e, func(n ast.Node) bool {
					switch v := n.(type) {
					case *ast.SelectorExpr:
						if id, ok := v.X.(*ast.Ident); ok && core.ObjOf(info, id) == root {
							mentions = true
							if v.Sel.Name == cl.field {
								hasSel = true
							}
						}
					case *ast.CallExpr:
						if f := core.CalleeFunc(info, v); f != nil && f.Name() == cl.via {
							hasVia = true
						}
					}
					return true
				})
			}
			if hasSel && hasVia {
				okField = true
			}
		}
		switch {
		case okField:
		case mentions:
			c.Failf("R3.matrix", key+"/subject", mine[0].Pos(), "%s is not applied to the item's %s%s: %s", cl.pred, cl.field, viaText(cl.via), cl.why)
			return
		default:
			c.Undecidedf("R3.matrix", key+"/subject", mine[0].Pos(), "cannot relate the argument of %s to the item that is sent", cl.pred)
			return
		}
	}

	// classify how each call's answer is used
	var flagObjs []types.Object
	var assigns []ast.Node
	type use struct {
		call   *ast.CallExpr
		pt     cfgq.Point
		flag   types.Object
		decide []*cfg.Block // branches one of whose edges says something about the call's answer
	}
	var uses []use
	for _, call := range mine {
		pt, inGraph := tt.Find(g, call) // a call inside an invoked predicate closure is not a node of this graph
		// the answer decides a branch: directly, negated, compared with true/false, or through a
		// boolean local assigned once (all seen through the branch facts)
		var decide []*cfg.Block
		for _, bk := range g.CFG.Blocks {
			if !bk.Live || x.Cond(bk) == nil {
				continue
			}
			for si := range bk.Succs {
				if x.Establishes(bk, si, func(f cfgq.Fact) bool { return ast.Unparen(f.Expr) == ast.Expr(call) }) {
					decide = append(decide, bk)
					break
				}
			}
		}
		if len(decide) > 0 {
			uses = append(uses, use{call, pt, nil, decide})
			continue
		}
		if !inGraph {
			c.Undecidedf("R4.polarity", key, call.Pos(), "call not in the control-flow graph")
			return
		}
		as, isAs := pt.Node().(*ast.AssignStmt)
		// `v = v || P(x)` keeps a true verdict and otherwise stores the answer: `if !v { v = P(x) }`
		orAcc := false
		if isAs && len(as.Rhs) == 1 && len(as.Lhs) == 1 && as.Tok == token.ASSIGN {
			if be, ok := ast.Unparen(as.Rhs[0]).(*ast.BinaryExpr); ok && be.Op == token.LOR && ast.Unparen(be.Y) == ast.Expr(call) {
				if lv := tt.BoolLocal(info, as.Lhs[0]); lv != nil && tt.BoolLocal(info, be.X) == lv {
					orAcc = true
				}
			}
		}
		if !isAs || len(as.Rhs) != 1 || ast.Unparen(as.Rhs[0]) != ast.Expr(call) && !orAcc {
			c.Undecidedf("R4.polarity", key, call.Pos(), "the answer of %s is used in an unrecognised way", cl.pred)
			return
		}
		v := tt.BoolLocal(info, as.Lhs[len(as.Lhs)-1])
		if v == nil {
			c.Undecidedf("R4.polarity", key, call.Pos(), "the answer of %s is not kept in a boolean local", cl.pred)
			return
		}
		for _, d := range tt.DefsOf(info, b.Outer, v) {
			if _, isDecl := d.Stmt.(*ast.ValueSpec); isDecl && d.Rhs == nil {
				continue // zero value: false
			}
			if d.Rhs != nil {
				if bv, ok := tt.BoolConst(info, d.Rhs); ok && !bv {
					continue
				}
				if dc, ok := ast.Unparen(d.Rhs).(*ast.CallExpr); ok && core.Callee(info, dc) == predObj {
					continue
				}
			}
			// a verdict accumulated in one variable (`filtered := P(k); if !filtered { filtered = Q(s) }`):
			// the other assignment is acceptable when it cannot lose or bypass this answer
			if sharedVerdict(x, g, d, pt, as, v, func(n ast.Node) bool { return s.sink(info, n) != nil || redefines(n) }, nextItem) {
				continue
			}
			// the flag is not a reliable carrier of the answer. A path on which it holds the answer
			// 'filtered' and a sink is reached all the same is a violation in any case
			w := x.Reach(tt.ReachQuery{From: pt, FromSucc: -1, Env: tt.Env{v: true}, Target: func(n ast.Node) bool { return s.sink(info, n) != nil },
				Cut:      func(n ast.Node) bool { return n != ast.Node(as) && redefines(n) },
				CutBlock: nextItem,
				CutEdge:  func(bk *cfg.Block, si int) bool { return x.Establishes(bk, si, exempt) }})
			if w != nil && !x.Shaky {
				c.Check("R4.polarity", key, call.Pos(), false,
					fmt.Sprintf("'return true means not pass': an item for which filter.%s answered true must not reach the %s sink; otherwise %s", cl.pred, s.name, cl.why), w...)
				return
			}
			c.Undecidedf("R4.polarity", key, call.Pos(), "the variable holding the answer of %s is also assigned elsewhere", cl.pred)
			return
		}
		flagObjs = append(flagObjs, v)
		assigns = append(assigns, as)
		uses = append(uses, use{call, pt, v, nil})
	}
	isAssign := func(n ast.Node) bool {
		for _, a := range assigns {
			if a == n {
				return true
			}
		}
		return false
	}

	// R3: every path to the sink has evidence "not filtered" for this item
	ok, w := x.OnlyVia(cfgq.Point{}, sink, func(f cfgq.Fact) bool {
		if exempt(f) {
			return true
		}
		if isMine(f.Expr) {
			return !f.Val
		}
		if o := tt.BoolLocal(info, f.Expr); o != nil {
			for _, v := range flagObjs {
				if v == o {
					return !f.Val
				}
			}
		}
		return false
	})
	// a flag set on the 'filtered' edge (ignoreCmd = true) is evidence through R4 only; accept the
	// sink when every path passes a predicate evaluation or an exempt edge
	if !ok {
		w2 := g.Path(cfgq.Query{From: g.Entry(), Target: func(n ast.Node) bool { return n == sink },
			Avoid: func(n ast.Node) bool {
				for _, u := range uses {
					if u.pt.Node() == n {
						return true
					}
				}
				return false
			},
			AvoidEdge: func(bk *cfg.Block, si int) bool { return x.Establishes(bk, si, exempt) }})
		if w2 == nil {
			ok, w = true, nil
		}
	}
	if !ok && (cl.tracked || cl.skipCmd) {
		// the exemptions are tests of the command name: a branch on the command name in a spelling
		// that is not recognised may be such an exemption
		unknownCmdTest := false
		for _, bk := range g.CFG.Blocks {
			cond := x.Cond(bk)
			if cond == nil || !bk.Live {
				continue
			}
			mentionsCmd := false
			ast.Inspect(cond, func(n ast.Node) bool {
				if id, isId := n.(*ast.Ident); isId && commandVar(info, b.Outer, id) {
					mentionsCmd = true
				}
				return !mentionsCmd
			})
			if !mentionsCmd {
				continue
			}
			recognised := false
			for si := range bk.Succs {
				for _, f := range x.EdgeFacts(bk, si) {
					if cmdIs(info, b.Outer, f, func(string) bool { return true }) {
						recognised = true
					}
				}
			}
			if !recognised {
				unknownCmdTest = true
			}
		}
		if unknownCmdTest {
			c.Undecidedf("R3.matrix", key, sink.Pos(), "a branch tests the command name in a form that is not recognised: it may exempt commands from filter.%s", cl.pred)
			return
		}
	}
	c.Check("R3.matrix", key, sink.Pos(), ok,
		fmt.Sprintf("the %s sink must be reachable only after filter.%s answered 'pass' for the item; otherwise %s", s.name, cl.pred, cl.why), w...)
	if cl.tracked {
		// every SELECT re-evaluates the database filter before anything else is sent
		n := 0
		for _, bk := range g.CFG.Blocks {
			for si := range bk.Succs {
				if !bk.Live || !x.Establishes(bk, si, func(f cfgq.Fact) bool {
					return cmdIs(info, b.Outer, f, func(s string) bool { return s == "select" })
				}) {
					continue
				}
				n++
				w := g.Path(cfgq.Query{From: cfgq.Point{B: bk.Succs[si]}, Avoid: isAssign, Target: func(nd ast.Node) bool { return s.sink(info, nd) != nil }})
				c.Check("R3.matrix", key+"/select-tracking", sink.Pos(), w == nil,
					"every SELECT must re-evaluate filter.FilterDB before the next command is forwarded; otherwise the previous database's decision is applied to the new database", w...)
			}
		}
		if n == 0 {
			c.Undecidedf("R3.matrix", key+"/select-tracking", sink.Pos(), "no test of the command name against \"select\" found")
		}
	}

	// R4: no path from a 'filtered' answer to any sink of this body for the same item
	anySink := func(n ast.Node) bool { return s.sink(info, n) != nil }
	for _, u := range uses {
		var w []string
		if u.flag == nil {
			for _, bk := range u.decide {
				for si := range bk.Succs {
					if x.Establishes(bk, si, func(f cfgq.Fact) bool { return ast.Unparen(f.Expr) == ast.Expr(u.call) && !f.Val }) {
						continue
					}
					if w == nil {
						w = x.Reach(tt.ReachQuery{From: cfgq.Point{B: bk}, FromSucc: si, Env: tt.Env{}, Target: anySink, Cut: redefines, CutBlock: nextItem})
					}
				}
			}
		} else {
			w = x.Reach(tt.ReachQuery{From: u.pt, FromSucc: -1, Env: tt.Env{u.flag: true}, Target: anySink,
				Cut:      func(n ast.Node) bool { return isAssign(n) || redefines(n) },
				CutBlock: nextItem,
				CutEdge:  func(bk *cfg.Block, si int) bool { return x.Establishes(bk, si, exempt) }})
		}
		if w != nil && x.Shaky {
			c.Undecidedf("R4.polarity", key, u.call.Pos(), "whether an item for which filter.%s answered true reaches the %s sink depends on a call that receives the answer and is not evaluated", cl.pred, s.name)
			continue
		}
		c.Check("R4.polarity", key, u.call.Pos(), w == nil,
			fmt.Sprintf("'return true means not pass': an item for which filter.%s answered true must not reach the %s sink; otherwise %s", cl.pred, s.name, cl.why), w...)
	}
}

// sharedVerdict: the flag v that holds the answer assigned at `as` (point pt) has another
// definition d. It is harmless when (a) d runs after the answer only on paths on which the flag
// was seen false (the answer 'pass' is all that can be overwritten), or (b) after d no sink is
// reachable without evaluating `as` again (flag-tracking search), so that the flag's value at a
// sink always stems from `as` or a later guarded overwrite.
func sharedVerdict(x *tt.X, g *cfgq.Graph, d tt.Def, pt cfgq.Point, as *ast.AssignStmt, v types.Object, stop func(ast.Node) bool, nextItem func(*cfg.Block) bool) bool {
	ds, ok := d.Stmt.(*ast.AssignStmt)
	if !ok || d.Rhs == nil {
		return false
	}
	dp, found := tt.Find(g, ds)
	if !found || dp.Node() != ast.Node(ds) {
		return false
	}
	// `v = v || X` never loses a 'filtered' verdict, and v is false afterwards only if it was before
	if be, ok := ast.Unparen(d.Rhs).(*ast.BinaryExpr); ok && be.Op == token.LOR && tt.BoolLocal(x.Info, be.X) == v && len(ds.Lhs) == 1 {
		return true
	}
	flagFalse := func(f cfgq.Fact) bool {
		return tt.BoolLocal(x.Info, f.Expr) == v && !f.Val
	}
	// (b) first: after d the evaluation at `as` cannot be bypassed on the way to a sink
	isSink := func(n ast.Node) bool { return n != ast.Node(as) && n != ast.Node(ds) && stop(n) }
	if w := x.Reach(tt.ReachQuery{From: dp, FromSucc: -1, Env: tt.Env{}, Target: isSink, Cut: func(n ast.Node) bool { return n == ast.Node(as) }, CutBlock: nextItem}); w == nil {
		return true
	}
	// (a) d is reached from the answer only under flag == false
	if okA, _ := x.OnlyVia(pt, ds, flagFalse); okA {
		// and d is not reachable from the entry without passing `as`
		w := g.Path(cfgq.Query{From: g.Entry(), Target: func(n ast.Node) bool { return n == ast.Node(ds) }, Avoid: func(n ast.Node) bool { return n == ast.Node(as) }})
		return w == nil
	}
	return false
}

// proxyFor decides whether a boolean helper (function, method or closure) stands for the predicate
// pred: on every path on which it answers false the predicate was evaluated on (a value derived
// from) one of its parameters and answered false. It returns the index of that parameter.
func proxyFor(c *core.Ctx, info *types.Info, params, results *ast.FieldList, body *ast.BlockStmt, g *cfgq.Graph, pred *types.Func, inner []*ast.CallExpr) (int, bool) {
	if results == nil || len(results.List) != 1 || len(results.List[0].Names) > 1 {
		return 0, false
	}
	if bt, ok := info.TypeOf(results.List[0].Type).Underlying().(*types.Basic); !ok || bt.Kind() != types.Bool {
		return 0, false
	}
	// the parameter the predicate's argument is computed from
	param := -1
	for _, in := range inner {
		if len(in.Args) == 0 {
			return 0, false
		}
		k := 0
		for _, fl := range params.List {
			if _, variadic := fl.Type.(*ast.Ellipsis); variadic {
				return 0, false
			}
			for _, n := range fl.Names {
				if tt.MentionsResolved(info, body, in.Args[0], info.Defs[n], 2) {
					if param != -1 && param != k {
						return 0, false
					}
					param = k
				}
				k++
			}
		}
	}
	if param < 0 {
		return 0, false
	}
	hx := tt.New(g)
	traces, err := hx.Traces(hx.G.CFG.Blocks[0], 0, nil, 200)
	if err != nil {
		return 0, false
	}
	rows, err := hx.Table(traces, 0, func(l tt.Lit) (string, bool, bool) {
		if call, ok := ast.Unparen(l.Expr).(*ast.CallExpr); ok && core.CalleeFunc(info, call) == pred {
			return "P", true, true
		}
		return "t:" + c.Src(l.Expr), true, true
	})
	if err != nil || len(rows) == 0 {
		return 0, false
	}
	for _, r := range rows {
		if v, evaluated := r.Lits["P"]; r.Out == "false" && (!evaluated || v) {
			return 0, false
		}
	}
	return param, true
}

// stripConv removes conversions and parentheses.
func stripConv(info *types.Info, e ast.Expr) ast.Expr {
	for {
		e = ast.Unparen(e)
		call, ok := e.(*ast.CallExpr)
		if !ok || len(call.Args) != 1 {
			return e
		}
		if tv, ok := info.Types[call.Fun]; !ok || !tv.IsType() {
			return e
		}
		e = call.Args[0]
	}
}

func isSel(e ast.Expr, name string) bool {
	s, ok := e.(*ast.SelectorExpr)
	return ok && s.Sel.Name == name
}

// bytesEqConst: the fact says that a string/[]byte expression equals a constant, in any of the
// equivalent spellings: x == "c", string(x) == "c", bytes.Equal(x, []byte("c")),
// bytes.Compare(x, []byte("c")) == 0, strings.Compare(x, "c") == 0 (either operand order).
func bytesEqConst(info *types.Info, f cfgq.Fact) (subj ast.Expr, lit string, ok bool) {
	constOf := func(e ast.Expr) (string, bool) {
		if s, ok := core.StringConst(info, e); ok {
			return s, true
		}
		return core.StringConst(info, stripConv(info, e))
	}
	pair := func(a, b ast.Expr) (ast.Expr, string, bool) {
		if s, ok := constOf(b); ok {
			return a, s, true
		}
		if s, ok := constOf(a); ok {
			return b, s, true
		}
		return nil, "", false
	}
	switch e := ast.Unparen(f.Expr).(type) {
	case *ast.BinaryExpr:
		if e.Op != token.EQL && e.Op != token.NEQ || (e.Op == token.EQL) != f.Val {
			return nil, "", false
		}
		// Compare(a, b) == 0
		for _, side := range [][2]ast.Expr{{e.X, e.Y}, {e.Y, e.X}} {
			if call, isCall := ast.Unparen(side[0]).(*ast.CallExpr); isCall && len(call.Args) == 2 {
				if fn := core.CalleeFunc(info, call); fn != nil && fn.Name() == "Compare" && fn.Pkg() != nil && (fn.Pkg().Path() == "bytes" || fn.Pkg().Path() == "strings") {
					if z, isInt := core.IntConst(info, side[1]); isInt && z == 0 {
						return pair(call.Args[0], call.Args[1])
					}
				}
			}
		}
		return pair(e.X, e.Y)
	case *ast.CallExpr:
		if fn := core.CalleeFunc(info, e); f.Val && fn != nil && fn.Name() == "Equal" && fn.Pkg() != nil && fn.Pkg().Path() == "bytes" && len(e.Args) == 2 {
			return pair(e.Args[0], e.Args[1])
		}
	}
	return nil, "", false
}

// guardedByMention: every path to n crosses a branch whose condition mentions one of the named
// constants (a string constant of that value or a constant object of that name).
func guardedByMention(info *types.Info, x *tt.X, n ast.Node, names ...string) bool {
	ok, _ := x.OnlyVia(cfgq.Point{}, n, func(f cfgq.Fact) bool {
		hit := false
		ast.Inspect(f.Expr, func(m ast.Node) bool {
			if e, isExpr := m.(ast.Expr); isExpr {
				for _, nm := range names {
					if s, isStr := core.StringConst(info, e); isStr && s == nm {
						hit = true
					}
					if id, isId := e.(*ast.Ident); isId && id.Name == nm {
						hit = true
					}
				}
			}
			return !hit
		})
		return hit
	})
	return ok
}

// funcValue returns the function a callee expression denotes, also through a local that was
// assigned that function once (`drop := filter.FilterCommands; drop(cmd)`).
func funcValue(info *types.Info, root ast.Node, fun ast.Expr) types.Object {
	for depth := 0; depth < 3; depth++ {
		o := core.ObjOf(info, ast.Unparen(fun))
		if f, ok := o.(*types.Func); ok {
			return f
		}
		d, ok := tt.SingleDef(info, root, ast.Unparen(fun))
		if !ok || d.Rhs == nil || d.Index != -1 {
			return o
		}
		fun = d.Rhs
	}
	return nil
}

func identOf(e ast.Expr) *ast.Ident {
	id, _ := ast.Unparen(e).(*ast.Ident)
	if id == nil {
		return &ast.Ident{Name: "\x00"}
	}
	return id
}

func viaText(v string) string {
	if v == "" {
		return ""
	}
	return " (through " + v + ")"
}

// rumpKeys: doFetch filters the scanned keys into a list when a key list is configured.
