package c06

import (
	"go/ast"
	"go/token"
	"go/types"
	"strings"

	"golang.org/x/tools/go/cfg"

	"rscheck/cfgq"
	"rscheck/core"
	"rscheck/rules/c06/tt"
)

// ---------------------------------------------------------------------------
// R5: no other reader of the filter configuration

func readers(c *core.Ctx) {
	fields := map[string]bool{fKB: true, fKW: true, fDB: true, fDW: true, fSlot: true, fLua: true}
	n := 0
	for _, pk := range c.Pkgs {
		if pk.ID != pk.PkgPath || pk.TypesInfo == nil || pk.PkgPath == core.MainPkg || strings.HasSuffix(pk.PkgPath, "/"+pkgFilter) {
			continue
		}
		info := pk.TypesInfo
		for _, file := range pk.Syntax {
			for _, d := range file.Decls {
				fd, ok := d.(*ast.FuncDecl)
				if !ok || fd.Body == nil {
					continue
				}
				inLen := map[ast.Expr]bool{}
				ast.Inspect(fd.Body, func(nd ast.Node) bool {
					if e, ok := nd.(ast.Expr); ok {
						if arg, _, ok := lenTest(info, e); ok {
							inLen[ast.Unparen(arg)] = true
						}
					}
					return true
				})
				ast.Inspect(fd.Body, func(nd ast.Node) bool {
					sel, ok := nd.(*ast.SelectorExpr)
					if !ok {
						return true
					}
					f, ok := tt.IsConfField(info, sel, "")
					if !ok || !fields[f] {
						return true
					}
					n++
					key := fd.Name.Name + "/" + f
					switch {
					case fd.Name.Name == "RestoreRdbEntry" && f == fLua:
						c.Okf("R5.readers", key, sel.Pos(), "filter.lua is read by the Lua-script branch of RestoreRdbEntry (checked by R6)")
					case keyListFuncs[fd.Name.Name] && strings.HasSuffix(pk.PkgPath, "/"+pkgRun) && (f == fKB || f == fKW) && inLen[ast.Expr(sel)]:
						c.Okf("R5.readers", key, sel.Pos(), "%s only tests whether %s is empty (checked by R3 rump-keys)", fd.Name.Name, f)
					default:
						c.Undecidedf("R5.readers", key, sel.Pos(), "%s reads conf.Options.%s outside package filter: a local re-implementation of a filter is not analysed", fd.Name.Name, f)
					}
					return true
				})
			}
		}
	}
	if n < 3 {
		c.Undecidedf("instances", "R5.readers", token.NoPos, "only %d readers of the filter configuration found outside package filter, 3 confirmed by hand", n)
	}
}

// ---------------------------------------------------------------------------
// R6: Lua script entries

func lua(c *core.Ctx) {
	fn := c.Func(pkgUtils, "", "RestoreRdbEntry")
	if fn == nil {
		return
	}
	info := fn.Pkg.TypesInfo
	g := cfgq.Of(c.Program, fn)
	x := tt.New(g)
	if len(fn.Decl.Type.Params.List) == 0 || len(fn.Decl.Type.Params.List[0].Names) == 0 {
		c.Undecidedf("R6.lua", "RestoreRdbEntry/params", fn.Decl.Pos(), "unexpected signature")
		return
	}
	conn := info.Defs[fn.Decl.Type.Params.List[0].Names[0]]
	isLoad := func(call *ast.CallExpr) bool {
		sel, ok := ast.Unparen(call.Fun).(*ast.SelectorExpr)
		if !ok || sel.Sel.Name != "Do" || len(call.Args) < 2 {
			return false
		}
		a, ok1 := core.StringConst(info, call.Args[0])
		b, ok2 := core.StringConst(info, call.Args[1])
		return ok1 && ok2 && strings.EqualFold(a, "script") && strings.EqualFold(b, "load")
	}
	loads := g.Points(g.HasCall(func(call *ast.CallExpr, _ types.Object) bool { return isLoad(call) }))
	if len(loads) != 1 {
		c.Undecidedf("R6.lua", "RestoreRdbEntry/script-load", fn.Decl.Pos(), "expected exactly one `c.Do(\"script\", \"load\", ...)` in RestoreRdbEntry, found %d", len(loads))
		return
	}
	load := loads[0]
	luaFact := func(val bool) func(cfgq.Fact) bool {
		return func(f cfgq.Fact) bool {
			_, ok := tt.IsConfField(info, f.Expr, fLua)
			return ok && f.Val == val
		}
	}
	isAux := func(f cfgq.Fact) bool {
		be, ok := ast.Unparen(f.Expr).(*ast.BinaryExpr)
		if !ok || !f.Val || be.Op != token.EQL {
			return false
		}
		for _, e := range []ast.Expr{be.X, be.Y} {
			if k, ok := core.ObjOf(info, e).(*types.Const); ok && k.Name() == "RdbFlagAUX" {
				return true
			}
		}
		return false
	}
	isLuaKey := func(f cfgq.Fact) bool {
		subj, lit, ok := bytesEqConst(info, f)
		return ok && lit == "lua" && isSel(stripConv(info, subj), "Key")
	}
	ok, w := x.OnlyVia(cfgq.Point{}, load.Node(), luaFact(false))
	c.Check("R6.lua", "RestoreRdbEntry/load-only-without-filter.lua", load.Node().Pos(), ok, "`script load` must be reachable only when conf.Options.FilterLua is false: with filter.lua set a Lua script of the RDB file still reaches the target", w...)
	ok1, w1 := x.OnlyVia(cfgq.Point{}, load.Node(), isAux)
	ok2, w2 := x.OnlyVia(cfgq.Point{}, load.Node(), isLuaKey)
	if !(ok1 && ok2) && guardedByMention(info, x, load.Node(), "lua", "RdbFlagAUX") {
		// some test of the entry kind guards the load, in a form that is not recognised
		c.Undecidedf("R6.lua", "RestoreRdbEntry/load-only-for-lua-aux", load.Node().Pos(), "`script load` is guarded by a test of the entry type/key that is not recognised")
	} else {
		c.Check("R6.lua", "RestoreRdbEntry/load-only-for-lua-aux", load.Node().Pos(), ok1 && ok2, "`script load` is executed only for AUX entries named \"lua\" (a data key is never sent as a script)", append(w1, w2...)...)
	}
	// the branch: the block whose true edge establishes both facts
	var branch *cfg.Block
	branchSucc := 0
	for _, bk := range g.CFG.Blocks {
		if !bk.Live || len(bk.Succs) != 2 || len(bk.Nodes) == 0 {
			continue
		}
		for si := range bk.Succs {
			// the edge after which both facts hold: established together, or the key test nested in
			// the type test (if AUX { switch key { case "lua": ... } }) or the other way round
			both := func(a, b func(cfgq.Fact) bool) bool {
				if !x.Establishes(bk, si, a) {
					return false
				}
				if x.Establishes(bk, si, b) {
					return true
				}
				earlier, _ := x.OnlyVia(cfgq.Point{}, bk.Nodes[len(bk.Nodes)-1], b)
				return earlier
			}
			if both(isLuaKey, isAux) || both(isAux, isLuaKey) {
				branch, branchSucc = bk, si
			}
		}
	}
	if branch == nil {
		c.Undecidedf("R6.lua", "RestoreRdbEntry/branch", fn.Decl.Pos(), "cannot find the `e.Type == RdbFlagAUX && string(e.Key) == \"lua\"` branch")
		return
	}
	usesConn := func(n ast.Node) bool {
		for _, call := range cfgq.ExecCalls(n) {
			if isLoad(call) {
				continue
			}
			if core.Mentions(info, call, conn) {
				return true
			}
		}
		return false
	}
	start := cfgq.Point{B: branch.Succs[branchSucc]}
	w3 := g.Path(cfgq.Query{From: start, Target: usesConn})
	c.Check("R6.lua", "RestoreRdbEntry/returns-before-key-routes", branch.Nodes[len(branch.Nodes)-1].Pos(), w3 == nil, "a Lua script entry must return before any key route: otherwise the script body is restored as a key named \"lua\" (also when filter.lua is set)", w3...)
	w4 := g.Path(cfgq.Query{From: start, Avoid: func(n ast.Node) bool { return n == load.Node() }, TargetExit: cfgq.NormalExit,
		AvoidEdge: func(bk *cfg.Block, si int) bool { return x.Establishes(bk, si, luaFact(true)) }})
	c.Check("R6.lua", "RestoreRdbEntry/loads-without-filter.lua", load.Node().Pos(), w4 == nil, "with filter.lua unset every Lua script entry must be sent with `script load` (a script that is not excluded always reaches the target)", w4...)
}
