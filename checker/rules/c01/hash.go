package c01

import (
	"fmt"
	"go/ast"
	"go/token"
	"go/types"
	"strings"

	"rscheck/cfgq"
	"rscheck/core"
	"rscheck/flow"
	"rscheck/lin"
	"rscheck/pat"
)

// r5hash: the chunk protocol inside the hash case of readObjectValue. The
// arithmetic relations are compared as linear forms (package lin), the stores
// are found through helpers (package flow).
func r5hash(c *core.Ctx, rov *core.Fn, cc *ast.CaseClause) {
	info := rov.Pkg.TypesInfo
	g := cfgq.Of(c.Program, rov)
	e := flow.New(c.Program)
	spec := ReaderSpec(false)
	e.Opaque = func(f *types.Func) bool {
		n := core.FuncName(f)
		_, a := spec.Prims[n]
		_, b := spec.BufPrims[n]
		return a || b
	}
	blk := &ast.BlockStmt{List: cc.Body}
	var loop *ast.ForStmt
	findLoop := func(root ast.Node) {
		core.Inspect(root, func(m ast.Node) bool {
			if f, ok := m.(*ast.ForStmt); ok && loop == nil && f.Cond != nil {
				loop = f
			}
			return loop == nil
		})
	}
	findLoop(blk)
	if loop == nil {
		// the whole case may have been moved into a helper of readObjectValue: the
		// analysis then runs on that helper (its graph, its body)
		core.Inspect(blk, func(m ast.Node) bool {
			call, ok := m.(*ast.CallExpr)
			if !ok || loop != nil {
				return true
			}
			f := core.CalleeFunc(info, call)
			if f == nil || f.Pkg() == nil || !strings.HasSuffix(f.Pkg().Path(), pkg) || e.Opaque(f) {
				return true
			}
			h := c.FnOf(f)
			if h == nil || h.Decl.Body == nil {
				return true
			}
			findLoop(h.Decl.Body)
			if loop != nil {
				g = cfgq.Of(c.Program, h)
				blk = h.Decl.Body
			}
			return true
		})
	}
	if loop == nil || loop.Cond == nil {
		c.Undecidedf("R5.chunk", "hash/loop", cc.Pos(), "no counting loop in the hash case")
		return
	}
	// the loop counts the pairs of this record, upwards from 0 to n or downwards
	// from n: in both forms r, the number of pairs read once the current
	// iteration's pair is in, is linear in the loop variable
	//   for i := 0; i < n; i++      r = i + 1
	//   for left := n; left > 0; left--   r = n - left + 1
	var nE ast.Expr              // the number of pairs of this record
	var notLast, remain lin.Form // r - n (is 0 on the last pair), n - r (pairs left after this one)
	{
		cmp, okC := lin.CmpOf(info, loop.Cond, true)
		step := int64(0)
		var v ast.Expr
		switch p := loop.Post.(type) {
		case *ast.IncDecStmt:
			v = p.X
			step = 1
			if p.Tok == token.DEC {
				step = -1
			}
		case *ast.AssignStmt:
			if len(p.Lhs) == 1 && len(p.Rhs) == 1 {
				if k, isC := core.IntConst(info, p.Rhs[0]); isC && (k == 1 || k == -1) {
					v = p.Lhs[0]
					switch p.Tok {
					case token.ADD_ASSIGN:
						step = k
					case token.SUB_ASSIGN:
						step = -k
					}
				}
			}
		}
		var start ast.Expr
		if as, isAs := loop.Init.(*ast.AssignStmt); isAs && len(as.Lhs) == 1 && len(as.Rhs) == 1 && v != nil && pat.Same(info, as.Lhs[0], v) {
			start = as.Rhs[0]
		}
		switch {
		case !okC || v == nil || step == 0 || start == nil:
		case step == 1:
			// i from 0 while i < n
			if k, isC := core.IntConst(info, start); isC && k == 0 {
				if be, isBe := ast.Unparen(loop.Cond).(*ast.BinaryExpr); isBe {
					var bound ast.Expr
					switch {
					case be.Op == token.LSS && pat.Same(info, stripConv(info, be.X), v):
						bound = be.Y
					case be.Op == token.GTR && pat.Same(info, stripConv(info, be.Y), v):
						bound = be.X
					case be.Op == token.NEQ && pat.Same(info, stripConv(info, be.X), v):
						bound = be.Y
					}
					if bound != nil {
						nE = bound
						notLast = lin.Combo(info, 1, 1, v, -1, nE)
						remain = lin.Combo(info, -1, 1, nE, -1, v)
					}
				}
			}
		case step == -1:
			// left from n while left > 0
			pos := lin.Combo(info, 0, -1, v) // -left < 0
			if cmp.Is(pos, token.LSS) || cmp.Is(lin.Combo(info, 0, 1, v), token.NEQ) {
				nE = start
				notLast = lin.Combo(info, 1, -1, v)
				remain = lin.Combo(info, -1, 1, v)
			}
		}
	}
	if nE == nil {
		c.Undecidedf("R5.chunk", "hash/loop-bound", loop.Pos(), "the hash loop is not recognised as counting the pairs up from 0 to n or down from n")
		return
	}
	fieldNamed := func(name string) func(*types.Var) bool {
		return func(v *types.Var) bool {
			return v.Name() == name && v.Pkg() != nil && strings.HasSuffix(v.Pkg().Path(), pkg)
		}
	}
	// top-level statement of the loop body that contains (the root-frame position of) a site
	rootPos := func(s flow.Site, n ast.Node) token.Pos {
		if len(s.Up) > 0 {
			if nd := s.Up[len(s.Up)-1].At.Node(); nd != nil {
				return nd.Pos()
			}
		}
		return n.Pos()
	}
	topStmt := func(pos token.Pos) ast.Stmt {
		for _, st := range loop.Body.List {
			if st.Pos() <= pos && pos < st.End() {
				return st
			}
		}
		return nil
	}
	unconditional := func(st ast.Stmt) bool {
		switch st.(type) {
		case *ast.IfStmt, *ast.SwitchStmt, *ast.ForStmt, *ast.RangeStmt, *ast.SelectStmt, *ast.TypeSwitchStmt:
			return false
		}
		return st != nil
	}

	// --- one increment of lastReadCount per pair
	var incPos token.Pos
	var incLHS ast.Expr
	incs, incBad := 0, ""
	for _, st := range e.Stores(g, loop.Body, fieldNamed("lastReadCount")) {
		incs++
		ok := false
		switch x := st.Stmt.(type) {
		case *ast.IncDecStmt:
			ok = x.Tok == token.INC
		case *ast.AssignStmt:
			if len(x.Lhs) == 1 && len(x.Rhs) == 1 {
				switch x.Tok {
				case token.ADD_ASSIGN:
					v, isC := core.IntConst(st.G.Info, x.Rhs[0])
					ok = isC && v == 1
				case token.ASSIGN:
					d := lin.Combo(st.G.Info, 0, 1, x.Rhs[0], -1, x.Lhs[0])
					ok = len(d.Coef) == 0 && d.Const == 1
				}
			}
		}
		if !ok {
			incBad = c.Src(st.Stmt)
		}
		incPos = rootPos(st.Site, st.Stmt)
		incLHS = st.LHS
	}
	switch {
	case incs == 1 && incBad == "":
		c.Okf("R5.chunk", "hash/count-per-pair", loop.Pos(), "lastReadCount is incremented once per pair")
	case incs == 0:
		c.Failf("R5.chunk", "hash/count-per-pair", loop.Pos(), "lastReadCount is incremented exactly once per field/value pair read; the hash loop never counts a pair")
	default:
		c.Failf("R5.chunk", "hash/count-per-pair", loop.Pos(), "lastReadCount is incremented exactly once per field/value pair read; found %d updates in the loop body (%s)", incs, incBad)
	}

	// --- the break guard
	var brk *ast.IfStmt
	core.Inspect(loop.Body, func(m ast.Node) bool {
		ifs, ok := m.(*ast.IfStmt)
		if !ok {
			return true
		}
		for _, s := range ifs.Body.List {
			if b, ok := s.(*ast.BranchStmt); ok && b.Tok == token.BREAK && b.Label == nil {
				brk = ifs
			}
		}
		return true
	})
	if brk == nil {
		hasBreak := false
		core.Inspect(loop.Body, func(m ast.Node) bool {
			if b, ok := m.(*ast.BranchStmt); ok && b.Tok == token.BREAK {
				hasBreak = true
			}
			return true
		})
		if hasBreak {
			c.Undecidedf("R5.chunk", "hash/break", loop.Pos(), "the hash loop breaks, but not directly under an if: the chunk cut is not recognised")
		} else {
			c.Failf("R5.chunk", "hash/break", loop.Pos(), "the hash loop never breaks: a hash larger than the chunk limit is delivered as one record (the statement promises 16 MiB chunks)")
		}
	} else {
		okLast, okSize, sizeSeen := false, false, ""
		for _, f := range cfgq.Facts(brk.Cond, true) {
			cmp, ok := lin.CmpOf(info, f.Expr, f.Val)
			if !ok {
				continue
			}
			if cmp.Is(notLast, token.NEQ) || cmp.Is(notLast, token.LSS) {
				okLast = true
			}
			// `captured bytes > 16 MiB`: limit - Len() < 0
			if len(cmp.F.Coef) == 1 {
				for k, v := range cmp.F.Coef {
					if strings.HasSuffix(k, ".Len()") {
						sizeSeen = cmp.F.String() + " " + cmp.Op.String() + " 0"
						want := lin.Form{Coef: map[string]int64{k: -1}, Const: 16 * 1024 * 1024}
						if v == -1 && cmp.Is(want, token.LSS) {
							okSize = true
						}
					}
				}
			}
		}
		top := topStmt(incPos)
		c.Check("R5.chunk", "hash/count-before-break", brk.Pos(), incs > 0 && incPos < brk.Pos() && unconditional(top),
			"the pair just read is counted before the chunk is cut: the cut record carries that pair's bytes, so RealMemberCount must include it (otherwise the last field of every non-final chunk is never restored)")
		c.Check("R5.chunk", "hash/break-not-on-last", brk.Pos(), okLast, "the early break must be excluded on the last pair (remainMember would become 0 while lastReadCount != n: the final chunk is reported as incomplete)")
		if sizeSeen == "" {
			c.Undecidedf("R5.chunk", "hash/break-limit", brk.Pos(), "the chunk cut does not compare the captured length (`b.Len()`) with a constant")
		} else {
			c.Check("R5.chunk", "hash/break-limit", brk.Pos(), okSize, "the chunk limit is `captured bytes > 16 MiB`; the code tests `"+sizeSeen+"`")
		}
		want := remain
		n, okRem, got := 0, true, ""
		for _, st := range e.Stores(g, brk.Body, fieldNamed("remainMember")) {
			n++
			// n - lastReadCount says the same once this pair has been counted
			byCount := false
			if incLHS != nil && incs == 1 && incPos < rootPos(st.Site, st.Stmt) && len(st.Up) == 0 {
				alt := lin.Combo(info, 0, 1, nE, -1, incLHS)
				byCount = lin.Of(st.G.Info, st.RHS).Equal(alt) || lin.Of(st.G.Info, e.Resolve(st.Site, st.RHS)).Equal(alt)
			}
			if !st.Plain() || !byCount && !lin.Of(st.G.Info, e.Resolve(st.Site, st.RHS)).Equal(want) && !lin.Of(st.G.Info, st.RHS).Equal(want) {
				okRem = false
				got = c.Src(st.Stmt)
			}
		}
		switch {
		case n == 0:
			c.Failf("R5.chunk", "hash/remain-formula", brk.Pos(), "on break remainMember = the pairs not yet read (n - i - 1) are left for the following records; the break does not record what remains")
		default:
			c.Check("R5.chunk", "hash/remain-formula", brk.Pos(), okRem, "on break remainMember = the pairs not yet read (n - i - 1) are left for the following records (off by one loses or duplicates a pair); found `"+got+"`")
		}
	}

	// --- reset when complete / count reset
	complete := lin.Combo(info, 0, -1, nE) // lastReadCount - n, the count atom is added per store below
	_ = complete
	nReset, okReset := 0, false
	var countReset bool
	for _, st := range e.Stores(g, blk, fieldNamed("remainMember")) {
		if !st.Plain() {
			continue
		}
		if v, ok := core.IntConst(st.G.Info, st.RHS); !ok || v != 0 {
			continue
		}
		if st.Stmt.Pos() < loop.End() && len(st.Up) == 0 {
			continue // inside the loop: not the completion reset
		}
		nReset++
		if e.Under(st.Site, func(f cfgq.Fact) bool {
			cmp, ok := lin.CmpOf(st.G.Info, f.Expr, f.Val)
			if !ok || cmp.Op != token.EQL || len(cmp.F.Coef) != 2 || cmp.F.Const != 0 {
				return false
			}
			hasCount, hasN := false, false
			nKey := lin.Key(info, nE)
			for k, v := range cmp.F.Coef {
				if strings.HasSuffix(k, ".lastReadCount") && (v == 1 || v == -1) {
					hasCount = true
				}
				if k == nKey || strings.HasSuffix(k, ".totMemberCount") {
					hasN = true
				}
			}
			return hasCount && hasN
		}) {
			okReset = true
		}
	}
	switch {
	case okReset:
		c.Okf("R5.chunk", "hash/reset-when-complete", cc.Pos(), "remainMember reset once all pairs were read")
	case nReset == 0:
		c.Failf("R5.chunk", "hash/reset-when-complete", cc.Pos(), "remainMember is reset to 0 once all n pairs were read, so that the next record starts with a type byte; the hash case never resets it after the loop")
	default:
		c.Failf("R5.chunk", "hash/reset-when-complete", cc.Pos(), "remainMember is reset to 0 once all n pairs were read (`lastReadCount == n`), so that the next record starts with a type byte; the reset found is not guarded by that test")
	}
	for _, st := range e.Stores(g, blk, fieldNamed("lastReadCount")) {
		if !st.Plain() {
			continue
		}
		if v, ok := core.IntConst(st.G.Info, st.RHS); ok && v == 0 && rootPos(st.Site, st.Stmt) < loop.Pos() {
			countReset = true
		}
	}
	c.Check("R5.chunk", "hash/count-reset", cc.Pos(), countReset, "lastReadCount restarts at 0 for every record (before the pair loop)")
	// … on every path into the loop: a reset that only the first visit of a split
	// hash takes leaves the count of the previous piece in place for the later
	// pieces (the final piece then never satisfies lastReadCount == n, remainMember
	// stays set and the next record is parsed as more pairs)
	if countReset {
		resetNodes := map[ast.Node]bool{}
		for _, st := range e.Stores(g, blk, fieldNamed("lastReadCount")) {
			if !st.Plain() {
				continue
			}
			if v, ok := core.IntConst(st.G.Info, st.RHS); ok && v == 0 {
				if len(st.Up) > 0 {
					if nd := st.Up[len(st.Up)-1].At.Node(); nd != nil {
						resetNodes[nd] = true
					}
				} else if pt, ok := g.Find(st.Stmt); ok {
					resetNodes[pt.Node()] = true
				}
			}
		}
		var from cfgq.Point
		okFrom := false
		if len(blk.List) > 0 {
			from, okFrom = g.Find(blk.List[0])
			if ds, isDecl := blk.List[0].(*ast.DeclStmt); isDecl && !okFrom {
				if gd, isGen := ds.Decl.(*ast.GenDecl); isGen && len(gd.Specs) > 0 {
					from, okFrom = g.Find(gd.Specs[0]) // (a declaration is in the graph as its spec)
				}
			}
		}
		var head ast.Node = loop.Cond
		if loop.Init != nil {
			head = loop.Init
		}
		hp, okHead := g.Find(head)
		if okFrom && okHead && len(resetNodes) > 0 {
			hn := hp.Node()
			w := g.Path(cfgq.Query{From: from, Target: func(n ast.Node) bool { return n == hn }, Avoid: func(n ast.Node) bool { return resetNodes[n] }})
			if resetNodes[from.Node()] {
				w = nil
			}
			c.Check("R5.chunk", "hash/count-reset-every-piece", loop.Pos(), w == nil,
				"lastReadCount restarts at 0 on EVERY path into the pair loop, also when the record continues a split hash: otherwise the final piece never reaches lastReadCount == n, remainMember is not cleared and the bytes that follow are parsed as more pairs", w...)
		} else {
			c.Undecidedf("R5.chunk", "hash/count-reset-every-piece", loop.Pos(), "cannot place the reset of lastReadCount and the pair loop in one graph")
		}
	}
	// totMemberCount is the size of the whole hash as read from its header: it is
	// written only from the length that was read (or cleared), never from the number
	// of pairs this call is going to read (on a continuation that is the remainder, and
	// NextBinEntry would take the last piece for an unsplit hash)
	for _, st := range e.Stores(g, blk, fieldNamed("totMemberCount")) {
		if !st.Plain() {
			c.Failf("R5.chunk", "hash/total-from-header", st.Stmt.Pos(), "totMemberCount is updated in place in the hash case; it must hold the length read from the header")
			continue
		}
		if v, ok := core.IntConst(st.G.Info, st.RHS); ok && v == 0 {
			continue
		}
		vals := e.Values(st.Site, st.RHS)
		good, unknown := len(vals) > 0, ""
		for _, v := range vals {
			switch {
			case v.Unknown != "":
				unknown = v.Unknown
			case v.Call != nil && v.Result == 0 && core.CalleeFunc(st.G.Info, v.Call) != nil && core.CalleeFunc(st.G.Info, v.Call).Name() == "ReadLength":
			default:
				good = false
			}
		}
		switch {
		case !good:
			c.Failf("R5.chunk", "hash/total-from-header", st.Stmt.Pos(), "totMemberCount must receive the member count read from the hash's header and nothing else; here it can also receive another value (the pairs still outstanding on a continuation): the last piece of a split hash is then reported with RealMemberCount 0 and restored as if it were a complete DUMP payload")
		case unknown != "":
			c.Undecidedf("R5.chunk", "hash/total-from-header", st.Stmt.Pos(), "cannot resolve what is stored into totMemberCount: %s", unknown)
		default:
			c.Okf("R5.chunk", "hash/total-from-header", st.Stmt.Pos(), "totMemberCount receives the length read from the header")
		}
	}
	_ = fmt.Sprint
}

// stripConv removes integer conversions and parentheses.
func stripConv(info *types.Info, e ast.Expr) ast.Expr {
	for {
		e = ast.Unparen(e)
		call, ok := e.(*ast.CallExpr)
		if !ok || len(call.Args) != 1 {
			return e
		}
		if tv, has := info.Types[call.Fun]; !has || !tv.IsType() {
			return e
		}
		e = call.Args[0]
	}
}
