package c01

import (
	"go/ast"
	"go/token"

	"rscheck/cfgq"
	"rscheck/core"
	"rscheck/pat"
)

// r10: (*rdbReader).Read is the primitive under every read of the parser (and,
// through the tee, of the captured payloads). It hands on what the underlying
// reader delivered: the byte count of that one call, counted into nread, on
// every return - also when the call reported an error together with bytes
// (io.Reader allows n > 0 with err != nil; dropping those bytes loses the tail
// of a stream whose source reports EOF with its last piece).
func r10(c *core.Ctx) {
	fn := c.Func(pkg, "rdbReader", "Read")
	if fn == nil {
		return
	}
	info := fn.Pkg.TypesInfo
	g := cfgq.Of(c.Program, fn)
	st, b := pat.Stmt("_n, _err := _r.raw.Read(_p)").Find(info, fn.Decl.Body, nil)
	if st == nil {
		st, b = pat.Stmt("_n, _err = _r.raw.Read(_p)").Find(info, fn.Decl.Body, nil)
	}
	if st == nil {
		c.Undecidedf("R10.read", "Read/shape", fn.Decl.Pos(), "no `n, err := r.raw.Read(p)` in (*rdbReader).Read")
		return
	}
	nid, _ := b["_n"].(*ast.Ident)
	if nid == nil {
		c.Undecidedf("R10.read", "Read/shape", st.Pos(), "the byte count of the underlying read is not kept in a variable")
		return
	}
	nobj := core.ObjOf(info, nid)
	// n is not written again
	rewritten := false
	core.Inspect(fn.Decl.Body, func(m ast.Node) bool {
		switch x := m.(type) {
		case *ast.AssignStmt:
			if ast.Node(x) == st {
				return true
			}
			for _, l := range x.Lhs {
				if id, ok := ast.Unparen(l).(*ast.Ident); ok && core.ObjOf(info, id) == nobj {
					rewritten = true
				}
			}
		case *ast.IncDecStmt:
			if id, ok := ast.Unparen(x.X).(*ast.Ident); ok && core.ObjOf(info, id) == nobj {
				rewritten = true
			}
		}
		return true
	})
	if rewritten {
		c.Undecidedf("R10.read", "Read/count", st.Pos(), "the byte count of the underlying read is modified before it is returned")
		return
	}
	sp, ok := g.Find(st)
	if !ok {
		c.Undecidedf("R10.read", "Read/shape", st.Pos(), "the underlying read is not a node of Read's graph")
		return
	}
	isCount := func(n ast.Node) bool {
		as, ok := n.(*ast.AssignStmt)
		if !ok || len(as.Lhs) != 1 || len(as.Rhs) != 1 || (as.Tok != token.ADD_ASSIGN && as.Tok != token.ASSIGN) {
			return false
		}
		sel, ok := ast.Unparen(as.Lhs[0]).(*ast.SelectorExpr)
		if !ok || sel.Sel.Name != "nread" {
			return false
		}
		return core.Mentions(info, as.Rhs[0], nobj)
	}
	k := 0
	for _, p := range g.Points(func(n ast.Node) bool { _, ok := n.(*ast.ReturnStmt); return ok }) {
		ret := p.Node().(*ast.ReturnStmt)
		if ret.Pos() < st.Pos() {
			continue
		}
		k++
		if len(ret.Results) != 2 {
			c.Undecidedf("R10.read", "Read/returns-count", ret.Pos(), "return without explicit results")
			continue
		}
		r0 := ast.Unparen(ret.Results[0])
		id, isId := r0.(*ast.Ident)
		switch {
		case isId && core.ObjOf(info, id) == nobj:
			c.Okf("R10.read", "Read/returns-count", ret.Pos(), "returns the count of the underlying read")
		default:
			if tv, has := info.Types[r0]; has && tv.Value != nil {
				c.Failf("R10.read", "Read/returns-count", ret.Pos(), "Read returns the constant %s instead of the number of bytes the underlying reader delivered: bytes that arrive together with an error (io.EOF with the last piece) are dropped, so the tail of an intact stream - its checksum - is never seen", tv.Value.String())
			} else {
				c.Undecidedf("R10.read", "Read/returns-count", ret.Pos(), "the first result is not the count of the underlying read")
			}
			continue
		}
		// counted on the way
		w := g.Path(cfgq.Query{From: sp, After: true, Target: func(n ast.Node) bool { return n == ast.Node(ret) }, Avoid: isCount})
		c.Check("R10.read", "Read/counted", ret.Pos(), w == nil, "every byte handed on is counted into nread (offsets and progress are derived from it)", w...)
	}
	if k == 0 {
		c.Undecidedf("R10.read", "Read/returns-count", fn.Decl.Pos(), "no return after the underlying read")
	}
}
