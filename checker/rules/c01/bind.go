package c01

import (
	"fmt"
	"go/ast"
	"go/token"
	"go/types"
	"strings"

	"golang.org/x/tools/go/cfg"

	"rscheck/cfgq"
	"rscheck/core"
	"rscheck/flow"
	"rscheck/pat"
)

// binder carries what R4 and R5 share: the value-flow engine with the reader
// primitives as leaves, the graph of NextBinEntry, the allocation of the entry
// and the receiver.
type binder struct {
	c     *core.Ctx
	e     *flow.Engine
	nbe   *core.Fn
	g     *cfgq.Graph
	info  *types.Info
	alloc ast.Expr     // the `&BinEntry{}` expression
	entry types.Object // the local that holds it
	recv  types.Object
	loop  *ast.ForStmt
}

func newBinder(c *core.Ctx, nbe *core.Fn) *binder {
	b := &binder{c: c, nbe: nbe, info: nbe.Pkg.TypesInfo, g: cfgq.Of(c.Program, nbe)}
	b.e = flow.New(c.Program)
	spec := ReaderSpec(true)
	b.e.Opaque = func(f *types.Func) bool {
		n := core.FuncName(f)
		if _, ok := spec.Prims[n]; ok {
			return true
		}
		if _, ok := spec.BufPrims[n]; ok {
			return true
		}
		return f.Name() == "createValueDump" || f.Name() == "rdbLoadCheckModuleValue"
	}
	if r := nbe.Decl.Recv; r != nil && len(r.List) == 1 && len(r.List[0].Names) == 1 {
		b.recv = b.info.Defs[r.List[0].Names[0]]
	}
	for _, s := range nbe.Decl.Body.List {
		switch x := s.(type) {
		case *ast.AssignStmt:
			if b.loop == nil && len(x.Lhs) == 1 && len(x.Rhs) == 1 && pat.Expr("&BinEntry{}").Match(b.info, x.Rhs[0], nil) != nil {
				if id, ok := x.Lhs[0].(*ast.Ident); ok {
					b.entry, b.alloc = core.ObjOf(b.info, id), ast.Unparen(x.Rhs[0])
				}
			}
		case *ast.DeclStmt:
			if gd, ok := x.Decl.(*ast.GenDecl); ok && b.loop == nil {
				for _, sp := range gd.Specs {
					if vs, ok := sp.(*ast.ValueSpec); ok && len(vs.Values) == 1 && len(vs.Names) == 1 {
						if pat.Expr("&BinEntry{}").Match(b.info, vs.Values[0], nil) != nil {
							b.entry, b.alloc = b.info.Defs[vs.Names[0]], ast.Unparen(vs.Values[0])
						}
					}
				}
			}
		case *ast.ForStmt:
			if b.loop == nil {
				b.loop = x
			}
		}
	}
	return b
}

// isEntry reports whether base (the X of a field selector at site s) denotes
// the entry allocated by NextBinEntry.
func (b *binder) isEntry(s flow.Site, base ast.Expr) bool {
	r := ast.Unparen(b.e.Resolve(s, base))
	if r == b.alloc {
		return true
	}
	if id, ok := r.(*ast.Ident); ok && core.ObjOf(b.info, id) == b.entry {
		return true
	}
	return false
}

func (b *binder) isLoader(s flow.Site, base ast.Expr) bool {
	r := ast.Unparen(b.e.Resolve(s, base))
	for {
		// l.rdbReader.db and l.db are the same field
		if sel, ok := r.(*ast.SelectorExpr); ok && sel.Sel.Name == "rdbReader" {
			r = ast.Unparen(sel.X)
			continue
		}
		break
	}
	id, ok := r.(*ast.Ident)
	return ok && core.ObjOf(b.info, id) == b.recv
}

func fieldOf(owner, name string) func(*types.Var) bool {
	return func(v *types.Var) bool {
		if v.Name() != name || v.Pkg() == nil || !strings.HasSuffix(v.Pkg().Path(), pkg) {
			return false
		}
		return true
	}
}

// storesOf lists the stores to entry field `name` (or loader field when
// loader is set) in region.
func (b *binder) storesOf(region ast.Node, name string, loader bool) []flow.Store {
	var out []flow.Store
	for _, st := range b.e.Stores(b.g, region, fieldOf("", name)) {
		if loader && b.isLoader(st.Site, st.LHS.X) || !loader && b.isEntry(st.Site, st.LHS.X) {
			out = append(out, st)
		}
	}
	return out
}

// rhsCases returns the origins of the stored value.
func (b *binder) rhsCases(st flow.Store) []flow.Case {
	if !st.Plain() {
		return []flow.Case{{Unknown: "the field is modified in place or assigned from a multi-value expression"}}
	}
	return b.e.Values(st.Site, st.RHS)
}

// checkStores is the common shape of a binding obligation: at least one store
// to the field in the region, and every value stored matches one of the
// accepted patterns.
func (b *binder) checkStores(rule, key string, pos token.Pos, region ast.Node, field string, loader bool, why string, accept ...string) {
	sts := b.storesOf(region, field, loader)
	if len(sts) == 0 {
		b.c.Failf(rule, key, pos, "%s: no assignment to %s on this path", why, field)
		return
	}
	var ps []*pat.Pattern
	for _, a := range accept {
		ps = append(ps, pat.Expr(a))
	}
	var bad, undec []string
	for _, st := range sts {
		for _, cs := range b.rhsCases(st) {
			switch {
			case cs.Unknown != "":
				undec = append(undec, cs.Unknown)
			case cs.Zero:
				bad = append(bad, "the zero value")
			case cs.Call != nil && cs.Result != 0:
				bad = append(bad, b.e.Describe(cs))
			case pat.Any(b.info, cs.Expr, nil, ps...) == nil:
				bad = append(bad, "`"+b.e.Describe(cs)+"`")
			}
		}
	}
	switch {
	case len(bad) > 0:
		b.c.Failf(rule, key, pos, "%s: %s receives %s (expected %s)", why, field, strings.Join(bad, ", "), pat.Describe(ps...))
	case len(undec) > 0:
		b.c.Undecidedf(rule, key, pos, "%s: cannot resolve the value stored in %s: %s", why, field, strings.Join(undec, "; "))
	default:
		b.c.Okf(rule, key, pos, "%s", why)
	}
}

func r4(c *core.Ctx, nbe *core.Fn, sw *ast.SwitchStmt) {
	b := newBinder(c, nbe)
	info := b.info
	if b.entry == nil || b.loop == nil {
		c.Check("R4.bind", "entry/allocated-before-loop", nbe.Decl.Pos(), false,
			"the entry object must be allocated once before the opcode loop: expiry/idle/freq opcodes precede the key record and have to survive until it")
		return
	}
	c.Okf("R4.bind", "entry/allocated-before-loop", nbe.Decl.Pos(), "entry allocated before the loop")
	reassigned := false
	core.Inspect(b.loop, func(m ast.Node) bool {
		if as, ok := m.(*ast.AssignStmt); ok {
			for _, l := range as.Lhs {
				if id, ok := l.(*ast.Ident); ok && (info.Uses[id] == b.entry || info.Defs[id] != nil && id.Name == b.entry.Name() && as.Tok == token.DEFINE) {
					reassigned = true
				}
			}
		}
		return true
	})
	c.Check("R4.bind", "entry/not-reallocated", b.loop.Pos(), !reassigned, "the entry is not re-allocated or shadowed inside the opcode loop (metadata read by earlier opcodes would be lost)")

	type bind struct {
		op     int64
		key    string
		field  string
		loader bool
		why    string
		accept []string
	}
	for _, x := range []bind{
		{0xfc, "expire-ms", "ExpireAt", false, "EXPIRETIME_MS value is the absolute expiry in milliseconds, stored unscaled", []string{"_l.readUint64()"}},
		{0xfd, "expire-s", "ExpireAt", false, "EXPIRETIME value is in seconds and must be scaled by 1000", []string{"uint64(_l.readUint32()) * 1000"}},
		{0xfe, "select-db", "db", true, "SELECTDB sets the database of all following keys", []string{"_l.ReadLength()"}},
		{0xf8, "idle", "IdleTime", false, "IDLE is the LRU hint of the next key", []string{"_l.ReadLength()"}},
		{0xf9, "freq", "Freq", false, "FREQ is the LFU hint of the next key", []string{"_l.readUint8()"}},
	} {
		cc := clauseFor(info, sw, x.op)
		if cc == nil {
			continue
		}
		b.checkStores("R4.bind", x.key, cc.Pos(), &ast.BlockStmt{List: cc.Body}, x.field, x.loader, x.why, x.accept...)
	}
	// EOF
	if cc := clauseFor(info, sw, 0xff); cc != nil {
		n, _ := pat.Stmt("return nil, nil").Find(info, &ast.BlockStmt{List: cc.Body}, nil)
		c.Check("R4.bind", "eof", cc.Pos(), n != nil, "EOF ends the stream with (nil, nil) so that the caller verifies the footer and stops")
	}
	// key record
	if cc := clauseFor(info, sw, -1); cc != nil {
		blk := &ast.BlockStmt{List: cc.Body}
		reads := b.e.Calls(b.g, blk, func(f *types.Func) bool { return core.IsFunc(f, pkg, "rdbReader", "readObjectValue") })
		if len(reads) != 1 {
			c.Undecidedf("R4.bind", "key-record/value-read", cc.Pos(), "expected one call of readObjectValue in the key-record case, found %d", len(reads))
		} else {
			rd := reads[0]
			okArgs := len(rd.Call.Args) == 2 && b.sameAsTag(rd.Site, rd.Call.Args[0], sw) && b.isLoader(rd.Site, rd.Call.Args[1])
			if sel, ok := ast.Unparen(rd.Call.Fun).(*ast.SelectorExpr); ok {
				okArgs = okArgs && b.isLoader(rd.Site, sel.X)
			}
			c.Check("R4.bind", "key-record/type-arg", rd.Call.Pos(), okArgs, "the value is parsed with the type byte that was dispatched on, from this loader")
			b.checkStores("R4.bind", "key-record/db", cc.Pos(), blk, "DB", false, "the entry carries the database selected by the last SELECTDB", "_l.db", "_l.rdbReader.db")
			// type
			sts := b.storesOf(blk, "Type", false)
			okT := len(sts) > 0
			for _, st := range sts {
				okT = okT && st.Plain() && b.sameAsTag(st.Site, st.RHS, sw)
			}
			c.Check("R4.bind", "key-record/type", cc.Pos(), okT, "the entry carries the value type")
			// value
			sts = b.storesOf(blk, "Value", false)
			okV := len(sts) > 0
			und := ""
			for _, st := range sts {
				if !st.Plain() {
					okV = false
					continue
				}
				r := b.e.Resolve(st.Site, st.RHS)
				m := pat.Expr("createValueDump(_t, _v)").Match(info, r, nil)
				if m == nil {
					okV = false
					continue
				}
				if !b.sameAsTag(st.Site, m["_t"].(ast.Expr), sw) {
					okV = false
				}
				if call, isCall := ast.Unparen(m["_v"].(ast.Expr)).(*ast.CallExpr); !isCall || !sameCall(call, rd.Call) {
					// the payload must be the value just read
					vs := b.e.Values(st.Site, m["_v"].(ast.Expr))
					if len(vs) == 1 && vs[0].Call != nil && vs[0].Result == 0 && sameCall(vs[0].Call, rd.Call) {
						continue
					}
					if len(vs) >= 1 && vs[0].Unknown != "" {
						und = vs[0].Unknown
						continue
					}
					okV = false
				}
			}
			if und != "" && okV {
				c.Undecidedf("R4.bind", "key-record/value", cc.Pos(), "cannot resolve the payload handed to createValueDump: %s", und)
			} else {
				c.Check("R4.bind", "key-record/value", cc.Pos(), okV, "the payload is the captured value wrapped as a DUMP payload of the same type")
			}
			// key: read from the stream on the first record, taken from the previous entry on a continuation
			b.keyCases(cc, blk)
			ret := false
			core.Inspect(blk, func(n ast.Node) bool {
				if rs, ok := n.(*ast.ReturnStmt); ok && len(rs.Results) == 2 && core.IsNil(info, rs.Results[1]) {
					if p, ok := b.g.Find(rs); ok && b.isEntry(flow.Site{G: b.g, At: p}, rs.Results[0]) {
						ret = true
					}
				}
				return true
			})
			c.Check("R4.bind", "key-record/returns-entry", cc.Pos(), ret, "the key record is returned to the caller (one record per stored key)")
		}
	}
	// lua aux
	if cc := clauseFor(info, sw, 0xfa); cc != nil {
		blk := &ast.BlockStmt{List: cc.Body}
		k, kb := pat.Stmt("_k, _ = _l.ReadString()").Find(info, blk, nil)
		ok := false
		if k != nil {
			var v ast.Node
			var vb pat.Binds
			for _, n := range pat.Stmt("_v, _ = _l.ReadString()").FindAll(info, blk, pat.Binds{"_l": kb["_l"]}) {
				if n != k {
					v = n
					vb = pat.Stmt("_v, _ = _l.ReadString()").Match(info, n, pat.Binds{"_l": kb["_l"]})
				}
			}
			if v != nil {
				ifs := findIf(info, blk, pat.Expr(`string(_k) == "lua"`), kb)
				if ifs != nil {
					b3 := pat.Binds{"_k": kb["_k"], "_v": vb["_v"]}
					n1, _ := pat.Stmt("_e.Key = _k").Find(info, ifs.Body, b3)
					n2, _ := pat.Stmt("_e.Value = _v").Find(info, ifs.Body, b3)
					n3, _ := pat.Stmt("_e.Type = _t").Find(info, ifs.Body, pat.Binds{"_t": sw.Tag})
					n4, _ := pat.Stmt("return _e, nil").Find(info, ifs.Body, nil)
					ok = n1 != nil && n2 != nil && n3 != nil && n4 != nil
				}
			}
		}
		if !ok {
			// the same through the value-flow engine: a return of the entry guarded by
			// the "lua" comparison, with Key and Value stored from two string reads
			ok = b.luaByFlow(blk, sw)
		}
		mentionsLua := false
		core.InspectAll(nbe.Decl.Body, func(n ast.Node) bool {
			if ex, isE := n.(ast.Expr); isE {
				if s, isS := core.StringConst(info, ex); isS && s == "lua" {
					mentionsLua = true
				}
			}
			return true
		})
		switch {
		case ok:
			c.Okf("R4.bind", "lua-aux", cc.Pos(), "lua script record delivered")
		case !mentionsLua:
			c.Failf("R4.bind", "lua-aux", cc.Pos(), "an AUX field named \"lua\" is delivered as a script record carrying key, script body and the AUX type; NextBinEntry never tests for \"lua\"")
		default:
			c.Undecidedf("R4.bind", "lua-aux", cc.Pos(), "cannot recognise how the AUX field named \"lua\" is delivered (expected key, script body and AUX type stored in the entry and the entry returned under `string(key) == \"lua\"`)")
		}
	}
}

func sameCall(a, b *ast.CallExpr) bool {
	// a call rebuilt by flow.Resolve keeps the parentheses of the original
	return a == b || a.Lparen == b.Lparen && a.Lparen.IsValid()
}

// sameAsTag reports whether x (at site s) is the value the opcode switch
// dispatches on.
func (b *binder) sameAsTag(s flow.Site, x ast.Expr, sw *ast.SwitchStmt) bool {
	if pat.Same(b.info, ast.Unparen(x), sw.Tag) {
		return true
	}
	r := b.e.Resolve(s, x)
	if pat.Same(b.info, ast.Unparen(r), sw.Tag) {
		return true
	}
	// both resolve to the same set of origins
	ts, ok := b.g.Find(sw.Tag)
	if !ok {
		return false
	}
	want := map[string]bool{}
	for _, cs := range b.e.Values(flow.Site{G: b.g, At: ts}, sw.Tag) {
		want[b.e.Describe(cs)] = true
	}
	got := map[string]bool{}
	for _, cs := range b.e.Values(s, x) {
		got[b.e.Describe(cs)] = true
	}
	if len(want) == 0 || len(want) != len(got) {
		return false
	}
	for k := range want {
		if !got[k] {
			return false
		}
	}
	return true
}

func (b *binder) remainZero() func(cfgq.Fact) bool {
	return flow.Holds(b.info, nil, "_l.remainMember == 0", "_l.remainMember <= 0", "_l.remainMember < 1")
}
func (b *binder) remainNonZero() func(cfgq.Fact) bool {
	return flow.Holds(b.info, nil, "_l.remainMember != 0", "_l.remainMember > 0", "_l.remainMember >= 1")
}

// twoWay classifies the origins of a value that must come from the stream on
// the first record of a key and from the previous entry while a chunked hash
// is being continued.
func (b *binder) twoWay(rule, keyFresh, rule2, keyCont string, pos token.Pos, cases []flow.Case, fresh func(flow.Case) bool, cont *pat.Pattern, whyFresh, whyCont string) {
	nFresh, nCont := 0, 0
	var bad, undec []string
	for _, cs := range cases {
		switch {
		case cs.Unknown != "":
			undec = append(undec, cs.Unknown)
		case cs.Zero:
			bad = append(bad, "the zero value")
		case fresh(cs):
			if b.e.AnyUnder(cs.Sites, b.remainZero()) {
				nFresh++
			} else {
				bad = append(bad, "`"+b.e.Describe(cs)+"` is read from the stream although a chunked hash may be pending (remainMember is not known to be 0 there)")
			}
		case cs.Expr != nil && cont.Match(b.info, cs.Expr, nil) != nil && (cs.Call == nil):
			if b.e.AnyUnder(cs.Sites, b.remainNonZero()) {
				nCont++
			} else {
				bad = append(bad, "`"+b.e.Describe(cs)+"` is used although no chunked hash may be pending (remainMember is not known to be non-zero there)")
			}
		default:
			bad = append(bad, "`"+b.e.Describe(cs)+"`")
		}
	}
	report := func(rule, key string, n int, why string) {
		switch {
		case len(bad) > 0:
			b.c.Failf(rule, key, pos, "%s; found %s", why, strings.Join(bad, ", "))
		case len(undec) > 0:
			b.c.Undecidedf(rule, key, pos, "%s: cannot resolve where the value comes from: %s", why, strings.Join(undec, "; "))
		case n == 0:
			b.c.Failf(rule, key, pos, "%s; no such origin reaches this point", why)
		default:
			b.c.Okf(rule, key, pos, "%s", why)
		}
	}
	report(rule, keyFresh, nFresh, whyFresh)
	report(rule2, keyCont, nCont, whyCont)
}

func (b *binder) isCallTo(cs flow.Case, names ...string) bool {
	if cs.Call == nil || cs.Result != 0 {
		return false
	}
	f := core.CalleeFunc(b.info, cs.Call)
	if f == nil {
		return false
	}
	for _, n := range names {
		if core.IsFunc(f, pkg, "rdbReader", n) {
			return true
		}
	}
	return false
}

func (b *binder) keyCases(cc *ast.CaseClause, blk *ast.BlockStmt) {
	sts := b.storesOf(blk, "Key", false)
	if len(sts) == 0 {
		b.c.Failf("R4.bind", "key-record/key", cc.Pos(), "the entry's key is the string read right after the type byte: no assignment to Key in the key-record case")
		b.c.Failf("R5.chunk", "continuation/key", cc.Pos(), "continuation records carry the key of the previous entry: no assignment to Key in the key-record case")
		return
	}
	var cases []flow.Case
	for _, st := range sts {
		cases = append(cases, b.rhsCases(st)...)
	}
	b.twoWay("R4.bind", "key-record/key", "R5.chunk", "continuation/key", cc.Pos(), cases,
		func(cs flow.Case) bool { return b.isCallTo(cs, "ReadString") }, pat.Expr("_l.lastEntry.Key"),
		"the entry's key is the string read right after the type byte", "continuation records carry the key of the previous entry")
}

func (b *binder) luaByFlow(blk *ast.BlockStmt, sw *ast.SwitchStmt) bool {
	keys := b.storesOf(blk, "Key", false)
	vals := b.storesOf(blk, "Value", false)
	typs := b.storesOf(blk, "Type", false)
	if len(keys) == 0 || len(vals) == 0 || len(typs) == 0 {
		return false
	}
	isLua := func(f cfgq.Fact) bool {
		p := flow.Positive(f)
		hit := false
		ast.Inspect(p, func(n ast.Node) bool {
			if ex, ok := n.(ast.Expr); ok {
				if s, ok := core.StringConst(b.info, ex); ok && s == "lua" {
					hit = true
				}
			}
			return !hit
		})
		if !hit {
			return false
		}
		be, ok := ast.Unparen(p).(*ast.BinaryExpr)
		if ok && be.Op == token.EQL {
			return true
		}
		_, isCall := ast.Unparen(p).(*ast.CallExpr) // bytes.Equal(k, []byte("lua"))
		return isCall
	}
	var kc, vc *ast.CallExpr
	for _, st := range keys {
		cs := b.rhsCases(st)
		if len(cs) != 1 || !b.isCallTo(cs[0], "ReadString") || !b.e.Under(st.Site, isLua) {
			return false
		}
		kc = cs[0].Call
	}
	for _, st := range vals {
		cs := b.rhsCases(st)
		if len(cs) != 1 || !b.isCallTo(cs[0], "ReadString") || !b.e.Under(st.Site, isLua) {
			return false
		}
		vc = cs[0].Call
	}
	for _, st := range typs {
		if !st.Plain() || !b.sameAsTag(st.Site, st.RHS, sw) {
			return false
		}
	}
	if kc == nil || vc == nil || sameCall(kc, vc) || kc.Pos() > vc.Pos() {
		return false
	}
	// the entry is returned under the same guard
	found := false
	for _, p := range b.g.Points(func(n ast.Node) bool {
		r, ok := n.(*ast.ReturnStmt)
		return ok && r.Pos() >= blk.List[0].Pos() && r.End() <= blk.List[len(blk.List)-1].End()
	}) {
		ret := p.Node().(*ast.ReturnStmt)
		if len(ret.Results) == 2 && b.isEntry(flow.Site{G: b.g, At: p}, ret.Results[0]) && core.IsNil(b.info, ret.Results[1]) {
			if b.e.Under(flow.Site{G: b.g, At: p}, isLua) {
				found = true
			}
		}
	}
	return found
}

// r5cont: what NextBinEntry does while a chunked hash is being continued.
func r5cont(c *core.Ctx, nbe *core.Fn) {
	b := newBinder(c, nbe)
	if b.entry == nil || b.loop == nil {
		return // reported by R4
	}
	info := b.info
	var swO *ast.SwitchStmt
	core.Inspect(nbe.Decl.Body, func(n ast.Node) bool {
		if s, ok := n.(*ast.SwitchStmt); ok && swO == nil && s.Tag != nil {
			if _, isId := ast.Unparen(s.Tag).(*ast.Ident); isId {
				swO = s
			}
		}
		return swO == nil
	})
	if swO == nil {
		return
	}
	// the type byte
	if ts, ok := b.g.Find(swO.Tag); ok {
		cases := b.e.Values(flow.Site{G: b.g, At: ts}, swO.Tag)
		b.twoWay("R5.chunk", "fresh/type", "R5.chunk", "continuation/type", swO.Pos(), cases,
			func(cs flow.Case) bool { return b.isCallTo(cs, "ReadByte", "readUint8") }, pat.Expr("_l.lastEntry.Type"),
			"a new record starts with a type byte read from the stream", "while a chunked hash is pending the type comes from the previous entry (no type byte is in the stream)")
	} else {
		c.Undecidedf("R5.chunk", "continuation/type", swO.Pos(), "cannot locate the switch tag in the control-flow graph")
	}
	// NeedReadLen = 1 exactly on the first record of a key
	{
		sts := b.storesOf(b.loop.Body, "NeedReadLen", false)
		n1 := 0
		var bad, undec []string
		for _, st := range sts {
			for _, cs := range b.rhsCases(st) {
				if cs.Unknown != "" {
					undec = append(undec, cs.Unknown)
					continue
				}
				v, isC := int64(0), cs.Zero
				if !isC && cs.Expr != nil {
					v, isC = core.IntConst(info, ast.Unparen(cs.Expr))
				}
				switch {
				case !isC:
					undec = append(undec, "NeedReadLen receives `"+b.e.Describe(cs)+"`")
				case v == 0:
				case v == 1 && b.e.Under(st.Site, b.remainZero()):
					n1++
				case v == 1:
					bad = append(bad, fmt.Sprintf("%s sets NeedReadLen = 1 where a chunked hash may be pending", c.Pos(st.Stmt.Pos())))
				default:
					bad = append(bad, fmt.Sprintf("NeedReadLen = %d", v))
				}
			}
		}
		why := "NeedReadLen = 1 marks exactly the first record of a key (its payload starts with the element count)"
		switch {
		case len(bad) > 0:
			c.Failf("R5.chunk", "continuation/need-read-len", nbe.Decl.Pos(), "%s; %s", why, strings.Join(bad, ", "))
		case len(undec) > 0:
			c.Undecidedf("R5.chunk", "continuation/need-read-len", nbe.Decl.Pos(), "%s: %s", why, strings.Join(undec, "; "))
		case n1 == 0:
			c.Failf("R5.chunk", "continuation/need-read-len", nbe.Decl.Pos(), "%s; it is never set to 1", why)
		default:
			// the store must lie on the path that reads the key: it is reached from
			// the key read without another condition than error checks
			c.Okf("R5.chunk", "continuation/need-read-len", nbe.Decl.Pos(), "%s", why)
		}
	}
	// the entry is remembered
	{
		sts := b.storesOf(b.loop.Body, "lastEntry", true)
		ok := false
		for _, st := range sts {
			if st.Plain() && b.isEntry(st.Site, st.RHS) {
				ok = true
			}
		}
		c.Check("R5.chunk", "continuation/remember-entry", nbe.Decl.Pos(), ok, "the entry is remembered for a possible continuation")
	}
	// RealMemberCount
	{
		sts := b.storesOf(b.loop.Body, "RealMemberCount", false)
		complete := flow.Holds(info, nil, "_l.lastReadCount == _l.totMemberCount", "_l.lastReadCount >= _l.totMemberCount")
		partial := flow.Holds(info, nil, "_l.lastReadCount != _l.totMemberCount", "_l.lastReadCount < _l.totMemberCount")
		n0, nk := 0, 0
		var bad, undec []string
		for _, st := range sts {
			for _, cs := range b.rhsCases(st) {
				switch {
				case cs.Unknown != "":
					undec = append(undec, cs.Unknown)
				case cs.Expr != nil && pat.Expr("_l.lastReadCount").Match(info, cs.Expr, nil) != nil:
					if b.e.AnyUnder(cs.Sites, partial) {
						nk++
					} else if b.e.AnyUnder(cs.Sites, b.remainNonZero()) {
						bad = append(bad, "the pair count is stored only while pairs remain: the last chunk of a split hash gets 0")
					} else if b.e.AnyUnder(cs.Sites, complete) {
						bad = append(bad, "the pair count is stored for a complete value")
					} else {
						undec = append(undec, "RealMemberCount = lastReadCount on a path where completeness is not tested")
					}
				default:
					v, isC := int64(0), cs.Zero
					if !isC && cs.Expr != nil {
						v, isC = core.IntConst(info, ast.Unparen(cs.Expr))
					}
					switch {
					case isC && v == 0 && b.e.AnyUnder(cs.Sites, complete):
						n0++
					case isC && v == 0 && b.effectiveOnlyUnder(st, sts, complete):
						// assign-then-override: the 0 survives only where the value is complete
						n0++
					case isC && v == 0 && b.e.AnyUnder(cs.Sites, partial):
						bad = append(bad, "0 is stored for a chunk")
					case isC && v == 0 && b.e.AnyUnder(cs.Sites, b.remainZero()):
						// remainMember == 0 after the value was read holds for a complete value
						// and for the last chunk of a split hash alike
						bad = append(bad, "0 is stored whenever no pairs remain, which includes the last chunk of a split hash (its pair count is lost)")
					case isC && v == 0:
						undec = append(undec, "RealMemberCount = 0 on a path where completeness is not tested")
					default:
						bad = append(bad, "`"+b.e.Describe(cs)+"`")
					}
				}
			}
		}
		why := "RealMemberCount is 0 for a complete value and the number of pairs in this record for a chunk"
		switch {
		case len(bad) > 0:
			c.Failf("R5.chunk", "continuation/real-member-count", nbe.Decl.Pos(), "%s; %s", why, strings.Join(bad, ", "))
		case len(undec) > 0:
			c.Undecidedf("R5.chunk", "continuation/real-member-count", nbe.Decl.Pos(), "%s: %s", why, strings.Join(undec, "; "))
		case n0 == 0 || nk == 0:
			c.Failf("R5.chunk", "continuation/real-member-count", nbe.Decl.Pos(), "%s; found %d stores of 0 and %d stores of the pair count", why, n0, nk)
		default:
			c.Okf("R5.chunk", "continuation/real-member-count", nbe.Decl.Pos(), "%s", why)
		}
	}
}

// effectiveOnlyUnder: the value stored by st is still in the field at a normal
// exit of its function only on paths that establish fact (every other path
// passes another store to the same field first).
func (b *binder) effectiveOnlyUnder(st flow.Store, all []flow.Store, fact func(cfgq.Fact) bool) bool {
	g := st.G
	other := map[ast.Node]bool{}
	for _, o := range all {
		if o.G == g && o.Stmt != st.Stmt {
			other[o.Stmt] = true
		}
	}
	if len(other) == 0 {
		return false
	}
	w := g.Path(cfgq.Query{From: st.At, After: true,
		Avoid:      func(n ast.Node) bool { return other[n] },
		AvoidEdge:  func(blk *cfg.Block, si int) bool { return g.Establishes(blk, si, fact) },
		TargetExit: cfgq.NormalExit})
	return w == nil
}
