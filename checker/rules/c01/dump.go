package c01

import (
	"fmt"
	"go/ast"
	"go/token"
	"go/types"
	"sort"
	"strings"

	"rscheck/core"
	"rscheck/pat"
)

// R7: the byte layout produced by createValueDump, decided by an abstract
// interpretation of its (straight-line) body over byte-sequence sinks: a
// bytes.Buffer, a []byte built with append, a fixed array filled with
// binary.<order>.PutUintN, a digest, and io.MultiWriter fan-outs. Every write
// appends tokens to the sinks it reaches; the token of c.Sum64() remembers what
// the digest had received when the sum was taken. The function must return
// `TypeByte Bytes Version16LE Crc64LE` with the checksum covering exactly
// `TypeByte Bytes Version16LE`.

type span struct {
	lo, hi int64
	tok    string
}

type sinkState struct {
	info    *types.Info
	c       *core.Ctx
	content map[types.Object][]string       // buffers, slices, digests
	isDig   map[types.Object]bool           // digest variables
	digInit map[types.Object]ast.Expr       // how each digest was created
	fan     map[types.Object][]types.Object // MultiWriter variable -> targets
	arrays  map[types.Object][]span
	arrLen  map[types.Object]int64
	tParam  map[types.Object]bool
	vParam  map[types.Object]bool
	covered map[string][]string // Crc token -> what the digest had seen
	undec   []string
	ncrc    int
	alias   map[types.Object]types.Object // helper parameter -> the caller's sink
	scalar  map[types.Object]scalarVal    // integer locals: what they hold
	depth   int
	bound   map[types.Object]*ast.SelectorExpr // locals holding a method value of a tracked sink (`put := w.Write`)
	views   map[types.Object]arrView           // slice locals that are a window of a tracked byte array (`v := footer[:2]`)
}

// arrView is the window [lo, hi) of a tracked byte array.
type arrView struct {
	arr    types.Object
	lo, hi int64
}

// scalarVal is what an integer-valued expression stands for.
type scalarVal struct {
	kind string // "Version", "Crc" (with the digest's coverage when it was sampled), "" = some number
	key  string
}

func (s *sinkState) und(format string, a ...interface{}) {
	s.undec = append(s.undec, fmt.Sprintf(format, a...))
}

func (s *sinkState) obj(x ast.Expr) types.Object {
	x = ast.Unparen(x)
	if u, ok := x.(*ast.UnaryExpr); ok && u.Op == token.AND {
		x = ast.Unparen(u.X)
	}
	id, ok := x.(*ast.Ident)
	if !ok {
		return nil
	}
	o := core.ObjOf(s.info, id)
	for i := 0; i < 4; i++ {
		if a, ok := s.alias[o]; ok {
			o = a
		}
	}
	return o
}

// targets resolves a writer expression to the sinks it feeds.
func (s *sinkState) targets(x ast.Expr) []types.Object {
	o := s.obj(x)
	if o == nil {
		return nil
	}
	if t, ok := s.fan[o]; ok {
		return t
	}
	if _, ok := s.content[o]; ok {
		return []types.Object{o}
	}
	return nil
}

func hasMethod(t types.Type, name string) bool {
	if t == nil {
		return false
	}
	ms := types.NewMethodSet(t)
	if ms.Lookup(nil, name) != nil {
		return true
	}
	for i := 0; i < ms.Len(); i++ {
		if ms.At(i).Obj().Name() == name {
			return true
		}
	}
	if _, isPtr := t.(*types.Pointer); !isPtr {
		return hasMethod(types.NewPointer(t), name)
	}
	return false
}

func isByteSlice(t types.Type) bool {
	sl, ok := t.Underlying().(*types.Slice)
	if !ok {
		return false
	}
	b, ok := sl.Elem().Underlying().(*types.Basic)
	return ok && b.Kind() == types.Uint8
}

func isBuffer(t types.Type) bool {
	return core.NamedTypePath(t) == "bytes.Buffer"
}

func orderOf(info *types.Info, x ast.Expr) string {
	switch {
	case pat.Expr("binary.LittleEndian").Match(info, x, nil) != nil:
		return "LE"
	case pat.Expr("binary.BigEndian").Match(info, x, nil) != nil:
		return "BE"
	}
	return "??"
}

// fixed names the token of a fixed-width value.
func (s *sinkState) fixed(v ast.Expr, width int, order string) string {
	v = ast.Unparen(v)
	if width == 0 {
		if b, ok := s.info.TypeOf(v).Underlying().(*types.Basic); ok {
			switch b.Kind() {
			case types.Uint8, types.Int8:
				width = 8
			case types.Uint16, types.Int16:
				width = 16
			case types.Uint32, types.Int32:
				width = 32
			case types.Uint64, types.Int64:
				width = 64
			}
		}
	}
	switch sv := s.classify(v); sv.kind {
	case "Version":
		return fmt.Sprintf("Version%d%s", width, order)
	case "Crc":
		tok := fmt.Sprintf("Crc%d%s", width, order)
		return tok + "#" + sv.key
	}
	return fmt.Sprintf("Fix%d%s", width, order)
}

// classify tells what an integer expression stands for. Sampling a digest
// (Sum64) records what the digest has received at this moment.
func (s *sinkState) classify(v ast.Expr) scalarVal {
	inner := ast.Unparen(v)
	for {
		call, ok := inner.(*ast.CallExpr)
		if ok && len(call.Args) == 1 {
			if tv, has := s.info.Types[call.Fun]; has && tv.IsType() {
				inner = ast.Unparen(call.Args[0])
				continue
			}
		}
		break
	}
	if id, ok := inner.(*ast.Ident); ok {
		o := core.ObjOf(s.info, id)
		if sv, ok := s.scalar[o]; ok {
			return sv
		}
		if o != nil && o.Name() == "ToVersion" && o.Pkg() != nil && o.Parent() == o.Pkg().Scope() {
			return scalarVal{kind: "Version"}
		}
	}
	if call, ok := inner.(*ast.CallExpr); ok {
		if sel, ok := ast.Unparen(call.Fun).(*ast.SelectorExpr); ok && sel.Sel.Name == "Sum64" {
			if o := s.obj(sel.X); o != nil && s.isDig[o] {
				s.ncrc++
				key := fmt.Sprint(s.ncrc)
				s.covered[key] = append([]string{}, s.content[o]...)
				return scalarVal{kind: "Crc", key: key}
			}
		}
	}
	return scalarVal{}
}

func (s *sinkState) byteTok(x ast.Expr) string {
	x = ast.Unparen(x)
	for {
		call, ok := x.(*ast.CallExpr)
		if ok && len(call.Args) == 1 {
			if tv, has := s.info.Types[call.Fun]; has && tv.IsType() {
				x = ast.Unparen(call.Args[0])
				continue
			}
		}
		break
	}
	if id, ok := x.(*ast.Ident); ok && s.tParam[core.ObjOf(s.info, id)] {
		return "TypeByte"
	}
	if v, ok := core.IntConst(s.info, x); ok {
		return fmt.Sprintf("Const%d", v)
	}
	s.und("cannot name the byte `%s`", s.c.Src(x))
	return "Byte?"
}

// seqTokens names the bytes of a []byte-valued expression.
func (s *sinkState) seqTokens(x ast.Expr) []string {
	x = ast.Unparen(x)
	switch v := x.(type) {
	case *ast.CompositeLit:
		if t := s.info.TypeOf(v); t != nil && isByteSlice(t) {
			var out []string
			for _, el := range v.Elts {
				if _, kv := el.(*ast.KeyValueExpr); kv {
					s.und("keyed byte literal `%s`", s.c.Src(v))
					return nil
				}
				out = append(out, s.byteTok(el))
			}
			return out
		}
	case *ast.Ident:
		o := s.obj(v)
		if s.vParam[o] {
			return []string{"Bytes"}
		}
		if w, ok := s.views[o]; ok { // a window of a tracked array
			if toks := s.arrTokens(w.arr, w.lo, w.hi); toks != nil {
				return toks
			}
			s.und("`%s` (bytes %d..%d of an array) is not tiled exactly by values stored with PutUintN", s.c.Src(v), w.lo, w.hi)
			return nil
		}
		if c, ok := s.content[o]; ok && !s.isDig[o] {
			return append([]string{}, c...)
		}
	case *ast.CallExpr:
		if sel, ok := ast.Unparen(v.Fun).(*ast.SelectorExpr); ok && sel.Sel.Name == "Bytes" && len(v.Args) == 0 {
			if o := s.obj(sel.X); o != nil {
				if c, ok := s.content[o]; ok && !s.isDig[o] {
					return append([]string{}, c...)
				}
			}
		}
		if tv, has := s.info.Types[v.Fun]; has && tv.IsType() && len(v.Args) == 1 {
			return s.seqTokens(v.Args[0])
		}
		if sel, ok := ast.Unparen(v.Fun).(*ast.SelectorExpr); ok && len(v.Args) == 2 {
			// binary.<order>.AppendUintN(dst, v): dst followed by the value in N/8 bytes
			if width := map[string]int{"AppendUint16": 16, "AppendUint32": 32, "AppendUint64": 64}[sel.Sel.Name]; width != 0 {
				if f := core.CalleeFunc(s.info, v); f != nil && f.Pkg() != nil && f.Pkg().Path() == "encoding/binary" {
					var out []string
					if !core.IsNil(s.info, v.Args[0]) {
						out = s.seqTokens(v.Args[0])
					}
					return append(out, s.fixed(v.Args[1], width, orderOf(s.info, sel.X)))
				}
			}
		}
		if sel, ok := ast.Unparen(v.Fun).(*ast.SelectorExpr); ok && sel.Sel.Name == "Sum" && len(v.Args) == 1 {
			// hash.Hash.Sum(b): b followed by the current checksum, the state is left as it is
			// (the digest of pkg/rdb/digest appends 8 bytes little-endian: C11 R2.state/Sum-little-endian)
			if o := s.obj(sel.X); o != nil && s.isDig[o] {
				var out []string
				if !core.IsNil(s.info, v.Args[0]) {
					out = s.seqTokens(v.Args[0])
				}
				s.ncrc++
				key := fmt.Sprint(s.ncrc)
				s.covered[key] = append([]string{}, s.content[o]...)
				return append(out, "Crc64LE#"+key)
			}
		}
		if b, ok := core.Callee(s.info, v).(*types.Builtin); ok && b.Name() == "append" {
			return s.appendTokens(v)
		}
		if toks, ok := s.helperSeq(v); ok {
			return toks
		}
	case *ast.SliceExpr:
		o := s.obj(v.X)
		if o == nil {
			break
		}
		if n, isArr := s.arrLen[o]; isArr {
			lo, hi := int64(0), n
			ok := true
			if v.Low != nil {
				lo, ok = core.IntConst(s.info, v.Low)
			}
			if ok && v.High != nil {
				hi, ok = core.IntConst(s.info, v.High)
			}
			if ok {
				if toks := s.arrTokens(o, lo, hi); toks != nil {
					return toks
				}
			}
			s.und("`%s` is not tiled exactly by values stored with PutUintN", s.c.Src(v))
			return nil
		}
		if s.vParam[o] && v.Low == nil && v.High == nil {
			return []string{"Bytes"}
		}
	}
	s.und("cannot name the bytes of `%s`", s.c.Src(x))
	return nil
}

// arrTokens: the values stored by PutUintN that tile [lo, hi) of the array exactly, in order.
func (s *sinkState) arrTokens(o types.Object, lo, hi int64) []string {
	spans := append([]span{}, s.arrays[o]...)
	sort.Slice(spans, func(i, j int) bool { return spans[i].lo < spans[j].lo })
	var toks []string
	at := lo
	for _, sp := range spans {
		if sp.lo == at && sp.hi <= hi {
			toks = append(toks, sp.tok)
			at = sp.hi
		}
	}
	if at == hi && len(toks) > 0 {
		return toks
	}
	return nil
}

func (s *sinkState) appendTokens(call *ast.CallExpr) []string {
	if len(call.Args) == 0 {
		return nil
	}
	var out []string
	first := ast.Unparen(call.Args[0])
	if id, ok := first.(*ast.Ident); ok && core.IsNil(s.info, id) {
		// append([]byte(nil), ...) / append(nil...)
	} else {
		out = s.seqTokens(first)
	}
	rest := call.Args[1:]
	if call.Ellipsis.IsValid() && len(rest) == 1 {
		return append(out, s.seqTokens(rest[0])...)
	}
	for _, a := range rest {
		out = append(out, s.byteTok(a))
	}
	return out
}

func (s *sinkState) write(w ast.Expr, toks []string, what ast.Node) {
	ts := s.targets(w)
	if ts == nil {
		s.und("`%s` writes to something that is not a tracked buffer, digest or MultiWriter", s.c.Src(what))
		return
	}
	for _, t := range ts {
		s.content[t] = append(s.content[t], toks...)
	}
}

// define handles `lhs = rhs` / `lhs := rhs` / `var lhs T = rhs`.
func (s *sinkState) define(lhs *ast.Ident, typ types.Type, rhs ast.Expr) {
	o := core.ObjOf(s.info, lhs)
	if o == nil || lhs.Name == "_" {
		return
	}
	if rhs == nil {
		switch {
		case typ != nil && isBuffer(typ):
			s.content[o] = []string{}
		case typ != nil && isByteSlice(typ):
			s.content[o] = []string{}
		default:
			if arr, ok := typ.Underlying().(*types.Array); ok {
				if b, ok := arr.Elem().Underlying().(*types.Basic); ok && b.Kind() == types.Uint8 {
					s.arrLen[o] = arr.Len()
					s.arrays[o] = nil
				}
			}
		}
		return
	}
	rhs = ast.Unparen(rhs)
	t := s.info.TypeOf(rhs)
	if se, ok := rhs.(*ast.SliceExpr); ok && se.Max == nil {
		if ao := s.obj(se.X); ao != nil {
			if n, isArr := s.arrLen[ao]; isArr {
				lo, hi := int64(0), n
				okB := true
				if se.Low != nil {
					lo, okB = core.IntConst(s.info, se.Low)
				}
				if okB && se.High != nil {
					hi, okB = core.IntConst(s.info, se.High)
				}
				if _, again := s.views[o]; okB && !again && 0 <= lo && lo <= hi && hi <= n {
					if s.views == nil {
						s.views = map[types.Object]arrView{}
					}
					s.views[o] = arrView{ao, lo, hi}
					return
				}
				s.und("`%s` is not a constant window of the byte array, or the slice variable is re-bound", s.c.Src(rhs))
				return
			}
		}
	}
	if sel, ok := rhs.(*ast.SelectorExpr); ok && t != nil {
		if _, isFunc := t.Underlying().(*types.Signature); isFunc && s.targets(sel.X) != nil {
			if s.bound == nil {
				s.bound = map[types.Object]*ast.SelectorExpr{}
			}
			if _, again := s.bound[o]; again {
				s.und("method value `%s` is re-bound", s.c.Src(rhs))
			}
			s.bound[o] = sel
			return
		}
	}
	switch {
	case t != nil && hasMethod(t, "Sum64") && hasMethod(t, "Write"):
		if _, isCall := rhs.(*ast.CallExpr); isCall {
			s.content[o] = []string{}
			s.isDig[o] = true
			s.digInit[o] = rhs
			return
		}
	case t != nil && (isBuffer(t) || core.NamedTypePath(t) == "bytes.Buffer"):
		// new(bytes.Buffer), &bytes.Buffer{}, bytes.NewBuffer(nil)
		if pat.Any(s.info, rhs, nil, pat.Expr("new(bytes.Buffer)"), pat.Expr("&bytes.Buffer{}"), pat.Expr("bytes.Buffer{}"), pat.Expr("bytes.NewBuffer(nil)")) != nil {
			s.content[o] = []string{}
			return
		}
	}
	if call, ok := rhs.(*ast.CallExpr); ok {
		if pat.Expr("io.MultiWriter(_a...)").Match(s.info, call, nil) != nil || func() bool {
			f := core.CalleeFunc(s.info, call)
			return f != nil && f.Pkg() != nil && f.Pkg().Path() == "io" && f.Name() == "MultiWriter"
		}() {
			var ts []types.Object
			for _, a := range call.Args {
				sub := s.targets(a)
				if sub == nil {
					s.und("MultiWriter argument `%s` is not a tracked sink", s.c.Src(a))
				}
				ts = append(ts, sub...)
			}
			s.fan[o] = ts
			return
		}
		if b, ok := core.Callee(s.info, call).(*types.Builtin); ok {
			switch b.Name() {
			case "make":
				if t != nil && isByteSlice(t) {
					if len(call.Args) >= 2 {
						if n, ok := core.IntConst(s.info, call.Args[1]); ok && n == 0 {
							s.content[o] = []string{}
							return
						}
					}
					s.und("`%s` creates a slice with pre-filled bytes", s.c.Src(call))
					return
				}
			case "append":
				if t != nil && isByteSlice(t) {
					s.content[o] = s.appendTokens(call)
					return
				}
			}
		}
	}
	if t != nil && isByteSlice(t) {
		s.content[o] = s.seqTokens(rhs)
		return
	}
	if bt, ok := t.Underlying().(*types.Basic); t != nil && ok && bt.Info()&types.IsInteger != 0 {
		s.scalar[o] = s.classify(rhs)
		if s.scalar[o].kind != "" {
			return
		}
	}
	// anything else must not involve a tracked sink
	s.noSinkUse(rhs)
}

func (s *sinkState) noSinkUse(n ast.Node) {
	ast.Inspect(n, func(m ast.Node) bool {
		if id, ok := m.(*ast.Ident); ok {
			o := core.ObjOf(s.info, id)
			_, tracked := s.content[o]
			if _, fanned := s.fan[o]; fanned { // a MultiWriter over tracked sinks is a tracked sink
				tracked = true
			}
			if _, isArr := s.arrLen[o]; isArr && o != nil {
				tracked = true
			}
			if _, aliased := s.alias[o]; aliased {
				tracked = true
			}
			if _, isView := s.views[o]; isView {
				tracked = true
			}
			if tracked {
				// len(x), cap(x) are harmless
				s.und("tracked sink %s is used in `%s`, outside the enumerated write forms", id.Name, s.c.Src(n))
				return false
			}
		}
		if call, ok := m.(*ast.CallExpr); ok {
			if b, ok := core.Callee(s.info, call).(*types.Builtin); ok && (b.Name() == "len" || b.Name() == "cap") {
				return false
			}
		}
		return true
	})
}

func (s *sinkState) call(call *ast.CallExpr) {
	info := s.info
	if id, ok := ast.Unparen(call.Fun).(*ast.Ident); ok {
		// a method value of a sink bound to a local: the call is the method call
		if sel := s.bound[core.ObjOf(info, id)]; sel != nil {
			s.call(&ast.CallExpr{Fun: sel, Lparen: call.Lparen, Args: call.Args, Ellipsis: call.Ellipsis, Rparen: call.Rparen})
			return
		}
	}
	if b := pat.Expr("binary.Write(_w, _order, _x)").Match(info, call, nil); b != nil {
		if f := core.CalleeFunc(info, call); f != nil && f.Pkg() != nil && f.Pkg().Path() == "encoding/binary" {
			s.write(b["_w"].(ast.Expr), []string{s.fixed(b["_x"].(ast.Expr), 0, orderOf(info, b["_order"].(ast.Expr)))}, call)
			return
		}
	}
	if sel, ok := ast.Unparen(call.Fun).(*ast.SelectorExpr); ok {
		f := core.CalleeFunc(info, call)
		switch sel.Sel.Name {
		case "Write":
			if len(call.Args) == 1 && s.targets(sel.X) != nil {
				s.write(sel.X, s.seqTokens(call.Args[0]), call)
				return
			}
		case "WriteByte":
			if len(call.Args) == 1 && s.targets(sel.X) != nil {
				s.write(sel.X, []string{s.byteTok(call.Args[0])}, call)
				return
			}
		case "PutUint16", "PutUint32", "PutUint64":
			if f != nil && f.Pkg() != nil && f.Pkg().Path() == "encoding/binary" && len(call.Args) == 2 {
				width := map[string]int{"PutUint16": 16, "PutUint32": 32, "PutUint64": 64}[sel.Sel.Name]
				dst := ast.Unparen(call.Args[0])
				var o types.Object
				lo := int64(0)
				switch d := dst.(type) {
				case *ast.Ident:
					o = core.ObjOf(info, d)
					if w, isView := s.views[o]; isView {
						o, lo = w.arr, w.lo
						if w.lo+int64(map[string]int{"PutUint16": 2, "PutUint32": 4, "PutUint64": 8}[sel.Sel.Name]) > w.hi {
							s.und("`%s` stores beyond the window of the array", s.c.Src(call))
							return
						}
					}
				case *ast.SliceExpr:
					o = s.obj(d.X)
					if d.Low != nil {
						v, ok := core.IntConst(info, d.Low)
						if !ok {
							o = nil
						}
						lo = v
					}
				}
				if _, isArr := s.arrLen[o]; o == nil || !isArr {
					s.und("`%s` stores into something that is not a tracked byte array", s.c.Src(call))
					return
				}
				tok := s.fixed(call.Args[1], width, orderOf(info, sel.X))
				hi := lo + int64(width/8)
				var keep []span
				for _, sp := range s.arrays[o] {
					if sp.hi <= lo || sp.lo >= hi {
						keep = append(keep, sp)
					}
				}
				s.arrays[o] = append(keep, span{lo, hi, tok})
				return
			}
		}
	}
	if s.helper(call) {
		return
	}
	s.noSinkUse(call)
}

// helper interprets a call of a same-package function that receives sinks:
// its parameters are bound to the caller's sinks and values and its
// (straight-line) body is interpreted in place.
func (s *sinkState) helper(call *ast.CallExpr) bool {
	f := core.CalleeFunc(s.info, call)
	if f == nil || f.Pkg() == nil || !strings.HasSuffix(f.Pkg().Path(), pkg) || s.depth >= 3 || call.Ellipsis.IsValid() {
		return false
	}
	fn := s.c.FnOf(f)
	if fn == nil || fn.Decl.Body == nil || fn.Decl.Recv != nil {
		return false
	}
	i := 0
	for _, fl := range fn.Decl.Type.Params.List {
		for _, nm := range fl.Names {
			if i >= len(call.Args) {
				return false
			}
			po := s.info.Defs[nm]
			arg := call.Args[i]
			i++
			if po == nil {
				continue
			}
			ao := s.obj(arg)
			switch {
			case ao != nil && (s.targets(arg) != nil || s.arrLen[ao] != 0):
				s.alias[po] = ao
			case ao != nil && s.tParam[ao]:
				s.tParam[po] = true
			case ao != nil && s.vParam[ao]:
				s.vParam[po] = true
			default:
				if bt, ok := s.info.TypeOf(arg).Underlying().(*types.Basic); ok && bt.Info()&types.IsInteger != 0 {
					s.scalar[po] = s.classify(arg)
				} else {
					s.noSinkUse(arg)
				}
			}
		}
	}
	s.depth++
	for _, st := range fn.Decl.Body.List {
		if _, ok := st.(*ast.ReturnStmt); ok {
			break
		}
		s.stmt(st)
	}
	s.depth--
	return true
}

// helperSeq interprets a call of a same-package function that returns the
// bytes it assembles: []byte parameters receive the tokens of the arguments
// (value semantics), sinks are aliased, integers keep what they stand for.
func (s *sinkState) helperSeq(call *ast.CallExpr) ([]string, bool) {
	f := core.CalleeFunc(s.info, call)
	if f == nil || f.Pkg() == nil || !strings.HasSuffix(f.Pkg().Path(), pkg) || s.depth >= 3 || call.Ellipsis.IsValid() {
		return nil, false
	}
	fn := s.c.FnOf(f)
	if fn == nil || fn.Decl.Body == nil || fn.Decl.Recv != nil {
		return nil, false
	}
	if sig := f.Type().(*types.Signature); sig.Results().Len() != 1 || !isByteSlice(sig.Results().At(0).Type()) {
		return nil, false
	}
	i := 0
	for _, fl := range fn.Decl.Type.Params.List {
		for _, nm := range fl.Names {
			if i >= len(call.Args) {
				return nil, false
			}
			po := s.info.Defs[nm]
			arg := call.Args[i]
			i++
			if po == nil {
				continue
			}
			at := s.info.TypeOf(arg)
			ao := s.obj(arg)
			switch {
			case at != nil && isByteSlice(at):
				if ao != nil && s.vParam[ao] {
					s.vParam[po] = true
				} else {
					s.content[po] = s.seqTokens(arg)
				}
			case ao != nil && (s.targets(arg) != nil || s.arrLen[ao] != 0):
				s.alias[po] = ao
			case ao != nil && s.tParam[ao]:
				s.tParam[po] = true
			default:
				if bt, ok := at.Underlying().(*types.Basic); at != nil && ok && bt.Info()&types.IsInteger != 0 {
					s.scalar[po] = s.classify(arg)
				} else {
					s.noSinkUse(arg)
				}
			}
		}
	}
	s.depth++
	defer func() { s.depth-- }()
	for _, st := range fn.Decl.Body.List {
		if r, ok := s.stmt(st); ok {
			return r, true
		}
	}
	s.und("helper %s does not end in a return at the top level of its body", f.Name())
	return nil, true
}

func (s *sinkState) stmt(st ast.Stmt) (ret []string, returned bool) {
	switch x := st.(type) {
	case *ast.DeclStmt:
		gd, ok := x.Decl.(*ast.GenDecl)
		if !ok || gd.Tok != token.VAR {
			return
		}
		for _, sp := range gd.Specs {
			vs := sp.(*ast.ValueSpec)
			for i, nm := range vs.Names {
				var rhs ast.Expr
				if len(vs.Values) == len(vs.Names) {
					rhs = vs.Values[i]
				} else if len(vs.Values) != 0 {
					s.noSinkUse(vs)
					continue
				}
				s.define(nm, s.info.TypeOf(nm), rhs)
			}
		}
	case *ast.AssignStmt:
		if len(x.Lhs) == len(x.Rhs) && (x.Tok == token.ASSIGN || x.Tok == token.DEFINE) {
			for i, l := range x.Lhs {
				if id, ok := ast.Unparen(l).(*ast.Ident); ok {
					s.define(id, s.info.TypeOf(id), x.Rhs[i])
				} else {
					s.noSinkUse(x)
				}
			}
			return
		}
		// n, err := w.Write(...)
		if len(x.Rhs) == 1 {
			if call, ok := ast.Unparen(x.Rhs[0]).(*ast.CallExpr); ok {
				s.call(call)
				return
			}
		}
		s.noSinkUse(x)
	case *ast.ExprStmt:
		if call, ok := ast.Unparen(x.X).(*ast.CallExpr); ok {
			s.call(call)
			return
		}
		s.noSinkUse(x)
	case *ast.ReturnStmt:
		if len(x.Results) != 1 {
			s.und("return with %d results", len(x.Results))
			return nil, true
		}
		return s.seqTokens(x.Results[0]), true
	case *ast.EmptyStmt:
	case *ast.BlockStmt:
		// a plain nested block (what expanding a helper in place leaves): its statements run in order
		for _, b := range x.List {
			if r, ok := s.stmt(b); ok {
				return r, true
			}
		}
	default:
		s.und("%s: statement %T: the body is not straight-line code", s.c.Pos(st.Pos()), st)
	}
	return
}

// DumpLayout interprets createValueDump: the tokens of the returned bytes, the
// tokens the digest had received when the checksum was taken, whether the
// digest is a fresh digest.New(), and the reasons why the body could not be
// followed (non-empty = undecided).
func DumpLayout(c *core.Ctx) (fn *core.Fn, layout, cover string, freshDigest bool, undecided []string) {
	fn = c.FuncOpt(pkg, "", "createValueDump")
	if fn == nil {
		return nil, "", "", false, []string{"createValueDump not found"}
	}
	info := fn.Pkg.TypesInfo
	var params []*ast.Ident
	for _, f := range fn.Decl.Type.Params.List {
		params = append(params, f.Names...)
	}
	if len(params) != 2 {
		return fn, "", "", false, []string{"createValueDump does not have the parameters (t, val)"}
	}
	s := &sinkState{info: info, c: c, content: map[types.Object][]string{}, isDig: map[types.Object]bool{}, digInit: map[types.Object]ast.Expr{},
		fan: map[types.Object][]types.Object{}, arrays: map[types.Object][]span{}, arrLen: map[types.Object]int64{},
		tParam: map[types.Object]bool{info.Defs[params[0]]: true}, vParam: map[types.Object]bool{info.Defs[params[1]]: true},
		covered: map[string][]string{}, alias: map[types.Object]types.Object{}, scalar: map[types.Object]scalarVal{}}
	var toks []string
	returned := false
	for _, st := range fn.Decl.Body.List {
		if r, ok := s.stmt(st); ok {
			toks, returned = r, true
			break
		}
	}
	if !returned {
		s.und("no return statement at the top level of the body")
	}
	var shown, cov []string
	for _, t := range toks {
		if i := strings.Index(t, "#"); i >= 0 {
			cov = s.covered[t[i+1:]]
			t = t[:i]
		}
		shown = append(shown, t)
	}
	for _, init := range s.digInit {
		if call, ok := ast.Unparen(init).(*ast.CallExpr); ok {
			if f := core.CalleeFunc(info, call); f != nil && f.Pkg() != nil && strings.HasSuffix(f.Pkg().Path(), "pkg/rdb/digest") && f.Name() == "New" {
				freshDigest = true
			}
		}
	}
	return fn, strings.Join(shown, " "), strings.Join(cov, " "), freshDigest, s.undec
}

func r7(c *core.Ctx) {
	fn, got, cv, okDig, undec := DumpLayout(c)
	if fn == nil {
		c.Undecidedf("R7.dump", "createValueDump/layout", token.NoPos, "%s", strings.Join(undec, "; "))
		return
	}
	want := "TypeByte Bytes Version16LE Crc64LE"
	pos := fn.Decl.Pos()
	switch {
	case len(undec) > 0:
		c.Undecidedf("R7.dump", "createValueDump/layout", pos, "cannot follow how createValueDump assembles its result: %s", strings.Join(undec, "; "))
		return
	case got != want:
		c.Failf("R7.dump", "createValueDump/layout", pos, "DUMP payload layout must be type byte, captured value bytes, RDB version as little-endian 16 bit, CRC-64 of everything before as little-endian 64 bit (`%s`); the code returns `%s`", want, got)
	default:
		c.Okf("R7.dump", "createValueDump/layout", pos, "returns `%s`", got)
	}
	c.Check("R7.dump", "createValueDump/coverage", pos, cv == "TypeByte Bytes Version16LE",
		fmt.Sprintf("the checksum must be taken over exactly the bytes that precede it in the result (`TypeByte Bytes Version16LE`); when the sum is taken the digest has received `%s`: RESTORE rejects the payload", cv))
	c.Check("R7.dump", "createValueDump/fresh-digest", pos, okDig, "the digest is a fresh CRC-64 (digest.New()) created for this payload")
}
