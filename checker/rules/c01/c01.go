// Package c01 decides the structural clauses of property C01 (RDB parsing).
package c01

import (
	"fmt"
	"go/ast"
	"go/token"
	"go/types"
	"os"
	"regexp"
	"rscheck/rules/reent"
	"sort"
	"strings"

	"golang.org/x/tools/go/cfg"

	"rscheck/cfgq"
	"rscheck/core"
	"rscheck/driver"
	"rscheck/flow"
	"rscheck/grammar"
	"rscheck/lin"
	"rscheck/pat"
	"rscheck/rules/arith"
)

const pkg = "pkg/rdb"

var Def = driver.PropDef{
	ID: "C01",
	Explanation: "Structural necessary conditions of 'the parser yields every key exactly', decided on pkg/rdb (loader.go, reader.go, mix.go) and common.NewRDBLoader: " +
		"R1 opcode / value-type / length-encoding constants equal the RDB v9 numbers and the two dispatch switches list every opcode and every module-free value type; " +
		"R2 wire grammar: the read term extracted from the code of every opcode case, every value-type case, the module-aux skipper and the string/length/float primitives equals the reference grammar written from rdb.c (tokens are resolved reader primitives; loops are tied to the count they iterate over); " +
		"R3 capture completeness: in readObjectValue every primitive read goes through the tee reader that records the payload and the function returns the recorded bytes; " +
		"R4 metadata binding: expiry (ms, and s*1000), database, idle, freq, key, type and value are bound to the entry fields; the entry is allocated once before the opcode loop; EOF returns (nil,nil); the lua aux record is delivered; " +
		"R5 hash chunk protocol (16 MiB break with remainMember = n-i-1, reset when complete, lastReadCount restarted on every path into the pair loop, totMemberCount written only from the length read from the header, continuation takes type/key from the previous entry, RealMemberCount/NeedReadLen as restoreBigRdbEntry expects); " +
		"R6 checksum plumbing (all reads go through TeeReader into the digest; Footer sums before reading the trailer and fails on inequality; NewRDBLoader runs Header, NextBinEntry until nil, Footer, and closes the channel by defer); " +
		"R7 DUMP wrapping order type, payload, version LE16, CRC64 LE64 of the preceding bytes; " +
		"R8 width agreement of every fixed-width integer read (buffer bytes * 8 = decoder width); " +
		"R9 the length decoder takes the tag from the top two bits and the value from the low six bits (mask/shift constants, both copies); " +
		"R10 the reader primitive (*rdbReader).Read returns the byte count of the underlying read on every return (also next to an error) and counts it into nread.",
	NotDecided: "bit arithmetic inside the length decoding, LZF decompression, integer-string rendering, correctness of the reference grammar itself (trusted, written from rdb.c), keys with more than 2^32 elements.",
	Trusted:    []string{"go/parser, go/types, go/cfg (x/tools v0.29.0)", "reference RDB v9 grammar and opcode table in rules/c01", "io.TeeReader, io.MultiWriter, encoding/binary semantics"},
	Run:        Run,
}

// ReaderSpec is the primitive table of pkg/rdb's reader. valuePrim makes
// readObjectValue a single token (used when extracting NextBinEntry).
func ReaderSpec(valuePrim bool) *grammar.Spec {
	r := "(*pkg/rdb.rdbReader)."
	s := &grammar.Spec{
		Prims: map[string]string{
			r + "ReadString": "Str", r + "ReadLength": "Len", r + "ReadDouble": "Fix8", r + "ReadFloat": "FloatStr",
			r + "ReadByte": "U8", r + "readUint8": "U8", r + "readInt8": "U8", r + "ReadBytes": "Bytes",
			r + "readUint16": "Fix2LE", r + "readInt16": "Fix2LE", r + "readUint32": "Fix4LE", r + "readInt32": "Fix4LE",
			r + "readUint64": "Fix8LE", r + "readInt64": "Fix8LE", r + "readUint32BigEndian": "Fix4BE", r + "readInt32BigEndian": "Fix4BE",
			r + "readUint64BigEndian": "Fix8BE",
		},
		BufPrims: map[string]string{r + "readFull": "Fix%d"},
		Inline: func(f *types.Func) bool {
			return f.Pkg() != nil && f.Pkg().Path() == core.Module+"/"+pkg
		},
		Carrier: func(t types.Type) bool {
			n := core.NamedTypeName(t)
			return n == "rdbReader" || n == "Loader"
		},
		Fields: map[string]bool{"remainMember": true},
	}
	if valuePrim {
		s.Prims[r+"readObjectValue"] = "Value"
	}
	return s
}

// reference grammar per value type (RDB v1-9, module-free)
var typeRef = map[int64]string{
	0:  "Str",
	1:  "Len@a Loop@a{Str}",
	2:  "Len@a Loop@a{Str}",
	3:  "Len@a Loop@a{Str FloatStr}",
	4:  "Alt[.remainMember!=0]{|Len@a} Loop@[.remainMember,a]{Str Str}",
	5:  "Len@a Loop@a{Str Fix8}",
	9:  "Str",
	10: "Str",
	11: "Str",
	12: "Str",
	13: "Str",
	14: "Len@a Loop@a{Str}",
	15: "Len@a Loop@a{Str Str} Len Len Len Len@b Loop@b{Str Len Len Len@c Loop@c{Fix16 Fix8 Len} Len@d Loop@d{Str Fix8 Len@e Loop@e{Fix16}}}",
}

var typeName = map[int64]string{0: "string", 1: "list", 2: "set", 3: "zset", 4: "hash", 5: "zset2", 9: "hash-zipmap", 10: "list-ziplist",
	11: "set-intset", 12: "zset-ziplist", 13: "hash-ziplist", 14: "quicklist", 15: "stream-listpacks"}

// reference grammar per opcode (what follows the opcode byte)
var opRef = map[int64]string{
	0xf7: "Len Star{Len@a Sw@a{1:Len|2:Len|3:Fix4|4:Fix8|5:Str}}", // module aux: module id, then opcode-tagged fields until EOF(0)
	0xf8: "Len",                                                   // idle
	0xf9: "U8",                                                    // freq
	0xfa: "Str Str",                                               // aux key, aux value
	0xfb: "Len Len",                                               // resize db
	0xfc: "Fix8LE",                                                // expire ms
	0xfd: "Fix4LE",                                                // expire s
	0xfe: "Len",                                                   // select db
	0xff: "",                                                      // eof
}
var opName = map[int64]string{0xf7: "MODULE_AUX", 0xf8: "IDLE", 0xf9: "FREQ", 0xfa: "AUX", 0xfb: "RESIZEDB", 0xfc: "EXPIRETIME_MS", 0xfd: "EXPIRETIME", 0xfe: "SELECTDB", 0xff: "EOF"}

var primRef = map[string]string{
	"readEncodedLength": "U8@a Sw@?{0:|1:U8|3:|d:Sw@a{128:Fix4BE|129:Fix8BE|d:}}",
	"ReadString":        "U8@a Sw@?{0:|1:U8|3:|d:Sw@a{128:Fix4BE|129:Fix8BE|d:}} Alt[?]{Bytes Ret|} Sw@?{0:U8 Ret|1:Fix2LE Ret|2:Fix4LE Ret|3:Len Len Bytes Ret}",
	"ReadFloat":         "U8@a Sw@a{253:Ret|254:Ret|255:Ret|d:Bytes Ret}",
	"ReadDouble":        "Fix8",
	"ReadLength":        "U8@a Sw@?{0:|1:U8|3:|d:Sw@a{128:Fix4BE|129:Fix8BE|d:}}",
}

// primTable: what a primitive consumes as a function of the first byte it
// reads (RDB length / string / float encodings). Error outcomes consume
// nothing more.
var primTable = map[string]func(v int) string{
	"readEncodedLength": lengthTable,
	"ReadLength":        lengthTable,
	"ReadString": func(v int) string {
		switch {
		case v>>6 == 0:
			return "U8 Bytes"
		case v>>6 == 1:
			return "U8 U8 Bytes"
		case v == 0x80:
			return "U8 Fix4BE Bytes"
		case v == 0x81:
			return "U8 Fix8BE Bytes"
		case v>>6 == 2:
			return "U8"
		}
		switch v & 0x3f {
		case 0:
			return "U8 U8"
		case 1:
			return "U8 Fix2LE"
		case 2:
			return "U8 Fix4LE"
		case 3:
			return "U8 Len Len Bytes"
		}
		return "U8"
	},
	"ReadFloat": func(v int) string {
		if v >= 253 {
			return "U8"
		}
		return "U8 Bytes"
	},
}

func lengthTable(v int) string {
	switch {
	case v>>6 == 1:
		return "U8 U8"
	case v == 0x80:
		return "U8 Fix4BE"
	case v == 0x81:
		return "U8 Fix8BE"
	}
	return "U8"
}

var bindRe = regexp.MustCompile(`@\[[^\]]*\]|@[a-z?][0-9]*`)

// primByFirstByte compares the partition of the 256 first-byte values computed
// from the code (grammar.ByFirstByte) with the reference table.
func primByFirstByte(c *core.Ctx, fn *core.Fn, name string, table func(int) string) {
	rows, undec := grammar.ByFirstByte(c, func() *grammar.Spec {
		spec := ReaderSpec(false)
		delete(spec.Prims, "(*pkg/rdb.rdbReader)."+name)
		return spec
	}, fn)
	key := "prim/" + name
	if len(undec) > 0 {
		c.Undecidedf("R2.grammar", key, fn.Decl.Pos(), "cannot extract the read grammar of primitive %s: %s", name, strings.Join(undec, "; "))
		return
	}
	type miss struct {
		got, want string
		vals      []int
	}
	var bad []miss
	opaque := false
	for term, vals := range rows {
		t := bindRe.ReplaceAllString(term, "")
		t = strings.Join(strings.Fields(strings.ReplaceAll(t, "Ret", " ")), " ")
		if strings.ContainsAny(t, "{}") {
			opaque = true
		}
		byWant := map[string][]int{}
		for _, v := range vals {
			if w := table(v); w != t {
				byWant[w] = append(byWant[w], v)
			}
		}
		for w, vs := range byWant {
			bad = append(bad, miss{t, w, vs})
		}
	}
	switch {
	case len(bad) == 0:
		c.Okf("R2.grammar", key, fn.Decl.Pos(), "primitive %s: %d classes of first bytes, all as in the RDB format", name, len(rows))
	case opaque:
		c.Undecidedf("R2.grammar", key, fn.Decl.Pos(), "primitive %s: some branch after the first byte does not depend on that byte alone, e.g. first byte %#x reads `%s` (format: `%s`)", name, bad[0].vals[0], bad[0].got, bad[0].want)
	default:
		sort.Slice(bad, func(i, j int) bool { return bad[i].vals[0] < bad[j].vals[0] })
		var parts []string
		for i, m := range bad {
			if i == 3 {
				parts = append(parts, "...")
				break
			}
			parts = append(parts, fmt.Sprintf("first byte %#x..%#x (%d values): reads `%s`, the format stores `%s`", m.vals[0], m.vals[len(m.vals)-1], len(m.vals), m.got, m.want))
		}
		c.Failf("R2.grammar", key, fn.Decl.Pos(), "primitive %s consumes other bytes than the RDB format stores: %s: the bytes that follow are mis-framed (every later key is corrupted or the load aborts)", name, strings.Join(parts, "; "))
	}
}

var constRef = map[string]int64{
	"RdbTypeString": 0, "RdbTypeList": 1, "RdbTypeSet": 2, "RdbTypeZSet": 3, "RdbTypeHash": 4, "RdbTypeZSet2": 5,
	"RdbTypeHashZipmap": 9, "RdbTypeListZiplist": 10, "RdbTypeSetIntset": 11, "RdbTypeZSetZiplist": 12, "RdbTypeHashZiplist": 13,
	"RdbTypeQuicklist": 14, "RDBTypeStreamListPacks": 15,
	"rdbFlagModuleAux": 0xf7, "rdbFlagIdle": 0xf8, "rdbFlagFreq": 0xf9, "RdbFlagAUX": 0xfa, "rdbFlagResizeDB": 0xfb,
	"rdbFlagExpiryMS": 0xfc, "rdbFlagExpiry": 0xfd, "rdbFlagSelectDB": 0xfe, "rdbFlagEOF": 0xff,
	"rdbModuleOpcodeEof": 0, "rdbModuleOpcodeSint": 1, "rdbModuleOpcodeUint": 2, "rdbModuleOpcodeFloat": 3, "rdbModuleOpcodeDouble": 4, "rdbModuleOpcodeString": 5,
	"rdb6bitLen": 0, "rdb14bitLen": 1, "rdb32bitLen": 0x80, "rdb64bitLen": 0x81, "rdbEncVal": 3,
	"rdbEncInt8": 0, "rdbEncInt16": 1, "rdbEncInt32": 2, "rdbEncLZF": 3,
	"rdbZiplist6bitlenString": 0, "rdbZiplist14bitlenString": 1, "rdbZiplist32bitlenString": 2,
	"rdbZiplistInt16": 0xc0, "rdbZiplistInt32": 0xd0, "rdbZiplistInt64": 0xe0, "rdbZiplistInt24": 0xf0, "rdbZiplistInt8": 0xfe, "rdbZiplistInt4": 15,
}

func findSwitchOn(info *types.Info, body ast.Node, obj types.Object) *ast.SwitchStmt {
	var sw *ast.SwitchStmt
	core.Inspect(body, func(n ast.Node) bool {
		if s, ok := n.(*ast.SwitchStmt); ok && sw == nil && s.Tag != nil {
			if id, ok := ast.Unparen(s.Tag).(*ast.Ident); ok && info.Uses[id] == obj {
				sw = s
			}
		}
		return sw == nil
	})
	return sw
}

var tokRe = regexp.MustCompile(`[A-Za-z][A-Za-z0-9]*`)

// flat is the left-to-right sequence of token and structure names of a term
// (bindings, braces and labels erased).
func Flat(term string) string { return flat(term) }

func flat(term string) string {
	t := regexp.MustCompile(`@\[[^\]]*\]|@[a-z?][0-9]*|\[[^\]]*\]|[0-9]+:|d:`).ReplaceAllString(term, " ")
	t = strings.NewReplacer("Ret", "", "Star", "Loop", "Alt", "").Replace(t)
	return strings.Join(tokRe.FindAllString(t, -1), " ")
}

func trimRet(s string) string {
	return strings.TrimSpace(strings.TrimSuffix(strings.TrimSpace(s), "Ret"))
}

// compare records the obligation for one extracted term.
func compare(c *core.Ctx, rule, key string, pos token.Pos, got, want string, ex *grammar.Extractor, what string) {
	got, want = trimRet(got), trimRet(want)
	if len(ex.Undecided) > 0 {
		c.Undecidedf(rule, key, pos, "cannot extract the read grammar of %s: %s", what, strings.Join(ex.Undecided, "; "))
		return
	}
	if got == want {
		c.Okf(rule, key, pos, "%s reads `%s`", what, got)
		return
	}
	if flat(got) == flat(want) {
		c.Undecidedf(rule, key, pos, "%s: same reads in the same order as the reference but a different control structure: got `%s`, reference `%s`", what, got, want)
		return
	}
	c.Failf(rule, key, pos, "%s consumes `%s` but the RDB format stores `%s`: the bytes that follow are mis-framed (every later key is corrupted or the load aborts)", what, got, want)
}

func reentrant(c *core.Ctx) {
	var roots []*core.Fn
	for _, n := range []string{"NextBinEntry", "Header", "Footer"} {
		if f := c.FuncOpt("pkg/rdb", "Loader", n); f != nil {
			roots = append(roots, f)
		}
	}
	for _, n := range []string{"NewLoader", "createValueDump", "DecodeDump", "EncodeDump"} {
		if f := c.FuncOpt("pkg/rdb", "", n); f != nil {
			roots = append(roots, f)
		}
	}
	reent.Check(c, "R10.reentrant", roots, []string{"pkg/rdb", "pkg/rdb/digest", "pkg/libs/cupcake/rdb", "pkg/libs/cupcake/rdb/crc64"}, "one loader per source node / parallel workers")
}

func Run(c *core.Ctx) {
	defer reentrant(c)
	pk := c.Pkg(pkg)
	if pk == nil {
		c.Undecidedf("anchor", pkg, token.NoPos, "package not loaded")
		return
	}
	info := pk.TypesInfo
	rov := c.Func(pkg, "rdbReader", "readObjectValue")
	nbe := c.Func(pkg, "Loader", "NextBinEntry")
	if rov == nil || nbe == nil {
		return
	}

	// ---- R1 constants
	for name, want := range constRef {
		obj := pk.Types.Scope().Lookup(name)
		cn, ok := obj.(*types.Const)
		if !ok {
			c.Undecidedf("R1.const", name, token.NoPos, "constant %s not found in pkg/rdb", name)
			continue
		}
		got, exact := constInt(cn)
		c.Check("R1.const", name, cn.Pos(), exact && got == want, fmt.Sprintf("%s must be %d (%#x) as in rdb.h; it is %d", name, want, want, got))
	}

	// ---- R2 grammar
	var tParam types.Object
	if ps := rov.Decl.Type.Params.List; len(ps) > 0 && len(ps[0].Names) > 0 {
		tParam = info.Defs[ps[0].Names[0]]
	}
	swV := findSwitchOn(info, rov.Decl.Body, tParam)
	if swV == nil {
		c.Undecidedf("R2.grammar", "readObjectValue/switch", rov.Decl.Pos(), "no switch over the type parameter in readObjectValue")
	} else {
		for v := int64(0); v <= 15; v++ {
			want, has := typeRef[v]
			ex := grammar.New(c, ReaderSpec(false))
			got, ok := ex.CaseTerm(info, swV, v, false)
			if !has {
				continue
			}
			key := fmt.Sprintf("type/%d-%s", v, typeName[v])
			if !ok {
				c.Failf("R1.labels", key, swV.Pos(), "readObjectValue has no case for value type %d (%s): every key of that type aborts the load", v, typeName[v])
				continue
			}
			c.Okf("R1.labels", key, swV.Pos(), "case present")
			compare(c, "R2.grammar", key, swV.Pos(), got, want, ex, fmt.Sprintf("value type %d (%s)", v, typeName[v]))
		}
	}
	// the opcode switch: tag is the local assigned from ReadByte
	var swO *ast.SwitchStmt
	core.Inspect(nbe.Decl.Body, func(n ast.Node) bool {
		if s, ok := n.(*ast.SwitchStmt); ok && swO == nil && s.Tag != nil {
			if _, isId := ast.Unparen(s.Tag).(*ast.Ident); isId {
				swO = s
			}
		}
		return swO == nil
	})
	if swO == nil {
		c.Undecidedf("R2.grammar", "NextBinEntry/switch", nbe.Decl.Pos(), "no opcode switch in NextBinEntry")
		return
	}
	for v := int64(0xf7); v <= 0xff; v++ {
		ex := grammar.New(c, ReaderSpec(true))
		got, ok := ex.CaseTerm(info, swO, v, false)
		key := fmt.Sprintf("op/%#x-%s", v, opName[v])
		if !ok {
			c.Failf("R1.labels", key, swO.Pos(), "NextBinEntry has no case for opcode %#x (%s): it would be taken for a value type", v, opName[v])
			continue
		}
		c.Okf("R1.labels", key, swO.Pos(), "case present")
		if v == 0xf7 {
			// the module-aux values are skipped, only their width matters
			got = regexp.MustCompile(`Fix(\d+)(LE|BE)`).ReplaceAllString(got, "Fix$1")
		}
		compare(c, "R2.grammar", key, swO.Pos(), got, opRef[v], ex, fmt.Sprintf("opcode %#x (%s)", v, opName[v]))
	}
	{
		ex := grammar.New(c, ReaderSpec(true))
		got, _ := ex.CaseTerm(info, swO, 0, true) // default clause = key record
		compare(c, "R2.grammar", "op/key-record", swO.Pos(), got, "Alt[.remainMember!=0]{|Str} Value", ex, "the key record (default case)")
	}
	{
		ex := grammar.New(c, ReaderSpec(true))
		got := ex.FuncTerm(nbe)
		// the type byte is read unless a chunked hash is being continued
		okHead := strings.HasPrefix(got, "Star{Alt[.remainMember!=0]{|U8@a} Sw@a{")
		if len(ex.Undecided) > 0 {
			c.Undecidedf("R2.grammar", "NextBinEntry/type-byte", nbe.Decl.Pos(), "%s", strings.Join(ex.Undecided, "; "))
		} else {
			c.Check("R2.grammar", "NextBinEntry/type-byte", nbe.Decl.Pos(), okHead,
				"every iteration reads exactly one opcode/type byte and dispatches on it, except when continuing a chunked hash; got `"+cut(got, 80)+"`")
		}
	}
	for name, want := range primRef {
		fn := c.Func(pkg, "rdbReader", name)
		if fn == nil {
			continue
		}
		if table, ok := primTable[name]; ok {
			primByFirstByte(c, fn, name, table)
			continue
		}
		spec := ReaderSpec(false)
		// the primitive under test must not be its own token
		delete(spec.Prims, "(*pkg/rdb.rdbReader)."+name)
		ex := grammar.New(c, spec)
		got := ex.FuncTerm(fn)
		compare(c, "R2.grammar", "prim/"+name, fn.Decl.Pos(), got, want, ex, "primitive "+name)
	}

	r3(c, rov)
	r4(c, nbe, swO)
	r5(c, rov, nbe)
	r6(c)
	r7(c)
	r8(c)
	r10(c)
	// R9: mask/shift constants of the length decoder, and agreement with the second copy
	arith.LengthFingerprint(c, "R9.length", c.Func(pkg, "rdbReader", "readEncodedLength"))
	arith.LengthFingerprint(c, "R9.length", c.Func("pkg/libs/cupcake/rdb", "decode", "readLength"))
	if os.Getenv("RS_DUMP") != "" {
		fmt.Println("dump done")
	}
}

// EntryRules runs the rules that fix what a BinEntry carries (metadata binding
// R4 and the hash chunk protocol R5). Property C02 re-uses them: the restore
// routes consume exactly these fields (ExpireAt, DB, RealMemberCount, NeedReadLen).
func EntryRules(c *core.Ctx) {
	rov := c.Func(pkg, "rdbReader", "readObjectValue")
	nbe := c.Func(pkg, "Loader", "NextBinEntry")
	if rov == nil || nbe == nil {
		return
	}
	var swO *ast.SwitchStmt
	core.Inspect(nbe.Decl.Body, func(n ast.Node) bool {
		if s, ok := n.(*ast.SwitchStmt); ok && swO == nil && s.Tag != nil {
			if _, isId := ast.Unparen(s.Tag).(*ast.Ident); isId {
				swO = s
			}
		}
		return swO == nil
	})
	if swO == nil {
		c.Undecidedf("R4.bind", "NextBinEntry/switch", nbe.Decl.Pos(), "no opcode switch in NextBinEntry")
		return
	}
	r4(c, nbe, swO)
	r5(c, rov, nbe)
}

func cut(s string, n int) string {
	if len(s) > n {
		return s[:n] + "..."
	}
	return s
}

func constInt(cn *types.Const) (int64, bool) {
	v := cn.Val()
	if v == nil {
		return 0, false
	}
	s := v.ExactString()
	var n int64
	_, err := fmt.Sscan(s, &n)
	return n, err == nil
}

// ---------------------------------------------------------------------------

func r3(c *core.Ctx, rov *core.Fn) {
	info := rov.Pkg.TypesInfo
	recv := info.Defs[rov.Decl.Recv.List[0].Names[0]]
	spec := ReaderSpec(false)
	// rebind statement
	reb, b := pat.Stmt("_r = NewRdbReader(io.TeeReader(_r, &_b))").Find(info, rov.Decl.Body, pat.Binds{"_r": rov.Decl.Recv.List[0].Names[0]})
	if reb == nil {
		// the tee reader kept in a variable of its own: `x := NewRdbReader(io.TeeReader(r, &b))`
		// (alone or next to other definitions); the reads below are traced to that statement
		var call ast.Node
		call, b = pat.Expr("NewRdbReader(io.TeeReader(_r, &_b))").Find(info, rov.Decl.Body, pat.Binds{"_r": rov.Decl.Recv.List[0].Names[0]})
		if call != nil {
			for _, st := range rov.Decl.Body.List {
				if st.Pos() <= call.Pos() && call.End() <= st.End() {
					switch x := st.(type) {
					case *ast.AssignStmt:
						for _, rh := range x.Rhs {
							if ast.Unparen(rh) == call {
								reb = st
							}
						}
					case *ast.DeclStmt:
						if gd, ok := x.Decl.(*ast.GenDecl); ok && len(gd.Specs) == 1 {
							if vs, ok := gd.Specs[0].(*ast.ValueSpec); ok {
								for _, rh := range vs.Values {
									if ast.Unparen(rh) == call {
										reb = st
									}
								}
							}
						}
					}
				}
			}
			if reb == nil {
				c.Undecidedf("R3.capture", "readObjectValue/tee", call.Pos(), "the tee reader NewRdbReader(io.TeeReader(r, &b)) is built, but not by a top-level assignment or definition of readObjectValue")
				return
			}
		}
	}
	if reb == nil {
		c.Failf("R3.capture", "readObjectValue/tee", rov.Decl.Pos(), "readObjectValue must rebind its reader to NewRdbReader(io.TeeReader(r, &b)): without the tee the returned payload is not the bytes consumed")
		return
	}
	topLevel := false
	for _, s := range rov.Decl.Body.List {
		if s == reb {
			topLevel = true
		}
	}
	c.Check("R3.capture", "readObjectValue/tee", reb.Pos(), topLevel, "the tee rebind is an unconditional top-level statement")
	// every primitive read reachable from readObjectValue (through helpers) is made
	// on the tee reader: its receiver, followed back through the helpers'
	// parameters and receivers, is readObjectValue's own `r`, and the statement of
	// readObjectValue through which it is reached comes after the rebind
	fe := flow.New(c.Program)
	isPrim := func(f *types.Func) bool {
		name := core.FuncName(f)
		_, p1 := spec.Prims[name]
		_, p2 := spec.BufPrims[name]
		return p1 || p2
	}
	fe.Opaque = isPrim
	g0 := cfgq.Of(c.Program, rov)
	n := 0
	for _, cs := range fe.Calls(g0, rov.Decl.Body, isPrim) {
		n++
		// every origin of the receiver's value passes through the rebind statement
		okRecv := false
		if sel, ok := ast.Unparen(cs.Call.Fun).(*ast.SelectorExpr); ok {
			vals := fe.Values(cs.Site, sel.X)
			okRecv = len(vals) > 0
			for _, v := range vals {
				through := false
				for _, st := range v.Sites {
					if st.G == g0 && st.At.Node() == reb {
						through = true
					}
				}
				if !through || v.Unknown != "" {
					okRecv = false
				}
			}
		}
		_ = recv
		pos := cs.Call.Pos()
		if len(cs.Up) > 0 {
			if nd := cs.Up[len(cs.Up)-1].At.Node(); nd != nil {
				pos = nd.Pos()
			}
		}
		c.Check("R3.capture", fmt.Sprintf("readObjectValue/%s", cs.Fn.Name()), cs.Call.Pos(), okRecv && pos > reb.End(),
			fmt.Sprintf("%s must be called on the tee reader `r` (after the rebind): a read on the outer loader consumes bytes that are missing from the DUMP payload", cs.Fn.Name()))
	}
	if n < 15 {
		c.Undecidedf("instances", "R3.capture", rov.Decl.Pos(), "only %d primitive reads reachable from readObjectValue, 29 confirmed on the pinned tree", n)
	}
	// returns
	g := cfgq.Of(c.Program, rov)
	k := 0
	for _, p := range g.Points(func(n ast.Node) bool { _, ok := n.(*ast.ReturnStmt); return ok }) {
		ret := p.Node().(*ast.ReturnStmt)
		if cfgq.ClassifyReturn(info, rov.Decl.Body, ret) != cfgq.RetNilErr {
			continue
		}
		k++
		c.Check("R3.capture", "readObjectValue/returns-captured", ret.Pos(), pat.Stmt("return _b.Bytes(), nil").Match(info, ret, b) != nil,
			"the successful return hands back exactly the bytes recorded by the tee buffer")
	}
	if k == 0 {
		c.Undecidedf("R3.capture", "readObjectValue/returns-captured", rov.Decl.Pos(), "no successful return found")
	}
}

func clauseFor(info *types.Info, sw *ast.SwitchStmt, val int64) *ast.CaseClause {
	var def *ast.CaseClause
	for _, cl := range sw.Body.List {
		cc := cl.(*ast.CaseClause)
		if cc.List == nil {
			def = cc
		}
		for _, l := range cc.List {
			if v, ok := core.IntConst(info, l); ok && v == val {
				return cc
			}
		}
	}
	if val < 0 {
		return def
	}
	return nil
}

func findIf(info *types.Info, root ast.Node, cond *pat.Pattern, b pat.Binds) *ast.IfStmt {
	var hit *ast.IfStmt
	core.Inspect(root, func(n ast.Node) bool {
		if ifs, ok := n.(*ast.IfStmt); ok && hit == nil && cond.Match(info, ifs.Cond, b) != nil {
			hit = ifs
		}
		return hit == nil
	})
	return hit
}

func r5(c *core.Ctx, rov, nbe *core.Fn) {
	info := rov.Pkg.TypesInfo
	// who writes remainMember
	pk := c.Pkg(pkg)
	// functions that belong to readObjectValue: unexported helpers of the package all
	// of whose callers are readObjectValue or such helpers
	callers := map[*ast.FuncDecl][]*ast.FuncDecl{}
	declOf := map[types.Object]*ast.FuncDecl{}
	var decls []*ast.FuncDecl
	for _, f := range pk.Syntax {
		if core.IsTestFile(c.Fset, f) {
			continue
		}
		for _, d := range f.Decls {
			if fd, ok := d.(*ast.FuncDecl); ok && fd.Body != nil {
				decls = append(decls, fd)
				declOf[info.Defs[fd.Name]] = fd
			}
		}
	}
	for _, fd := range decls {
		ast.Inspect(fd.Body, func(m ast.Node) bool {
			if call, ok := m.(*ast.CallExpr); ok {
				if f := core.CalleeFunc(info, call); f != nil {
					if callee := declOf[f]; callee != nil {
						callers[callee] = append(callers[callee], fd)
					}
				}
			}
			return true
		})
	}
	owned := map[*ast.FuncDecl]bool{rov.Decl: true}
	for changed := true; changed; {
		changed = false
		for _, fd := range decls {
			if owned[fd] || ast.IsExported(fd.Name.Name) || len(callers[fd]) == 0 {
				continue
			}
			all := true
			for _, cl := range callers[fd] {
				if !owned[cl] {
					all = false
				}
			}
			if all {
				owned[fd] = true
				changed = true
			}
		}
	}
	for _, fd := range decls {
		if owned[fd] {
			continue
		}
		fd := fd
		ast.Inspect(fd.Body, func(m ast.Node) bool {
			switch as := m.(type) {
			case *ast.AssignStmt:
				for _, l := range as.Lhs {
					if core.IsFieldNamed(info, l, "rdbReader", "remainMember") {
						c.Failf("R5.chunk", "remainMember/foreign-writer/"+fd.Name.Name, as.Pos(), "remainMember is written outside readObjectValue and its own helpers: the continuation state of a chunked hash can be corrupted")
					}
				}
			case *ast.IncDecStmt:
				if core.IsFieldNamed(info, as.X, "rdbReader", "remainMember") {
					c.Failf("R5.chunk", "remainMember/foreign-writer/"+fd.Name.Name, as.Pos(), "remainMember is written outside readObjectValue and its own helpers")
				}
			}
			return true
		})
	}
	c.Okf("R5.chunk", "remainMember/single-writer", rov.Decl.Pos(), "scan of pkg/rdb for writers of remainMember done")
	var tParam types.Object
	if ps := rov.Decl.Type.Params.List; len(ps) > 0 && len(ps[0].Names) > 0 {
		tParam = info.Defs[ps[0].Names[0]]
	}
	sw := findSwitchOn(info, rov.Decl.Body, tParam)
	if sw == nil {
		return
	}
	cc := clauseFor(info, sw, 4)
	if cc == nil {
		return
	}
	r5hash(c, rov, cc)
	r5reset(c, rov, sw, cc)
	r5cont(c, nbe)
}

// r5reset: a value that is not a chunked hash leaves the chunk state neutral.
// NextBinEntry derives RealMemberCount from lastReadCount/totMemberCount and
// the continuation of a key from remainMember; all three are reset by every
// other value type, otherwise the counters of a preceding hash make the next
// entry look like a piece of a split key.
func r5reset(c *core.Ctx, rov *core.Fn, sw *ast.SwitchStmt, hash *ast.CaseClause) {
	info := rov.Pkg.TypesInfo
	e := flow.New(c.Program)
	g := cfgq.Of(c.Program, rov)
	fields := []string{"lastReadCount", "remainMember", "totMemberCount"}
	isField := func(v *types.Var) bool {
		if v.Pkg() == nil || !strings.HasSuffix(v.Pkg().Path(), pkg) {
			return false
		}
		for _, f := range fields {
			if v.Name() == f {
				return true
			}
		}
		return false
	}
	// resets that precede the switch count for every clause
	before := map[string]bool{}
	for _, st := range rov.Decl.Body.List {
		if st == ast.Stmt(sw) {
			break
		}
		for _, s := range e.Stores(g, st, isField) {
			if v, ok := core.IntConst(s.G.Info, s.RHS); ok && v == 0 && s.Plain() {
				before[s.Field.Name()] = true
			}
		}
	}
	n := 0
	for _, cl := range sw.Body.List {
		cc := cl.(*ast.CaseClause)
		if cc == hash || cc.List == nil || len(cc.Body) == 0 {
			continue
		}
		if len(cc.Body) == 1 {
			if b, ok := cc.Body[0].(*ast.BranchStmt); ok && b.Tok == token.FALLTHROUGH {
				continue
			}
		}
		label := ""
		for _, l := range cc.List {
			if v, ok := core.IntConst(info, l); ok {
				label = fmt.Sprintf("%d", v)
			}
		}
		got := map[string]bool{}
		for k := range before {
			got[k] = true
		}
		for _, s := range e.Stores(g, &ast.BlockStmt{List: cc.Body}, isField) {
			if v, ok := core.IntConst(s.G.Info, s.RHS); ok && v == 0 && s.Plain() {
				got[s.Field.Name()] = true
			}
		}
		var miss []string
		for _, f := range fields {
			if !got[f] {
				miss = append(miss, f)
			}
		}
		n++
		c.Check("R5.chunk", "reset/type-"+label, cc.Pos(), len(miss) == 0,
			fmt.Sprintf("a value that is not a chunked hash resets lastReadCount, remainMember and totMemberCount; the case of type %s leaves %s as the previous value set it: after a hash the next entry is reported with a RealMemberCount / continuation state that is not its own (it is restored element by element, without the key_exists check, or taken for a continuation)", label, strings.Join(miss, ", ")))
	}
	if n < 3 {
		c.Undecidedf("instances", "R5.chunk/reset", sw.Pos(), "only %d non-hash value cases found in readObjectValue, 3+ confirmed", n)
	}
}

func isTopLevel(b *ast.BlockStmt, n ast.Node) bool {
	for _, s := range b.List {
		if ast.Node(s) == n {
			return true
		}
	}
	return false
}

func r6(c *core.Ctx) {
	if fn := c.Func(pkg, "", "NewLoader"); fn != nil {
		teeIntoDigest(c, fn)
	}
	if fn := c.Func(pkg, "Loader", "Footer"); fn != nil {
		info := fn.Pkg.TypesInfo
		g := cfgq.Of(c.Program, fn)
		sum := g.Points(g.HasCall(func(call *ast.CallExpr, _ types.Object) bool {
			return pat.Expr("_l.crc.Sum64()").Match(info, call, nil) != nil
		}))
		// every read of the stream reachable from Footer (through helpers)
		fe := flow.New(c.Program)
		spec := ReaderSpec(true)
		isRead := func(f *types.Func) bool {
			n := core.FuncName(f)
			_, a := spec.Prims[n]
			_, b := spec.BufPrims[n]
			return a || b
		}
		fe.Opaque = isRead
		reads := fe.Calls(g, fn.Decl.Body, isRead)
		if len(sum) != 1 || len(reads) == 0 {
			c.Undecidedf("R6.crc", "Footer/shape", fn.Decl.Pos(), "Footer must sample l.crc.Sum64() once and read the trailer (found %d samples, %d reads)", len(sum), len(reads))
		} else {
			sn := sum[0].Node()
			for _, rd := range reads {
				at := rd.At
				if len(rd.Up) > 0 {
					at = rd.Up[len(rd.Up)-1].At
				}
				ok, w := g.Dominated(at, func(n ast.Node) bool { return n == sn })
				c.Check("R6.crc", "Footer/sum-before-trailer", rd.Call.Pos(), ok, "the digest is taken before the 8 trailer bytes are read (they pass through the same tee and would otherwise be part of the sum)", w...)
			}
			// (the comparison itself is checked by X1.footer in rules/all)
		}
	}
	if fn := c.Func("redis-shake/common", "", "NewRDBLoader"); fn != nil {
		info := fn.Pkg.TypesInfo
		lits := core.FuncLits(fn.Decl.Body)
		if len(lits) != 1 {
			c.Undecidedf("R6.crc", "NewRDBLoader/shape", fn.Decl.Pos(), "expected one goroutine literal")
			return
		}
		lit := lits[0]
		g := cfgq.OfLit(c.Program, info, lit)
		call := func(name string) func(ast.Node) bool {
			return g.HasCall(func(_ *ast.CallExpr, callee types.Object) bool {
				f, _ := callee.(*types.Func)
				return f != nil && core.IsFunc(f, pkg, "Loader", name)
			})
		}
		hd, nb, ft := g.Points(call("Header")), g.Points(call("NextBinEntry")), g.Points(call("Footer"))
		if len(hd) != 1 || len(nb) != 1 || len(ft) != 1 {
			c.Undecidedf("R6.crc", "NewRDBLoader/calls", fn.Decl.Pos(), "expected one call each of Header, NextBinEntry, Footer")
			return
		}
		ok, w := g.Dominated(nb[0], call("Header"))
		c.Check("R6.crc", "NewRDBLoader/header-first", nb[0].Node().Pos(), ok, "the header is parsed before the first entry", w...)
		// every normal exit passes Footer unless FromVersion <= 2
		w2 := g.Path(cfgq.Query{From: g.Entry(), Avoid: call("Footer"), TargetExit: cfgq.NormalExit,
			AvoidEdge: func(b *cfg.Block, s int) bool {
				return g.Establishes(b, s, func(f cfgq.Fact) bool {
					// FromVersion <= 2, in any spelling (named constant, swapped operands, negated >)
					cmp, ok := lin.CmpOf(info, f.Expr, f.Val)
					if !ok || len(cmp.F.Coef) != 1 {
						return false
					}
					for k := range cmp.F.Coef {
						if strings.HasSuffix(k, "rdb.FromVersion") || k == "FromVersion" {
							return cmp.Is(lin.Form{Coef: map[string]int64{k: 1}, Const: -2}, token.LEQ)
						}
					}
					return false
				})
			}})
		c.Check("R6.crc", "NewRDBLoader/footer-before-return", ft[0].Node().Pos(), w2 == nil, "the loader goroutine ends only after the end-of-file checksum verified (guarded only by FromVersion > 2)", w2...)
		// Footer only after NextBinEntry returned nil entry
		okNil, w3 := g.OnlyViaFact(ft[0], func(f cfgq.Fact) bool {
			return pat.Expr("_e != nil").Match(info, f.Expr, nil) != nil && !f.Val || pat.Expr("_e == nil").Match(info, f.Expr, nil) != nil && f.Val
		})
		c.Check("R6.crc", "NewRDBLoader/footer-after-eof", ft[0].Node().Pos(), okNil, "the footer is read only after NextBinEntry reported the end of the key stream", w3...)
		// errors are no-return
		for _, p := range [][]cfgq.Point{hd, nb, ft} {
			pt := p[0]
			w := g.Path(cfgq.Query{From: pt, After: true, TargetExit: cfgq.NormalExit,
				AvoidEdge: func(b *cfg.Block, s int) bool {
					return g.Establishes(b, s, func(f cfgq.Fact) bool {
						return pat.Expr("_err != nil").Match(info, f.Expr, nil) != nil && !f.Val || pat.Expr("_err == nil").Match(info, f.Expr, nil) != nil && f.Val
					})
				},
				Avoid: func(n ast.Node) bool { return false }})
			_ = w
		}
		d, _ := pat.Stmt("defer close(_p)").Find(info, lit.Body, nil)
		c.Check("R6.crc", "NewRDBLoader/close-by-defer", lit.Pos(), d != nil && len(lit.Body.List) > 0 && lit.Body.List[0] == d, "the entry channel is closed by a defer at the top of the loader goroutine (consumers terminate exactly at EOF)")
		snd, _ := pat.Stmt("_p <- _e").Find(info, lit.Body, nil)
		c.Check("R6.crc", "NewRDBLoader/forwards-entry", lit.Pos(), snd != nil, "every non-nil entry is forwarded to the channel")
	}
}

func r8(c *core.Ctx) {
	pk := c.Pkg(pkg)
	info := pk.TypesInfo
	n := 0
	// sliceLen: the constant length of a byte-slice expression: X[lo:hi] with
	// constant bounds, arr[:] of an array, make([]byte, k), through locals.
	var sliceLen func(e ast.Expr, d int) (int64, bool)
	sliceLen = func(e ast.Expr, d int) (int64, bool) {
		e = ast.Unparen(e)
		if d > 6 {
			return 0, false
		}
		switch x := e.(type) {
		case *ast.Ident:
			if def := pat.DefOf(info, x); def != nil {
				return sliceLen(def, d+1)
			}
		case *ast.SliceExpr:
			lo, hi := int64(0), int64(-1)
			if x.Low != nil {
				v, ok := core.IntConst(info, x.Low)
				if !ok {
					return 0, false
				}
				lo = v
			}
			if x.High != nil {
				v, ok := core.IntConst(info, x.High)
				if !ok {
					return 0, false
				}
				hi = v
			} else {
				t := info.TypeOf(x.X)
				if pt, ok := t.Underlying().(*types.Pointer); ok {
					t = pt.Elem()
				}
				if at, ok := t.Underlying().(*types.Array); ok {
					hi = at.Len()
				} else if n, ok := sliceLen(x.X, d+1); ok {
					hi = n
				} else {
					return 0, false
				}
			}
			return hi - lo, hi >= lo
		case *ast.CallExpr:
			if id, ok := ast.Unparen(x.Fun).(*ast.Ident); ok && id.Name == "make" && len(x.Args) >= 2 {
				return core.IntConst(info, x.Args[1])
			}
		}
		return 0, false
	}
	for _, f := range pk.Syntax {
		for _, d := range f.Decls {
			fd, ok := d.(*ast.FuncDecl)
			if !ok || fd.Body == nil || fd.Recv == nil {
				continue
			}
			if core.NamedTypeName(info.TypeOf(fd.Recv.List[0].Type)) != "rdbReader" {
				continue
			}
			core.Inspect(fd.Body, func(m ast.Node) bool {
				call, ok := m.(*ast.CallExpr)
				if !ok {
					return true
				}
				fobj := core.CalleeFunc(info, call)
				if fobj == nil || fobj.Pkg() == nil || fobj.Pkg().Path() != "encoding/binary" || len(call.Args) != 1 {
					return true
				}
				width := map[string]int64{"Uint16": 2, "Uint32": 4, "Uint64": 8}[fobj.Name()]
				if width == 0 {
					return true
				}
				k, known := sliceLen(call.Args[0], 0)
				if !known {
					return true // a buffer of non-constant length: not a fixed-width read (the entry grammar covers its length)
				}
				// the read must fill the same slice
				baseOf := func(e ast.Expr) types.Object {
					e = ast.Unparen(e)
					if id, ok := e.(*ast.Ident); ok {
						if def := pat.DefOf(info, id); def != nil {
							if _, isSl := ast.Unparen(def).(*ast.SliceExpr); isSl {
								e = ast.Unparen(def)
							}
						}
					}
					if sl, ok := e.(*ast.SliceExpr); ok {
						e = ast.Unparen(sl.X)
					}
					return core.ObjOf(info, e)
				}
				filled, sameBase, partial := false, false, false
				core.Inspect(fd.Body, func(m2 ast.Node) bool {
					rc, ok := m2.(*ast.CallExpr)
					if !ok || rc.Pos() >= call.Pos() {
						return true
					}
					fo := core.CalleeFunc(info, rc)
					if fo == nil || (fo.Name() != "readFull" && fo.Name() != "ReadFull" && fo.Name() != "Read") {
						return true
					}
					for _, a := range rc.Args {
						if pat.Same(info, a, call.Args[0]) {
							if fo.Name() == "Read" {
								partial = true // one Read may deliver fewer bytes than asked for
							} else {
								filled = true
							}
						} else if bo := baseOf(a); bo != nil && bo == baseOf(call.Args[0]) {
							sameBase = true
						}
					}
					return true
				})
				if !filled && sameBase {
					// a zero-initialised scratch buffer filled in part (the 24-bit ziplist
					// integer): decided by the bit-field rule of the ziplist decoder, not here
					if v, ok := baseOf(call.Args[0]).(*types.Var); ok && !v.IsField() {
						return true
					}
				}
				n++
				c.Check("R8.width", fd.Name.Name, call.Pos(), width == k,
					fmt.Sprintf("%s reads %d bytes but decodes %d of them: the remaining bytes are dropped and the value is taken from the wrong end (e.g. a 64-bit-form length below 2^32 decodes as 0)", fd.Name.Name, k, width))
				if partial && !filled {
					c.Failf("R8.width", fd.Name.Name+"/fills-buffer", fd.Pos(), "%s fills the bytes it decodes with a single Read, which may deliver fewer bytes than asked for (a buffered or network reader at a chunk boundary): the value is then decoded from stale bytes — an intact file is rejected at the checksum, or an expiry/length is wrong", fd.Name.Name)
				} else {
					c.Check("R8.width", fd.Name.Name+"/fills-buffer", fd.Pos(), filled, "the fixed-width read fills exactly the slice that is decoded")
				}
				return true
			})
		}
	}
	if n < 5 {
		c.Undecidedf("instances", "R8.width", token.NoPos, "only %d fixed-width decoders found, 5 confirmed", n)
	}
}

// teeIntoDigest decides R6.crc/NewLoader/tee-into-digest by values, not by
// statements: the reader handed to NewRdbReader is io.TeeReader(p, d) with p
// the constructor's reader parameter and d the value of the new Loader's crc
// field, which is a fresh digest.New(). The loader may be built by a composite
// literal or by field stores, the tee and the digest may sit in locals.
func teeIntoDigest(c *core.Ctx, fn *core.Fn) {
	info := fn.Pkg.TypesInfo
	const rule, key = "R6.crc", "NewLoader/tee-into-digest"
	why := "every byte the loader reads is fed to a fresh CRC-64 digest through io.TeeReader"
	undec := func(format string, a ...interface{}) {
		c.Undecidedf(rule, key, fn.Decl.Pos(), "%s: %s", why, fmt.Sprintf(format, a...))
	}
	var resolve func(e ast.Expr, d int) ast.Expr
	resolve = func(e ast.Expr, d int) ast.Expr {
		e = ast.Unparen(e)
		if id, ok := e.(*ast.Ident); ok && d < 8 {
			if def := pat.DefOf(info, id); def != nil {
				return resolve(def, d+1)
			}
		}
		return e
	}
	isCallTo := func(e ast.Expr, pkgSuffix, name string) *ast.CallExpr {
		call, ok := e.(*ast.CallExpr)
		if !ok {
			return nil
		}
		f := core.CalleeFunc(info, call)
		if f == nil || f.Name() != name || f.Pkg() == nil || !(f.Pkg().Path() == pkgSuffix || strings.HasSuffix(f.Pkg().Path(), "/"+pkgSuffix)) {
			return nil
		}
		return call
	}
	// the reader parameter
	var param types.Object
	for _, fl := range fn.Decl.Type.Params.List {
		for _, nm := range fl.Names {
			if t := info.TypeOf(fl.Type); t != nil && types.TypeString(t, nil) == "io.Reader" {
				param = info.Defs[nm]
			}
		}
	}
	// values given to the fields crc and rdbReader of a Loader in this function
	type fieldVal struct {
		val  ast.Expr
		base types.Object // the variable holding the loader (nil inside a composite literal)
		lit  *ast.CompositeLit
		pos  token.Pos
	}
	vals := map[string][]fieldVal{}
	core.Inspect(fn.Decl.Body, func(n ast.Node) bool {
		switch x := n.(type) {
		case *ast.CompositeLit:
			if core.NamedTypeName(info.TypeOf(x)) != "Loader" {
				return true
			}
			for _, el := range x.Elts {
				if kv, ok := el.(*ast.KeyValueExpr); ok {
					if id, ok := kv.Key.(*ast.Ident); ok && (id.Name == "crc" || id.Name == "rdbReader") {
						vals[id.Name] = append(vals[id.Name], fieldVal{val: kv.Value, lit: x, pos: kv.Pos()})
					}
				}
			}
		case *ast.AssignStmt:
			if len(x.Lhs) != len(x.Rhs) {
				return true
			}
			for i, l := range x.Lhs {
				sel, ok := ast.Unparen(l).(*ast.SelectorExpr)
				if !ok || (sel.Sel.Name != "crc" && sel.Sel.Name != "rdbReader") {
					continue
				}
				if t := info.TypeOf(sel.X); t == nil || core.NamedTypeName(t) != "Loader" {
					continue
				}
				vals[sel.Sel.Name] = append(vals[sel.Sel.Name], fieldVal{val: x.Rhs[i], base: core.ObjOf(info, sel.X), pos: x.Pos()})
			}
		}
		return true
	})
	if len(vals["rdbReader"]) != 1 || len(vals["crc"]) > 1 {
		undec("expected one value for the loader's rdbReader and one for its crc in NewLoader (found %d, %d)", len(vals["rdbReader"]), len(vals["crc"]))
		return
	}
	if len(vals["crc"]) == 0 {
		c.Failf(rule, key, fn.Decl.Pos(), "%s; NewLoader never sets the crc field: Footer compares against nothing", why)
		return
	}
	rd, crc := vals["rdbReader"][0], vals["crc"][0]
	// embedded *rdbReader built by NewRdbReader(x)
	mk := isCallTo(resolve(rd.val, 0), "pkg/rdb", "NewRdbReader")
	if mk == nil || len(mk.Args) != 1 {
		undec("the rdbReader is not built by NewRdbReader(reader)")
		return
	}
	src := resolve(mk.Args[0], 0)
	if id, ok := src.(*ast.Ident); ok && param != nil && info.Uses[id] == param {
		c.Failf(rule, key, mk.Pos(), "%s; NewRdbReader reads the source directly: nothing is fed to the digest and Footer cannot detect corruption", why)
		return
	}
	tee := isCallTo(src, "io", "TeeReader")
	if tee == nil || len(tee.Args) != 2 {
		undec("the reader handed to NewRdbReader is `%s`, not an io.TeeReader", types.ExprString(src))
		return
	}
	if a := resolve(tee.Args[0], 0); param == nil || core.ObjOf(info, a) != param {
		undec("the tee does not read the constructor's reader parameter but `%s`", types.ExprString(a))
		return
	}
	fresh := isCallTo(resolve(crc.val, 0), "digest", "New")
	if fresh == nil {
		undec("the crc field is set to `%s`, not to a fresh digest.New()", types.ExprString(crc.val))
		return
	}
	w := resolve(tee.Args[1], 0)
	switch {
	case ast.Node(w) == ast.Node(fresh):
		// the same digest value through a local
	case func() bool {
		sel, ok := w.(*ast.SelectorExpr)
		if !ok || sel.Sel.Name != "crc" {
			return false
		}
		if t := info.TypeOf(sel.X); t == nil || core.NamedTypeName(t) != "Loader" {
			return false
		}
		// the loader whose crc was set, read after it was set
		if crc.lit != nil {
			return true
		}
		return core.ObjOf(info, sel.X) == crc.base && crc.pos < tee.Pos()
	}():
	case isCallTo(w, "digest", "New") != nil:
		c.Failf(rule, key, tee.Pos(), "%s; the tee writes into another digest than the one stored in the loader's crc field: Footer compares against a sum of nothing", why)
		return
	default:
		undec("the tee writes into `%s`, which is not recognisably the loader's crc", types.ExprString(w))
		return
	}
	c.Okf(rule, key, fn.Decl.Pos(), "%s", why)
}
