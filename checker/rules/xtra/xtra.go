// Package xtra holds rules that were added after independently seeded changes
// were first missed or answered UNDECIDED. Each is a structural necessary
// condition of the property named in its comment; the property packages call
// them from their Run functions.
package xtra

import (
	"fmt"
	"go/ast"
	"go/token"
	"go/types"
	"os"
	"sort"
	"strings"

	"golang.org/x/tools/go/cfg"

	"rscheck/cfgq"
	"rscheck/core"
	"rscheck/flow"
	"rscheck/pat"
	"rscheck/rules/reent"
)

const (
	dbSync = "redis-shake/dbSync"
	common = "redis-shake/common"
	run    = "redis-shake"
)

// Import runs another property's rule set on a private context and copies the
// obligations accepted by keep into c, with the rule name prefixed.
func Import(c *core.Ctx, from string, runFn func(*core.Ctx), keep func(o *core.Obligation) bool) {
	sub := core.NewCtx(c.Program, c.Prop, c.Tier)
	runFn(sub)
	n := 0
	for _, o := range sub.Obs {
		// an obligation the neighbour could not decide stays the neighbour's problem:
		// it must not make this property undecided
		if !keep(o) || o.Status == core.Undecided.String() {
			continue
		}
		n++
		c.AddImported(from, o)
	}
	for f := range sub.Functions {
		c.Functions[f] = true
	}
	if n == 0 {
		c.Note("no obligation of %s could be imported on this tree (its rule set was undecided there)", from)
	}
}

// HasPrefix builds a keep-filter on rule/key prefixes.
func HasPrefix(prefixes ...string) func(o *core.Obligation) bool {
	return func(o *core.Obligation) bool {
		k := o.FullKey()
		for _, p := range prefixes {
			if strings.HasPrefix(k, p) {
				return true
			}
		}
		return false
	}
}

// ---------------------------------------------------------------------------
// C03 / C07 / C16: "fixed target database configured" is `TargetDB != -1`.
// Database 0 is a legal fixed target, so a test like `> 0` silently treats it
// as "not configured".

func TargetDBSentinel(c *core.Ctx, rule string, pkgs ...string) {
	sentinelMinusOne(c, rule, func(info *types.Info, e ast.Expr) bool {
		return pat.Expr("conf.Options.TargetDB").Match(info, e, nil) != nil
	}, "no comparison of conf.Options.TargetDB with a constant found",
		"the sentinel for 'no fixed target database' is -1; this test treats target.db = 0 (a legal fixed target) differently from the other databases, so with target.db = 0 the source's SELECT n is followed and data lands in database n", pkgs...)
}

// SlotBoundarySentinel (C15): "this source is not one shard of a cluster" is
// `SlotLeftBoundary == -1`. Slot 0 is a legal left boundary (the first shard),
// so a test like `> 0` leaves that shard with the default checkpoint key, which
// does not hash into its range.
func SlotBoundarySentinel(c *core.Ctx, rule string, pkgs ...string) {
	sentinelMinusOne(c, rule, func(info *types.Info, e ast.Expr) bool {
		sel, ok := ast.Unparen(e).(*ast.SelectorExpr)
		return ok && sel.Sel.Name == "SlotLeftBoundary" && core.NamedTypeName(info.TypeOf(sel.X)) == "SyncNode"
	}, "no comparison of SyncNode.SlotLeftBoundary with a constant found",
		"the sentinel for 'not a cluster shard' is -1; this test treats the shard whose range starts at slot 0 like a standalone source, so its checkpoint key is not chosen inside its slot range", pkgs...)
}

func sentinelMinusOne(c *core.Ctx, rule string, isSubject func(*types.Info, ast.Expr) bool, none, why string, pkgs ...string) {
	n := 0
	for _, pp := range pkgs {
		pk := c.Pkg(pp)
		if pk == nil {
			continue
		}
		info := pk.TypesInfo
		for _, f := range pk.Syntax {
			if core.IsTestFile(c.Fset, f) {
				continue
			}
			var fname string
			ast.Inspect(f, func(nd ast.Node) bool {
				if fd, ok := nd.(*ast.FuncDecl); ok {
					fname = fd.Name.Name
				}
				be, ok := nd.(*ast.BinaryExpr)
				if !ok {
					return true
				}
				for _, p := range [][2]ast.Expr{{be.X, be.Y}, {be.Y, be.X}} {
					if !isSubject(info, p[0]) {
						continue
					}
					v, isC := core.IntConst(info, p[1])
					if !isC {
						continue
					}
					op := be.Op
					if p[0] == be.Y { // constant on the left: mirror
						op = map[token.Token]token.Token{token.LSS: token.GTR, token.GTR: token.LSS, token.LEQ: token.GEQ, token.GEQ: token.LEQ, token.EQL: token.EQL, token.NEQ: token.NEQ}[op]
					}
					n++
					ok := false
					switch {
					case v == -1 && (op == token.EQL || op == token.NEQ || op == token.GTR || op == token.LEQ):
						ok = true
					case v == 0 && (op == token.GEQ || op == token.LSS):
						ok = true
					}
					c.Check(rule, fmt.Sprintf("%s.%s", strings.TrimPrefix(pp, "redis-shake/"), fname), be.Pos(), ok,
						fmt.Sprintf("`%s`: %s", c.Src(be), why))
				}
				return true
			})
		}
	}
	if n == 0 {
		c.Undecidedf(rule, "sites", token.NoPos, "%s", none)
	}
}

// ---------------------------------------------------------------------------
// C03: every forwarded command reaches the target within bounded time: the
// sender goroutine must not block on anything but the target connection, so a
// channel send on its path must be inside a select with a default arm.

func SenderNeverBlocks(c *core.Ctx, rule string) {
	root := c.Func(dbSync, "DbSyncer", "sendTargetCommand")
	if root == nil {
		return
	}
	fns := reent.Closure(c, []*core.Fn{root})
	n := 0
	for _, fn := range fns {
		if fn.Pkg.PkgPath != core.Module+"/"+dbSync {
			continue
		}
		var stack []ast.Node
		ast.Inspect(fn.Decl.Body, func(nd ast.Node) bool {
			if nd == nil {
				stack = stack[:len(stack)-1]
				return false
			}
			stack = append(stack, nd)
			snd, ok := nd.(*ast.SendStmt)
			if !ok {
				return true
			}
			n++
			nonBlocking := false
			for i := len(stack) - 2; i >= 0; i-- {
				if cc, ok := stack[i].(*ast.CommClause); ok && cc.Comm == ast.Stmt(snd) && i-2 >= 0 {
					if sel, ok := stack[i-2].(*ast.SelectStmt); ok {
						for _, cl := range sel.Body.List {
							if cl.(*ast.CommClause).Comm == nil {
								nonBlocking = true
							}
						}
					}
				}
				if _, isLit := stack[i].(*ast.FuncLit); isLit {
					break
				}
			}
			c.Check(rule, fn.Name()+"/"+c.Src(snd.Chan), snd.Pos(), nonBlocking,
				fmt.Sprintf("`%s` is a blocking channel send on the sender's path: when the channel is full the sender parks for ever, the command queue fills and nothing is forwarded any more (the bounded-delay clause)", c.Src(snd)))
			return true
		})
	}
	c.Okf(rule, "closure", root.Decl.Pos(), "%d functions on the sender's path, %d channel sends examined", len(fns), n)
}

// ---------------------------------------------------------------------------
// C04: the transactional envelope may be omitted only for a batch that holds
// nothing but a PING (or when resume is off).

func EnvelopeOnlyOmittedForLonePing(c *core.Ctx, rule string) {
	fn := c.Func(dbSync, "DbSyncer", "sendTargetCommand")
	if fn == nil {
		return
	}
	info := fn.Pkg.TypesInfo
	found := false
	ast.Inspect(fn.Decl.Body, func(nd ast.Node) bool {
		ifs, ok := nd.(*ast.IfStmt)
		if !ok {
			return true
		}
		// the statement that switches the envelope off: `needBatch = false`
		off, b := pat.Stmt("_nb = false").Find(info, ifs.Body, nil)
		if off == nil || len(ifs.Body.List) != 1 {
			return true
		}
		if _, isBool := info.TypeOf(b["_nb"].(ast.Expr)).Underlying().(*types.Basic); !isBool {
			return true
		}
		// disjuncts of the condition
		var disj []ast.Expr
		var split func(e ast.Expr)
		split = func(e ast.Expr) {
			e = ast.Unparen(e)
			if be, ok := e.(*ast.BinaryExpr); ok && be.Op == token.LOR {
				split(be.X)
				split(be.Y)
				return
			}
			disj = append(disj, e)
		}
		split(ifs.Cond)
		pingSeen := false
		for _, d := range disj {
			n, _ := pat.Expr(`_x.Cmd == "ping"`).Find(info, d, nil)
			if n == nil {
				continue
			}
			pingSeen = true
			found = true
			// the same disjunct must also require a batch of exactly one command
			one := false
			for _, f := range cfgq.Facts(d, true) {
				if !f.Val {
					continue
				}
				if pat.Expr("_cnt == 1").Match(info, f.Expr, nil) != nil || pat.Expr("len(_t) == 1").Match(info, f.Expr, nil) != nil {
					one = true
				}
			}
			c.Check(rule, "sendFunc/only-for-lone-ping", ifs.Pos(), one,
				fmt.Sprintf("the MULTI/EXEC + checkpoint envelope is skipped under `%s`: it may be skipped for a batch whose last command is PING only if that PING is the whole batch; otherwise writes such as [INCR x, PING] are applied without a checkpoint and replayed after a restart", c.Src(d)))
		}
		_ = pingSeen
		return true
	})
	if !found {
		c.Okf(rule, "sendFunc/only-for-lone-ping", fn.Decl.Pos(), "no ping shortcut: every batch is wrapped")
	}
}

// ---------------------------------------------------------------------------
// C07 / C02: a Lua script is loaded with c.Do (command flushed, reply read and
// its error returned); a buffered Send never reaches the target before the
// worker's connection is closed.

func ScriptLoadByDo(c *core.Ctx, rule string) {
	fn := c.Func(common, "", "RestoreRdbEntry")
	if fn == nil {
		return
	}
	info := fn.Pkg.TypesInfo
	var do, send *ast.CallExpr
	ast.Inspect(fn.Decl.Body, func(nd ast.Node) bool {
		call, ok := nd.(*ast.CallExpr)
		if !ok || len(call.Args) < 1 {
			return true
		}
		if s, ok := core.StringConst(info, call.Args[0]); !ok || !strings.EqualFold(s, "script") {
			return true
		}
		if sel, ok := call.Fun.(*ast.SelectorExpr); ok {
			switch sel.Sel.Name {
			case "Do":
				do = call
			case "Send":
				send = call
			}
		}
		return true
	})
	switch {
	case do != nil && send == nil:
		// its error must be returned / tested
		okErr := false
		if as, b := pat.Stmt(`_, _err = _c.Do("script", "load", _v)`).Find(info, fn.Decl.Body, nil); as != nil {
			r, _ := pat.Stmt("return _err").Find(info, fn.Decl.Body, b)
			okErr = r != nil
		}
		if r, _ := pat.Stmt(`return _c.Do("script", "load", _v)`).Find(info, fn.Decl.Body, nil); r != nil {
			okErr = true
		}
		c.Check(rule, "RestoreRdbEntry/script-load", do.Pos(), okErr, "the reply of SCRIPT LOAD is read and its error returned: a script the target rejects must make the run fail")
	case send != nil:
		c.Failf(rule, "RestoreRdbEntry/script-load", send.Pos(), "SCRIPT LOAD is only buffered with Send: nothing flushes it or reads its reply before the worker closes its connection, so Lua scripts (written last in the RDB) never reach the target and a rejected script is not reported")
	default:
		c.Undecidedf(rule, "RestoreRdbEntry/script-load", fn.Decl.Pos(), "no SCRIPT LOAD command found")
	}
}

// ---------------------------------------------------------------------------
// C07: CmdRestore.Main returns only after every input file was processed:
// wg.Add's argument counts the same units for which wg.Done is called.

func RestoreMainWaitGroup(c *core.Ctx, rule string) {
	fn := c.Func(run, "CmdRestore", "Main")
	if fn == nil {
		return
	}
	info := fn.Pkg.TypesInfo
	add, b := pat.Expr("_wg.Add(_n)").Find(info, fn.Decl.Body, nil)
	if add == nil {
		c.Undecidedf(rule, "CmdRestore.Main/add", fn.Decl.Pos(), "no wg.Add found")
		return
	}
	// the units put on the work queue: `for _, x := range <inputs> { ch <- ... }`
	var queued ast.Expr
	ast.Inspect(fn.Decl.Body, func(nd ast.Node) bool {
		rs, ok := nd.(*ast.RangeStmt)
		if !ok {
			return true
		}
		for _, s := range rs.Body.List {
			if _, isSend := s.(*ast.SendStmt); isSend {
				queued = rs.X
			}
		}
		return true
	})
	// Done is called per dequeued unit (inside the receive loop of the worker)
	var done ast.Node
	ast.Inspect(fn.Decl.Body, func(nd ast.Node) bool {
		if call, ok := nd.(*ast.CallExpr); ok && pat.Expr("_wg.Done()").Match(info, call, b) != nil {
			done = call
		}
		return true
	})
	if queued == nil || done == nil {
		c.Undecidedf(rule, "CmdRestore.Main/shape", fn.Decl.Pos(), "work queue or wg.Done not recognised")
		return
	}
	perUnit := false
	for _, p := range core.PathTo(fn.Decl.Body, done) {
		if f, ok := p.(*ast.ForStmt); ok {
			// the loop that receives from the queue
			if n, _ := pat.Expr("<-_ch").Find(info, f.Body, nil); n != nil {
				perUnit = true
			}
		}
		if r, ok := p.(*ast.RangeStmt); ok {
			if _, isChan := info.TypeOf(r.X).Underlying().(*types.Chan); isChan {
				perUnit = true
			}
		}
	}
	if !perUnit {
		c.Undecidedf(rule, "CmdRestore.Main/done-per-unit", done.Pos(), "wg.Done is not inside the per-file receive loop")
		return
	}
	ok := pat.Expr("len(_q)").Match(info, b["_n"].(ast.Expr), pat.Binds{"_q": queued}) != nil
	c.Check(rule, "CmdRestore.Main/add-counts-files", add.Pos(), ok,
		fmt.Sprintf("wg.Done() is called once per input file taken from the queue, so wg.Add must count the files (len(%s)); found wg.Add(%s): with fewer workers than files Main returns (reports 'done') while files are still unrestored", c.Src(queued), c.Src(b["_n"])))
}

// ---------------------------------------------------------------------------
// C08: the ACK goroutine of a connection ends when its ACK cannot be sent: a
// goroutine that keeps ticking on a dead link keeps adding the dead link's byte
// count to the shared offset.

func AckGoroutineStopsOnError(c *core.Ctx, rule string) {
	pk := c.Pkg(dbSync)
	if pk == nil {
		return
	}
	info := pk.TypesInfo
	// bodies of the package: declared functions and their literals
	type body struct {
		name string
		obj  *types.Func
		g    *cfgq.Graph
		blk  *ast.BlockStmt
		res  *types.Tuple
	}
	var bodies []body
	for _, f := range pk.Syntax {
		if core.IsTestFile(c.Fset, f) {
			continue
		}
		for _, d := range f.Decls {
			fd, ok := d.(*ast.FuncDecl)
			if !ok || fd.Body == nil {
				continue
			}
			fo, _ := info.Defs[fd.Name].(*types.Func)
			if fo == nil {
				continue
			}
			fn := c.FnOf(fo)
			if fn == nil {
				continue
			}
			bodies = append(bodies, body{fd.Name.Name, fo, cfgq.Of(c.Program, fn), fd.Body, fo.Type().(*types.Signature).Results()})
			k := 0
			core.InspectAll(fd.Body, func(n ast.Node) bool {
				if lit, ok := n.(*ast.FuncLit); ok {
					k++
					var res *types.Tuple
					if sig, ok := info.TypeOf(lit).(*types.Signature); ok {
						res = sig.Results()
					}
					bodies = append(bodies, body{fmt.Sprintf("%s$lit%d", fd.Name.Name, k), nil, cfgq.OfLit(c.Program, info, lit), lit.Body, res})
				}
				return true
			})
		}
	}
	// ack functions: SendPSyncAck, and package functions that wrap an ack and
	// report its failure through an error or a bool result
	const (
		kindErr  = 1
		kindBool = 2
	)
	ackKind := map[*types.Func]int{}
	isAck := func(call *ast.CallExpr) (int, bool) {
		f := core.CalleeFunc(info, call)
		if f == nil {
			return 0, false
		}
		if core.IsFunc(f, common, "", "SendPSyncAck") {
			return kindErr, true
		}
		k, ok := ackKind[f.Origin()]
		return k, ok
	}
	acksIn := func(nd ast.Node) []*ast.CallExpr {
		var out []*ast.CallExpr
		for _, call := range cfgq.ExecCalls(nd) {
			if _, ok := isAck(call); ok {
				out = append(out, call)
			}
		}
		return out
	}
	total := 0
	reported := map[string]bool{}
	for round := 0; round < 4; round++ {
		changed := false
		for _, bd := range bodies {
			g := bd.g
			n := 0
			wraps, propagates := false, true
			for _, p := range g.Points(func(nd ast.Node) bool { return len(acksIn(nd)) > 0 }) {
				for _, call := range acksIn(p.Node()) {
					n++
					wraps = true
					kind, _ := isAck(call)
					key := fmt.Sprintf("%s/ack#%d", bd.name, n)
					// a plain forwarder: `return ack(...)`
					if ret, ok := p.Node().(*ast.ReturnStmt); ok && len(ret.Results) == 1 && ast.Unparen(ret.Results[0]) == ast.Expr(call) {
						if bd.obj != nil && ackKind[bd.obj] == 0 {
							ackKind[bd.obj] = kind
							changed = true
						}
						continue
					}
					// failure edges of this call
					type edge struct {
						b  *cfg.Block
						si int
					}
					var fails []edge
					for _, b := range g.CFG.Blocks {
						if !b.Live || cfgq.CondOf(b) == nil || !(b == p.B || reachable(g, p, b)) || !containsOrFollows(p, b) {
							continue
						}
						for si := range b.Succs {
							if g.Establishes(b, si, func(f cfgq.Fact) bool {
								e := ast.Unparen(f.Expr)
								switch kind {
								case kindErr:
									return pat.Expr("_err != nil").Match(info, e, nil) != nil && f.Val || pat.Expr("_err == nil").Match(info, e, nil) != nil && !f.Val
								default:
									if e == ast.Expr(call) {
										return !f.Val
									}
									if id, ok := e.(*ast.Ident); ok {
										if d := pat.DefOf(info, id); d != nil && ast.Unparen(d) == ast.Expr(call) {
											return !f.Val
										}
									}
								}
								return false
							}) {
								fails = append(fails, edge{b, si})
							}
						}
					}
					if len(fails) == 0 {
						propagates = false
						if !reported[key+"/error-tested"] {
							reported[key+"/error-tested"] = true
							c.Check(rule, key+"/error-tested", call.Pos(), false, "the failure of the REPLCONF ACK is not tested")
						}
						continue
					}
					for _, fe := range fails {
						from := cfgq.Point{B: fe.b.Succs[fe.si], I: 0}
						again := g.Path(cfgq.Query{From: from, Target: func(nd ast.Node) bool { return len(acksIn(nd)) > 0 }})
						if !reported[key+"/stops-on-error"] || again != nil {
							reported[key+"/stops-on-error"] = true
							c.Check(rule, key+"/stops-on-error", call.Pos(), again == nil,
								"after a failed REPLCONF ACK the goroutine must end: bufio.Writer errors are sticky, so a goroutine that keeps ticking on the dead link keeps adding that link's byte count to ds.sourceOffset and the offsets acknowledged on the new link run ahead of what was received", again...)
						}
						// does the failure reach the caller? every return after the failure edge
						// returns false / a non-nil error
						if bd.res == nil || bd.res.Len() == 0 {
							propagates = false
							continue
						}
						bad := g.Path(cfgq.Query{From: from, Target: func(nd ast.Node) bool {
							ret, ok := nd.(*ast.ReturnStmt)
							if !ok || len(ret.Results) == 0 {
								return ok
							}
							last := ast.Unparen(ret.Results[len(ret.Results)-1])
							if tv, ok := info.Types[last]; ok && tv.Value != nil {
								return tv.Value.String() != "false"
							}
							return core.IsNil(info, last)
						}, TargetExit: func(b *cfg.Block, k cfgq.ExitKind) bool { return k == cfgq.ExitFall }})
						if bad != nil {
							propagates = false
						}
					}
				}
			}
			if round == 0 {
				total += n
			}
			if wraps && propagates && bd.obj != nil && ackKind[bd.obj] == 0 && bd.res != nil && bd.res.Len() > 0 {
				last := bd.res.At(bd.res.Len() - 1).Type()
				switch {
				case cfgq.IsErrorType(last):
					ackKind[bd.obj] = kindErr
					changed = true
				case types.Identical(last.Underlying(), types.Typ[types.Bool]):
					ackKind[bd.obj] = kindBool
					changed = true
				}
			}
		}
		if !changed {
			break
		}
	}
	if total == 0 {
		c.Undecidedf(rule, "pSyncPipeCopy/ack", token.NoPos, "no SendPSyncAck call found in package dbSync")
	}
}

func reachable(g *cfgq.Graph, from cfgq.Point, to *cfg.Block) bool {
	seen := map[*cfg.Block]bool{}
	var dfs func(b *cfg.Block) bool
	dfs = func(b *cfg.Block) bool {
		if b == to {
			return true
		}
		if seen[b] {
			return false
		}
		seen[b] = true
		for _, s := range b.Succs {
			if dfs(s) {
				return true
			}
		}
		return false
	}
	return dfs(from.B)
}

// containsOrFollows: block b is the block of p or is entered directly after it
// (the `if err := f(); err != nil` idiom puts call and test in one block).
func containsOrFollows(p cfgq.Point, b *cfg.Block) bool {
	if p.B == b {
		return true
	}
	for _, s := range p.B.Succs {
		if s == b {
			return true
		}
	}
	return false
}

// ---------------------------------------------------------------------------
// C14: the "unknown run id => no database" gate precedes the clearing call,
// so that the unusable newest checkpoint is cleared as well.

func ClearAfterRunIdGate(c *core.Ctx, rule string) {
	fn := c.Func("redis-shake/checkpoint", "", "LoadCheckpoint")
	if fn == nil {
		return
	}
	info := fn.Pkg.TypesInfo
	g := cfgq.Of(c.Program, fn)
	clr := g.Points(g.HasCall(func(call *ast.CallExpr, callee types.Object) bool {
		f, _ := callee.(*types.Func)
		return f != nil && core.IsFunc(f, "redis-shake/checkpoint", "", "ClearCheckpoint")
	}))
	if len(clr) != 1 {
		c.Undecidedf(rule, "LoadCheckpoint/clear-call", fn.Decl.Pos(), "expected one ClearCheckpoint call, found %d", len(clr))
		return
	}
	var call *ast.CallExpr
	for _, x := range cfgq.ExecCalls(clr[0].Node()) {
		if f := core.CalleeFunc(info, x); f != nil && f.Name() == "ClearCheckpoint" {
			call = x
		}
	}
	if call == nil || len(call.Args) < 3 {
		return
	}
	dbArg := call.Args[2]
	// the gate: the statement that forces the database to -1 for an unknown run id
	// (an if or a switch at the top level of the function)
	var gate ast.Stmt
	for _, st := range fn.Decl.Body.List {
		if n, _ := pat.Stmt("_db = -1").Find(info, st, pat.Binds{"_db": dbArg}); n != nil {
			if _, isAssign := st.(*ast.AssignStmt); !isAssign {
				gate = st
			}
		}
	}
	if gate == nil {
		c.Undecidedf(rule, "LoadCheckpoint/runid-gate", fn.Decl.Pos(), "no top-level statement that forces the database passed to ClearCheckpoint to -1")
		return
	}
	c.Check(rule, "LoadCheckpoint/gate-before-clear", call.Pos(), gate.End() < call.Pos(),
		"ClearCheckpoint must be called after the 'unknown run id forces db -1' gate: otherwise the database holding the unusable newest checkpoint is skipped by the clearing, its stale offset stays the greatest for ever and every restart full-syncs again")
}

// ---------------------------------------------------------------------------
// C14 / C04: the three checkpoint fields are written into one hash, the one
// the loader is called with (ds.checkpointName).

func CheckpointHsetsSameKey(c *core.Ctx, rule string) {
	fn := c.Func(dbSync, "DbSyncer", "sendTargetCommand")
	if fn == nil {
		return
	}
	n := 0
	fe := flow.New(c.Program)
	visit := func(info *types.Info, call *ast.CallExpr) {
		// Send("hset", key, ...) directly or through a forwarding helper that takes
		// the command name as one of its arguments: the key follows the name
		ci := -1
		for i, a := range call.Args {
			if s, ok := core.StringConst(info, a); ok && strings.EqualFold(s, "hset") {
				ci = i
				break
			}
		}
		if ci < 0 || ci+2 >= len(call.Args) {
			return
		}
		if tv, isConv := info.Types[call.Fun]; isConv && tv.IsType() {
			return
		}
		n++
		key := call.Args[ci+1]
		ok2 := pat.Expr("_ds.checkpointName").Match(info, key, nil) != nil
		c.Check(rule, fmt.Sprintf("sendFunc/hset#%d/key", n), call.Pos(), ok2,
			fmt.Sprintf("checkpoint HSET writes into `%s`; all checkpoint fields must go into ds.checkpointName, the hash LoadCheckpoint reads (for a cluster shard it carries a slot suffix): a field written elsewhere is not read back, e.g. the version is read as 0 and the checkpoint refused", c.Src(key)))
	}
	// the sender, its function literals, and the dbSync helpers they call
	seenCall := map[*ast.CallExpr]bool{}
	var roots []*cfgq.Graph
	roots = append(roots, cfgq.Of(c.Program, fn))
	for _, lit := range core.FuncLits(fn.Decl.Body) {
		roots = append(roots, cfgq.OfLit(c.Program, fn.Pkg.TypesInfo, lit))
	}
	for _, g := range roots {
		fe.Walk(g, g.Body, func(s flow.Site, nd ast.Node) {
			if call, ok := nd.(*ast.CallExpr); ok && !seenCall[call] {
				seenCall[call] = true
				visit(s.G.Info, call)
			}
		})
	}
	if n < 3 {
		c.Undecidedf(rule, "sendFunc/hsets", fn.Decl.Pos(), "expected three checkpoint HSETs, found %d", n)
	}
	// and the loader is called with the same name (anywhere in the package: Sync or a helper of it)
	if pk := c.Pkg(dbSync); pk != nil {
		si := pk.TypesInfo
		calls, okL := 0, false
		var pos token.Pos
		for _, f := range pk.Syntax {
			if core.IsTestFile(c.Fset, f) {
				continue
			}
			ast.Inspect(f, func(nd ast.Node) bool {
				if call, ok := nd.(*ast.CallExpr); ok {
					if fo := core.CalleeFunc(si, call); fo != nil && fo.Name() == "LoadCheckpoint" {
						calls++
						pos = call.Pos()
						for _, a := range call.Args {
							if pat.Expr("_ds.checkpointName").Match(si, a, nil) != nil {
								okL = true
							}
						}
					}
				}
				return true
			})
		}
		if calls == 0 {
			c.Undecidedf(rule, "Sync/loads-same-key", token.NoPos, "no call of checkpoint.LoadCheckpoint in package dbSync")
		} else {
			c.Check(rule, "Sync/loads-same-key", pos, okL, "LoadCheckpoint is called with ds.checkpointName, the hash the sender writes")
		}
	}
}

// ---------------------------------------------------------------------------
// C16: the key-file scanner consumes a line only when the page has room for
// it: bufio.Scanner.Scan() must be the last conjunct of the loop condition
// (evaluated only if the earlier ones hold), and every successful Scan is
// followed by storing Text().

func KeyFileScannerLoop(c *core.Ctx, rule string) {
	fn := c.Func("redis-shake/scanner", "KeyFileScanner", "ScanKey")
	if fn == nil {
		return
	}
	info := fn.Pkg.TypesInfo
	isScan := func(e ast.Expr) bool {
		call, ok := ast.Unparen(e).(*ast.CallExpr)
		if !ok {
			return false
		}
		f := core.CalleeFunc(info, call)
		return f != nil && core.IsFunc(f, "bufio", "Scanner", "Scan")
	}
	var loop *ast.ForStmt
	ast.Inspect(fn.Decl.Body, func(nd ast.Node) bool {
		if f, ok := nd.(*ast.ForStmt); ok && f.Cond != nil && loop == nil {
			found := false
			ast.Inspect(f.Cond, func(m ast.Node) bool {
				if e, ok := m.(ast.Expr); ok && isScan(e) {
					found = true
				}
				return true
			})
			if found {
				loop = f
			}
		}
		return true
	})
	if loop == nil {
		// alternative form: the room test is the loop condition and Scan() is tested first
		// thing in the body with a break: `for len(keys) < N { if !s.Scan() { break }; ... }`
		var alt *ast.ForStmt
		ast.Inspect(fn.Decl.Body, func(nd ast.Node) bool {
			f, ok := nd.(*ast.ForStmt)
			if !ok || alt != nil || len(f.Body.List) == 0 {
				return true
			}
			if ifs, ok := f.Body.List[0].(*ast.IfStmt); ok {
				if u, ok := ast.Unparen(ifs.Cond).(*ast.UnaryExpr); ok && u.Op == token.NOT && isScan(u.X) && len(ifs.Body.List) == 1 {
					if br, ok := ifs.Body.List[0].(*ast.BranchStmt); ok && br.Tok == token.BREAK {
						alt = f
					}
				}
			}
			return true
		})
		if alt == nil {
			c.Undecidedf(rule, "ScanKey/loop", fn.Decl.Pos(), "no loop whose condition calls bufio.Scanner.Scan()")
			return
		}
		c.Okf(rule, "ScanKey/scan-evaluated-last", alt.Pos(), "Scan() is called only after the room test of the loop condition held")
		app, _ := pat.Stmt("_keys = append(_keys, _s.Text())").Find(info, alt.Body, nil)
		top := false
		for _, s := range alt.Body.List {
			if ast.Node(s) == app {
				top = true
			}
		}
		c.Check(rule, "ScanKey/every-line-stored", alt.Pos(), app != nil && top, "every line consumed by Scan() is appended to the page unconditionally")
		return
	}
	// conjuncts in evaluation order
	var conj []ast.Expr
	var split func(e ast.Expr)
	split = func(e ast.Expr) {
		e = ast.Unparen(e)
		if be, ok := e.(*ast.BinaryExpr); ok && be.Op == token.LAND {
			split(be.X)
			split(be.Y)
			return
		}
		conj = append(conj, e)
	}
	split(loop.Cond)
	last := len(conj) > 0 && isScan(conj[len(conj)-1])
	for _, e := range conj[:len(conj)-1] {
		if isScan(e) {
			last = false
		}
	}
	c.Check(rule, "ScanKey/scan-evaluated-last", loop.Cond.Pos(), last,
		fmt.Sprintf("in `%s` the Scan() call is followed by another condition: when that one is false the scanner has already consumed a line that is never stored, so every (page+1)-th key of the key file is silently skipped", c.Src(loop.Cond)))
	app, _ := pat.Stmt("_keys = append(_keys, _s.Text())").Find(info, loop.Body, nil)
	topLevel := false
	for _, s := range loop.Body.List {
		if ast.Node(s) == app {
			topLevel = true
		}
	}
	c.Check(rule, "ScanKey/every-line-stored", loop.Pos(), app != nil && topLevel, "every line consumed by Scan() is appended to the page unconditionally")
}

// ---------------------------------------------------------------------------
// C16: every iteration of doFetch's scan loop reaches the EndNode() test (a
// `continue` that bypasses it rescans the database for ever).

func FetchLoopReachesEndNode(c *core.Ctx, rule string) {
	fn := c.Func(run, "dbRumperExecutor", "doFetch")
	if fn == nil {
		return
	}
	info := fn.Pkg.TypesInfo
	g := cfgq.Of(c.Program, fn)
	isCall := func(name string) func(ast.Node) bool {
		return func(nd ast.Node) bool {
			for _, call := range cfgq.ExecCalls(nd) {
				if sel, ok := ast.Unparen(call.Fun).(*ast.SelectorExpr); ok && sel.Sel.Name == name {
					if pat.Expr("_d.scanner."+name+"()").Match(info, call, nil) != nil {
						return true
					}
				}
			}
			return false
		}
	}
	scans := g.Points(isCall("ScanKey"))
	if len(scans) != 1 {
		c.Undecidedf(rule, "doFetch/scan", fn.Decl.Pos(), "expected one scanner.ScanKey() call, found %d", len(scans))
		return
	}
	w := g.Path(cfgq.Query{From: scans[0], After: true, Target: isCall("ScanKey"), Avoid: isCall("EndNode")})
	c.Check(rule, "doFetch/every-iteration-tests-EndNode", scans[0].Node().Pos(), w == nil,
		"a path leads from one ScanKey() to the next without consulting EndNode(): when it is taken on the page that carries the final cursor, the scan restarts from cursor 0 and never terminates (all keys are copied again and again)", w...)
}

// ---------------------------------------------------------------------------
// C20: the replica list of the new topology is a fresh slice; re-slicing the
// copied struct's field aliases the supervisor's own list, which the appends of
// a failed attempt then overwrite.

func isParamOf(fo *types.Func, v *types.Var) bool {
	if fo == nil {
		return false
	}
	sig := fo.Type().(*types.Signature)
	if sig.Recv() == v {
		return true
	}
	for i := 0; i < sig.Params().Len(); i++ {
		if sig.Params().At(i) == v {
			return true
		}
	}
	return false
}

func FreshSlaves(c *core.Ctx, rule string) {
	pk := c.Pkg("redis-shake/dbSync/slotsupervisor")
	if pk == nil {
		return
	}
	info := pk.TypesInfo
	fe := flow.New(c.Program)
	analysed := 0
	msg := "the replica list of the new topology shares its backing array with the supervisor's own s.slot.Slaves (no fresh []string{}/make/nil before this append): the appends of an attempt overwrite the supervisor's list of known nodes and a retry probes the wrong hosts (a node is lost, the master may never be probed)"
	// where does a slice value come from: "fresh", "alias" (the supervisor's list), "?"
	var origin func(s flow.Site, x ast.Expr, chain []*ast.CallExpr) string
	origin = func(s flow.Site, x ast.Expr, chain []*ast.CallExpr) string {
		if len(chain) > 8 {
			return "?"
		}
		res := "fresh"
		merge := func(o string) {
			if o == "alias" || res == "alias" {
				res = "alias"
			} else if o == "?" {
				res = "?"
			}
		}
		for _, cs := range fe.Values(s, x) {
			switch {
			case cs.Unknown != "":
				merge("?")
				continue
			case cs.Zero:
				continue
			}
			v := ast.Unparen(cs.Expr)
			for {
				if sl, ok := v.(*ast.SliceExpr); ok { // a re-slice shares the array
					v = ast.Unparen(sl.X)
					continue
				}
				break
			}
			switch y := v.(type) {
			case *ast.CompositeLit:
			case *ast.Ident:
				if !core.IsNil(info, y) {
					merge("?")
				}
			case *ast.SelectorExpr:
				if pat.Expr("_s.slot.Slaves").Match(info, y, nil) != nil {
					merge("alias")
				} else {
					merge("?")
				}
			case *ast.CallExpr:
				bi, isB := core.Callee(info, y).(*types.Builtin)
				switch {
				case isB && bi.Name() == "make":
				case isB && bi.Name() == "append" && cs.Call != nil && len(cs.Call.Args) > 0 && len(cs.Sites) > 0:
					again := false
					for _, c0 := range chain {
						if c0 == cs.Call {
							again = true
						}
					}
					if !again {
						merge(origin(cs.Sites[0], cs.Call.Args[0], append(chain, cs.Call)))
					}
				default:
					merge("?")
				}
			default:
				merge("?")
			}
		}
		return res
	}
	for _, f := range pk.Syntax {
		if core.IsTestFile(c.Fset, f) {
			continue
		}
		for _, d := range f.Decls {
			fd, ok := d.(*ast.FuncDecl)
			if !ok || fd.Body == nil {
				continue
			}
			fo, _ := info.Defs[fd.Name].(*types.Func)
			fn := c.FnOf(fo)
			if fn == nil {
				continue
			}
			g := cfgq.Of(c.Program, fn)
			// base resolves a pointer alias: `candidate := &topology` makes
			// candidate.Slaves the field of topology
			base := func(x ast.Expr, at cfgq.Point) ast.Expr {
				x = ast.Unparen(x)
				if st, ok := x.(*ast.StarExpr); ok {
					x = ast.Unparen(st.X)
				}
				if _, isId := x.(*ast.Ident); isId {
					r := ast.Unparen(fe.Resolve(flow.Site{G: g, At: at}, x))
					if u, ok := r.(*ast.UnaryExpr); ok && u.Op == token.AND {
						return ast.Unparen(u.X)
					}
				}
				return x
			}
			isSupervisorsOwn := func(x ast.Expr) bool {
				// the field itself, not a local that was copied from it
				sel, ok := ast.Unparen(x).(*ast.SelectorExpr)
				return ok && sel.Sel.Name == "slot" && core.NamedTypeName(info.TypeOf(sel.X)) == "slotSupervisor"
			}
			for _, p := range g.Points(func(n ast.Node) bool { return true }) {
				core.Inspect(p.Node(), func(m ast.Node) bool {
					call, ok := m.(*ast.CallExpr)
					if !ok || len(call.Args) == 0 {
						return true
					}
					if bi, ok := core.Callee(info, call).(*types.Builtin); !ok || bi.Name() != "append" {
						return true
					}
					if t := info.TypeOf(call); t == nil || t.String() != "[]string" {
						return true
					}
					first := ast.Unparen(call.Args[0])
					// append(X.Slaves, ...): X's replica list grows in place. Unless it is a
					// list made for X (a fresh slice stored in X.Slaves on every path to
					// here), it still is the list X was copied with
					if sel, isSel := first.(*ast.SelectorExpr); isSel && sel.Sel.Name == "Slaves" && core.NamedTypeName(info.TypeOf(sel.X)) == "SyncNode" {
						x := base(sel.X, p)
						if isSupervisorsOwn(x) {
							return true // the supervisor's own list is not a new topology
						}
						analysed++
						isFreshReset := func(n ast.Node) bool {
							as, ok := n.(*ast.AssignStmt)
							if !ok || len(as.Lhs) != len(as.Rhs) {
								return false
							}
							pt, okp := g.Find(as)
							if !okp {
								return false
							}
							for i, l := range as.Lhs {
								ls, ok := ast.Unparen(l).(*ast.SelectorExpr)
								if !ok || ls.Sel.Name != "Slaves" || !pat.Same(info, base(ls.X, pt), x) {
									continue
								}
								if origin(flow.Site{G: g, At: pt}, as.Rhs[i], nil) == "fresh" {
									return true
								}
							}
							return false
						}
						okD, w := g.Dominated(p, isFreshReset)
						if !okD {
							// built from scratch: a composite literal that leaves Slaves empty or fresh
							if id, isId := x.(*ast.Ident); isId {
								if d := pat.DefOf(info, id); d != nil {
									if cl, isCl := ast.Unparen(d).(*ast.CompositeLit); isCl {
										fresh := true
										for _, el := range cl.Elts {
											kv, isKV := el.(*ast.KeyValueExpr)
											if !isKV {
												fresh = false
												continue
											}
											if k, isK := kv.Key.(*ast.Ident); isK && k.Name == "Slaves" {
												if pt, okp := g.Find(p.Node()); !okp || origin(flow.Site{G: g, At: pt}, kv.Value, nil) != "fresh" {
													fresh = false
												}
											}
										}
										if fresh {
											okD, w = true, nil
										}
									}
								}
							}
						}
						if !okD {
							// the node is handed in by the caller (receiver or parameter, possibly a
							// field of it): whether its list was made for it is decided where the
							// object is built, not here
							root := x
							for {
								switch y := ast.Unparen(root).(type) {
								case *ast.SelectorExpr:
									root = y.X
									continue
								case *ast.StarExpr:
									root = y.X
									continue
								}
								break
							}
							if id, isId := ast.Unparen(root).(*ast.Ident); isId {
								if v, isVar := core.ObjOf(info, id).(*types.Var); isVar && isParamOf(fo, v) {
									c.Undecidedf(rule, fd.Name.Name+"/fresh-slaves", call.Pos(), "the replica list of a node that %s receives from its caller grows here; whether that list was made fresh for the node is not visible in this function", fd.Name.Name)
									return true
								}
							}
						}
						c.Check(rule, fd.Name.Name+"/fresh-slaves", call.Pos(), okD, msg, w...)
						return true
					}
					// append(local, ...) feeding the new topology's Slaves
					if id, isId := first.(*ast.Ident); isId && fe != nil {
						feeds := false
						core.Inspect(fd.Body, func(k ast.Node) bool {
							if as, ok := k.(*ast.AssignStmt); ok && len(as.Lhs) == 1 && len(as.Rhs) == 1 {
								if sel, ok := ast.Unparen(as.Lhs[0]).(*ast.SelectorExpr); ok && sel.Sel.Name == "Slaves" && pat.Same(info, as.Rhs[0], id) {
									feeds = true
								}
							}
							return true
						})
						if !feeds {
							return true
						}
						analysed++
						switch origin(flow.Site{G: g, At: p}, id, []*ast.CallExpr{call}) {
						case "alias":
							c.Check(rule, fd.Name.Name+"/fresh-slaves", call.Pos(), false, msg)
						case "?":
							c.Undecidedf(rule, fd.Name.Name+"/fresh-slaves", call.Pos(), "cannot tell where the slice `%s` that becomes the new replica list comes from", id.Name)
						default:
							c.Okf(rule, fd.Name.Name+"/fresh-slaves", call.Pos(), "the new replica list starts from a fresh slice")
						}
					}
					return true
				})
			}
		}
	}
	if analysed == 0 {
		c.Undecidedf(rule, "recursiveGetSlotState/appends", token.NoPos, "no append that builds the new topology's replica list was recognised in package slotsupervisor")
	}
}

// ---------------------------------------------------------------------------
// C20: the connection returned by the factory is used (including a deferred
// Close) only after its error was found nil: the default factory returns a nil
// connection with every error.

func ConnUsedOnlyAfterErrCheck(c *core.Ctx, rule string) {
	anchor := c.Func("redis-shake/dbSync/slotsupervisor", "slotSupervisor", "getRedisNodeState")
	if anchor == nil {
		return
	}
	pk := anchor.Pkg
	info := pk.TypesInfo
	// every call of the connection factory (a func-typed field or variable whose
	// results are (redigo.Conn, error)) in the package, wherever a refactoring put it
	type site struct {
		fn   *core.Fn
		as   *ast.AssignStmt
		conn types.Object
		err  types.Object
	}
	var sites []site
	for _, fn := range c.FuncsOf(pk) {
		if fn.Decl == nil || fn.Decl.Body == nil {
			continue
		}
		core.Inspect(fn.Decl.Body, func(n ast.Node) bool {
			as, ok := n.(*ast.AssignStmt)
			if !ok || len(as.Lhs) != 2 || len(as.Rhs) != 1 {
				return true
			}
			call, ok := ast.Unparen(as.Rhs[0]).(*ast.CallExpr)
			if !ok {
				return true
			}
			sel, ok := ast.Unparen(call.Fun).(*ast.SelectorExpr)
			if !ok || sel.Sel.Name != "redisConnFactory" {
				return true
			}
			sites = append(sites, site{fn, as, core.ObjOf(info, as.Lhs[0]), core.ObjOf(info, as.Lhs[1])})
			return true
		})
	}
	if len(sites) == 0 {
		c.Undecidedf(rule, "getRedisNodeState/factory", anchor.Decl.Pos(), "no call of the connection factory found in the package")
		return
	}
	n := 0
	for _, st := range sites {
		if st.conn == nil || st.err == nil {
			c.Undecidedf(rule, "getRedisNodeState/factory", st.as.Pos(), "the factory's results are not both bound to variables")
			continue
		}
		g := cfgq.Of(c.Program, st.fn)
		errNil := func(f cfgq.Fact) bool {
			be, ok := ast.Unparen(f.Expr).(*ast.BinaryExpr)
			if !ok || (be.Op != token.EQL && be.Op != token.NEQ) {
				return false
			}
			for _, pr := range [][2]ast.Expr{{be.X, be.Y}, {be.Y, be.X}} {
				if core.IsNil(info, pr[1]) && core.ObjOf(info, pr[0]) == st.err {
					return (be.Op == token.EQL) == f.Val
				}
			}
			return false
		}
		for _, p := range g.Points(func(nd ast.Node) bool {
			if nd == ast.Node(st.as) {
				return false
			}
			used := false
			ast.Inspect(nd, func(m ast.Node) bool {
				if sel, ok := m.(*ast.SelectorExpr); ok {
					if id, ok := sel.X.(*ast.Ident); ok && core.ObjOf(info, id) == st.conn {
						used = true
					}
				}
				return true
			})
			return used
		}) {
			n++
			ok, w := g.OnlyViaFact(p, errNil)
			c.Check(rule, fmt.Sprintf("getRedisNodeState/conn-use#%d", n), p.Node().Pos(), ok,
				fmt.Sprintf("`%s` uses the connection before the factory's error was found nil: for an unreachable node the factory returns (nil, err) and the call panics, although unreachable nodes must be tolerated and listed as replicas", c.Src(p.Node())), w...)
		}
	}
	if n == 0 {
		c.Undecidedf(rule, "getRedisNodeState/conn-use", anchor.Decl.Pos(), "the connection is never used")
	}
}

// ---------------------------------------------------------------------------
// C13 / C06: the filter verdict tested in an iteration of the parser loop was
// computed in that iteration (a loop-carried `reject` from the previous
// command must not decide the fate of the current one).

func VerdictFresh(c *core.Ctx, rule string) {
	fn := c.Func(dbSync, "DbSyncer", "parseSourceCommand")
	if fn == nil {
		return
	}
	info := fn.Pkg.TypesInfo
	g := cfgq.Of(c.Program, fn)
	as, b := pat.Stmt("_args, _reject = filter.HandleFilterKeyWithCommand(_cmd, _argv)").Find(info, fn.Decl.Body, nil)
	if as == nil {
		c.Undecidedf(rule, "parseSourceCommand/verdict", fn.Decl.Pos(), "call of HandleFilterKeyWithCommand not recognised")
		return
	}
	rej := core.ObjOf(info, b["_reject"].(ast.Expr))
	// start of an iteration: the decode call
	starts := g.Points(g.HasCall(func(call *ast.CallExpr, callee types.Object) bool {
		f, _ := callee.(*types.Func)
		return f != nil && f.Name() == "MustDecodeOpt"
	}))
	if len(starts) != 1 || rej == nil {
		c.Undecidedf(rule, "parseSourceCommand/iteration", fn.Decl.Pos(), "iteration start (MustDecodeOpt) not recognised")
		return
	}
	// the verdict and the locals computed from it (`keep := !reject`), transitively
	derived := map[types.Object]bool{rej: true}
	for changed := true; changed; {
		changed = false
		core.Inspect(fn.Decl.Body, func(nd ast.Node) bool {
			a, ok := nd.(*ast.AssignStmt)
			if !ok || len(a.Lhs) != len(a.Rhs) {
				return true
			}
			for i, l := range a.Lhs {
				id, ok := l.(*ast.Ident)
				if !ok {
					continue
				}
				lo := core.ObjOf(info, id)
				if lo == nil || derived[lo] {
					continue
				}
				for o := range derived {
					if core.Mentions(info, a.Rhs[i], o) {
						if v, isVar := lo.(*types.Var); isVar && !v.IsField() {
							derived[lo] = true
							changed = true
						}
						break
					}
				}
			}
			return true
		})
	}
	assigns := func(o types.Object) func(nd ast.Node) bool {
		return func(nd ast.Node) bool {
			a, ok := nd.(*ast.AssignStmt)
			if !ok {
				return false
			}
			for _, l := range a.Lhs {
				if id, ok := l.(*ast.Ident); ok && core.ObjOf(info, id) == o {
					return true
				}
			}
			return false
		}
	}
	n := 0
	var objs []types.Object
	for o := range derived {
		objs = append(objs, o)
	}
	sort.Slice(objs, func(i, j int) bool { return objs[i].Pos() < objs[j].Pos() })
	for _, o := range objs {
		isAssign := assigns(o)
		for _, p := range g.Points(func(nd ast.Node) bool {
			switch x := nd.(type) {
			case ast.Expr:
				return core.Mentions(info, x, o)
			case *ast.AssignStmt:
				// a local computed from the verdict reads it
				if isAssign(nd) {
					return false
				}
				allBlank := true
				for _, l := range x.Lhs {
					if id, isId := l.(*ast.Ident); !isId || id.Name != "_" {
						allBlank = false
					}
				}
				if allBlank {
					return false // `_ = v` uses nothing
				}
				for _, r := range x.Rhs {
					if core.Mentions(info, r, o) {
						return true
					}
				}
			}
			return false
		}) {
			n++
			tn := p.Node()
			w := g.Path(cfgq.Query{From: starts[0], After: true, Target: func(nd ast.Node) bool { return nd == tn }, Avoid: isAssign})
			c.Check(rule, fmt.Sprintf("parseSourceCommand/verdict-fresh#%d", n), tn.Pos(), w == nil,
				"the key-filter verdict is tested on a path on which it was not computed for the current command: the previous command's verdict decides, so e.g. an EXEC or FLUSHALL that follows a filtered command is dropped", w...)
		}
	}
	if n == 0 {
		c.Undecidedf(rule, "parseSourceCommand/verdict-use", fn.Decl.Pos(), "the verdict is never tested")
	}
	// and the forwarded vector is the returned one on the same paths
	_ = as
}

// ---------------------------------------------------------------------------
// C11: the end-of-file check rejects every mismatch: on every path to a
// successful return the two CRC values were found equal.

func FooterRejectsEveryMismatch(c *core.Ctx, rule string) {
	fn := c.Func("pkg/rdb", "Loader", "Footer")
	if fn == nil {
		return
	}
	info := fn.Pkg.TypesInfo
	e := flow.New(c.Program)
	// fixed-width reads are leaves: what they return is "the stored value"
	e.Opaque = func(f *types.Func) bool {
		return strings.HasPrefix(f.Name(), "readUint") || strings.HasPrefix(f.Name(), "readInt") || f.Name() == "readFull"
	}
	isComputed := func(x ast.Node) bool {
		ex, ok := x.(ast.Expr)
		return ok && pat.Expr("_l.crc.Sum64()").Match(info, ast.Unparen(ex), nil) != nil
	}
	isStored := func(x ast.Node) bool {
		ex, ok := x.(ast.Expr)
		if !ok {
			return false
		}
		call, ok := ast.Unparen(ex).(*ast.CallExpr)
		if !ok {
			return false
		}
		if f := core.CalleeFunc(info, call); f != nil {
			if core.IsFunc(f, "pkg/rdb", "rdbReader", "readUint64") {
				return true
			}
			if f.Pkg() != nil && f.Pkg().Path() == "encoding/binary" && f.Name() == "Uint64" {
				if sel, ok := ast.Unparen(call.Fun).(*ast.SelectorExpr); ok && pat.Expr("binary.LittleEndian").Match(info, sel.X, nil) != nil {
					return true
				}
			}
		}
		return false
	}
	sawCompare := false
	equal := func(f cfgq.Fact) bool {
		p := ast.Unparen(flow.Positive(f))
		if call, ok := p.(*ast.CallExpr); ok && len(call.Args) == 2 {
			// a predicate helper that was not expanded (e.g. bytes-level compare): not decided here
			return false
		}
		be, ok := p.(*ast.BinaryExpr)
		if !ok {
			return false
		}
		pair := isComputed(be.X) && isStored(be.Y) || isComputed(be.Y) && isStored(be.X)
		if pair {
			sawCompare = true
		}
		return pair && be.Op == token.EQL
	}
	nNil := 0
	var bad, undec []string
	for _, cs := range e.Returns(fn, 0) {
		switch {
		case cs.Unknown != "":
			undec = append(undec, cs.Unknown)
			continue
		case cs.Zero:
			// a named error result returned unset is a success too
		case cs.Expr != nil && core.IsNil(info, ast.Unparen(cs.Expr)):
		default:
			continue // an error value
		}
		if e.NilInfeasible(cs) {
			continue // `if err != nil { return err }`: nil does not reach this return
		}
		nNil++
		if !e.AnyUnder(cs.Sites, equal) {
			// not a dominating fact: the verdict may be computed first and tested once
			// (`if a != b { err = … }; if err != nil { return err }; return nil`). Then no
			// feasible path may reach this return without crossing an edge that
			// establishes the equality (path conditions prune the correlated branches)
			var rsite *flow.Site
			for i := range cs.Sites {
				st := &cs.Sites[i]
				if len(st.Up) == 0 && st.G != nil && st.At.Node() != nil {
					if _, isRet := st.At.Node().(*ast.ReturnStmt); isRet {
						rsite = st
					}
				}
			}
			if rsite != nil {
				g0 := rsite.G
				target := rsite.At.Node()
				w := g0.Path(cfgq.Query{From: g0.Entry(),
					Target: func(n ast.Node) bool { return n == target },
					AvoidEdge: func(b *cfg.Block, s int) bool {
						// the operands of the comparison, followed back to what they hold here
						at := flow.Site{G: g0, At: cfgq.Point{B: b, I: len(b.Nodes) - 1}}
						return g0.Establishes(b, s, func(f cfgq.Fact) bool {
							if equal(f) {
								return true
							}
							be, isBin := ast.Unparen(flow.Positive(f)).(*ast.BinaryExpr)
							if !isBin || len(b.Nodes) == 0 {
								return false
							}
							rx, ry := e.Resolve(at, be.X), e.Resolve(at, be.Y)
							return equal(cfgq.Fact{Expr: &ast.BinaryExpr{X: rx, Op: be.Op, OpPos: be.OpPos, Y: ry}, Val: true})
						})
					}})
				if os.Getenv("RS_DEBUG_FOOTER") != "" {
					fmt.Println("footer path:", w, "sawCompare", sawCompare)
				}
				if w == nil && sawCompare {
					continue
				}
			}
			where := "-"

			if len(cs.Sites) > 0 && cs.Sites[0].At.Node() != nil {
				where = c.Pos(cs.Sites[0].At.Node().Pos())
			}
			bad = append(bad, where)
		}
	}
	switch {
	case len(undec) > 0:
		c.Undecidedf(rule, "Footer/success-only-when-equal", fn.Decl.Pos(), "cannot resolve every value Footer returns: %s", strings.Join(undec, "; "))
	case nNil == 0:
		c.Undecidedf(rule, "Footer/values", fn.Decl.Pos(), "Footer never returns nil in a way the rule can follow")
	case len(bad) > 0 && !sawCompare:
		c.Undecidedf(rule, "Footer/success-only-when-equal", fn.Decl.Pos(), "the computed CRC (l.crc.Sum64()) and the stored one (the little-endian uint64 read from the stream) are not compared in Footer or in a helper the rule can follow")
	default:
		c.Check(rule, "Footer/success-only-when-equal", fn.Decl.Pos(), len(bad) == 0,
			"Footer can return success without having found the computed and the stored CRC-64 equal (success returned at "+strings.Join(bad, ", ")+"): an RDB whose data bytes were altered is accepted (e.g. whenever the stored checksum field is zero)")
	}
}

// cmpHelper recognises a call of a same-module function whose body is a single
// `return p0 == p1` or `return p0 != p1` on its two parameters.
func cmpHelper(c *core.Ctx, info *types.Info, call *ast.CallExpr) (token.Token, bool) {
	f := core.CalleeFunc(info, call)
	if f == nil {
		return 0, false
	}
	h := c.FnOf(f)
	if h == nil || h.Decl.Body == nil || len(h.Decl.Body.List) != 1 {
		return 0, false
	}
	ret, ok := h.Decl.Body.List[0].(*ast.ReturnStmt)
	if !ok || len(ret.Results) != 1 {
		return 0, false
	}
	be, ok := ast.Unparen(ret.Results[0]).(*ast.BinaryExpr)
	if !ok || be.Op != token.EQL && be.Op != token.NEQ {
		return 0, false
	}
	var ps []types.Object
	for _, fl := range h.Decl.Type.Params.List {
		for _, n := range fl.Names {
			ps = append(ps, h.Pkg.TypesInfo.Defs[n])
		}
	}
	if len(ps) != 2 {
		return 0, false
	}
	x, y := core.ObjOf(h.Pkg.TypesInfo, be.X), core.ObjOf(h.Pkg.TypesInfo, be.Y)
	if x == ps[0] && y == ps[1] || x == ps[1] && y == ps[0] {
		return be.Op, true
	}
	return 0, false
}

// ---------------------------------------------------------------------------
// C02 / C07 / C16: scores of sorted sets are float64 values and are sent to
// the target as text. strconv.FormatFloat(x, fmt, prec, bitSize) rounds x to
// bitSize bits first: with a float64 argument and bitSize 32 every score that
// needs more than about 7 significant digits is silently changed.

func FormatFloatFullPrecision(c *core.Ctx, rule string, pkgs ...string) {
	n := 0
	for _, pp := range pkgs {
		pk := c.Pkg(pp)
		if pk == nil {
			continue
		}
		info := pk.TypesInfo
		for _, fn := range c.FuncsOf(pk) {
			core.Inspect(fn.Decl.Body, func(m ast.Node) bool {
				call, ok := m.(*ast.CallExpr)
				if !ok || len(call.Args) != 4 {
					return true
				}
				f := core.CalleeFunc(info, call)
				if f == nil || f.Pkg() == nil || f.Pkg().Path() != "strconv" || (f.Name() != "FormatFloat" && f.Name() != "AppendFloat") {
					return true
				}
				arg := call.Args[0]
				if f.Name() == "AppendFloat" {
					return true
				}
				t := info.TypeOf(ast.Unparen(arg))
				// a conversion float64(x) of a float32 value carries only 32 bits
				if conv, isCall := ast.Unparen(arg).(*ast.CallExpr); isCall && len(conv.Args) == 1 {
					if tv, has := info.Types[conv.Fun]; has && tv.IsType() {
						t = info.TypeOf(conv.Args[0])
					}
				}
				b, isBasic := t.Underlying().(*types.Basic)
				if !isBasic || b.Kind() != types.Float64 {
					return true
				}
				n++
				key := fmt.Sprintf("%s/FormatFloat#%d", fn.Obj.Name(), n)
				bits, isC := core.IntConst(info, call.Args[3])
				switch {
				case !isC:
					c.Undecidedf(rule, key, call.Pos(), "the bit size of strconv.FormatFloat is not a constant")
				default:
					c.Check(rule, key, call.Pos(), bits == 64, fmt.Sprintf("`%s` formats a float64 with bitSize %d: the value is rounded to %d bits first, so scores with more than about 7 significant digits reach the target changed", c.Src(call), bits, bits))
				}
				return true
			})
		}
	}
	if n == 0 {
		c.Undecidedf(rule, "FormatFloat/sites", token.NoPos, "no strconv.FormatFloat of a float64 found in %v (the score conversion was confirmed there on the pinned tree)", pkgs)
	}
}
