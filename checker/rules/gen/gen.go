// Package gen holds class-level rules that are not tied to one mechanism of
// one property. They were added after the fifth seeded sample (DESIGN.md
// 8.10), whose reviewers were asked for changes *outside* the anchored
// functions: a receiver turned from pointer to value (the update lands on a
// copy), a decoded value returned as a view into the reader's scratch buffer
// (the next read overwrites it), an inner loop that re-uses the counter of the
// loop around it, an error helper that swallows its argument. Each rule is run
// over the packages a property's mechanism lives in and is a necessary
// condition of every property that relies on the state, value or error
// concerned; each carries an embedded positive control (a tiny program that is
// parsed and type-checked in process on every run and on which the rule must
// fire), because the expected number of findings on the tree is zero.
package gen

import (
	"fmt"
	"go/ast"
	"go/parser"
	"go/token"
	"go/types"
	"sort"
	"strings"

	"golang.org/x/tools/go/packages"

	"rscheck/core"
)

// ---------------------------------------------------------------------------
// helpers

type unit struct {
	fset  *token.FileSet
	info  *types.Info
	files []*ast.File
	path  string
}

func unitOf(c *core.Ctx, pk *packages.Package) *unit {
	return &unit{c.Fset, pk.TypesInfo, pk.Syntax, strings.TrimPrefix(pk.PkgPath, core.Module+"/")}
}

func control(src string) (*unit, error) {
	fset := token.NewFileSet()
	f, err := parser.ParseFile(fset, "control.go", src, 0)
	if err != nil {
		return nil, err
	}
	info := &types.Info{Types: map[ast.Expr]types.TypeAndValue{}, Defs: map[*ast.Ident]types.Object{}, Uses: map[*ast.Ident]types.Object{}, Selections: map[*ast.SelectorExpr]*types.Selection{}}
	conf := types.Config{}
	if _, err := conf.Check("control", fset, []*ast.File{f}, info); err != nil {
		return nil, err
	}
	return &unit{fset, info, []*ast.File{f}, "control"}, nil
}

type finding struct {
	key    string
	pos    token.Pos
	detail string
}

func pkgsOf(c *core.Ctx, rule string, paths []string) []*packages.Package {
	var out []*packages.Package
	for _, p := range paths {
		pk := c.Pkg(p)
		if pk == nil || pk.TypesInfo == nil {
			c.Undecidedf(rule, "package/"+p, token.NoPos, "package %s not loaded", p)
			continue
		}
		out = append(out, pk)
	}
	return out
}

func recvVar(info *types.Info, fd *ast.FuncDecl) *types.Var {
	if fd.Recv == nil || len(fd.Recv.List) != 1 || len(fd.Recv.List[0].Names) != 1 {
		return nil
	}
	v, _ := info.Defs[fd.Recv.List[0].Names[0]].(*types.Var)
	return v
}

func funcKey(fd *ast.FuncDecl, info *types.Info) string {
	if fo, ok := info.Defs[fd.Name].(*types.Func); ok {
		s := core.FuncName(fo)
		return s
	}
	return fd.Name.Name
}

// purePath reports whether e is the receiver variable rv followed only by
// selections of fields that are embedded in the receiver's own storage (no
// pointer hop, no slice or map element): a write to such a path changes the
// variable rv itself and nothing else.
func purePath(info *types.Info, e ast.Expr, rv *types.Var) (fields []string, ok bool) {
	switch x := ast.Unparen(e).(type) {
	case *ast.Ident:
		if info.Uses[x] == rv {
			return nil, true
		}
	case *ast.SelectorExpr:
		sel := info.Selections[x]
		if sel == nil || sel.Kind() != types.FieldVal || sel.Indirect() {
			return nil, false
		}
		if t := info.TypeOf(x.X); t != nil {
			if _, isPtr := t.Underlying().(*types.Pointer); isPtr {
				return nil, false
			}
		}
		f, ok := purePath(info, x.X, rv)
		if !ok {
			return nil, false
		}
		return append(f, x.Sel.Name), true
	case *ast.IndexExpr:
		if t := info.TypeOf(x.X); t != nil {
			if _, isArr := t.Underlying().(*types.Array); isArr {
				return purePath(info, x.X, rv)
			}
		}
	}
	return nil, false
}

// ---------------------------------------------------------------------------
// G1: a method with a value receiver must not update its receiver's state
// unless the updated copy leaves the method.

const lostCtl = `package control
type T struct{ n int; p *int }
func (t *T) bump() { t.n++ }
func (t T) lostAssign() { t.n = 1 }
func (t T) lostViaMethod() int { t.bump(); return 0 }
func (t T) lostAddr(f func(*int)) int { f(&t.n); return t.n }
func (t T) with(n int) T { t.n = n; return t }
func (t T) through() { *t.p = 1 }
func (t T) scratch() int { t.n = 7; return t.n * 2 }
`

// LostUpdate examines every method with a by-value receiver of a struct type
// in the given packages.
func LostUpdate(c *core.Ctx, rule string, pkgPaths ...string) {
	ctl, err := control(lostCtl)
	if err != nil {
		c.Undecidedf(rule, "control", token.NoPos, "positive control does not type-check: %v", err)
		return
	}
	got := map[string]bool{}
	_, fs := lostUpdate(ctl)
	for _, f := range fs {
		got[f.key] = true
	}
	want := []string{"(control.T).lostAssign/n", "(control.T).lostViaMethod/bump", "(control.T).lostAddr/n"}
	for _, w := range want {
		if !got[w] {
			c.Undecidedf(rule, "control", token.NoPos, "positive control: the rule does not fire on %s (fired on %v)", w, keysOf(got))
			return
		}
	}
	if len(got) != len(want) {
		c.Undecidedf(rule, "control", token.NoPos, "positive control: the rule fires on accepted idioms: %v", keysOf(got))
		return
	}
	c.Okf(rule, "control", token.NoPos, "positive control: fires on a lost assignment, a lost update through a pointer-receiver method and a lost update through &field; silent on a with-er, on a write through a pointer field and on a field of the copy used as the method's own scratch")
	for _, pk := range pkgsOf(c, rule, pkgPaths) {
		u := unitOf(c, pk)
		n, fs := lostUpdate(u)
		for _, f := range fs {
			c.Failf(rule, f.key, f.pos, "%s", f.detail)
		}
		if len(fs) == 0 {
			c.Okf(rule, "package/"+u.path, token.NoPos, "%d methods with a by-value receiver examined: none updates state of its receiver copy that is then dropped", n)
		}
	}
}

func keysOf(m map[string]bool) []string {
	var ks []string
	for k := range m {
		ks = append(ks, k)
	}
	sort.Strings(ks)
	return ks
}

// fieldWriters returns the pointer-receiver methods that write a field of
// their receiver directly (pure path through the pointer) or through another
// such method of the same receiver (fixpoint).
func fieldWriters(u *unit) map[*types.Func]string {
	type m struct {
		fd *ast.FuncDecl
		rv *types.Var
		fo *types.Func
	}
	var ms []m
	for _, f := range u.files {
		for _, d := range f.Decls {
			fd, ok := d.(*ast.FuncDecl)
			if !ok || fd.Body == nil {
				continue
			}
			rv := recvVar(u.info, fd)
			if rv == nil {
				continue
			}
			if _, isPtr := rv.Type().Underlying().(*types.Pointer); !isPtr {
				continue
			}
			fo, _ := u.info.Defs[fd.Name].(*types.Func)
			if fo != nil {
				ms = append(ms, m{fd, rv, fo})
			}
		}
	}
	w := map[*types.Func]string{}
	ptrPath := func(e ast.Expr, rv *types.Var) (string, bool) {
		// rv.f (implicit deref of the receiver pointer), then pure fields
		var names []string
		for {
			switch x := ast.Unparen(e).(type) {
			case *ast.SelectorExpr:
				sel := u.info.Selections[x]
				if sel == nil || sel.Kind() != types.FieldVal {
					return "", false
				}
				names = append(names, x.Sel.Name)
				if id, ok := ast.Unparen(x.X).(*ast.Ident); ok && u.info.Uses[id] == rv {
					return names[len(names)-1], true
				}
				if t := u.info.TypeOf(x.X); t != nil {
					if _, isPtr := t.Underlying().(*types.Pointer); isPtr {
						return "", false
					}
				}
				e = x.X
			case *ast.IndexExpr:
				if t := u.info.TypeOf(x.X); t != nil {
					if _, isArr := t.Underlying().(*types.Array); isArr {
						e = x.X
						continue
					}
				}
				return "", false
			default:
				return "", false
			}
		}
	}
	for changed := true; changed; {
		changed = false
		for _, mm := range ms {
			if _, done := w[mm.fo]; done {
				continue
			}
			ast.Inspect(mm.fd.Body, func(n ast.Node) bool {
				if _, done := w[mm.fo]; done {
					return false
				}
				switch x := n.(type) {
				case *ast.AssignStmt:
					for _, l := range x.Lhs {
						if f, ok := ptrPath(l, mm.rv); ok {
							w[mm.fo] = f
						}
					}
				case *ast.IncDecStmt:
					if f, ok := ptrPath(x.X, mm.rv); ok {
						w[mm.fo] = f
					}
				case *ast.UnaryExpr:
					if x.Op == token.AND {
						if f, ok := ptrPath(x.X, mm.rv); ok {
							w[mm.fo] = f
						}
					}
				case *ast.CallExpr:
					if sel, ok := ast.Unparen(x.Fun).(*ast.SelectorExpr); ok {
						if id, ok := ast.Unparen(sel.X).(*ast.Ident); ok && u.info.Uses[id] == mm.rv {
							if callee, ok := u.info.Uses[sel.Sel].(*types.Func); ok {
								if f, isW := w[callee]; isW {
									w[mm.fo] = f
								}
							}
						}
					}
				}
				return true
			})
			if _, done := w[mm.fo]; done {
				changed = true
			}
		}
	}
	return w
}

func lostUpdate(u *unit) (int, []finding) {
	writers := fieldWriters(u)
	var out []finding
	n := 0
	for _, f := range u.files {
		for _, d := range f.Decls {
			fd, ok := d.(*ast.FuncDecl)
			if !ok || fd.Body == nil {
				continue
			}
			rv := recvVar(u.info, fd)
			if rv == nil {
				continue
			}
			if _, isStruct := rv.Type().Underlying().(*types.Struct); !isStruct {
				continue
			}
			n++
			type write struct {
				pos   token.Pos
				end   token.Pos
				what  string
				how   string
				plain bool // x.f = v (not a read-modify-write): the copy may serve as the method's scratch
			}
			var writes []write
			ast.Inspect(fd.Body, func(nd ast.Node) bool {
				switch x := nd.(type) {
				case *ast.AssignStmt:
					for _, l := range x.Lhs {
						if fs, ok := purePath(u.info, l, rv); ok && len(fs) > 0 {
							writes = append(writes, write{x.Pos(), x.End(), fs[len(fs)-1], "assigns field " + strings.Join(fs, "."), x.Tok == token.ASSIGN})
						}
					}
				case *ast.IncDecStmt:
					if fs, ok := purePath(u.info, x.X, rv); ok && len(fs) > 0 {
						writes = append(writes, write{x.Pos(), x.End(), fs[len(fs)-1], "modifies field " + strings.Join(fs, "."), false})
					}
				case *ast.UnaryExpr:
					if x.Op == token.AND {
						if fs, ok := purePath(u.info, x.X, rv); ok && len(fs) > 0 {
							writes = append(writes, write{x.Pos(), x.End(), fs[len(fs)-1], "hands out the address of field " + strings.Join(fs, ".") + " (the callee stores through it)", false})
						}
					}
				case *ast.CallExpr:
					if sel, ok := ast.Unparen(x.Fun).(*ast.SelectorExpr); ok {
						if id, ok := ast.Unparen(sel.X).(*ast.Ident); ok && u.info.Uses[id] == rv {
							if callee, ok := u.info.Uses[sel.Sel].(*types.Func); ok {
								if fld, isW := writers[callee]; isW {
									writes = append(writes, write{x.Pos(), x.End(), callee.Name(), "calls the pointer-receiver method " + callee.Name() + ", which updates field " + fld, false})
								}
							}
						}
					}
				}
				return true
			})
			if len(writes) == 0 {
				continue
			}
			// does the whole receiver value leave the method (or get used as a whole) after a write?
			var wholeUses []token.Pos
			var stack []ast.Node
			ast.Inspect(fd.Body, func(nd ast.Node) bool {
				if nd == nil {
					stack = stack[:len(stack)-1]
					return false
				}
				stack = append(stack, nd)
				id, ok := nd.(*ast.Ident)
				if !ok || u.info.Uses[id] != rv {
					return true
				}
				if len(stack) >= 2 {
					if sel, ok := stack[len(stack)-2].(*ast.SelectorExpr); ok && sel.X == ast.Expr(id) {
						// rv.f or rv.m(): a method call with a VALUE receiver passes the whole copy on
						if s := u.info.Selections[sel]; s != nil && s.Kind() == types.MethodVal {
							if callee, ok := s.Obj().(*types.Func); ok {
								if sig, ok := callee.Type().(*types.Signature); ok && sig.Recv() != nil {
									if _, isPtr := sig.Recv().Type().Underlying().(*types.Pointer); !isPtr {
										wholeUses = append(wholeUses, id.Pos())
									} else if _, isW := writers[callee]; !isW {
										// a pointer method that does not write: it may read or publish the copy
										wholeUses = append(wholeUses, id.Pos())
									}
								}
							}
						}
						return true
					}
				}
				wholeUses = append(wholeUses, id.Pos())
				return true
			})
			// later reads of a field of the copy (by last field name)
			fieldReads := map[string][]token.Pos{}
			ast.Inspect(fd.Body, func(nd ast.Node) bool {
				if sel, ok := nd.(*ast.SelectorExpr); ok {
					if fs, ok := purePath(u.info, sel, rv); ok && len(fs) > 0 {
						fieldReads[fs[len(fs)-1]] = append(fieldReads[fs[len(fs)-1]], sel.Pos())
					}
				}
				return true
			})
			// loops: a use anywhere inside a loop that contains the write counts as "after"
			loopOf := func(pos token.Pos) (token.Pos, token.Pos) {
				var lo, hi token.Pos
				ast.Inspect(fd.Body, func(nd ast.Node) bool {
					switch nd.(type) {
					case *ast.ForStmt, *ast.RangeStmt:
						if nd.Pos() <= pos && pos < nd.End() && lo == token.NoPos {
							lo, hi = nd.Pos(), nd.End()
						}
					}
					return true
				})
				return lo, hi
			}
			seen := map[string]bool{}
			for _, w := range writes {
				kept := false
				lo, hi := loopOf(w.pos)
				for _, p := range wholeUses {
					if p >= w.end || (lo != token.NoPos && p >= lo && p < hi && (p < w.pos || p >= w.end)) {
						kept = true
					}
				}
				if w.plain {
					// the masking idiom: a field of the copy is overwritten and then read in the same method
					for _, p := range fieldReads[w.what] {
						if p >= w.end {
							kept = true
						}
					}
				}
				if kept {
					continue
				}
				key := funcKey(fd, u.info) + "/" + w.what
				if seen[key] {
					continue
				}
				seen[key] = true
				out = append(out, finding{key, w.pos, fmt.Sprintf("%s has a by-value receiver and %s: the update is made on a copy that is dropped when the method returns, so the caller's object (and every later call) never sees it", funcKey(fd, u.info), w.how)})
			}
		}
	}
	return n, out
}

// ---------------------------------------------------------------------------
// G2: a value handed out by a reader must not be a view into the scratch
// buffer the reader fills again on its next read.

const scratchCtl = `package control
type R struct{ buf [8]byte; tmp []byte; data []byte; i int }
func fill(b []byte) {}
func appendInt(dst []byte, v int) []byte { return append(dst, byte(v)) }
func (r *R) readN() int { b := r.buf[:4]; fill(b); return int(b[0]) }
func (r *R) readT() { copy(r.tmp, r.data[r.i:]) }
func (r *R) leakDirect() []byte { b := r.buf[:2]; fill(b); return b }
func (r *R) leakAppend(v int) []byte { return appendInt(r.buf[:0], v) }
func (r *R) leakTmp() []byte { x := append(r.tmp[:0], 1); return x }
func (r *R) view() []byte { return r.data[r.i:] }
func (r *R) fresh(v int) []byte { return appendInt(nil, v) }
`

// ScratchAlias examines the methods of every struct type of the given
// packages that has a byte-array or byte-slice field used as a read/format
// destination by one of its methods.
func ScratchAlias(c *core.Ctx, rule string, pkgPaths ...string) {
	ctl, err := control(scratchCtl)
	if err != nil {
		c.Undecidedf(rule, "control", token.NoPos, "positive control does not type-check: %v", err)
		return
	}
	got := map[string]bool{}
	_, _, fs := scratchAlias(ctl)
	for _, f := range fs {
		got[f.key] = true
	}
	want := []string{"(*control.R).leakDirect/buf", "(*control.R).leakAppend/buf", "(*control.R).leakTmp/tmp"}
	for _, w := range want {
		if !got[w] {
			c.Undecidedf(rule, "control", token.NoPos, "positive control: the rule does not fire on %s (fired on %v)", w, keysOf(got))
			return
		}
	}
	if len(got) != len(want) {
		c.Undecidedf(rule, "control", token.NoPos, "positive control: the rule fires on accepted idioms: %v", keysOf(got))
		return
	}
	c.Okf(rule, "control", token.NoPos, "positive control: fires on a returned slice of the scratch array, on Append*(scratch[:0], ...) and on a local alias; silent on decoding out of the scratch, on a view into read-only data and on a fresh allocation")
	for _, pk := range pkgsOf(c, rule, pkgPaths) {
		u := unitOf(c, pk)
		nScratch, nMeth, fs := scratchAlias(u)
		for _, f := range fs {
			c.Failf(rule, f.key, f.pos, "%s", f.detail)
		}
		if len(fs) == 0 {
			c.Okf(rule, "package/"+u.path, token.NoPos, "%d scratch buffer fields, %d methods of their types examined: no result is a view into a scratch buffer", nScratch, nMeth)
		}
	}
}

func isByteSeq(t types.Type) bool {
	switch x := t.Underlying().(type) {
	case *types.Slice:
		b, ok := x.Elem().Underlying().(*types.Basic)
		return ok && b.Kind() == types.Byte
	case *types.Array:
		b, ok := x.Elem().Underlying().(*types.Basic)
		return ok && b.Kind() == types.Byte
	}
	return false
}

// destArg: is argument i of call a destination the callee writes into?
func destArg(info *types.Info, call *ast.CallExpr, i int) bool {
	callee := core.Callee(info, call)
	switch f := callee.(type) {
	case *types.Builtin:
		return (f.Name() == "copy" || f.Name() == "append") && i == 0
	case *types.Func:
		name := f.Name()
		lower := strings.ToLower(name)
		if f.Pkg() != nil && f.Pkg().Path() == "io" && (name == "ReadFull" || name == "ReadAtLeast") {
			return i == 1
		}
		if strings.HasPrefix(lower, "read") || strings.HasPrefix(lower, "fill") || strings.HasPrefix(name, "Put") || strings.HasPrefix(lower, "append") {
			return true
		}
	}
	return false
}

// appendLike: the result of the call may share storage with argument 0.
func appendLike(info *types.Info, call *ast.CallExpr) bool {
	switch f := core.Callee(info, call).(type) {
	case *types.Builtin:
		return f.Name() == "append"
	case *types.Func:
		if !strings.HasPrefix(strings.ToLower(f.Name()), "append") && !strings.HasPrefix(f.Name(), "Trim") {
			return false
		}
		sig, ok := f.Type().(*types.Signature)
		if !ok || sig.Results().Len() != 1 || sig.Params().Len() == 0 {
			return false
		}
		_, r := sig.Results().At(0).Type().Underlying().(*types.Slice)
		_, p := sig.Params().At(0).Type().Underlying().(*types.Slice)
		return r && p
	}
	return false
}

func scratchAlias(u *unit) (int, int, []finding) {
	// receiver field (by object) reached through the receiver variable
	type meth struct {
		fd *ast.FuncDecl
		rv *types.Var
	}
	var ms []meth
	for _, f := range u.files {
		for _, d := range f.Decls {
			if fd, ok := d.(*ast.FuncDecl); ok && fd.Body != nil {
				if rv := recvVar(u.info, fd); rv != nil {
					ms = append(ms, meth{fd, rv})
				}
			}
		}
	}
	fieldOf := func(e ast.Expr, rv *types.Var) *types.Var {
		sel, ok := ast.Unparen(e).(*ast.SelectorExpr)
		if !ok {
			return nil
		}
		id, ok := ast.Unparen(sel.X).(*ast.Ident)
		if !ok || u.info.Uses[id] != rv {
			return nil
		}
		s := u.info.Selections[sel]
		if s == nil || s.Kind() != types.FieldVal {
			return nil
		}
		fv, _ := s.Obj().(*types.Var)
		if fv == nil || !isByteSeq(fv.Type()) {
			return nil
		}
		return fv
	}
	// aliasOf: which byte field does e share storage with (through slicing, local aliases, append-likes)?
	var aliasOf func(e ast.Expr, rv *types.Var, locals map[types.Object]*types.Var, depth int) *types.Var
	aliasOf = func(e ast.Expr, rv *types.Var, locals map[types.Object]*types.Var, depth int) *types.Var {
		if depth > 6 {
			return nil
		}
		switch x := ast.Unparen(e).(type) {
		case *ast.SelectorExpr:
			if fv := fieldOf(x, rv); fv != nil {
				if _, isSlice := fv.Type().Underlying().(*types.Slice); isSlice {
					return fv
				}
			}
		case *ast.SliceExpr:
			if fv := fieldOf(x.X, rv); fv != nil {
				return fv
			}
			return aliasOf(x.X, rv, locals, depth+1)
		case *ast.Ident:
			if o := u.info.Uses[x]; o != nil {
				return locals[o]
			}
		case *ast.CallExpr:
			if appendLike(u.info, x) && len(x.Args) > 0 {
				return aliasOf(x.Args[0], rv, locals, depth+1)
			}
		}
		return nil
	}
	localsOf := func(m meth) map[types.Object]*types.Var {
		locals := map[types.Object]*types.Var{}
		for round := 0; round < 3; round++ {
			ast.Inspect(m.fd.Body, func(n ast.Node) bool {
				as, ok := n.(*ast.AssignStmt)
				if !ok || len(as.Lhs) != len(as.Rhs) {
					return true
				}
				for i, l := range as.Lhs {
					id, ok := l.(*ast.Ident)
					if !ok {
						continue
					}
					o := u.info.Defs[id]
					if o == nil {
						o = u.info.Uses[id]
					}
					if o == nil {
						continue
					}
					if fv := aliasOf(as.Rhs[i], m.rv, locals, 0); fv != nil {
						locals[o] = fv
					}
				}
				return true
			})
		}
		return locals
	}
	// 1. scratch fields: used as a destination somewhere
	scratch := map[*types.Var]bool{}
	for _, m := range ms {
		locals := localsOf(m)
		ast.Inspect(m.fd.Body, func(n ast.Node) bool {
			call, ok := n.(*ast.CallExpr)
			if !ok {
				return true
			}
			for i, a := range call.Args {
				if !destArg(u.info, call, i) {
					continue
				}
				if fv := aliasOf(a, m.rv, locals, 0); fv != nil {
					scratch[fv] = true
				} else if fv := fieldOf(a, m.rv); fv != nil {
					scratch[fv] = true
				}
			}
			return true
		})
	}
	var out []finding
	nMeth := 0
	for _, m := range ms {
		// only methods of types owning a scratch field
		owns := false
		for fv := range scratch {
			if st, ok := derefStruct(m.rv.Type()); ok {
				for i := 0; i < st.NumFields(); i++ {
					if st.Field(i) == fv {
						owns = true
					}
				}
			}
		}
		if !owns {
			continue
		}
		nMeth++
		locals := localsOf(m)
		seen := map[string]bool{}
		ast.Inspect(m.fd.Body, func(n ast.Node) bool {
			if _, isLit := n.(*ast.FuncLit); isLit {
				return false
			}
			ret, ok := n.(*ast.ReturnStmt)
			if !ok {
				return true
			}
			for _, r := range ret.Results {
				var exprs []ast.Expr
				exprs = append(exprs, r)
				if cl, ok := ast.Unparen(r).(*ast.CompositeLit); ok {
					for _, el := range cl.Elts {
						if kv, ok := el.(*ast.KeyValueExpr); ok {
							exprs = append(exprs, kv.Value)
						} else {
							exprs = append(exprs, el)
						}
					}
				}
				for _, e := range exprs {
					t := u.info.TypeOf(e)
					if t == nil {
						continue
					}
					if _, isSlice := t.Underlying().(*types.Slice); !isSlice {
						continue
					}
					fv := aliasOf(e, m.rv, locals, 0)
					if fv == nil || !scratch[fv] {
						continue
					}
					key := funcKey(m.fd, u.info) + "/" + fv.Name()
					if seen[key] {
						continue
					}
					seen[key] = true
					out = append(out, finding{key, e.Pos(), fmt.Sprintf("%s returns a slice that shares storage with the scratch buffer %s, which the same object fills again on its next read: a value the caller still holds (a key, a field, a member queued for a worker) is overwritten by the bytes read after it", funcKey(m.fd, u.info), fv.Name())})
				}
			}
			return true
		})
	}
	return len(scratch), nMeth, out
}

func derefStruct(t types.Type) (*types.Struct, bool) {
	if p, ok := t.Underlying().(*types.Pointer); ok {
		t = p.Elem()
	}
	st, ok := t.Underlying().(*types.Struct)
	return st, ok
}

// ---------------------------------------------------------------------------
// G3: a nested loop must not re-initialise the induction variable of a loop
// around it.

const clobberCtl = `package control
func bad(n, m int) int {
	s := 0
	for i := 0; i < n; i++ {
		for i = 0; i < m; i++ { s++ }
	}
	return s
}
func good(n, m int) int {
	s := 0
	for i := 0; i < n; i++ {
		for i := 0; i < m; i++ { s++ }
		for j := 0; j < m; j++ { s++ }
	}
	return s
}
`

// LoopCounterClobber examines every counting loop of the given packages.
func LoopCounterClobber(c *core.Ctx, rule string, pkgPaths ...string) {
	ctl, err := control(clobberCtl)
	if err != nil {
		c.Undecidedf(rule, "control", token.NoPos, "positive control does not type-check: %v", err)
		return
	}
	_, fs := loopClobber(ctl)
	if len(fs) != 1 || fs[0].key != "control.bad/i" {
		c.Undecidedf(rule, "control", token.NoPos, "positive control: expected exactly control.bad/i, got %d findings", len(fs))
		return
	}
	c.Okf(rule, "control", token.NoPos, "positive control: fires on `for i = 0` nested in `for i := 0`, silent on a shadowing `for i := 0`")
	for _, pk := range pkgsOf(c, rule, pkgPaths) {
		u := unitOf(c, pk)
		n, fs := loopClobber(u)
		for _, f := range fs {
			c.Failf(rule, f.key, f.pos, "%s", f.detail)
		}
		if len(fs) == 0 {
			c.Okf(rule, "package/"+u.path, token.NoPos, "%d counting loops examined: no nested loop re-initialises the counter of an enclosing loop", n)
		}
	}
}

func inductionVar(info *types.Info, fs *ast.ForStmt) types.Object {
	if fs.Post == nil {
		return nil
	}
	var x ast.Expr
	switch p := fs.Post.(type) {
	case *ast.IncDecStmt:
		x = p.X
	case *ast.AssignStmt:
		if len(p.Lhs) == 1 {
			x = p.Lhs[0]
		}
	}
	id, ok := x.(*ast.Ident)
	if !ok {
		return nil
	}
	if o := info.Uses[id]; o != nil {
		return o
	}
	return info.Defs[id]
}

func loopClobber(u *unit) (int, []finding) {
	var out []finding
	n := 0
	for _, f := range u.files {
		for _, d := range f.Decls {
			fd, ok := d.(*ast.FuncDecl)
			if !ok || fd.Body == nil {
				continue
			}
			var visit func(nd ast.Node, outer []types.Object)
			visit = func(nd ast.Node, outer []types.Object) {
				ast.Inspect(nd, func(x ast.Node) bool {
					if x == nd {
						return true
					}
					switch l := x.(type) {
					case *ast.ForStmt:
						n++
						iv := inductionVar(u.info, l)
						// does the init (or a range with =) assign an outer induction variable?
						if as, ok := l.Init.(*ast.AssignStmt); ok && as.Tok == token.ASSIGN {
							for _, lh := range as.Lhs {
								if id, ok := lh.(*ast.Ident); ok {
									for _, o := range outer {
										if u.info.Uses[id] == o {
											out = append(out, finding{funcKey(fd, u.info) + "/" + id.Name, as.Pos(), fmt.Sprintf("in %s a nested loop starts with `%s = ...`, which assigns the counter of the loop around it instead of declaring its own: after the inner loop the outer loop continues from the inner loop's final count, so it skips or repeats iterations (elements of the outer sequence are not read, the stream is misparsed from there on)", funcKey(fd, u.info), id.Name)})
										}
									}
								}
							}
						}
						next := outer
						if iv != nil {
							next = append(append([]types.Object{}, outer...), iv)
						}
						visit(l.Body, next)
						return false
					case *ast.RangeStmt:
						n++
						if l.Tok == token.ASSIGN {
							for _, e := range []ast.Expr{l.Key, l.Value} {
								if id, ok := e.(*ast.Ident); ok {
									for _, o := range outer {
										if u.info.Uses[id] == o {
											out = append(out, finding{funcKey(fd, u.info) + "/" + id.Name, l.Pos(), fmt.Sprintf("in %s a nested range loop assigns the counter %s of the loop around it", funcKey(fd, u.info), id.Name)})
										}
									}
								}
							}
						}
						visit(l.Body, outer)
						return false
					case *ast.FuncLit:
						visit(l.Body, nil)
						return false
					}
					return true
				})
			}
			visit(fd.Body, nil)
		}
	}
	return n, out
}

// ---------------------------------------------------------------------------
// G4: the error-annotation helper returns an error whenever it is given one.

// TracePreservesError checks pkg/libs/errors.Trace: every return yields the
// argument itself, a value built from it, or nil only where the argument was
// found nil. Every decoder, pipe and ring in the module reports malformed
// input, closed pipes and invalid offsets through this helper.
func TracePreservesError(c *core.Ctx, rule string) {
	fn := c.FuncOpt("pkg/libs/errors", "", "Trace")
	if fn == nil || fn.Decl == nil || fn.Decl.Body == nil {
		c.Undecidedf(rule, "Trace", token.NoPos, "pkg/libs/errors.Trace not found")
		return
	}
	info := fn.Pkg.TypesInfo
	sig := fn.Obj.Type().(*types.Signature)
	if sig.Params().Len() != 1 {
		c.Undecidedf(rule, "Trace", fn.Decl.Pos(), "Trace does not take exactly one argument")
		return
	}
	param := sig.Params().At(0)
	var stack []ast.Node
	nRet := 0
	ast.Inspect(fn.Decl.Body, func(n ast.Node) bool {
		if n == nil {
			stack = stack[:len(stack)-1]
			return false
		}
		stack = append(stack, n)
		ret, ok := n.(*ast.ReturnStmt)
		if !ok {
			return true
		}
		nRet++
		key := fmt.Sprintf("Trace/return#%d", nRet)
		if len(ret.Results) != 1 {
			c.Undecidedf(rule, key, ret.Pos(), "return without an explicit result")
			return true
		}
		r := ast.Unparen(ret.Results[0])
		mentions := false
		ast.Inspect(r, func(x ast.Node) bool {
			if id, ok := x.(*ast.Ident); ok && info.Uses[id] == param {
				mentions = true
			}
			return true
		})
		if mentions {
			c.Okf(rule, key, ret.Pos(), "returns %s, built from the argument", c.Src(r))
			return true
		}
		if tv, ok := info.Types[r]; ok && tv.IsNil() {
			// accepted only directly under `if <param> == nil {`
			okNil := false
			for i := len(stack) - 2; i >= 0; i-- {
				if is, ok := stack[i].(*ast.IfStmt); ok {
					if be, ok := ast.Unparen(is.Cond).(*ast.BinaryExpr); ok && be.Op == token.EQL {
						l, r2 := ast.Unparen(be.X), ast.Unparen(be.Y)
						isParam := func(e ast.Expr) bool { id, ok := e.(*ast.Ident); return ok && info.Uses[id] == param }
						isNil := func(e ast.Expr) bool { tv, ok := info.Types[e]; return ok && tv.IsNil() }
						// the return must sit in the then-branch
						if ((isParam(l) && isNil(r2)) || (isParam(r2) && isNil(l))) && is.Body.Pos() <= ret.Pos() && ret.End() <= is.Body.End() {
							okNil = true
						}
					}
				}
			}
			if okNil {
				c.Okf(rule, key, ret.Pos(), "returns nil where the argument is nil")
			} else {
				c.Failf(rule, key, ret.Pos(), "Trace returns nil on a path on which its argument may be an error (the guard is not just `%s == nil`): the error is swallowed, and every caller that reports malformed input, a closed pipe or an invalid offset through Trace reports success instead", param.Name())
			}
			return true
		}
		c.Undecidedf(rule, key, ret.Pos(), "cannot see how the result %s relates to the argument", c.Src(r))
		return true
	})
	if nRet == 0 {
		c.Undecidedf(rule, "Trace", fn.Decl.Pos(), "no return statement found")
	}
}
