package ring

// Queries over the traces produced by the path engine (sym.go).

import (
	"fmt"
	"go/token"
	"go/types"
	"os"
	"strings"

	"rscheck/core"
)

// FactsAt returns the facts established when ev happened.
func (t *Trace) FactsAt(ev *Event) Facts {
	if ev == nil || ev.NFacts > len(t.Facts) {
		return t.Facts
	}
	return t.Facts[:ev.NFacts]
}

// Find returns the events accepted by pred, in order.
func (t *Trace) Find(pred func(*Event) bool) []*Event {
	var out []*Event
	for _, e := range t.Events {
		if pred(e) {
			out = append(out, e)
		}
	}
	return out
}

// First returns the first event accepted by pred.
func (t *Trace) First(pred func(*Event) bool) *Event {
	for _, e := range t.Events {
		if pred(e) {
			return e
		}
	}
	return nil
}

// Last returns the last event accepted by pred.
func (t *Trace) Last(pred func(*Event) bool) *Event {
	for i := len(t.Events) - 1; i >= 0; i-- {
		if pred(t.Events[i]) {
			return t.Events[i]
		}
	}
	return nil
}

// Normal: the trace is a complete path to a normal return.
func (t *Trace) Normal() bool { return t.Exit == ExitReturn }

// CondOp recognises a sync.Cond operation on a struct field: it returns the
// field name (e.g. "rwait") and the method ("Wait", "Signal", "Broadcast").
// The receiver is identified by the value it holds, so `c := p.rwait;
// c.Signal()` and a helper that signals are the same thing.
func CondOp(ev *Event) (field, method string, ok bool) {
	if ev == nil || ev.Kind != EvCall || ev.Callee == nil || ev.Go {
		return "", "", false
	}
	if core.NamedTypePath(recvT(ev.Callee)) != "sync.Cond" {
		return "", "", false
	}
	if ev.Recv == nil || ev.Recv.K != VLeaf || ev.Recv.Leaf.Kind != LField {
		return "", ev.Callee.Name(), false
	}
	return ev.Recv.Leaf.Field.Name(), ev.Callee.Name(), true
}

// IsCondOp: ev performs one of methods on cond field `field`.
func IsCondOp(ev *Event, field string, methods ...string) bool {
	f, m, ok := CondOp(ev)
	if !ok || f != field {
		return false
	}
	for _, x := range methods {
		if x == m {
			return true
		}
	}
	return false
}

// IsFieldCall: ev calls method `method` on the value held by struct field
// `field` (e.g. p.store.readSome).
func IsFieldCall(ev *Event, field, method string) bool {
	if ev == nil || ev.Kind != EvCall || ev.Callee == nil || ev.Callee.Name() != method || ev.Go {
		return false
	}
	return ev.Recv.IsFieldLeaf(field)
}

// IsCallOf: ev is an opaque call of f.
func IsCallOf(ev *Event, f *types.Func) bool {
	return ev != nil && ev.Kind == EvCall && ev.Callee != nil && f != nil && ev.Callee.Origin() == f.Origin()
}

// IsStoreTo: ev assigns struct field `field`.
func IsStoreTo(ev *Event, field string) bool {
	return ev != nil && ev.Kind == EvStore && ev.Field.Name() == field
}

// IsReadOf: ev reads struct field `field`.
func IsReadOf(ev *Event, field string) bool {
	return ev != nil && ev.Kind == EvRead && ev.Field.Name() == field
}

// NoProgress: the facts say that the (n, err) results of ev are (0, nil).
func NoProgress(fs Facts, ev *Event) bool {
	if ev == nil || len(ev.Results) != 2 {
		return false
	}
	return fs.IsZero(ev.Results[0]) && fs.IsNil(ev.Results[1])
}

// MayProgress: the facts do not exclude n != 0 || err != nil for ev.
func MayProgress(fs Facts, ev *Event) bool { return !NoProgress(fs, ev) }

// FieldNil / FieldNonNil: what the facts say about the value `v` read from a
// field (v is the Val of the most recent read).
func (t *Trace) CurrentField(name string, upTo *Event) *Val {
	var cur *Val
	for _, e := range t.Events {
		if upTo != nil && e.Index >= upTo.Index {
			break
		}
		if e.Kind == EvRead && e.Field.Name() == name || e.Kind == EvStore && e.Field.Name() == name {
			cur = e.Val
		}
	}
	return cur
}

// Witness renders a trace for a replay file.
func (t *Trace) Witness(c *core.Ctx) []string {
	var out []string
	for _, f := range t.Facts {
		pos := ""
		if f.Pos.IsValid() {
			pos = "L" + fmt.Sprint(c.Program.Fset.Position(f.Pos).Line) + ": "
		}
		out = append(out, "assume "+pos+f.String())
	}
	for _, e := range t.Events {
		if e.Kind == EvRead {
			continue
		}
		out = append(out, e.describe(c))
	}
	switch t.Exit {
	case ExitReturn:
		var rs []string
		for _, r := range t.Results {
			rs = append(rs, r.Key())
		}
		out = append(out, fmt.Sprintf("returns (%s) at L%d", strings.Join(rs, ", "), c.Program.Fset.Position(t.RetPos).Line))
	case ExitPanic:
		out = append(out, "ends in a no-return call")
	case ExitCut:
		out = append(out, "cut at the loop bound")
	case ExitStop:
		out = append(out, "stopped")
	}
	return out
}

func (e *Event) describe(c *core.Ctx) string {
	line := c.Program.Fset.Position(e.Pos).Line
	switch e.Kind {
	case EvCall:
		name := e.Builtin
		if e.Callee != nil {
			name = e.Callee.Name()
		}
		recv := ""
		if e.Recv != nil {
			recv = e.Recv.Key() + "."
		}
		var as []string
		for _, a := range e.Args {
			as = append(as, a.Key())
		}
		d := ""
		if e.Deferred {
			d = "deferred "
		}
		if e.Go {
			d = "go "
		}
		return fmt.Sprintf("L%d: %scall %s%s(%s)", line, d, recv, name, strings.Join(as, ", "))
	case EvStore:
		return fmt.Sprintf("L%d: store %s.%s = %s", line, e.Base.Key(), e.Field.Name(), e.Val.Key())
	case EvRead:
		return fmt.Sprintf("L%d: read %s.%s -> %s", line, e.Base.Key(), e.Field.Name(), e.Val.Key())
	case EvEnter:
		return fmt.Sprintf("L%d: enter %s", line, e.Callee.Name())
	}
	return "?"
}

// Dump prints all traces (debugging aid: RS_SYMDUMP=<function name>).
func (r *SymResult) Dump(c *core.Ctx) string {
	var b strings.Builder
	fmt.Fprintf(&b, "== %s: %d traces, overflow=%v\n", r.Fn.Name(), len(r.Traces), r.Overflow)
	for i, t := range r.Traces {
		fmt.Fprintf(&b, "-- trace %d exit=%d taint=%v\n", i, t.Exit, t.Taint)
		for _, l := range t.Witness(c) {
			fmt.Fprintf(&b, "   %s\n", l)
		}
	}
	return b.String()
}

// RunSym runs the engine on fn with cfg and honours RS_SYMDUMP.
func RunSym(c *core.Ctx, fn *core.Fn, cfg *Sym) *SymResult {
	cfg.C = c
	r := cfg.Run(fn)
	if d := os.Getenv("RS_SYMDUMP"); d != "" && (d == "all" || strings.Contains(fn.Name(), d)) {
		fmt.Fprint(os.Stderr, r.Dump(c))
	}
	return r
}

// Usable reports whether a result can carry a verdict: no overflow; and it
// returns the taints of all traces.
func (r *SymResult) Usable() (bool, string) {
	if r == nil {
		return false, "not analysed"
	}
	if r.Overflow {
		return false, "too many paths"
	}
	if r.Cuts > 0 && !r.allowCut {
		return false, "the function loops: paths beyond the analysis bound were not explored"
	}
	var ts []string
	seen := map[string]bool{}
	for _, t := range r.Traces {
		for _, x := range t.Taint {
			if !seen[x] {
				seen[x] = true
				ts = append(ts, x)
			}
		}
	}
	if len(ts) > 0 {
		return false, "constructs the path engine does not model: " + strings.Join(ts, "; ")
	}
	if len(r.Traces) == 0 {
		return false, "no path found"
	}
	return true, ""
}

var _ = token.NoPos
