package ring

import (
	"go/ast"
	"go/types"

	"golang.org/x/tools/go/cfg"

	"rscheck/cfgq"
	"rscheck/core"
	"rscheck/pat"
)

// TruthTable computes, for a loop-free boolean function, the value it returns
// for every assignment of n atoms. atom recognises an atomic condition as
// atom #idx (negated when neg). Conditions are decided from the assignment
// alone (three-valued, single-assignment boolean locals are looked through);
// the entry is -1 when some branch or the returned expression depends on
// something that is not an atom. This is a case split over a finite set of
// orderings, not an execution of the function.
func TruthTable(g *cfgq.Graph, n int, atom func(ast.Expr) (idx int, neg bool, ok bool)) []int8 {
	info := g.Info
	table := make([]int8, 1<<uint(n))
	for m := range table {
		vals := make([]bool, n)
		for i := 0; i < n; i++ {
			vals[i] = m&(1<<uint(i)) != 0
		}
		var at func(x ast.Expr) (bool, bool)
		at = func(x ast.Expr) (bool, bool) {
			x = ast.Unparen(x)
			if tv, ok := info.Types[x]; ok && tv.Value != nil && isBool(info, x) {
				return tv.Value.String() == "true", true
			}
			if idx, neg, ok := atom(x); ok {
				return vals[idx] != neg, true
			}
			if id, ok := x.(*ast.Ident); ok {
				if d := pat.DefOf(info, id); d != nil {
					return EvalUnder(d, at)
				}
			}
			return false, false
		}
		table[m] = -1
		b := g.CFG.Blocks[0]
		for steps := 0; steps < 1000 && b != nil; steps++ {
			if len(b.Succs) == 0 {
				if len(b.Nodes) > 0 {
					if ret, ok := b.Nodes[len(b.Nodes)-1].(*ast.ReturnStmt); ok && len(ret.Results) >= 1 {
						if v, known := EvalUnder(ret.Results[0], at); known {
							if v {
								table[m] = 1
							} else {
								table[m] = 0
							}
						}
					}
				}
				break
			}
			if len(b.Succs) == 1 {
				b = b.Succs[0]
				continue
			}
			cnd := cfgq.CondOf(b)
			if cnd == nil || len(b.Succs) != 2 || (b.Succs[0].Kind == cfg.KindSwitchCaseBody && !isBool(info, cnd)) {
				break
			}
			v, known := EvalUnder(cnd, at)
			if !known {
				break
			}
			if v {
				b = b.Succs[0]
			} else {
				b = b.Succs[1]
			}
		}
	}
	return table
}

// ErrNilAtom recognises `err == nil` / `err != nil` for the given error object.
func ErrNilAtom(info *types.Info, x ast.Expr, errObj types.Object) (isNil bool, ok bool) {
	be, isB := ast.Unparen(x).(*ast.BinaryExpr)
	if !isB {
		return false, false
	}
	for _, p := range [][2]ast.Expr{{be.X, be.Y}, {be.Y, be.X}} {
		if id, isId := ast.Unparen(p[0]).(*ast.Ident); isId && core.ObjOf(info, id) == errObj && core.IsNil(info, p[1]) {
			switch be.Op.String() {
			case "==":
				return true, true
			case "!=":
				return false, true
			}
		}
	}
	return false, false
}
