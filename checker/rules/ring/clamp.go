package ring

import (
	"fmt"
	"go/ast"
	"go/parser"
	"go/token"
	"sort"
	"strings"

	"rscheck/core"
)

// ClampSpec describes a ring-index helper: results (maxlen, offset); maxlen
// is the minimum of uint64(<blen>) and the clamp terms, offset is <pos> % size.
// Terms are written over the parameter roles (`_size - _offset`).
type ClampSpec struct {
	Params []string // expected parameter order (names are roles, not matched by name)
	Offset string   // role whose value modulo size is the offset, e.g. "rpos"
	Clamps []string // the terms maxlen is limited to, using _role names and _offset
}

// ClampFlow checks a roffset/woffset-style helper on its traces (path engine,
// helpers such as a min function or a shared "clip" returning a struct are
// followed, a range over a list of limits is unrolled): on every path result 1
// is <pos> % size, and result 0 is one of uint64(blen) and the clamp terms AND
// the facts of the path prove that it does not exceed any of the others (i.e.
// it is their minimum). Values are compared as linear forms, comparisons are
// decided with intervals and one step of transitivity, so the order of the
// tests, `a < b` vs `b > a`, temporaries and the shape of the code are
// irrelevant. (The name is historical: the first version used package flow.)
func ClampFlow(c *core.Ctx, rule string, fn *core.Fn, spec ClampSpec) {
	if fn == nil {
		return
	}
	name := fn.Name()
	res := RunSym(c, fn, &Sym{})
	if len(res.Params) != len(spec.Params) {
		c.Undecidedf(rule, name+"/params", fn.Decl.Pos(), "%s has %d parameters, the rule knows %d roles %v", name, len(res.Params), len(spec.Params), spec.Params)
		return
	}
	if ok, why := res.Usable(); !ok {
		c.Undecidedf(rule, name+"/clamp", fn.Decl.Pos(), "%s", why)
		c.Undecidedf(rule, name+"/offset", fn.Decl.Pos(), "%s", why)
		return
	}
	role := map[string]*Val{}
	for i, r := range spec.Params {
		role["_"+r] = res.Params[i]
	}
	wantOff := &Val{K: VBin, Op: token.REM, X: role["_"+spec.Offset], Y: role["_size"]}
	role["_offset"] = wantOff
	var build func(e ast.Expr) *Val
	build = func(e ast.Expr) *Val {
		switch v := e.(type) {
		case *ast.Ident:
			return role[v.Name]
		case *ast.ParenExpr:
			return build(v.X)
		case *ast.BinaryExpr:
			a, b := build(v.X), build(v.Y)
			if a == nil || b == nil {
				return nil
			}
			return &Val{K: VBin, Op: v.Op, X: a, Y: b}
		}
		return nil
	}
	type term struct {
		src string
		v   *Val
	}
	terms := []term{{"uint64(blen)", role["_blen"]}}
	for _, cl := range spec.Clamps {
		x, err := parser.ParseExpr(cl)
		var v *Val
		if err == nil {
			v = build(x)
		}
		if v == nil {
			c.Undecidedf(rule, name+"/spec", fn.Decl.Pos(), "bad clamp term %q", cl)
			return
		}
		terms = append(terms, term{strings.ReplaceAll(cl, "_", ""), v})
	}
	onlyParams := func(v *Val) bool {
		return !v.Mentions(func(s *Val) bool { return s.K == VLeaf && s.Leaf.Kind != LParam })
	}
	var bad, undec []string
	var badOff, undecOff []string
	seen := make([]bool, len(terms))
	add := func(l *[]string, s string) {
		for _, x := range *l {
			if x == s {
				return
			}
		}
		*l = append(*l, s)
	}
	n := 0
	for _, t := range res.Traces {
		if !t.Normal() {
			continue
		}
		if len(t.Results) != 2 {
			add(&undec, "unexpected result count")
			continue
		}
		n++
		r0, r1 := t.Results[0], t.Results[1]
		// offset
		if r1.Key() != wantOff.Key() {
			if onlyParams(r1) {
				add(&badOff, r1.Key())
			} else {
				add(&undecOff, r1.Key())
			}
		}
		// maxlen: one of the terms ...
		hit := -1
		for j, tm := range terms {
			if LinEqual(r0, tm.v) {
				hit = j
				break
			}
		}
		if hit < 0 {
			if onlyParams(r0) {
				add(&bad, fmt.Sprintf("maxlen may be `%s`, which is none of the expected terms", r0))
			} else {
				add(&undec, fmt.Sprintf("maxlen may be `%s`", r0))
			}
			continue
		}
		seen[hit] = true
		// ... and not larger than any other
		pure := true
		for _, f := range t.Facts {
			if !onlyParams(f.A) {
				pure = false
			}
		}
		for j, tm := range terms {
			if j == hit {
				continue
			}
			le := VCmp(token.LEQ, r0, tm.v)
			switch {
			case t.Facts.Holds(le):
			case t.Facts.Refuted(le):
				add(&bad, fmt.Sprintf("maxlen is `%s` on a path where it exceeds `%s`", terms[hit].src, tm.src))
			case pure && len(t.Taint) == 0:
				add(&bad, fmt.Sprintf("maxlen is `%s` on a path that has not limited it to `%s`", terms[hit].src, tm.src))
			default:
				add(&undec, fmt.Sprintf("cannot prove `%s` <= `%s` on a path", terms[hit].src, tm.src))
			}
		}
	}
	if n == 0 {
		add(&undec, "no path returns")
		add(&undecOff, "no path returns")
	}
	for j, tm := range terms {
		if !seen[j] && len(undec) == 0 && len(bad) == 0 {
			add(&bad, fmt.Sprintf("maxlen is never limited to `%s`", tm.src))
		}
	}
	sort.Strings(bad)
	clamps := strings.ReplaceAll(strings.Join(spec.Clamps, ", "), "_", "")
	switch {
	case len(bad) > 0:
		c.Failf(rule, name+"/clamp", fn.Decl.Pos(), "maxlen must be the minimum of uint64(blen) and %s; %s: a transfer may run past the data or past the end of the ring", clamps, strings.Join(bad, "; "))
	case len(undec) > 0:
		c.Undecidedf(rule, name+"/clamp", fn.Decl.Pos(), "cannot resolve every value of maxlen: %s", strings.Join(undec, "; "))
	default:
		c.Okf(rule, name+"/clamp", fn.Decl.Pos(), "maxlen = min(blen, %s)", clamps)
	}
	switch {
	case len(badOff) > 0:
		c.Failf(rule, name+"/offset", fn.Decl.Pos(), "offset must be %s %% size; found `%s`", spec.Offset, strings.Join(badOff, "`, `"))
	case len(undecOff) > 0:
		c.Undecidedf(rule, name+"/offset", fn.Decl.Pos(), "cannot resolve the offset result: %s", strings.Join(undecOff, "; "))
	default:
		c.Okf(rule, name+"/offset", fn.Decl.Pos(), "offset = %s %% size", spec.Offset)
	}
}
