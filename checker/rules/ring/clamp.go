package ring

import (
	"fmt"
	"go/ast"
	"go/parser"
	"go/token"
	"sort"
	"strings"

	"rscheck/cfgq"
	"rscheck/core"
	"rscheck/flow"
	"rscheck/lin"
)

// ClampFlow checks a roffset/woffset-style helper by the values its results can
// take (package flow, following pure helpers such as a local min function):
// result 0 is one of uint64(blen) and the clamp terms, each clamp term being
// returned only where a comparison establishes that it is the smaller value;
// result 1 is <pos> % size. Terms are compared as linear forms (package lin),
// so `size - offset`, `size - rpos%size`, temporaries, a min helper or a shared
// "segment" helper are the same thing.
func ClampFlow(c *core.Ctx, rule string, fn *core.Fn, spec ClampSpec) {
	if fn == nil {
		return
	}
	info := fn.Pkg.TypesInfo
	name := fn.Name()
	var params []*ast.Ident
	for _, f := range fn.Decl.Type.Params.List {
		params = append(params, f.Names...)
	}
	if len(params) != len(spec.Params) {
		c.Undecidedf(rule, name+"/params", fn.Decl.Pos(), "%s has %d parameters, the rule knows %d roles %v", name, len(params), len(spec.Params), spec.Params)
		return
	}
	role := map[string]ast.Expr{}
	for i, r := range spec.Params {
		role["_"+r] = params[i]
	}
	role["_offset"] = &ast.BinaryExpr{X: role["_"+spec.Offset], Op: token.REM, Y: role["_size"]}
	build := func(src string) (lin.Form, bool) {
		x, err := parser.ParseExpr(src)
		if err != nil {
			return lin.Form{}, false
		}
		var subst func(e ast.Expr) ast.Expr
		subst = func(e ast.Expr) ast.Expr {
			switch v := e.(type) {
			case *ast.Ident:
				if r, ok := role[v.Name]; ok {
					return r
				}
			case *ast.BinaryExpr:
				return &ast.BinaryExpr{X: subst(v.X), Op: v.Op, Y: subst(v.Y)}
			case *ast.ParenExpr:
				return subst(v.X)
			}
			return e
		}
		return lin.Of(info, subst(x)), true
	}
	type term struct {
		src  string
		form lin.Form
		seen bool
	}
	terms := []*term{{src: "uint64(blen)", form: lin.Of(info, role["_blen"])}}
	for _, cl := range spec.Clamps {
		f, ok := build(cl)
		if !ok {
			c.Undecidedf(rule, name+"/spec", fn.Decl.Pos(), "bad clamp term %q", cl)
			return
		}
		terms = append(terms, &term{src: strings.ReplaceAll(cl, "_", ""), form: f})
	}
	e := flow.New(c.Program)
	e.PureOnly = true
	smaller := func(form lin.Form) func(cfgq.Fact) bool {
		return func(f cfgq.Fact) bool {
			be, ok := ast.Unparen(flow.Positive(f)).(*ast.BinaryExpr)
			if !ok {
				return false
			}
			switch be.Op {
			case token.LSS, token.LEQ:
				return lin.Of(info, be.X).Equal(form)
			case token.GTR, token.GEQ:
				return lin.Of(info, be.Y).Equal(form)
			}
			return false
		}
	}
	var bad, undec []string
	for _, cs := range e.Returns(fn, 0) {
		if cs.Unknown != "" {
			undec = append(undec, cs.Unknown)
			continue
		}
		if cs.Zero || cs.Expr == nil {
			bad = append(bad, "maxlen may be returned unset")
			continue
		}
		form := lin.Of(info, cs.Expr)
		var hit *term
		for _, t := range terms {
			if t.form.Equal(form) {
				hit = t
			}
		}
		if hit == nil {
			bad = append(bad, fmt.Sprintf("maxlen may be `%s`, which is none of the expected terms", e.Describe(cs)))
			continue
		}
		hit.seen = true
		if hit != terms[0] && !e.AnyUnder(cs.Sites, smaller(form)) {
			bad = append(bad, fmt.Sprintf("maxlen is set to `%s` without a comparison establishing that it is the smaller value", hit.src))
		}
	}
	for _, t := range terms {
		if !t.seen && len(undec) == 0 {
			bad = append(bad, fmt.Sprintf("maxlen is never limited to `%s`", t.src))
		}
	}
	sort.Strings(bad)
	switch {
	case len(bad) > 0:
		c.Failf(rule, name+"/clamp", fn.Decl.Pos(), "maxlen must be the minimum of uint64(blen) and %s; %s: a transfer may run past the data or past the end of the ring", strings.ReplaceAll(strings.Join(spec.Clamps, ", "), "_", ""), strings.Join(bad, "; "))
	case len(undec) > 0:
		c.Undecidedf(rule, name+"/clamp", fn.Decl.Pos(), "cannot resolve every value of maxlen: %s", strings.Join(undec, "; "))
	default:
		c.Okf(rule, name+"/clamp", fn.Decl.Pos(), "maxlen = min(blen, %s)", strings.ReplaceAll(strings.Join(spec.Clamps, ", "), "_", ""))
	}
	// offset
	want := lin.Of(info, role["_offset"])
	okOff, nOff := true, 0
	var undecOff []string
	got := ""
	for _, cs := range e.Returns(fn, 1) {
		if cs.Unknown != "" {
			undecOff = append(undecOff, cs.Unknown)
			continue
		}
		nOff++
		if cs.Zero || cs.Expr == nil || !lin.Of(info, cs.Expr).Equal(want) {
			okOff = false
			got = e.Describe(cs)
		}
	}
	switch {
	case !okOff:
		c.Failf(rule, name+"/offset", fn.Decl.Pos(), "offset must be %s %% size; found `%s`", spec.Offset, got)
	case len(undecOff) > 0 || nOff == 0:
		c.Undecidedf(rule, name+"/offset", fn.Decl.Pos(), "cannot resolve the offset result: %s", strings.Join(undecOff, "; "))
	default:
		c.Okf(rule, name+"/offset", fn.Decl.Pos(), "offset = %s %% size", spec.Offset)
	}
}
