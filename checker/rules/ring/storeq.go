package ring

// Trace-level rules shared by the mem/file buffer implementations of the pipe
// (C09) and the backlog (C18). Each returns 1 (holds), 0 (located and wrong,
// with the reason) or -1 (cannot tell, with the reason).

import (
	"fmt"
	"go/token"
	"go/types"
	"strings"

	"rscheck/core"
)

// FieldVar finds field `name` of the struct type `typ` of a package.
func FieldVar(c *core.Ctx, pkgPath, typ, name string) *types.Var {
	pk := c.Pkg(pkgPath)
	if pk == nil || pk.Types == nil {
		return nil
	}
	tn, _ := pk.Types.Scope().Lookup(typ).(*types.TypeName)
	if tn == nil {
		return nil
	}
	return fieldOfType(tn.Type(), name)
}

func fieldOfType(t types.Type, name string) *types.Var {
	if p, ok := t.Underlying().(*types.Pointer); ok {
		t = p.Elem()
	}
	st, ok := t.Underlying().(*types.Struct)
	if !ok {
		return nil
	}
	for i := 0; i < st.NumFields(); i++ {
		if st.Field(i).Name() == name {
			return st.Field(i)
		}
	}
	return nil
}

// FieldAtEntry is the leaf a read of base.fv yields before anything on the
// path could have changed it.
func FieldAtEntry(base *Val, fv *types.Var) *Val {
	if base == nil || fv == nil {
		return nil
	}
	return VLeafOf(&Leaf{Kind: LField, Name: base.Key() + "." + fv.Name(), Field: fv, Base: base, T: fv.Type()})
}

// BackingField returns the field of a buffer implementation that holds the
// storage (the only field that can be nil: a slice or a pointer); nil when
// there is none or more than one.
func BackingField(t *types.Named) *types.Var {
	st, ok := t.Underlying().(*types.Struct)
	if !ok {
		return nil
	}
	var hit *types.Var
	for i := 0; i < st.NumFields(); i++ {
		switch st.Field(i).Type().Underlying().(type) {
		case *types.Pointer, *types.Slice, *types.Map, *types.Chan, *types.Interface, *types.Signature:
			if hit != nil {
				return nil
			}
			hit = st.Field(i)
		}
	}
	return hit
}

func isTransfer(e *Event) bool {
	if e.Kind != EvCall {
		return false
	}
	if e.Builtin == "copy" {
		return true
	}
	return e.Callee != nil && (e.Callee.Name() == "ReadAt" || e.Callee.Name() == "WriteAt")
}

// ClosedGuard: on every path on which the backing store may be nil the
// operation returns (0, <wrapped pkg.errName>) without moving bytes or
// positions.
func ClosedGuard(res *SymResult, backing *types.Var, pkgSuffix, errName string) (int, string) {
	if ok, why := res.Usable(); !ok {
		return -1, why
	}
	if backing == nil || res.Recv == nil {
		return -1, "cannot tell which field is the backing store"
	}
	b0 := FieldAtEntry(res.Recv, backing)
	tested := false
	for _, t := range res.Traces {
		if t.Facts.IsNil(b0) {
			tested = true
		}
		if !t.Normal() || t.Facts.NonNil(b0) {
			continue
		}
		if len(t.Results) != 2 {
			return -1, "unexpected result count"
		}
		for _, e := range t.Events {
			if isTransfer(e) || e.Kind == EvStore {
				return 0, fmt.Sprintf("the store is used without %s having been found non-nil", backing.Name())
			}
		}
		if !t.Facts.IsZero(t.Results[0]) || !t.Results[1].Unwrap().IsGlobal(pkgSuffix, errName) {
			return 0, fmt.Sprintf("with %s == nil not excluded the function returns (%s, %s)", backing.Name(), t.Results[0], t.Results[1])
		}
	}
	if !tested {
		return 0, fmt.Sprintf("%s is never compared with nil", backing.Name())
	}
	return 1, ""
}

// ReturnsFormula: result 0 is the given linear combination of position fields
// on every path on which the backing store is not known to be nil.
func ReturnsFormula(res *SymResult, backing *types.Var, coefs map[string]int64) (int, string) {
	if ok, why := res.Usable(); !ok {
		return -1, why
	}
	if res.Recv == nil || res.Recv.T == nil {
		return -1, "no receiver"
	}
	var want *Val = VInt(0)
	pos := map[string]bool{}
	for name, k := range coefs {
		fv := fieldOfType(res.Recv.T, name)
		if fv == nil {
			return -1, "field " + name + " not found"
		}
		leaf := FieldAtEntry(res.Recv, fv)
		pos[leaf.Key()] = true
		want = &Val{K: VBin, Op: addTok, X: want, Y: &Val{K: VBin, Op: mulTok, X: leaf, Y: VInt(k)}}
	}
	var b0 *Val
	if backing != nil {
		b0 = FieldAtEntry(res.Recv, backing)
	}
	seen := false
	for _, t := range res.Traces {
		if !t.Normal() || len(t.Results) < 1 {
			continue
		}
		if b0 != nil && t.Facts.IsNil(b0) {
			continue
		}
		v := t.Results[0]
		if LinEqual(v, want) {
			seen = true
			continue
		}
		// located and wrong when it is some other combination of the same kind of fields
		f := linOf(v)
		onlyFields := true
		for _, a := range f.atom {
			if a.K != VLeaf || a.Leaf.Kind != LField {
				onlyFields = false
			}
		}
		if onlyFields {
			return 0, "found " + v.Key()
		}
		return -1, "found " + v.Key()
	}
	if !seen {
		return -1, "no path returns a value"
	}
	return 1, ""
}

// DropsBacking: every path leaves the backing field nil.
func DropsBacking(res *SymResult, backing *types.Var) (int, string) {
	if ok, why := res.Usable(); !ok {
		return -1, why
	}
	if backing == nil || res.Recv == nil {
		return -1, "cannot tell which field is the backing store"
	}
	any := false
	for _, t := range res.Traces {
		if !t.Normal() {
			continue
		}
		end := t.End.FieldNow(res.Recv, backing)
		if t.Facts.IsNil(end) {
			any = true
			continue
		}
		return 0, fmt.Sprintf("a path leaves %s set", backing.Name())
	}
	if !any {
		return -1, "no path"
	}
	return 1, ""
}

// ResetWhenMeet: the two position fields are set to 0 only together and only
// where the path has established that they are equal; and a path that has
// established that they are equal resets them.
func ResetWhenMeet(res *SymResult, a, b string) (int, string) {
	if ok, why := res.Usable(); !ok {
		return -1, why
	}
	if res.Recv == nil || res.Recv.T == nil {
		return -1, "no receiver"
	}
	fa, fb := fieldOfType(res.Recv.T, a), fieldOfType(res.Recv.T, b)
	if fa == nil || fb == nil {
		return -1, "position fields not found"
	}
	found := false
	for _, t := range res.Traces {
		zero := func(name string) *Event {
			return t.First(func(e *Event) bool { return IsStoreTo(e, name) && e.Val != nil && e.Val.K == VConst && e.Val.Int == 0 })
		}
		za, zb := zero(a), zero(b)
		if za == nil && zb == nil {
			// no reset: fine unless the path knows that the positions met after a transfer
			if t.Normal() && t.First(isTransfer) != nil {
				ea, eb := t.End.FieldNow(res.Recv, fa), t.End.FieldNow(res.Recv, fb)
				if t.Facts.Holds(VCmp(eqlTok, ea, eb)) {
					return 0, "a path on which the positions meet does not reset them"
				}
			}
			continue
		}
		found = true
		if za == nil || zb == nil {
			return 0, "only one of the positions is reset"
		}
		first := za
		if zb.Index < za.Index {
			first = zb
		}
		ca, cb := first.FieldNow(res.Recv, fa), first.FieldNow(res.Recv, fb)
		if !t.FactsAt(first).Holds(VCmp(eqlTok, ca, cb)) {
			return 0, "the positions are reset where they have not been found equal"
		}
	}
	if !found {
		return -1, "cannot see where the positions are reset"
	}
	return 1, ""
}

const (
	addTok = token.ADD
	mulTok = token.MUL
	eqlTok = token.EQL
)

// FieldOf finds field `name` of the struct the value points to / is.
func FieldOf(v *Val, name string) *types.Var {
	if v == nil || v.T == nil {
		return nil
	}
	return fieldOfType(v.T, name)
}

// VAdd / VSub build integer sums.
func VAdd(a, b *Val) *Val { return &Val{K: VBin, Op: token.ADD, X: a, Y: b} }
func VSub(a, b *Val) *Val { return &Val{K: VBin, Op: token.SUB, X: a, Y: b} }

// IsTransfer: the event moves bytes between a buffer and the backing store
// (copy, ReadAt, WriteAt).
func IsTransfer(e *Event) bool { return isTransfer(e) }

// OnlyFields: the integer value is a combination of struct fields and
// constants only (so that a wrong formula is a located, wrong construct).
func OnlyFields(v *Val) bool {
	f := linOf(v)
	for _, a := range f.atom {
		if a.K != VLeaf || a.Leaf.Kind != LField {
			return false
		}
	}
	return true
}

// Pointee returns the object a pointer value points to when it was allocated
// on the path (&T{...}, new(T)); nil otherwise.
func Pointee(v *Val) *Val {
	if v != nil && v.K == VAddr && v.X != nil && v.X.K == VObj {
		return v.X
	}
	if v != nil && v.K == VObj {
		return v
	}
	return nil
}

// transferCount returns the single transfer event of a trace and its count
// (result 0), or nil when the trace moves no bytes; many is set when it has
// several transfers.
func transferCount(t *Trace) (ev *Event, many bool) {
	for _, e := range t.Events {
		if isTransfer(e) {
			if ev != nil {
				return ev, true
			}
			ev = e
		}
	}
	return ev, false
}

// WriteEndState: on every path the position field ends at its initial value
// plus the number of bytes the transfer reported (unchanged where nothing was
// transferred). The check looks at the value the field holds at the end of the
// path, so `+=`, `= x + n`, a local carried to a final store or a helper are
// the same thing.
func WriteEndState(res *SymResult, pos string) (int, string) {
	if ok, why := res.Usable(); !ok {
		return -1, why
	}
	if res.Recv == nil || res.Recv.T == nil {
		return -1, "no receiver"
	}
	fv := fieldOfType(res.Recv.T, pos)
	if fv == nil {
		return -1, "field " + pos + " not found"
	}
	p0 := FieldAtEntry(res.Recv, fv)
	moved := false
	for _, t := range res.Traces {
		if !t.Normal() {
			continue
		}
		ev, many := transferCount(t)
		if many {
			return -1, "several transfers on one path"
		}
		end := t.End.FieldNow(res.Recv, fv)
		want := p0
		if ev != nil {
			if len(ev.Results) == 0 {
				return -1, "transfer without a count"
			}
			want = VAdd(p0, ev.Results[0])
			moved = true
		}
		if !LinEqual(end, want) {
			if ev == nil {
				return 0, fmt.Sprintf("%s changes to %s on a path that moves no bytes", pos, end)
			}
			return 0, fmt.Sprintf("%s ends at %s instead of %s", pos, end, want)
		}
	}
	if !moved {
		return -1, "no path moves bytes"
	}
	return 1, ""
}

// ReadEndState checks the two position fields of a draining read: on a path
// that transferred n bytes they end at (rpos+n, wpos), or at (0, 0) exactly
// where the path has established rpos+n == wpos (the ring is rewound when it
// is drained, and only then). It returns the verdicts for "advance" and
// "reset".
func ReadEndState(res *SymResult, rname, wname string) (adv int, advWhy string, rst int, rstWhy string) {
	if ok, why := res.Usable(); !ok {
		return -1, why, -1, why
	}
	if res.Recv == nil || res.Recv.T == nil {
		return -1, "no receiver", -1, "no receiver"
	}
	fr, fw := fieldOfType(res.Recv.T, rname), fieldOfType(res.Recv.T, wname)
	if fr == nil || fw == nil {
		return -1, "position fields not found", -1, "position fields not found"
	}
	r0, w0 := FieldAtEntry(res.Recv, fr), FieldAtEntry(res.Recv, fw)
	adv, rst = 1, -1
	rstWhy = "cannot see where the positions are reset"
	moved := false
	for _, t := range res.Traces {
		if !t.Normal() {
			continue
		}
		ev, many := transferCount(t)
		if many {
			return -1, "several transfers on one path", -1, "several transfers on one path"
		}
		re, we := t.End.FieldNow(res.Recv, fr), t.End.FieldNow(res.Recv, fw)
		if ev == nil {
			if !LinEqual(re, r0) || !LinEqual(we, w0) {
				adv, advWhy = 0, "a path that moves no bytes changes the positions"
			}
			continue
		}
		if len(ev.Results) == 0 {
			return -1, "transfer without a count", -1, "transfer without a count"
		}
		moved = true
		nr := VAdd(r0, ev.Results[0])
		meet := t.Facts.Holds(VCmp(eqlTok, nr, w0))
		zr, zw := t.Facts.IsZero(re) && re.K == VConst, t.Facts.IsZero(we) && we.K == VConst
		switch {
		case LinEqual(re, nr) && LinEqual(we, w0):
			if meet {
				rst, rstWhy = 0, "a path on which the positions meet does not reset them"
			}
		case zr && zw:
			if meet {
				if rst != 0 {
					rst, rstWhy = 1, ""
				}
			} else {
				rst, rstWhy = 0, "the positions are reset where they have not been found equal"
			}
		case zr != zw && (LinEqual(re, nr) || LinEqual(we, w0)):
			rst, rstWhy = 0, "only one of the positions is reset"
		default:
			adv, advWhy = 0, fmt.Sprintf("the positions end at (%s, %s) instead of (%s, %s)", re, we, nr, w0)
		}
	}
	if !moved {
		return -1, "no path moves bytes", -1, "no path moves bytes"
	}
	return adv, advWhy, rst, rstWhy
}

// ZeroWindow checks the "nothing to move" case of a store operation on its
// traces (run with the offset helper opaque, so that maxlen is one value per
// path): bytes are moved only where maxlen != 0 has been established, and a
// path that has established maxlen == 0 moves nothing and returns (0, nil) so
// that the caller waits. How the test is spelled (maxlen == 0, len(window) ==
// 0, a helper) does not matter.
func ZeroWindow(res *SymResult, offsetFn string) (int, string) {
	if ok, why := res.Usable(); !ok {
		return -1, why
	}
	isOff := func(e *Event) bool {
		return e.Kind == EvCall && e.Callee != nil && e.Callee.Name() == offsetFn && e.Callee.Pkg() == res.Fn.Obj.Pkg()
	}
	sawZero, sawMove := false, false
	for _, t := range res.Traces {
		o := t.First(isOff)
		if o == nil || len(o.Results) != 2 {
			if t.First(isTransfer) != nil {
				return -1, "bytes are moved on a path that does not call " + offsetFn
			}
			continue
		}
		maxlen := o.Results[0]
		ev, _ := transferCount(t)
		if ev != nil {
			sawMove = true
			if !t.FactsAt(ev).Holds(VCmp(token.NEQ, maxlen, VInt(0))) {
				return 0, "the transfer is reachable with maxlen == 0 not excluded"
			}
			continue
		}
		if t.Normal() && t.Facts.IsZero(maxlen) {
			sawZero = true
			if len(t.Results) != 2 || !t.Facts.IsZero(t.Results[0]) || !t.Facts.IsNil(t.Results[1]) {
				return 0, fmt.Sprintf("with maxlen == 0 the function returns (%s, %s)", t.Results[0], t.Results[1])
			}
		}
	}
	switch {
	case !sawMove:
		return -1, "no path moves bytes"
	case !sawZero:
		return -1, "cannot see what is returned when maxlen == 0"
	}
	return 1, ""
}

// OpaqueOffsets is the Sym.Opaque predicate that keeps roffset / woffset as
// calls (one maxlen / offset value per path).
func OpaqueOffsets(f *types.Func) bool { return f.Name() == "roffset" || f.Name() == "woffset" }

// XferSpec describes the byte transfer of one store operation for
// TransferOnTraces. Args lists what the offset helper must be handed, in
// parameter order: "len:<k>" (length of parameter k), "field:<name>" (the
// receiver's field as it was on entry), "param:<k>" (parameter k).
type XferSpec struct {
	OffsetFn string
	Read     bool // true: backing store -> caller's buffer
	Args     []string
}

// TransferOnTraces checks, on the traces of a store operation walked with the
// offset helper opaque, (1) the arguments of the offset helper and (2) that
// the bytes moved are exactly the window [offset, offset+maxlen) of the
// backing store and the front of the caller's buffer. Because values are
// compared, not statements, the window may be spelled p.b[o:o+m],
// p.b[o:][:m], through locals or a helper returning the slice, and for copy
// the side that is not bounded by maxlen may be left open (copy moves the
// shorter length; maxlen never exceeds either side by the clamp rule).
func TransferOnTraces(res *SymResult, sp XferSpec, backing *types.Var) (argsV int, argsWhy string, winV int, winWhy string) {
	if ok, why := res.Usable(); !ok {
		return -1, why, -1, why
	}
	if res.Recv == nil || len(res.Params) == 0 || backing == nil {
		return -1, "receiver / buffer parameter / backing field not identified", -1, "receiver / buffer parameter / backing field not identified"
	}
	isOff := func(e *Event) bool {
		return e.Kind == EvCall && e.Callee != nil && e.Callee.Name() == sp.OffsetFn && e.Callee.Pkg() == res.Fn.Obj.Pkg()
	}
	buf := res.Params[0]
	argsV, winV = -1, -1
	argsWhy, winWhy = "no path calls "+sp.OffsetFn, "no path moves bytes"
	setA := func(v int, why string) {
		if argsV != 0 {
			argsV, argsWhy = v, why
		}
	}
	setW := func(v int, why string) {
		if winV != 0 {
			winV, winWhy = v, why
		}
	}
	anyOff := false
	for _, t := range res.Traces {
		offs := t.Find(isOff)
		if len(offs) > 1 {
			setA(-1, "several calls of "+sp.OffsetFn+" on one path")
			continue
		}
		ev, many := transferCount(t)
		if many {
			setW(-1, "several transfers on one path")
			continue
		}
		if len(offs) == 0 {
			if ev != nil {
				setW(-1, "bytes are moved on a path that does not call "+sp.OffsetFn)
			}
			continue
		}
		o := offs[0]
		anyOff = true
		// (1) arguments
		okA := len(o.Args) == len(sp.Args) && len(o.Results) == 2
		for k := 0; okA && k < len(sp.Args); k++ {
			want := (*Val)(nil)
			var kind, name string
			if i := strings.IndexByte(sp.Args[k], ':'); i > 0 {
				kind, name = sp.Args[k][:i], sp.Args[k][i+1:]
			}
			switch kind {
			case "len":
				if idx := atoiSmall(name); idx < len(res.Params) {
					want = VLenOf(res.Params[idx])
				}
			case "param":
				if idx := atoiSmall(name); idx < len(res.Params) {
					want = res.Params[idx]
				}
			case "field":
				want = FieldAtEntry(res.Recv, fieldOfType(res.Recv.T, name))
			}
			if want == nil || o.Args[k] == nil || !(o.Args[k].Key() == want.Key() || LinEqual(o.Args[k], want)) {
				okA = false
			}
		}
		if okA {
			setA(1, "")
		} else {
			var got []string
			for _, a := range o.Args {
				got = append(got, a.Key())
			}
			setA(0, "found "+sp.OffsetFn+"("+strings.Join(got, ", ")+")")
		}
		if ev == nil || len(o.Results) != 2 {
			continue
		}
		// (2) window
		maxlen, offset := o.Results[0], o.Results[1]
		isBacking := func(v *Val) bool { return v != nil && v.K == VLeaf && v.Leaf.Kind == LField && v.Leaf.Field == backing }
		// caller side: 1 = the buffer as is, 2 = buffer[:maxlen], 0 = wrong bound, -1 unknown
		caller := func(v *Val) int {
			switch {
			case v == nil:
				return -1
			case v.Key() == buf.Key():
				return 1
			case v.K == VSlice && v.X.Key() == buf.Key():
				if v.Y == nil && v.Z != nil && LinEqual(v.Z, maxlen) {
					return 2
				}
				return 0
			}
			return -1
		}
		// store side: 1 = [offset:offset+maxlen], 2 = [offset:], 0 = wrong bounds, -1 unknown
		store := func(v *Val) int {
			if v == nil || v.K != VSlice || !isBacking(v.X) {
				return -1
			}
			lo := v.Y
			if lo == nil {
				lo = VInt(0)
			}
			if !LinEqual(lo, offset) {
				return 0
			}
			if v.Z == nil {
				return 2
			}
			if LinEqual(VSub(v.Z, lo), maxlen) {
				return 1
			}
			return 0
		}
		switch {
		case ev.Builtin == "copy" && len(ev.Args) == 2:
			dst, src := ev.Args[0], ev.Args[1]
			cs, ss := caller(dst), store(src)
			if !sp.Read {
				cs, ss = caller(src), store(dst)
			}
			switch {
			case ss == 1 && (cs == 1 || cs == 2), ss == 2 && cs == 2:
				setW(1, "")
			case ss == 0 || cs == 0:
				setW(0, fmt.Sprintf("found copy(%s, %s) with maxlen=%s offset=%s", dst, src, maxlen, offset))
			default:
				setW(-1, fmt.Sprintf("cannot relate copy(%s, %s) to the window", dst, src))
			}
		case ev.Callee != nil && len(ev.Args) == 2:
			wantName := "WriteAt"
			if sp.Read {
				wantName = "ReadAt"
			}
			cs := caller(ev.Args[0])
			switch {
			case ev.Callee.Name() != wantName:
				setW(0, "the transfer is a "+ev.Callee.Name()+" call")
			case !isBacking(ev.Recv):
				setW(-1, "the file operated on is not the backing field")
			case cs == 2 && LinEqual(ev.Args[1], offset):
				setW(1, "")
			case cs == 1 || cs == 0 || cs == 2:
				setW(0, fmt.Sprintf("found %s(%s, %s) with maxlen=%s offset=%s", ev.Callee.Name(), ev.Args[0], ev.Args[1], maxlen, offset))
			default:
				setW(-1, fmt.Sprintf("cannot relate %s(%s, %s) to the window", ev.Callee.Name(), ev.Args[0], ev.Args[1]))
			}
		default:
			setW(-1, "unrecognised transfer")
		}
	}
	if !anyOff {
		// no call at all: the ring arithmetic is not delegated to the checked helper
		argsV, argsWhy = 0, "no call of "+sp.OffsetFn+" is reachable"
	}
	return
}

func atoiSmall(s string) int {
	n := 0
	for _, c := range s {
		if c < '0' || c > '9' {
			return 1 << 20
		}
		n = n*10 + int(c-'0')
	}
	return n
}

// HoldsBefore: wherever the offset helper is called ("roffset call") or bytes
// are moved ("storage read"), the facts of the path imply `want`. It returns a
// verdict per site kind.
func HoldsBefore(res *SymResult, offsetFn string, want *Val) (offV, xferV int) {
	if ok, _ := res.Usable(); !ok {
		return -1, -1
	}
	offV, xferV = -1, -1
	for _, t := range res.Traces {
		for _, e := range t.Events {
			isOff := e.Kind == EvCall && e.Callee != nil && e.Callee.Name() == offsetFn && e.Callee.Pkg() == res.Fn.Obj.Pkg()
			if !isOff && !isTransfer(e) {
				continue
			}
			ok := t.FactsAt(e).Holds(want)
			v := &xferV
			if isOff {
				v = &offV
			}
			if !ok {
				*v = 0
			} else if *v == -1 {
				*v = 1
			}
		}
	}
	return
}

// NeverStores: no path assigns the receiver's field `name`.
func NeverStores(res *SymResult, name string) (int, string) {
	if ok, why := res.Usable(); !ok {
		return -1, why
	}
	for _, t := range res.Traces {
		for _, e := range t.Events {
			if IsStoreTo(e, name) && res.Recv != nil && e.Base.Key() == res.Recv.Key() {
				return 0, "a path assigns " + name
			}
		}
	}
	return 1, ""
}
