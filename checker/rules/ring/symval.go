package ring

// Symbolic values and the fact base of the path engine (see sym.go).
//
// A Val is an expression over leaves that do not change along a path: the
// initial value of a parameter, the value a struct field had when it was read
// (fields are versioned: a call that may write the field, or a Cond.Wait that
// releases the lock, starts a new version), result #k of the i-th execution of
// an opaque call, a package-level variable, an object allocated on the path.
// Local variables never appear in a Val: they are replaced by what they hold.
// Facts are atomic boolean Vals with a truth value; because leaves are
// immutable, a fact never has to be killed.

import (
	"fmt"
	"go/ast"
	"go/token"
	"go/types"
	"sort"
	"strings"
)

// VK is the kind of a Val.
type VK int

const (
	VConst VK = iota // integer constant Int
	VLit             // other constant, Str is its exact representation
	VNil
	VBool  // B
	VLeaf  // Leaf
	VBin   // X Op Y
	VUn    // Op X
	VLen   // len(X) (Str == "cap" for cap)
	VSlice // X[Y:Z]
	VIndex // X[Y]
	VAddr  // &X, X a VRef or VObj
	VRef   // an addressable place: field F of base X, or local variable Obj
	VObj   // object allocated on this path (composite literal, new); Leaf names it
	VWrap  // Fn(X) for a verified nil-preserving error wrapper
	VCall  // pure term Str(Args...) (conversion to a non-integer type, min, max)
	VFunc  // function value (Fn or Lit)
	VList  // slice / array literal with known elements Args
)

// LeafKind classifies leaves.
type LeafKind int

const (
	LParam   LeafKind = iota // initial value of a root parameter / receiver
	LField                   // value of field F of Base at version Ver
	LResult                  // result Idx of the Seq-th opaque call on the path
	LGlobal                  // package-level variable
	LObject                  // allocated object
	LUnknown                 // anything the engine does not model
)

// Leaf is an immutable unknown.
type Leaf struct {
	Kind  LeafKind
	Name  string // unique key
	Obj   types.Object
	Field *types.Var
	Base  *Val
	Ver   int
	Call  *ast.CallExpr
	Fn    *types.Func
	Seq   int
	Idx   int
	T     types.Type
	Pos   token.Pos
}

// Val is a symbolic value.
type Val struct {
	K    VK
	Op   token.Token
	Int  int64
	Str  string
	B    bool
	Leaf *Leaf
	X    *Val
	Y    *Val
	Z    *Val
	Args []*Val
	Fn   *types.Func
	Lit  *ast.FuncLit
	Obj  types.Object
	F    *types.Var
	T    types.Type
	key  string
}

// constructors

func VInt(k int64) *Val    { return &Val{K: VConst, Int: k} }
func VNilV() *Val          { return &Val{K: VNil} }
func VBoolV(b bool) *Val   { return &Val{K: VBool, B: b} }
func VLeafOf(l *Leaf) *Val { return &Val{K: VLeaf, Leaf: l, T: l.T} }

// VCmp builds the comparison x op y.
func VCmp(op token.Token, x, y *Val) *Val { return &Val{K: VBin, Op: op, X: x, Y: y} }

// VLenOf builds len(x), simplifying slices: len(x[a:b]) = b-a, len(x[a:]) = len(x)-a.
func VLenOf(x *Val) *Val {
	if x != nil && x.K == VList {
		return VInt(int64(len(x.Args)))
	}
	if x != nil && x.K == VSlice {
		lo, hi := x.Y, x.Z
		if lo == nil {
			lo = VInt(0)
		}
		if hi == nil {
			hi = VLenOf(x.X)
		}
		return simplifyArith(&Val{K: VBin, Op: token.SUB, X: hi, Y: lo})
	}
	if x != nil && x.K == VLit && strings.HasPrefix(x.Str, "\"") {
		if s, err := strconvUnquote(x.Str); err == nil {
			return VInt(int64(len(s)))
		}
	}
	return &Val{K: VLen, X: x}
}

// simplifyArith folds an integer expression whose linear form is a constant or
// a single atom with coefficient 1.
func simplifyArith(v *Val) *Val {
	f := linOf(v)
	if len(f.coef) == 0 {
		return &Val{K: VConst, Int: f.c, T: v.T}
	}
	if len(f.coef) == 1 && f.c == 0 {
		for k, c := range f.coef {
			if c == 1 {
				if a := f.atom[k]; a != nil {
					return a
				}
			}
		}
	}
	return v
}

var commutative = map[token.Token]bool{token.ADD: true, token.MUL: true, token.EQL: true, token.NEQ: true,
	token.AND: true, token.OR: true, token.XOR: true, token.LAND: true, token.LOR: true}

// Key is a canonical string: two Vals with the same key denote the same value.
func (v *Val) Key() string {
	if v == nil {
		return "<none>"
	}
	if v.key != "" {
		return v.key
	}
	var s string
	switch v.K {
	case VConst:
		s = fmt.Sprint(v.Int)
	case VLit:
		s = v.Str
	case VNil:
		s = "nil"
	case VBool:
		s = fmt.Sprint(v.B)
	case VLeaf:
		s = v.Leaf.Name
	case VBin:
		a, b := v.X.Key(), v.Y.Key()
		if commutative[v.Op] && b < a {
			a, b = b, a
		}
		s = "(" + a + " " + v.Op.String() + " " + b + ")"
	case VUn:
		s = v.Op.String() + v.X.Key()
	case VLen:
		if v.Str == "cap" {
			s = "cap(" + v.X.Key() + ")"
		} else {
			s = "len(" + v.X.Key() + ")"
		}
	case VSlice:
		s = v.X.Key() + "["
		if v.Y != nil {
			s += v.Y.Key()
		}
		s += ":"
		if v.Z != nil {
			s += v.Z.Key()
		}
		s += "]"
	case VIndex:
		s = v.X.Key() + "[" + v.Y.Key() + "]"
	case VAddr:
		s = "&" + v.X.Key()
	case VRef:
		if v.F != nil {
			s = "ref(" + v.X.Key() + "." + v.F.Name() + ")"
		} else {
			s = fmt.Sprintf("ref(%s@%p)", v.Obj.Name(), v.Obj)
		}
	case VObj:
		s = v.Leaf.Name
	case VWrap:
		s = v.Fn.Name() + "(" + v.X.Key() + ")"
	case VCall:
		var parts []string
		for _, a := range v.Args {
			parts = append(parts, a.Key())
		}
		s = v.Str + "(" + strings.Join(parts, ",") + ")"
	case VList:
		var parts []string
		for _, a := range v.Args {
			parts = append(parts, a.Key())
		}
		s = "[" + strings.Join(parts, ",") + "]"
	case VFunc:
		if v.Fn != nil {
			s = "func:" + v.Fn.FullName()
		} else {
			s = fmt.Sprintf("func@%d", v.Lit.Pos())
		}
	}
	v.key = s
	return s
}

// String renders a Val for messages (leaf names are already readable).
func (v *Val) String() string { return v.Key() }

// Unwrap strips verified error wrappers: Trace(x) -> x.
func (v *Val) Unwrap() *Val {
	for v != nil && v.K == VWrap {
		v = v.X
	}
	return v
}

// IsLeafKind reports whether v is a leaf of the given kind.
func (v *Val) IsLeafKind(k LeafKind) bool { return v != nil && v.K == VLeaf && v.Leaf.Kind == k }

// IsFieldLeaf reports whether v is the value read from a field with this name.
func (v *Val) IsFieldLeaf(name string) bool {
	return v != nil && v.K == VLeaf && v.Leaf.Kind == LField && v.Leaf.Field.Name() == name
}

// IsResultOf reports whether v is result #idx of the opaque call event ev.
func (v *Val) IsResultOf(ev *Event, idx int) bool {
	return v != nil && ev != nil && idx < len(ev.Results) && v.Key() == ev.Results[idx].Key()
}

// IsGlobal reports whether v is the package-level variable pkgSuffix.name
// (pkgSuffix matches the end of the package path, e.g. "io").
func (v *Val) IsGlobal(pkgSuffix, name string) bool {
	if v == nil || v.K != VLeaf || v.Leaf.Kind != LGlobal || v.Leaf.Obj == nil || v.Leaf.Obj.Name() != name {
		return false
	}
	p := v.Leaf.Obj.Pkg()
	return p != nil && (p.Path() == pkgSuffix || strings.HasSuffix(p.Path(), "/"+pkgSuffix))
}

// Mentions reports whether v contains a sub-value accepted by pred.
func (v *Val) Mentions(pred func(*Val) bool) bool {
	if v == nil {
		return false
	}
	if pred(v) {
		return true
	}
	if v.X.Mentions(pred) || v.Y.Mentions(pred) || v.Z.Mentions(pred) {
		return true
	}
	for _, a := range v.Args {
		if a.Mentions(pred) {
			return true
		}
	}
	return false
}

// ---------------------------------------------------------------------------
// linear forms over Vals

type form struct {
	coef map[string]int64
	atom map[string]*Val
	c    int64
}

func linOf(v *Val) form {
	f := form{coef: map[string]int64{}, atom: map[string]*Val{}}
	linAdd(v, 1, &f)
	for k, c := range f.coef {
		if c == 0 {
			delete(f.coef, k)
			delete(f.atom, k)
		}
	}
	return f
}

func linAdd(v *Val, k int64, f *form) {
	if v == nil {
		return
	}
	switch v.K {
	case VConst:
		f.c += k * v.Int
		return
	case VBin:
		switch v.Op {
		case token.ADD:
			linAdd(v.X, k, f)
			linAdd(v.Y, k, f)
			return
		case token.SUB:
			linAdd(v.X, k, f)
			linAdd(v.Y, -k, f)
			return
		case token.MUL:
			if v.Y.K == VConst {
				linAdd(v.X, k*v.Y.Int, f)
				return
			}
			if v.X.K == VConst {
				linAdd(v.Y, k*v.X.Int, f)
				return
			}
		case token.SHL:
			if v.Y.K == VConst && v.Y.Int >= 0 && v.Y.Int < 62 {
				linAdd(v.X, k*(1<<uint(v.Y.Int)), f)
				return
			}
		}
	case VUn:
		switch v.Op {
		case token.SUB:
			linAdd(v.X, -k, f)
			return
		case token.ADD:
			linAdd(v.X, k, f)
			return
		}
	}
	key := v.Key()
	f.coef[key] += k
	f.atom[key] = v
}

func (a form) sub(b form) form {
	f := form{coef: map[string]int64{}, atom: map[string]*Val{}, c: a.c - b.c}
	for k, c := range a.coef {
		f.coef[k] += c
		f.atom[k] = a.atom[k]
	}
	for k, c := range b.coef {
		f.coef[k] -= c
		f.atom[k] = b.atom[k]
	}
	for k, c := range f.coef {
		if c == 0 {
			delete(f.coef, k)
			delete(f.atom, k)
		}
	}
	return f
}

// sameCoef: 1 when the coefficient vectors are equal, -1 when a = -b, 0 otherwise.
func sameCoef(a, b form) int {
	if len(a.coef) != len(b.coef) || len(a.coef) == 0 {
		return 0
	}
	pos, neg := true, true
	for k, c := range a.coef {
		d, ok := b.coef[k]
		if !ok {
			return 0
		}
		if c != d {
			pos = false
		}
		if c != -d {
			neg = false
		}
	}
	switch {
	case pos:
		return 1
	case neg:
		return -1
	}
	return 0
}

func (a form) String() string {
	var ks []string
	for k := range a.coef {
		ks = append(ks, k)
	}
	sort.Strings(ks)
	var parts []string
	for _, k := range ks {
		parts = append(parts, fmt.Sprintf("%+d*%s", a.coef[k], k))
	}
	parts = append(parts, fmt.Sprintf("%+d", a.c))
	return strings.Join(parts, " ")
}

// LinEqual reports whether a and b are the same integer expression up to
// linear arithmetic (a - b == 0 identically).
func LinEqual(a, b *Val) bool {
	d := linOf(a).sub(linOf(b))
	return len(d.coef) == 0 && d.c == 0
}

// LinDiff returns the constant a - b when the difference is a constant.
func LinDiff(a, b *Val) (int64, bool) {
	d := linOf(a).sub(linOf(b))
	return d.c, len(d.coef) == 0
}

// ---------------------------------------------------------------------------
// facts

// Fact is an atomic boolean Val with the truth value established for it.
type Fact struct {
	A   *Val
	V   bool
	Pos token.Pos
}

func (f Fact) String() string {
	if f.V {
		return f.A.Key()
	}
	return "!(" + f.A.Key() + ")"
}

// interval with optional bounds and excluded points
type ival struct {
	lo, hi       int64
	hasLo, hasHi bool
	ne           []int64
}

func (a *ival) meetLo(x int64) {
	if !a.hasLo || x > a.lo {
		a.lo, a.hasLo = x, true
	}
}
func (a *ival) meetHi(x int64) {
	if !a.hasHi || x < a.hi {
		a.hi, a.hasHi = x, true
	}
}

func isIntegerT(t types.Type) bool {
	if t == nil {
		return false
	}
	b, ok := t.Underlying().(*types.Basic)
	return ok && b.Info()&types.IsInteger != 0
}

func isUnsignedT(t types.Type) bool {
	if t == nil {
		return false
	}
	b, ok := t.Underlying().(*types.Basic)
	return ok && b.Info()&types.IsUnsigned != 0
}

var cmpOps = map[token.Token]bool{token.EQL: true, token.NEQ: true, token.LSS: true, token.LEQ: true, token.GTR: true, token.GEQ: true}

var negOp = map[token.Token]token.Token{token.EQL: token.NEQ, token.NEQ: token.EQL, token.LSS: token.GEQ,
	token.GEQ: token.LSS, token.GTR: token.LEQ, token.LEQ: token.GTR}

// integerish: the comparison is between integers (as far as the engine knows).
func integerish(v *Val) bool {
	if v == nil {
		return false
	}
	switch v.K {
	case VConst, VLen:
		return true
	case VNil, VBool, VLit, VAddr, VObj, VWrap, VFunc, VRef:
		return false
	case VBin:
		switch v.Op {
		case token.ADD, token.SUB, token.MUL, token.QUO, token.REM, token.SHL, token.SHR, token.AND, token.OR, token.XOR, token.AND_NOT:
			return v.T == nil || isIntegerT(v.T)
		}
		return false
	}
	return isIntegerT(v.T)
}

// Facts is the fact base of one path.
type Facts []Fact

// factBound turns an integer comparison fact into a bound on the sum of the
// coefficients of its form g (g without its constant): ok is false for other facts.
func factBound(ft Fact) (g form, iv ival, ok bool) {
	a := ft.A
	if a.K != VBin || !cmpOps[a.Op] || !integerish(a.X) && !integerish(a.Y) {
		return g, iv, false
	}
	if a.X.K == VNil || a.Y.K == VNil {
		return g, iv, false
	}
	g = linOf(a.X).sub(linOf(a.Y)) // g op 0
	if len(g.coef) == 0 {
		return g, iv, false
	}
	op := a.Op
	if !ft.V {
		op = negOp[op]
	}
	k := -g.c // sum_g op k
	switch op {
	case token.EQL:
		iv.meetLo(k)
		iv.meetHi(k)
	case token.NEQ:
		iv.ne = append(iv.ne, k)
	case token.LSS:
		iv.meetHi(k - 1)
	case token.LEQ:
		iv.meetHi(k)
	case token.GTR:
		iv.meetLo(k + 1)
	case token.GEQ:
		iv.meetLo(k)
	}
	return g, iv, true
}

func (a ival) neg() ival {
	r := ival{lo: -a.hi, hi: -a.lo, hasLo: a.hasHi, hasHi: a.hasLo}
	for _, n := range a.ne {
		r.ne = append(r.ne, -n)
	}
	return r
}

func (a *ival) meet(b ival) {
	if b.hasLo {
		a.meetLo(b.lo)
	}
	if b.hasHi {
		a.meetHi(b.hi)
	}
	a.ne = append(a.ne, b.ne...)
}

// subVector: every coefficient of g occurs in f with the same value (sign +1)
// or the opposite value (sign -1), and f has more atoms than g.
func subVector(g, f form) int {
	if len(g.coef) >= len(f.coef) || len(g.coef) == 0 {
		return 0
	}
	pos, neg := true, true
	for k, c := range g.coef {
		d, ok := f.coef[k]
		if !ok {
			return 0
		}
		if c != d {
			pos = false
		}
		if c != -d {
			neg = false
		}
	}
	switch {
	case pos:
		return 1
	case neg:
		return -1
	}
	return 0
}

// boundsOf derives an interval for the sum of coefficients of f (without its
// constant) from the facts.
func (fs Facts) boundsOf(f form, depth int) ival {
	var iv ival
	// facts over the same coefficient vector; facts over a part of it combined
	// with the bounds of the remainder
	for _, ft := range fs {
		g, b, ok := factBound(ft)
		if !ok {
			continue
		}
		if sc := sameCoef(g, f); sc != 0 {
			if sc < 0 {
				b = b.neg()
			}
			iv.meet(b)
			continue
		}
		if depth < 2 {
			if sv := subVector(g, f); sv != 0 {
				if sv < 0 {
					b = b.neg()
				}
				rest := form{coef: map[string]int64{}, atom: map[string]*Val{}}
				for k, c := range f.coef {
					if _, in := g.coef[k]; !in {
						rest.coef[k] = c
						rest.atom[k] = f.atom[k]
					}
				}
				rb := fs.boundsOf(rest, depth+1)
				var sum ival
				if b.hasLo && rb.hasLo {
					sum.lo, sum.hasLo = b.lo+rb.lo, true
				}
				if b.hasHi && rb.hasHi {
					sum.hi, sum.hasHi = b.hi+rb.hi, true
				}
				iv.meet(sum)
			}
		}
	}
	// two facts whose forms add up to f (one step of transitivity: a <= b, b < c gives a < c)
	if depth == 0 && len(f.coef) > 0 {
		type fb struct {
			g form
			b ival
		}
		var fbs []fb
		for _, ft := range fs {
			if g, b, ok := factBound(ft); ok && (b.hasLo || b.hasHi) {
				fbs = append(fbs, fb{g, b})
			}
		}
		for i := 0; i < len(fbs); i++ {
			for j := i + 1; j < len(fbs); j++ {
				for _, si := range []int64{1, -1} {
					for _, sj := range []int64{1, -1} {
						sum := form{coef: map[string]int64{}, atom: map[string]*Val{}}
						for k, c := range fbs[i].g.coef {
							sum.coef[k] += si * c
						}
						for k, c := range fbs[j].g.coef {
							sum.coef[k] += sj * c
						}
						for k, c := range sum.coef {
							if c == 0 {
								delete(sum.coef, k)
							}
						}
						if sameCoef(sum, f) != 1 {
							continue
						}
						bi, bj := fbs[i].b, fbs[j].b
						if si < 0 {
							bi = bi.neg()
						}
						if sj < 0 {
							bj = bj.neg()
						}
						var r ival
						if bi.hasLo && bj.hasLo {
							r.lo, r.hasLo = bi.lo+bj.lo, true
						}
						if bi.hasHi && bj.hasHi {
							r.hi, r.hasHi = bi.hi+bj.hi, true
						}
						iv.meet(r)
					}
				}
			}
		}
	}
	// intrinsic bounds of a single atom
	if len(f.coef) == 1 {
		for k, c := range f.coef {
			a := f.atom[k]
			if c == 1 && a != nil && (a.K == VLen || a.K == VLeaf && isUnsignedT(a.T)) {
				iv.meetLo(0)
			}
		}
	}
	// interval arithmetic over the atoms
	if len(f.coef) > 1 && depth < 2 {
		var sum ival
		sum.hasLo, sum.hasHi = true, true
		for k, c := range f.coef {
			one := form{coef: map[string]int64{k: 1}, atom: map[string]*Val{k: f.atom[k]}}
			b := fs.boundsOf(one, depth+1)
			lo, hi, hasLo, hasHi := b.lo*c, b.hi*c, b.hasLo, b.hasHi
			if c < 0 {
				lo, hi, hasLo, hasHi = b.hi*c, b.lo*c, b.hasHi, b.hasLo
			}
			if hasLo && sum.hasLo {
				sum.lo += lo
			} else {
				sum.hasLo = false
			}
			if hasHi && sum.hasHi {
				sum.hi += hi
			} else {
				sum.hasHi = false
			}
		}
		if sum.hasLo {
			iv.meetLo(sum.lo)
		}
		if sum.hasHi {
			iv.meetHi(sum.hi)
		}
	} else if len(f.coef) == 1 && depth < 2 {
		// k*a with |k| != 1: scale the atom's bounds
		for k, c := range f.coef {
			if c != 1 {
				one := form{coef: map[string]int64{k: 1}, atom: map[string]*Val{k: f.atom[k]}}
				b := fs.boundsOf(one, depth+1)
				lo, hi, hasLo, hasHi := b.lo*c, b.hi*c, b.hasLo, b.hasHi
				if c < 0 {
					lo, hi, hasLo, hasHi = b.hi*c, b.lo*c, b.hasHi, b.hasLo
				}
				if hasLo {
					iv.meetLo(lo)
				}
				if hasHi {
					iv.meetHi(hi)
				}
			}
		}
	}
	return iv
}

// decideInt decides `x op y` over the integers.
func (fs Facts) decideInt(op token.Token, x, y *Val) (bool, bool) {
	f := linOf(x).sub(linOf(y)) // f op 0 ; sum op -c
	var iv ival
	if len(f.coef) == 0 {
		iv.lo, iv.hi, iv.hasLo, iv.hasHi = 0, 0, true, true
	} else {
		iv = fs.boundsOf(f, 0)
	}
	k := -f.c // sum op k
	switch op {
	case token.EQL, token.NEQ:
		eq, known := false, false
		if iv.hasLo && iv.hasHi && iv.lo == iv.hi && iv.lo == k {
			eq, known = true, true
		} else if iv.hasLo && k < iv.lo || iv.hasHi && k > iv.hi {
			eq, known = false, true
		} else {
			for _, n := range iv.ne {
				if n == k {
					eq, known = false, true
				}
			}
		}
		if !known {
			return false, false
		}
		return eq == (op == token.EQL), true
	case token.LSS:
		if iv.hasHi && iv.hi < k {
			return true, true
		}
		if iv.hasLo && iv.lo >= k {
			return false, true
		}
	case token.LEQ:
		if iv.hasHi && iv.hi <= k {
			return true, true
		}
		if iv.hasLo && iv.lo > k {
			return false, true
		}
	case token.GTR:
		if iv.hasLo && iv.lo > k {
			return true, true
		}
		if iv.hasHi && iv.hi <= k {
			return false, true
		}
	case token.GEQ:
		if iv.hasLo && iv.lo >= k {
			return true, true
		}
		if iv.hasHi && iv.hi < k {
			return false, true
		}
	}
	return false, false
}

// Nil decides whether v is nil: (isNil, known).
func (fs Facts) Nil(v *Val) (bool, bool) {
	if v == nil {
		return false, false
	}
	switch v.K {
	case VNil:
		return true, true
	case VAddr, VObj, VFunc, VLit, VConst, VBool, VList:
		return false, true
	case VWrap:
		return fs.Nil(v.X)
	case VLeaf:
		if v.Leaf.Kind == LGlobal || v.Leaf.Kind == LObject {
			// package-level error values (io.EOF, ErrClosedBacklog ...) are never nil
			return false, true
		}
	}
	key := v.Key()
	for i := len(fs) - 1; i >= 0; i-- {
		a := fs[i].A
		if a.K != VBin || a.Op != token.EQL && a.Op != token.NEQ {
			continue
		}
		var other *Val
		if a.X.K == VNil {
			other = a.Y
		} else if a.Y.K == VNil {
			other = a.X
		} else {
			continue
		}
		if other.Key() == key {
			return (a.Op == token.EQL) == fs[i].V, true
		}
	}
	return false, false
}

// Decide evaluates a boolean Val under the facts: (value, known).
func (fs Facts) Decide(v *Val) (bool, bool) {
	if v == nil {
		return false, false
	}
	switch v.K {
	case VBool:
		return v.B, true
	case VUn:
		if v.Op == token.NOT {
			b, k := fs.Decide(v.X)
			return !b, k
		}
	case VBin:
		switch v.Op {
		case token.LAND:
			a, ka := fs.Decide(v.X)
			b, kb := fs.Decide(v.Y)
			if ka && !a || kb && !b {
				return false, true
			}
			return true, ka && kb
		case token.LOR:
			a, ka := fs.Decide(v.X)
			b, kb := fs.Decide(v.Y)
			if ka && a || kb && b {
				return true, true
			}
			return false, ka && kb
		}
		if cmpOps[v.Op] {
			if v.X.K == VNil || v.Y.K == VNil {
				if v.Op != token.EQL && v.Op != token.NEQ {
					return false, false
				}
				o := v.X
				if o.K == VNil {
					o = v.Y
				}
				n, k := fs.Nil(o)
				if !k {
					return false, false
				}
				return n == (v.Op == token.EQL), true
			}
			if integerish(v.X) || integerish(v.Y) {
				if b, k := fs.decideInt(v.Op, v.X, v.Y); k {
					return b, true
				}
			}
			if v.Op == token.EQL || v.Op == token.NEQ {
				if v.X.Key() == v.Y.Key() {
					return v.Op == token.EQL, true
				}
				if v.X.K == VBool && v.Y.K != VBool {
					b, k := fs.Decide(v.Y)
					return (b == v.X.B) == (v.Op == token.EQL), k
				}
				if v.Y.K == VBool && v.X.K != VBool {
					b, k := fs.Decide(v.X)
					return (b == v.Y.B) == (v.Op == token.EQL), k
				}
				// two distinct constants / distinct never-nil globals differ
				if distinctConst(v.X, v.Y) {
					return v.Op == token.NEQ, true
				}
			}
		}
	}
	// look the atom up
	key := v.Key()
	for i := len(fs) - 1; i >= 0; i-- {
		if fs[i].A.Key() == key {
			return fs[i].V, true
		}
		// x == y recorded, x != y asked (non-integer)
		a := fs[i].A
		if a.K == VBin && v.K == VBin && a.Op == negOp[v.Op] && cmpOps[a.Op] {
			if a.X.Key() == v.X.Key() && a.Y.Key() == v.Y.Key() || (a.Op == token.EQL || a.Op == token.NEQ) && a.X.Key() == v.Y.Key() && a.Y.Key() == v.X.Key() {
				return !fs[i].V, true
			}
		}
	}
	return false, false
}

func distinctConst(a, b *Val) bool {
	isC := func(v *Val) bool {
		return v.K == VConst || v.K == VLit || v.K == VLeaf && v.Leaf.Kind == LGlobal
	}
	return isC(a) && isC(b) && a.K == b.K && a.Key() != b.Key()
}

// Holds: the boolean Val is known to be true.
func (fs Facts) Holds(v *Val) bool { b, k := fs.Decide(v); return k && b }

// Refuted: the boolean Val is known to be false.
func (fs Facts) Refuted(v *Val) bool { b, k := fs.Decide(v); return k && !b }

// IsZero: the integer Val is known to be 0.
func (fs Facts) IsZero(v *Val) bool { return fs.Holds(VCmp(token.EQL, v, VInt(0))) }

// IsNil: the Val is known to be nil.
func (fs Facts) IsNil(v *Val) bool { n, k := fs.Nil(v); return k && n }

// NonNil: the Val is known not to be nil.
func (fs Facts) NonNil(v *Val) bool { n, k := fs.Nil(v); return k && !n }

// assume returns the alternative fact lists under which cond has truth value
// val, given the facts already established (nil: infeasible).
func (fs Facts) assume(cond *Val, val bool, pos token.Pos) []Facts {
	if cond == nil {
		return []Facts{fs}
	}
	switch cond.K {
	case VUn:
		if cond.Op == token.NOT {
			return fs.assume(cond.X, !val, pos)
		}
	case VBin:
		and := cond.Op == token.LAND
		if and || cond.Op == token.LOR {
			if and == val { // both operands have value val
				var out []Facts
				for _, a := range fs.assume(cond.X, val, pos) {
					out = append(out, a.assume(cond.Y, val, pos)...)
				}
				return out
			}
			// X has !.., or X has val' and Y ..: (and,false): X false | X true,Y false ; (or,true): X true | X false,Y true
			out := fs.assume(cond.X, val, pos)
			for _, a := range fs.assume(cond.X, !val, pos) {
				out = append(out, a.assume(cond.Y, val, pos)...)
			}
			return out
		}
	}
	if b, k := fs.Decide(cond); k {
		if b == val {
			return []Facts{fs}
		}
		return nil
	}
	n := make(Facts, len(fs), len(fs)+1)
	copy(n, fs)
	return []Facts{append(n, Fact{A: cond, V: val, Pos: pos})}
}

func strconvUnquote(s string) (string, error) {
	if len(s) >= 2 && s[0] == '"' && s[len(s)-1] == '"' {
		return s[1 : len(s)-1], nil
	}
	return "", fmt.Errorf("not a string")
}
