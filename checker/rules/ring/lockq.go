package ring

import (
	"go/types"

	"rscheck/core"
)

// HeldOnTraces answers "is <typ>.<mu> held whenever this function (helpers,
// closures and small helper types followed) touches guarded field `field`?"
// on the traces of fn. It is the fallback of GuardTable for accesses that go
// through a value the syntactic lock analysis cannot follow: a pointer to the
// field kept in a struct, a method value of the field's value stored in a
// context object. The lock state is read off the trace itself: Lock / Unlock
// calls on the mutex field of the same object, in the order they happen
// (deferred unlocks run at exit). For a field that never changes after
// construction only calls THROUGH its value count (reading it is not a race);
// for other fields every read and store counts.
// Returns 1 (held at every touch), 0 (a touch without the lock; witness), -1.
func HeldOnTraces(c *core.Ctx, fn *core.Fn, entryHeld bool, mu, field string, immutable bool) (int, []string, string) {
	res := RunSym(c, fn, &Sym{AllowCuts: true})
	if ok, why := res.Usable(); !ok {
		return -1, nil, why
	}
	if res.Recv == nil {
		return -1, nil, "not a method"
	}
	isMu := func(e *Event, name string) bool {
		return e.Kind == EvCall && e.Callee != nil && e.Callee.Name() == name && e.Callee.Pkg() != nil && e.Callee.Pkg().Path() == "sync" &&
			e.Recv.IsFieldLeaf(mu) && e.Recv.Leaf.Base != nil && e.Recv.Leaf.Base.Key() == res.Recv.Key()
	}
	touched := false
	for _, t := range res.Traces {
		held := entryHeld
		for _, e := range t.Events {
			switch {
			case isMu(e, "Lock"):
				held = true
				continue
			case isMu(e, "Unlock"):
				held = false
				continue
			}
			touch := false
			switch e.Kind {
			case EvRead, EvStore:
				touch = !immutable && e.Field.Name() == field && e.Base != nil && e.Base.Key() == res.Recv.Key()
			case EvCall:
				touch = e.Recv.IsFieldLeaf(field) && e.Recv.Leaf.Base != nil && e.Recv.Leaf.Base.Key() == res.Recv.Key()
			}
			if touch {
				touched = true
				if !held {
					return 0, t.Witness(c), ""
				}
			}
		}
	}
	if !touched {
		return 1, nil, ""
	}
	return 1, nil, ""
}

var _ = types.Typ
