package ring

import (
	"fmt"
	"go/types"

	"rscheck/core"
)

// HeldOnTraces answers "is <typ>.<mu> held whenever this function (helpers,
// closures and small helper types followed) touches guarded field `field`?"
// on the traces of fn. It is the fallback of GuardTable for accesses that go
// through a value the syntactic lock analysis cannot follow: a pointer to the
// field kept in a struct, a method value of the field's value stored in a
// context object. The lock state is read off the trace itself: Lock / Unlock
// calls on the mutex field of the same object, in the order they happen
// (deferred unlocks run at exit). For a field that never changes after
// construction only calls THROUGH its value count (reading it is not a race);
// for other fields every read and store counts.
// Returns 1 (held at every touch), 0 (a touch without the lock; witness), -1.
func HeldOnTraces(c *core.Ctx, fn *core.Fn, entryHeld bool, mu, field string, immutable bool) (int, []string, string) {
	res := RunSym(c, fn, &Sym{AllowCuts: true})
	if ok, why := res.Usable(); !ok {
		return -1, nil, why
	}
	if res.Recv == nil {
		return -1, nil, "not a method"
	}
	isMu := func(e *Event, name string) bool {
		return e.Kind == EvCall && e.Callee != nil && e.Callee.Name() == name && e.Callee.Pkg() != nil && e.Callee.Pkg().Path() == "sync" &&
			e.Recv.IsFieldLeaf(mu) && e.Recv.Leaf.Base != nil && e.Recv.Leaf.Base.Key() == res.Recv.Key()
	}
	touched := false
	for _, t := range res.Traces {
		held := entryHeld
		for _, e := range t.Events {
			switch {
			case isMu(e, "Lock"):
				held = true
				continue
			case isMu(e, "Unlock"):
				held = false
				continue
			}
			touch := false
			switch e.Kind {
			case EvRead, EvStore:
				touch = !immutable && e.Field.Name() == field && e.Base != nil && e.Base.Key() == res.Recv.Key()
			case EvCall:
				touch = e.Recv.IsFieldLeaf(field) && e.Recv.Leaf.Base != nil && e.Recv.Leaf.Base.Key() == res.Recv.Key()
			}
			if touch {
				touched = true
				if !held {
					return 0, t.Witness(c), ""
				}
			}
		}
	}
	if !touched {
		return 1, nil, ""
	}
	return 1, nil, ""
}

// Sections labels every event of a trace with the critical section of
// <recv>.<mu> it executes in: 0 = the lock is not held, k > 0 = the k-th
// Lock..Unlock span of the path (deferred unlocks run at exit, where the
// engine records them). entryHeld: the function starts with the lock held.
func Sections(t *Trace, recv *Val, mu string, entryHeld bool) []int {
	sec := make([]int, len(t.Events))
	cur, n := 0, 0
	if entryHeld {
		cur, n = 1, 1
	}
	isMu := func(e *Event, name string) bool {
		return e.Kind == EvCall && e.Callee != nil && e.Callee.Name() == name && e.Callee.Pkg() != nil && e.Callee.Pkg().Path() == "sync" &&
			e.Recv.IsFieldLeaf(mu) && recv != nil && e.Recv.Leaf.Base != nil && e.Recv.Leaf.Base.Key() == recv.Key()
	}
	for i, e := range t.Events {
		switch {
		case isMu(e, "Lock"):
			n++
			cur = n
		case isMu(e, "Unlock"):
			sec[i] = cur
			cur = 0
			continue
		}
		sec[i] = cur
	}
	return sec
}

// PublishedUnderLock checks the condition-variable discipline for a state
// change that sleepers' predicates depend on (closing the store, setting the
// close error): the change happens with the lock held, and a wake-up on
// `cond` either follows it or sits in the same critical section. Otherwise a
// sleeper woken by the broadcast can re-acquire the lock, find the old state
// and go back to sleep, with no wake-up left to come (lost wake-up).
// change / wake select the events. Returns 1, 0 (witness trace) or -1 when
// the trace has no such change.
func PublishedUnderLock(t *Trace, recv *Val, mu string, change, wake func(*Event) bool) int {
	sec := Sections(t, recv, mu, false)
	seen := false
	for i, e := range t.Events {
		if !change(e) {
			continue
		}
		seen = true
		if sec[i] == 0 {
			return 0
		}
		ok := false
		for j, w := range t.Events {
			if wake(w) && (j > i || sec[j] == sec[i]) {
				ok = true
			}
		}
		if !ok {
			return 0
		}
	}
	if !seen {
		return -1
	}
	return 1
}

// GuardOnTraces is the trace-level complement of GuardTable: for every method
// of typ that starts without the lock, on every path, each read / store of a
// guarded field that can change, and each call THROUGH the value of any
// guarded field (also when that value was copied into a local under the lock
// and is used after the Unlock), executes with <typ>.<mu> held. One obligation
// per method: <rule>/<method>.
func GuardOnTraces(c *core.Ctx, rule, pkgPath, typ, mu string, guarded []string, immutable map[string]bool) {
	ls := LockHeld(c, pkgPath, typ, mu)
	pk := c.Pkg(pkgPath)
	info := pk.TypesInfo
	pc := CallsIn(c, pkgPath)
	isG := map[string]bool{}
	for _, g := range guarded {
		isG[g] = true
	}
	for i, b := range ls.Bodies {
		if b.Lit != nil || b.Decl.Recv == nil || ls.Entry[i] {
			continue
		}
		fo, _ := info.Defs[b.Decl.Name].(*types.Func)
		if fo == nil || !pc.Referenced(fo) || core.NamedTypeName(recvT(fo)) != typ {
			continue
		}
		if pc.Internal(fo) {
			continue // an internal helper is walked as part of its callers, with its real arguments
		}
		fn := c.FnOf(fo)
		if fn == nil {
			continue
		}
		res := RunSym(c, fn, &Sym{AllowCuts: true})
		key := b.Name
		if ok, why := res.Usable(); !ok || res.Recv == nil {
			c.Undecidedf(rule, key, b.Decl.Pos(), "%s", why)
			continue
		}
		var bad *Trace
		what := ""
		for _, t := range res.Traces {
			sec := Sections(t, res.Recv, mu, false)
			for j, e := range t.Events {
				own := func(v *Val) bool {
					return v != nil && v.K == VLeaf && v.Leaf.Kind == LField && isG[v.Leaf.Field.Name()] && v.Leaf.Base != nil && v.Leaf.Base.Key() == res.Recv.Key() &&
						core.NamedTypeName(v.Leaf.Base.T) == typ
				}
				touch := ""
				switch e.Kind {
				case EvRead, EvStore:
					if isG[e.Field.Name()] && !immutable[e.Field.Name()] && e.Base != nil && e.Base.Key() == res.Recv.Key() && core.NamedTypeName(e.Base.T) == typ {
						touch = "access to " + e.Field.Name()
					}
				case EvCall:
					if own(e.Recv) && !e.Go {
						touch = "call through " + e.Recv.Leaf.Field.Name()
					}
				}
				if touch != "" && sec[j] == 0 && bad == nil {
					bad, what = t, touch
				}
			}
		}
		if bad != nil {
			c.Check(rule, key, b.Decl.Pos(), false, fmt.Sprintf("%s executes a %s without %s.%s held on some path (a value copied out of the guarded field under the lock and used after the Unlock counts)", b.Name, what, typ, mu), bad.Witness(c)...)
		} else {
			c.Okf(rule, key, b.Decl.Pos(), "every path of %s touches the guarded state of %s only with %s held", b.Name, typ, mu)
		}
	}
}
