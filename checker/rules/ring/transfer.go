package ring

import (
	"fmt"
	"go/ast"
	"go/token"
	"go/types"
	"strings"

	"rscheck/cfgq"
	"rscheck/core"
	"rscheck/flow"
	"rscheck/lin"
	"rscheck/pat"
)

// TransferSpec describes one ring store operation (readSome/writeSome of a
// pipe or backlog buffer): it asks an offset helper for (maxlen, offset),
// moves exactly the window [offset, offset+maxlen) between the backing store
// and the front of the caller's buffer, and advances one position by the
// number of bytes moved. The check follows values (package flow), so helper
// extraction, temporaries and re-spelled arithmetic do not change it.
type TransferSpec struct {
	Rule      string   // obligation rule
	Key       string   // key prefix, e.g. "memBuffer.readSome"
	OffsetFn  string   // "roffset" / "woffset" (package function)
	Args      []string // expected arguments of the offset helper as patterns over _b (buffer), _p (receiver) and the named parameters (_<name>)
	ArgsDesc  string
	Read      bool     // true: store -> buffer, false: buffer -> store
	Advance   string   // position field that advances by the transfer count ("" = none)
	Frozen    []string // position fields that must not be written at all
	ArgsKey   string
	WindowKey string
	WindowMsg string
	AdvKey    string
	AdvMsg    string
}

// TransferResult gives the caller the sites found, for further rules.
type TransferResult struct {
	E        *flow.Engine
	G        *cfgq.Graph
	Offset   *flow.CallSite // the offset helper call
	Transfer *flow.Site     // where the bytes move
	Call     *ast.CallExpr  // the copy / ReadAt / WriteAt call
	Binds    pat.Binds      // _b, _p and parameters
}

// Transfer runs the check on fn and returns what it located (nil when the
// offset call was not found).
func Transfer(c *core.Ctx, fn *core.Fn, sp TransferSpec) *TransferResult {
	info := fn.Pkg.TypesInfo
	g := cfgq.Of(c.Program, fn)
	e := flow.New(c.Program)
	e.Opaque = func(f *types.Func) bool {
		return f.Name() == "roffset" || f.Name() == "woffset"
	}
	binds := pat.Binds{}
	if r := fn.Decl.Recv; r != nil && len(r.List) == 1 && len(r.List[0].Names) == 1 {
		binds["_p"] = r.List[0].Names[0]
	}
	i := 0
	for _, fl := range fn.Decl.Type.Params.List {
		for _, nm := range fl.Names {
			if i == 0 {
				binds["_b"] = nm
			}
			binds["_"+nm.Name] = nm
			i++
		}
	}
	res := &TransferResult{E: e, G: g, Binds: binds}
	chk := func(key string, ok bool, msg string) {
		c.Check(sp.Rule, sp.Key+"/"+key, fn.Decl.Pos(), ok, msg)
	}
	und := func(key, format string, a ...interface{}) {
		c.Undecidedf(sp.Rule, sp.Key+"/"+key, fn.Decl.Pos(), format, a...)
	}

	// 1. the offset helper
	offs := e.Calls(g, fn.Decl.Body, func(f *types.Func) bool {
		return f.Name() == sp.OffsetFn && f.Pkg() == fn.Obj.Pkg()
	})
	if len(offs) != 1 {
		if len(offs) == 0 {
			// no call at all: the ring arithmetic is not delegated to the checked helper
			chk(sp.ArgsKey, false, fmt.Sprintf("calls %s with the arguments in parameter order; no call of %s is reachable from %s", sp.ArgsDesc, sp.OffsetFn, fn.Decl.Name.Name))
		} else {
			und(sp.ArgsKey, "%d calls of %s", len(offs), sp.OffsetFn)
		}
		return nil
	}
	off := offs[0]
	res.Offset = &off
	okArgs := len(off.Call.Args) == len(sp.Args)
	if okArgs {
		for k, want := range sp.Args {
			got := e.Resolve(off.Site, off.Call.Args[k])
			if pat.Expr(want).Match(info, got, binds) == nil {
				okArgs = false
			}
		}
	}
	chk(sp.ArgsKey, okArgs, "calls "+sp.ArgsDesc+" with the arguments in parameter order")

	// 2. the transfer
	isRes := func(s flow.Site, x ast.Expr, k int) bool {
		return flow.IsResult(info, e.Resolve(s, x), off.Call, k)
	}
	window := func(s flow.Site, x ast.Expr) (store ast.Expr, ok bool) { // store[offset:offset+maxlen]
		sl, isSl := ast.Unparen(e.Resolve(s, x)).(*ast.SliceExpr)
		if !isSl || sl.Low == nil || sl.High == nil || sl.Max != nil {
			return nil, false
		}
		if !flow.IsResult(info, sl.Low, off.Call, 1) {
			return nil, false
		}
		// high - low == maxlen
		d := lin.Combo(info, 0, 1, sl.High, -1, sl.Low)
		if len(d.Coef) != 1 || d.Const != 0 {
			return nil, false
		}
		for k, v := range d.Coef {
			if v != 1 || !strings.HasPrefix(k, sp.OffsetFn+"@") || strings.HasSuffix(k, "[1]") {
				return nil, false
			}
		}
		return sl.X, true
	}
	front := func(s flow.Site, x ast.Expr) bool { // b or b[:maxlen]
		r := ast.Unparen(e.Resolve(s, x))
		if pat.Same(info, r, binds["_b"]) {
			return true
		}
		sl, isSl := r.(*ast.SliceExpr)
		if !isSl || sl.Low != nil || sl.High == nil || !pat.Same(info, ast.Unparen(sl.X), binds["_b"]) {
			return false
		}
		return flow.IsResult(info, sl.High, off.Call, 0)
	}
	var found []struct {
		s    flow.Site
		call *ast.CallExpr
		ok   bool
	}
	e.Walk(g, fn.Decl.Body, func(s flow.Site, n ast.Node) {
		call, ok := n.(*ast.CallExpr)
		if !ok {
			return
		}
		ci := s.G.Info
		if bi, isB := core.Callee(ci, call).(*types.Builtin); isB && bi.Name() == "copy" && len(call.Args) == 2 {
			dst, src := call.Args[0], call.Args[1]
			var okW bool
			if sp.Read {
				_, w := window(s, src)
				okW = w && front(s, dst)
			} else {
				_, w := window(s, dst)
				okW = w && front(s, src)
			}
			found = append(found, struct {
				s    flow.Site
				call *ast.CallExpr
				ok   bool
			}{s, call, okW})
			return
		}
		if sel, isSel := ast.Unparen(call.Fun).(*ast.SelectorExpr); isSel && len(call.Args) == 2 {
			if sp.Read && sel.Sel.Name == "ReadAt" || !sp.Read && sel.Sel.Name == "WriteAt" {
				okW := front(s, call.Args[0]) && isRes(s, call.Args[1], 1)
				if okW {
					// the slice must be bounded by maxlen, not the whole buffer
					if sl, isSl := ast.Unparen(e.Resolve(s, call.Args[0])).(*ast.SliceExpr); !isSl || sl.High == nil {
						okW = false
					}
				}
				found = append(found, struct {
					s    flow.Site
					call *ast.CallExpr
					ok   bool
				}{s, call, okW})
			}
		}
	})
	switch {
	case len(found) == 0:
		und(sp.WindowKey, "no copy / ReadAt / WriteAt between the caller's buffer and the backing store is reachable from %s", fn.Decl.Name.Name)
		return res
	case len(found) > 1:
		und(sp.WindowKey, "%d transfers between buffer and backing store", len(found))
		return res
	}
	tr := found[0]
	res.Transfer, res.Call = &tr.s, tr.call
	chk(sp.WindowKey, tr.ok, sp.WindowMsg)

	// 3. the position
	field := func(name string) func(*types.Var) bool {
		return func(v *types.Var) bool { return v.Name() == name && v.Pkg() == fn.Obj.Pkg() }
	}
	if sp.Advance != "" {
		adv, bad := 0, ""
		for _, st := range e.Stores(g, fn.Decl.Body, field(sp.Advance)) {
			si := st.G.Info
			switch {
			case st.Op == token.ADD_ASSIGN && st.RHS != nil && flow.IsResult(si, e.Resolve(st.Site, st.RHS), tr.call, 0):
				adv++
			case st.Plain():
				if v, isC := core.IntConst(si, st.RHS); isC && v == 0 {
					continue // the rewind, checked separately
				}
				d := lin.Combo(si, 0, 1, e.Resolve(st.Site, st.RHS), -1, e.Resolve(st.Site, st.LHS))
				okD := len(d.Coef) == 1 && d.Const == 0
				for k, v := range d.Coef {
					if v != 1 || !(strings.HasPrefix(k, "copy") || strings.Contains(k, "ReadAt(") || strings.Contains(k, "WriteAt(")) {
						okD = false
					}
				}
				if okD {
					adv++
				} else {
					bad = c.Src(st.Stmt)
				}
			default:
				bad = c.Src(st.Stmt)
			}
		}
		switch {
		case bad != "":
			chk(sp.AdvKey, false, sp.AdvMsg+"; found `"+bad+"`")
		case adv == 0:
			chk(sp.AdvKey, false, sp.AdvMsg+"; the position is never advanced")
		case adv > 1:
			chk(sp.AdvKey, false, fmt.Sprintf("%s; it is advanced %d times", sp.AdvMsg, adv))
		default:
			chk(sp.AdvKey, true, sp.AdvMsg)
		}
	}
	return res
}

// FrozenField reports the stores to field `name` reachable from fn (helpers
// included).
func FrozenField(c *core.Ctx, fn *core.Fn, name string) []flow.Store {
	e := flow.New(c.Program)
	return e.Stores(cfgq.Of(c.Program, fn), fn.Decl.Body, func(v *types.Var) bool { return v.Name() == name && v.Pkg() == fn.Obj.Pkg() })
}
