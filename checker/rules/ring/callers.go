package ring

import (
	"go/ast"
	"go/token"
	"go/types"
	"sort"

	"rscheck/core"
)

// PkgCalls indexes the static references between the declared functions of a
// package, so that "who calls X" can be answered by role (through helpers and
// closures) instead of by the name of the enclosing function.
type PkgCalls struct {
	Decl     map[*types.Func]*core.Fn
	Callers  map[*types.Func][]*types.Func // callee -> declared functions whose body (literals included) calls it
	ValueUse map[*types.Func]bool          // referenced other than in call position (method value, callback)
	GoUse    map[*types.Func]bool          // started with `go`
}

// CallsIn builds the index for one package.
func CallsIn(c *core.Ctx, pkgPath string) *PkgCalls {
	key := "ring.pkgcalls." + pkgPath
	if v, ok := c.Program.Shared[key]; ok {
		return v.(*PkgCalls)
	}
	pc := &PkgCalls{Decl: map[*types.Func]*core.Fn{}, Callers: map[*types.Func][]*types.Func{}, ValueUse: map[*types.Func]bool{}, GoUse: map[*types.Func]bool{}}
	pk := c.Pkg(pkgPath)
	if pk == nil {
		return pc
	}
	info := pk.TypesInfo
	for _, f := range pk.Syntax {
		for _, d := range f.Decls {
			fd, ok := d.(*ast.FuncDecl)
			if !ok || fd.Body == nil {
				continue
			}
			fo, _ := info.Defs[fd.Name].(*types.Func)
			if fo == nil {
				continue
			}
			pc.Decl[fo] = &core.Fn{Obj: fo, Decl: fd, Pkg: pk}
		}
	}
	for fo, fn := range pc.Decl {
		fo := fo
		callFun := map[*ast.Ident]bool{}
		ast.Inspect(fn.Decl.Body, func(n ast.Node) bool {
			switch x := n.(type) {
			case *ast.GoStmt:
				if f := core.CalleeFunc(info, x.Call); f != nil {
					pc.GoUse[f.Origin()] = true
				}
			case *ast.CallExpr:
				if f := core.CalleeFunc(info, x); f != nil {
					f = f.Origin()
					switch fun := ast.Unparen(x.Fun).(type) {
					case *ast.Ident:
						callFun[fun] = true
					case *ast.SelectorExpr:
						callFun[fun.Sel] = true
					}
					seen := false
					for _, o := range pc.Callers[f] {
						if o == fo {
							seen = true
						}
					}
					if !seen {
						pc.Callers[f] = append(pc.Callers[f], fo)
					}
				}
			}
			return true
		})
		ast.Inspect(fn.Decl.Body, func(n ast.Node) bool {
			if id, ok := n.(*ast.Ident); ok && !callFun[id] {
				if f, ok := info.Uses[id].(*types.Func); ok {
					pc.ValueUse[f.Origin()] = true
				}
			}
			return true
		})
	}
	for _, l := range pc.Callers {
		sort.Slice(l, func(i, j int) bool { return l[i].Pos() < l[j].Pos() })
	}
	c.Program.Shared[key] = pc
	return pc
}

// Internal: f is an implementation detail of the package: unexported name,
// never used as a value or started with go, and called from inside the
// package. Its obligations may be discharged by its callers.
func (pc *PkgCalls) Internal(f *types.Func) bool {
	f = f.Origin()
	return !f.Exported() && !pc.ValueUse[f] && !pc.GoUse[f] && len(pc.Callers[f]) > 0
}

// Referenced: something in the package refers to f, or f is exported.
func (pc *PkgCalls) Referenced(f *types.Func) bool {
	f = f.Origin()
	return f.Exported() || pc.ValueUse[f] || pc.GoUse[f] || len(pc.Callers[f]) > 0
}

// OnlyVia reports whether every way of reaching f from outside the package
// passes through one of the anchors: f is an anchor, or it is internal and all
// its callers are reached only via anchors. Otherwise it returns the entry
// point that reaches f without passing an anchor.
func (pc *PkgCalls) OnlyVia(f *types.Func, anchors map[*types.Func]bool) (bool, *types.Func) {
	seen := map[*types.Func]bool{}
	var walk func(g *types.Func) *types.Func
	walk = func(g *types.Func) *types.Func {
		g = g.Origin()
		if anchors[g] || seen[g] {
			return nil
		}
		seen[g] = true
		if !pc.Referenced(g) {
			return nil // dead code
		}
		if !pc.Internal(g) {
			return g
		}
		for _, c := range pc.Callers[g] {
			if e := walk(c); e != nil {
				return e
			}
		}
		return nil
	}
	e := walk(f)
	return e == nil, e
}

// BodyName renders a declared function like Bodies does ("(pipe).Read").
func BodyName(f *types.Func) string {
	sig, _ := f.Type().(*types.Signature)
	if sig != nil && sig.Recv() != nil {
		return "(" + core.NamedTypeName(sig.Recv().Type()) + ")." + f.Name()
	}
	return f.Name()
}

// RetryVerdict is the outcome of RetriesOnWake for one entry function.
type RetryVerdict struct {
	Fn      *core.Fn
	Status  int // 1 retries, 0 returns without retrying (Witness), -1 undecided (Why)
	Witness []string
	Why     string
}

// RetriesOnWake checks the callers of a wait-and-return-(0,nil) operation
// (readSome / writeSome / readSomeAt): assuming a call of `callee` returned no
// bytes and no error although the buffer handed to it was not empty, the
// caller must call it again before returning. The caller is walked by the
// path engine with that assumption injected after the call, so the shape of
// the loop, where the emptiness test sits, named results, accumulators and
// boolean locals do not matter. A direct caller that does not retry but is an
// internal helper hands the obligation to its own callers.
func RetriesOnWake(c *core.Ctx, pkgPath string, callee *types.Func) []RetryVerdict {
	pc := CallsIn(c, pkgPath)
	var out []RetryVerdict
	visited := map[*types.Func]bool{}
	work := append([]*types.Func{}, pc.Callers[callee.Origin()]...)
	for len(work) > 0 {
		f := work[0]
		work = work[1:]
		if visited[f] || f == callee.Origin() {
			continue
		}
		visited[f] = true
		if !pc.Referenced(f) {
			continue // dead code (e.g. a helper all of whose calls were expanded)
		}
		fn := pc.Decl[f]
		if fn == nil {
			continue
		}
		v := retryOne(c, fn, callee)
		if v.Status != 1 && pc.Internal(f) {
			work = append(work, pc.Callers[f]...)
			continue
		}
		out = append(out, v)
	}
	return out
}

func retryOne(c *core.Ctx, fn *core.Fn, callee *types.Func) RetryVerdict {
	res := RetryVerdict{Fn: fn, Status: 1}
	sawCall := false
	for _, k := range []int{1, 2} {
		k := k
		count := func(st *State) int {
			n := 0
			for _, e := range st.Events() {
				if IsCallOf(e, callee) {
					n++
				}
			}
			return n
		}
		cfg := &Sym{
			MaxVisits: k + 1,
			Opaque:    func(f *types.Func) bool { return f.Origin() == callee.Origin() },
			Stop: func(st *State, ev *Event) bool {
				return IsCallOf(ev, callee) && count(st) >= k
			},
			OnCall: func(st *State, ev *Event) {
				if !IsCallOf(ev, callee) || count(st) != k || len(ev.Results) != 2 {
					return
				}
				st.Assume(VCmp(token.EQL, ev.Results[0], VInt(0)), true)
				st.Assume(VCmp(token.EQL, ev.Results[1], VNilV()), true)
				if len(ev.Args) > 0 && ev.Args[0] != nil {
					st.Assume(VCmp(token.GEQ, VLenOf(ev.Args[0]), VInt(1)), true)
				}
			},
		}
		r := RunSym(c, fn, cfg)
		if r.Overflow {
			return RetryVerdict{Fn: fn, Status: -1, Why: "too many paths in " + fn.Name()}
		}
		for _, t := range r.Traces {
			var wake *Event
			n := 0
			for _, e := range t.Events {
				if IsCallOf(e, callee) {
					n++
					if n == k {
						wake = e
					}
				}
			}
			if wake == nil {
				continue
			}
			sawCall = true
			if len(wake.Results) != 2 {
				return RetryVerdict{Fn: fn, Status: -1, Why: callee.Name() + " does not return (n, err)"}
			}
			switch t.Exit {
			case ExitStop, ExitPanic:
				continue
			case ExitCut:
				if res.Status == 1 {
					res = RetryVerdict{Fn: fn, Status: -1, Why: "a loop after the wake-up does not call " + callee.Name() + " again within the analysis bound", Witness: t.Witness(c)}
				}
				continue
			}
			// a normal return after the wake-up without another call
			undecided := len(t.Taint) > 0
			// a branch the engine could not decide although it depends on the wake-up values
			dep := func(v *Val) bool {
				return v.Mentions(func(s *Val) bool {
					if s.IsResultOf(wake, 0) || s.IsResultOf(wake, 1) {
						return true
					}
					if len(wake.Args) > 0 && wake.Args[0] != nil && s.K == VLen && s.X != nil && wake.Args[0].Mentions(func(a *Val) bool { return a.Key() == s.X.Key() }) {
						return true
					}
					return false
				})
			}
			// skip the injected assumptions themselves: they are the first facts after the event
			for i, f := range t.Facts {
				if f.Pos == token.NoPos {
					continue // an injected assumption
				}
				if i >= wake.NFacts && dep(f.A) {
					undecided = true
				}
			}
			if undecided {
				if res.Status == 1 {
					res = RetryVerdict{Fn: fn, Status: -1, Why: "cannot decide a branch that depends on the values returned by the wake-up", Witness: t.Witness(c)}
				}
				continue
			}
			return RetryVerdict{Fn: fn, Status: 0, Witness: t.Witness(c)}
		}
	}
	if !sawCall {
		return RetryVerdict{Fn: fn, Status: -1, Why: "no path of " + fn.Name() + " reaches a call of " + callee.Name()}
	}
	return res
}

// MayReturnIdle: some path of a (b []byte, ...) (n int, err error) operation
// returns (0, nil) although the buffer is not known to be empty. Only then do
// its callers have to retry after a wake-up.
func MayReturnIdle(res *SymResult) bool {
	if res == nil || len(res.Params) == 0 {
		return true
	}
	nonEmpty := VCmp(token.GEQ, VLenOf(res.Params[0]), VInt(1))
	for _, t := range res.Traces {
		if !t.Normal() || len(t.Results) != 2 {
			continue
		}
		if t.Facts.IsZero(t.Results[0]) && t.Facts.IsNil(t.Results[1]) && !t.Facts.Refuted(nonEmpty) {
			return true
		}
	}
	return false
}
