package ring

// Path engine: a bounded, path-sensitive symbolic walk over the go/cfg graph
// of one function with its same-package helpers (methods, package functions,
// closures bound to a local) inlined. It is still a static analysis: nothing
// is executed, values are expressions over immutable leaves (symval.go), a
// branch is followed in both directions unless the facts collected on the
// path decide it, and loops are cut after a fixed number of visits.
//
// What it buys the rules of C09/C18: a rule states a requirement over the
// *traces* of an anchored function ("on every trace that sleeps, the store
// was tried before, returned nothing, and the peer's error was nil when it
// was last read") instead of over statement shapes. Guard clauses vs if/else
// vs switch, helpers (also with pointer parameters such as `slot *error`
// bound to `&p.rerr`), named results, values carried in locals, accumulators,
// boolean locals / predicate helpers, inverted conditions and `defer` all
// produce the same traces.
//
// Limits (by construction): helpers of other packages are opaque (a verified
// nil-preserving `func(error) error` such as errors.Trace is a transparent
// wrapper); recursion is not followed; goroutines, select and type switches
// are walked without facts; a construct the walker does not model taints the
// trace (rules then answer UNDECIDED, not VIOLATION).

import (
	"fmt"
	"go/ast"
	"go/constant"
	"go/token"
	"go/types"
	"strings"

	"golang.org/x/tools/go/cfg"

	"rscheck/cfgq"
	"rscheck/core"
	"rscheck/flow"
)

// EvKind is the kind of a trace event.
type EvKind int

const (
	EvCall  EvKind = iota // an opaque call (not inlined): interface method, other package, builtin copy ...
	EvStore               // assignment to a struct field (directly or through a pointer to it)
	EvRead                // read of a struct field
	EvEnter               // an inlined helper is entered (Fn)
)

// Event is one observable step of a trace.
type Event struct {
	Kind     EvKind
	Pos      token.Pos
	In       *types.Func // declared function whose body contains the step (nil inside a literal of the root)
	Depth    int         // inlining depth (0 = root)
	NFacts   int         // facts[:NFacts] were established when the step happened
	Index    int         // position in Trace.Events
	Call     *ast.CallExpr
	Callee   *types.Func // static callee or interface method; nil for builtins / function values
	Builtin  string
	Recv     *Val
	Args     []*Val
	Results  []*Val
	Deferred bool
	Go       bool
	Field    *types.Var
	Base     *Val
	Val      *Val // stored / read value
	Old      *Val // value of the field before a store

	ver    map[*types.Var]int // snapshot of the field environment when the step happened
	fepoch int
	fields map[string]*Val
}

// FieldNow returns what field fv of base held when the event happened: the
// value stored on the path, or the leaf a read at that point would have
// produced (so that facts about an older version do not apply).
func (e *Event) FieldNow(base *Val, fv *types.Var) *Val {
	if base == nil || fv == nil {
		return nil
	}
	if v, ok := e.fields[base.Key()+"."+fv.Name()]; ok {
		return v
	}
	ver := e.ver[fv] + e.fepoch
	name := fmt.Sprintf("%s.%s#%d", base.Key(), fv.Name(), ver)
	if ver == 0 {
		name = base.Key() + "." + fv.Name()
	}
	return VLeafOf(&Leaf{Kind: LField, Name: name, Field: fv, Base: base, Ver: ver, T: fv.Type()})
}

// ExitKind of a trace.
type TraceExit int

const (
	ExitReturn TraceExit = iota // the root function returned normally
	ExitPanic                   // ended in a no-return call
	ExitCut                     // loop bound reached
	ExitStop                    // stopped by the Stop hook
)

// Trace is one path through the root function.
type Trace struct {
	Events  []*Event
	Facts   Facts
	Exit    TraceExit
	Results []*Val
	Fields  map[string]*Val // field values stored on the path and still current at the end
	Taint   []string
	RetPos  token.Pos
	End     *Event // pseudo-event carrying the field environment at the end of the trace
}

// Sym configures a run.
type Sym struct {
	C         *core.Ctx
	Opaque    func(*types.Func) bool          // same-package functions that must not be inlined
	OnCall    func(st *State, ev *Event)      // after an opaque call event; may add facts with st.Assume
	Stop      func(st *State, ev *Event) bool // before an opaque call is recorded: end the path here (ExitStop)
	Init      func(st *State, params []*Val)  // before the walk: add facts about parameters
	MaxDepth  int
	MaxVisits int
	MaxPaths  int
	AllowCuts bool // the function may loop by design (retry loop): paths cut at the loop bound do not make the result unusable
}

// SymResult is the outcome of a run.
type SymResult struct {
	Traces   []*Trace
	Overflow bool // path budget exceeded: Traces is incomplete
	Cuts     int  // paths cut at the loop bound (unexplored continuations)
	allowCut bool
	Recv     *Val   // the receiver leaf (nil for functions)
	Params   []*Val // parameter leaves
	Fn       *core.Fn
}

// State is the mutable state of one path. A state has one owner; it is cloned
// where paths diverge.
type State struct {
	x      *exec
	env    map[types.Object]*Val
	fields map[string]*Val // base key + "." + field -> current value
	fieldF map[string]*types.Var
	ver    map[*types.Var]int
	epoch  int // memory epoch: values read through unknown pointers / indexes
	fepoch int // field epoch: bumped when every field may have changed (lock released)
	facts  Facts
	events []*Event
	taint  []string
	visits map[int]map[int32]int
	defers map[int][]deferred
	tags   map[token.Pos]*Val
	iter   map[token.Pos]int // iterations done of a range over a list of known elements
	bonus  map[int]int       // per frame: extra visits granted by ranges over lists of known length
	seq    map[token.Pos]int // executions of the call at a position
	nobj   int
	stack  []*types.Func
	dead   bool
}

type deferred struct {
	call *ast.CallExpr
	fn   *Val
	recv *Val
	args []*Val
	fr   *frame
}

type frame struct {
	id      int
	g       *cfgq.Graph
	fn      *types.Func
	lit     *ast.FuncLit
	depth   int
	results []types.Object // named results
	nres    int
	sig     *types.Signature
}

type exec struct {
	cfg      *Sym
	c        *core.Ctx
	info     *types.Info
	pkg      *types.Package
	root     *core.Fn
	nframe   int
	res      *SymResult
	steps    int
	tagOf    map[ast.Expr]*ast.SwitchStmt
	caseOf   map[*ast.CaseClause]ast.Stmt
	rangeX   map[ast.Expr]*ast.RangeStmt   // range operand -> statement
	rangeVar map[*ast.Ident]*ast.RangeStmt // key / value identifier -> statement
	scanned  map[*ast.BlockStmt]bool
	fl       *flow.Engine
	ifaceW   map[string]map[*types.Var]bool
	overflow bool
}

// Run walks fn.
func (cfgS *Sym) Run(fn *core.Fn) *SymResult {
	if cfgS.MaxDepth == 0 {
		cfgS.MaxDepth = 4
	}
	if cfgS.MaxVisits == 0 {
		cfgS.MaxVisits = 2
	}
	if cfgS.MaxPaths == 0 {
		cfgS.MaxPaths = 3000
	}
	x := &exec{cfg: cfgS, c: cfgS.C, info: fn.Pkg.TypesInfo, pkg: fn.Obj.Pkg(), root: fn, res: &SymResult{Fn: fn},
		tagOf: map[ast.Expr]*ast.SwitchStmt{}, caseOf: map[*ast.CaseClause]ast.Stmt{}, scanned: map[*ast.BlockStmt]bool{},
		rangeX: map[ast.Expr]*ast.RangeStmt{}, rangeVar: map[*ast.Ident]*ast.RangeStmt{},
		fl: flow.New(cfgS.C.Program), ifaceW: map[string]map[*types.Var]bool{}}
	st := &State{x: x, env: map[types.Object]*Val{}, fields: map[string]*Val{}, fieldF: map[string]*types.Var{}, ver: map[*types.Var]int{},
		visits: map[int]map[int32]int{}, defers: map[int][]deferred{}, tags: map[token.Pos]*Val{}, seq: map[token.Pos]int{}, iter: map[token.Pos]int{}, bonus: map[int]int{}}
	fr := x.newFrame(fn.Obj, nil, cfgq.Of(cfgS.C.Program, fn), fn.Decl.Type, 0)
	st.stack = []*types.Func{fn.Obj}
	// parameters
	if r := fn.Decl.Recv; r != nil && len(r.List) == 1 && len(r.List[0].Names) == 1 {
		o := x.info.Defs[r.List[0].Names[0]]
		if o != nil {
			v := VLeafOf(&Leaf{Kind: LParam, Name: o.Name(), Obj: o, T: o.Type()})
			st.env[o] = v
			x.res.Recv = v
		}
	}
	for _, fl := range fn.Decl.Type.Params.List {
		for _, nm := range fl.Names {
			o := x.info.Defs[nm]
			if o == nil {
				continue
			}
			v := VLeafOf(&Leaf{Kind: LParam, Name: o.Name(), Obj: o, T: o.Type()})
			st.env[o] = v
			x.res.Params = append(x.res.Params, v)
		}
	}
	x.initResults(st, fr, fn.Decl.Type)
	if cfgS.Init != nil {
		cfgS.Init(st, x.res.Params)
	}
	if !st.dead {
		x.runBlock(st, fr, fr.g.CFG.Blocks[0], 0, func(st *State, vals []*Val, pos token.Pos) {
			x.finish(st, ExitReturn, vals, pos)
		})
	}
	x.res.Overflow = x.overflow
	x.res.allowCut = cfgS.AllowCuts
	for _, t := range x.res.Traces {
		if t.Exit == ExitCut {
			x.res.Cuts++
		}
	}
	return x.res
}

func (x *exec) newFrame(fn *types.Func, lit *ast.FuncLit, g *cfgq.Graph, ft *ast.FuncType, depth int) *frame {
	x.nframe++
	fr := &frame{id: x.nframe, g: g, fn: fn, lit: lit, depth: depth}
	if ft.Results != nil {
		for _, fl := range ft.Results.List {
			if len(fl.Names) == 0 {
				fr.nres++
			}
			for _, nm := range fl.Names {
				fr.nres++
				if o := x.info.Defs[nm]; o != nil {
					fr.results = append(fr.results, o)
				}
			}
		}
	}
	x.scan(g.Body)
	return fr
}

// scan indexes the switch statements of a body (tag expressions, clauses).
func (x *exec) scan(body *ast.BlockStmt) {
	if body == nil || x.scanned[body] {
		return
	}
	x.scanned[body] = true
	core.Inspect(body, func(n ast.Node) bool {
		switch s := n.(type) {
		case *ast.SwitchStmt:
			if s.Tag != nil {
				x.tagOf[s.Tag] = s
			}
			for _, cl := range s.Body.List {
				x.caseOf[cl.(*ast.CaseClause)] = s
			}
		case *ast.TypeSwitchStmt:
			for _, cl := range s.Body.List {
				x.caseOf[cl.(*ast.CaseClause)] = s
			}
		case *ast.RangeStmt:
			x.rangeX[s.X] = s
			if id, ok := s.Key.(*ast.Ident); ok {
				x.rangeVar[id] = s
			}
			if id, ok := s.Value.(*ast.Ident); ok {
				x.rangeVar[id] = s
			}
		}
		return true
	})
}

func (x *exec) initResults(st *State, fr *frame, ft *ast.FuncType) {
	for _, o := range fr.results {
		st.env[o] = x.zero(st, o.Type(), o.Pos())
	}
}

func (st *State) clone() *State {
	n := &State{x: st.x, epoch: st.epoch, fepoch: st.fepoch, nobj: st.nobj, dead: st.dead}
	n.env = make(map[types.Object]*Val, len(st.env))
	for k, v := range st.env {
		n.env[k] = v
	}
	n.fields = make(map[string]*Val, len(st.fields))
	for k, v := range st.fields {
		n.fields[k] = v
	}
	n.fieldF = make(map[string]*types.Var, len(st.fieldF))
	for k, v := range st.fieldF {
		n.fieldF[k] = v
	}
	n.ver = make(map[*types.Var]int, len(st.ver))
	for k, v := range st.ver {
		n.ver[k] = v
	}
	n.facts = st.facts[:len(st.facts):len(st.facts)]
	n.events = st.events[:len(st.events):len(st.events)]
	n.taint = st.taint[:len(st.taint):len(st.taint)]
	n.visits = make(map[int]map[int32]int, len(st.visits))
	for k, m := range st.visits {
		mm := make(map[int32]int, len(m))
		for a, b := range m {
			mm[a] = b
		}
		n.visits[k] = mm
	}
	n.defers = make(map[int][]deferred, len(st.defers))
	for k, d := range st.defers {
		n.defers[k] = d[:len(d):len(d)]
	}
	n.tags = make(map[token.Pos]*Val, len(st.tags))
	for k, v := range st.tags {
		n.tags[k] = v
	}
	n.seq = make(map[token.Pos]int, len(st.seq))
	for k, v := range st.seq {
		n.seq[k] = v
	}
	n.iter = make(map[token.Pos]int, len(st.iter))
	for k, v := range st.iter {
		n.iter[k] = v
	}
	n.bonus = make(map[int]int, len(st.bonus))
	for k, v := range st.bonus {
		n.bonus[k] = v
	}
	n.stack = st.stack[:len(st.stack):len(st.stack)]
	return n
}

// Recv returns the receiver leaf of the root function (nil for functions).
func (st *State) Recv() *Val { return st.x.res.Recv }

// Facts returns the facts established so far.
func (st *State) Facts() Facts { return st.facts }

// Events returns the events recorded so far.
func (st *State) Events() []*Event { return st.events }

// Assume adds `cond == val` to the path. When cond is a compound condition
// with several ways of being val, only the first alternative is kept; use it
// for atoms and conjunctions. It reports false (and kills the path) when the
// facts refute it.
func (st *State) Assume(cond *Val, val bool) bool {
	alts := st.facts.assume(cond, val, token.NoPos)
	if len(alts) == 0 {
		st.dead = true
		return false
	}
	st.facts = alts[0]
	return true
}

func (st *State) taintf(format string, a ...interface{}) {
	s := fmt.Sprintf(format, a...)
	for _, t := range st.taint {
		if t == s {
			return
		}
	}
	st.taint = append(st.taint, s)
}

func (x *exec) finish(st *State, kind TraceExit, vals []*Val, pos token.Pos) {
	if st.dead {
		return
	}
	if len(x.res.Traces) >= x.cfg.MaxPaths {
		x.overflow = true
		return
	}
	t := &Trace{Events: st.events, Facts: st.facts, Exit: kind, Results: vals, Fields: st.fields, Taint: st.taint, RetPos: pos}
	end := &Event{Kind: EvEnter, Pos: pos}
	saved := st.events
	st.record(end)
	st.events = saved
	t.End = end
	x.res.Traces = append(x.res.Traces, t)
}

func (x *exec) pos(p token.Pos) string { return x.c.Program.Pos(p) }

// ---------------------------------------------------------------------------
// control flow

type retK func(st *State, vals []*Val, pos token.Pos)

func (x *exec) budget() bool {
	x.steps++
	if x.steps > 400000 || len(x.res.Traces) >= x.cfg.MaxPaths {
		x.overflow = true
		return false
	}
	return true
}

func (x *exec) runBlock(st *State, fr *frame, b *cfg.Block, from int, ret retK) {
	if st.dead || !x.budget() {
		return
	}
	if from == 0 && b.Kind == cfg.KindRangeLoop && len(b.Succs) == 2 {
		// a range over a list whose elements are known is unrolled exactly
		if rs, ok := b.Stmt.(*ast.RangeStmt); ok {
			if lst := st.tags[rs.X.Pos()]; lst != nil && lst.K == VList {
				i := st.iter[rs.Pos()]
				if n := len(lst.Args); n <= 16 && st.bonus[fr.id] < n {
					st.bonus[fr.id] = n // the body legitimately runs once per element
				}
				if i < len(lst.Args) {
					st.iter[rs.Pos()] = i + 1
					bind := func(e ast.Expr, v *Val) {
						if id, ok := e.(*ast.Ident); ok && id.Name != "_" {
							o := x.info.Defs[id]
							if o == nil {
								o = x.info.Uses[id]
							}
							if o != nil {
								st.env[o] = v
							}
						}
					}
					bind(rs.Key, VInt(int64(i)))
					bind(rs.Value, lst.Args[i])
					x.runBlock(st, fr, b.Succs[0], 0, ret)
				} else {
					delete(st.iter, rs.Pos())
					x.runBlock(st, fr, b.Succs[1], 0, ret)
				}
				return
			}
		}
	}
	if from == 0 {
		m := st.visits[fr.id]
		if m == nil {
			m = map[int32]int{}
			st.visits[fr.id] = m
		}
		m[b.Index]++
		if m[b.Index] > x.cfg.MaxVisits+st.bonus[fr.id] {
			x.finish(st, ExitCut, nil, token.NoPos)
			return
		}
	}
	two := len(b.Succs) == 2
	for i := from; i < len(b.Nodes); i++ {
		n := b.Nodes[i]
		last := i == len(b.Nodes)-1
		if last && two {
			if e, ok := n.(ast.Expr); ok {
				x.branch(st, fr, b, e, ret)
				return
			}
		}
		if r, ok := n.(*ast.ReturnStmt); ok {
			x.doReturnStmt(st, fr, r, ret)
			return
		}
		// a node may fork (inlined helper with several returns): continue in CPS
		idx := i
		x.execNode(st, fr, n, func(st *State) {
			x.runBlock(st, fr, b, idx+1, ret)
		})
		return
	}
	switch len(b.Succs) {
	case 0:
		// fell off the end of the body (or the block ends in a no-return call, handled in call)
		x.doReturn(st, fr, nil, true, b2pos(fr, b), ret)
	case 1:
		x.runBlock(st, fr, b.Succs[0], 0, ret)
	default:
		// range header, type switch, select: no facts
		for i, s := range b.Succs {
			s2 := st
			if i < len(b.Succs)-1 {
				s2 = st.clone()
			}
			x.runBlock(s2, fr, s, 0, ret)
		}
	}
}

func b2pos(fr *frame, b *cfg.Block) token.Pos {
	if fr.g.Body != nil {
		return fr.g.Body.Rbrace
	}
	return token.NoPos
}

// branch evaluates the condition that ends block b and follows the feasible
// successors.
func (x *exec) branch(st *State, fr *frame, b *cfg.Block, e ast.Expr, ret retK) {
	var sw ast.Stmt
	if b.Succs[0].Kind == cfg.KindSwitchCaseBody {
		if cc, ok := b.Succs[0].Stmt.(*ast.CaseClause); ok {
			sw = x.caseOf[cc]
		}
	}
	x.eval(st, fr, e, func(st *State, v *Val) {
		cond := v
		if s, ok := sw.(*ast.SwitchStmt); ok && s.Tag != nil {
			tag := st.tags[s.Tag.Pos()]
			if tag == nil {
				st.taintf("switch tag not evaluated at %s", x.pos(s.Pos()))
				tag = x.unknown(st, x.info.TypeOf(s.Tag), s.Tag.Pos(), "tag")
			}
			cond = &Val{K: VBin, Op: token.EQL, X: tag, Y: v}
		}
		tAlts := st.facts.assume(cond, true, e.Pos())
		fAlts := st.facts.assume(cond, false, e.Pos())
		total := len(tAlts) + len(fAlts)
		k := 0
		run := func(alts []Facts, succ *cfg.Block) {
			for _, a := range alts {
				k++
				s2 := st
				if k < total {
					s2 = st.clone()
				}
				s2.facts = a
				x.runBlock(s2, fr, succ, 0, ret)
			}
		}
		run(tAlts, b.Succs[0])
		run(fAlts, b.Succs[1])
	})
}

func (x *exec) doReturnStmt(st *State, fr *frame, r *ast.ReturnStmt, ret retK) {
	switch {
	case len(r.Results) == 0:
		x.doReturn(st, fr, nil, true, r.Pos(), ret)
	case len(r.Results) == 1 && fr.nres > 1:
		x.evalMulti(st, fr, r.Results[0], fr.nres, func(st *State, vs []*Val) {
			x.doReturn(st, fr, vs, false, r.Pos(), ret)
		})
	default:
		x.evalList(st, fr, r.Results, func(st *State, vs []*Val) {
			x.doReturn(st, fr, vs, false, r.Pos(), ret)
		})
	}
}

// doReturn leaves frame fr: named results are assigned, deferred calls run in
// reverse order, the (possibly updated) results are handed to ret.
func (x *exec) doReturn(st *State, fr *frame, vals []*Val, bare bool, pos token.Pos, ret retK) {
	named := len(fr.results) == fr.nres && fr.nres > 0
	if !bare && named {
		for i, o := range fr.results {
			if i < len(vals) {
				st.env[o] = vals[i]
			}
		}
	}
	ds := st.defers[fr.id]
	delete(st.defers, fr.id)
	var runDefers func(st *State, i int)
	runDefers = func(st *State, i int) {
		if st.dead {
			return
		}
		if i < 0 {
			out := vals
			if named {
				out = make([]*Val, len(fr.results))
				for j, o := range fr.results {
					out[j] = st.env[o]
				}
			} else if bare && fr.nres > 0 {
				out = make([]*Val, fr.nres)
				for j := range out {
					out[j] = x.unknown(st, nil, pos, "result")
				}
			}
			ret(st, out, pos)
			return
		}
		d := ds[i]
		x.applyCall(st, d.fr, d.call, d.fn, d.recv, d.args, true, false, func(st *State, _ []*Val) {
			runDefers(st, i-1)
		})
	}
	runDefers(st, len(ds)-1)
}

// ---------------------------------------------------------------------------
// statements

func (x *exec) execNode(st *State, fr *frame, n ast.Node, k func(*State)) {
	if st.dead {
		return
	}
	switch s := n.(type) {
	case *ast.AssignStmt:
		x.assign(st, fr, s, k)
	case *ast.ValueSpec:
		x.valueSpec(st, fr, s, k)
	case *ast.IncDecStmt:
		op := token.ADD
		if s.Tok == token.DEC {
			op = token.SUB
		}
		x.eval(st, fr, s.X, func(st *State, cur *Val) {
			nv := simplifyArith(&Val{K: VBin, Op: op, X: cur, Y: VInt(1), T: cur.T})
			x.store(st, fr, s.X, nv, k)
		})
	case *ast.ExprStmt:
		if call, ok := ast.Unparen(s.X).(*ast.CallExpr); ok {
			x.call(st, fr, call, -1, func(st *State, _ []*Val) { k(st) })
			return
		}
		x.eval(st, fr, s.X, func(st *State, _ *Val) { k(st) })
	case *ast.DeferStmt:
		x.deferStmt(st, fr, s, k)
	case *ast.GoStmt:
		x.evalList(st, fr, s.Call.Args, func(st *State, args []*Val) {
			st.record(&Event{Kind: EvCall, Pos: s.Pos(), In: fr.fn, Depth: fr.depth, Call: s.Call, Callee: core.CalleeFunc(x.info, s.Call), Args: args, Go: true})
			k(st)
		})
	case *ast.SendStmt:
		st.taintf("channel send at %s", x.pos(s.Pos()))
		k(st)
	case *ast.EmptyStmt, *ast.BadStmt:
		k(st)
	case ast.Expr:
		// switch tag, range operand, range key/value identifiers
		if sw, ok := x.tagOf[s]; ok {
			x.eval(st, fr, s, func(st *State, v *Val) {
				st.tags[sw.Tag.Pos()] = v
				k(st)
			})
			return
		}
		if rs, ok := x.rangeX[s]; ok {
			x.eval(st, fr, s, func(st *State, v *Val) {
				st.tags[rs.X.Pos()] = v
				delete(st.iter, rs.Pos())
				k(st)
			})
			return
		}
		if id, ok := s.(*ast.Ident); ok {
			if o := x.info.Defs[id]; o != nil {
				st.env[o] = x.unknown(st, o.Type(), id.Pos(), id.Name)
				k(st)
				return
			}
			if o := x.info.Uses[id]; o != nil {
				if _, isVar := o.(*types.Var); isVar && x.isLocal(o) {
					st.env[o] = x.unknown(st, o.Type(), id.Pos(), id.Name)
					k(st)
					return
				}
			}
		}
		x.eval(st, fr, s, func(st *State, _ *Val) { k(st) })
	default:
		st.taintf("statement %T at %s", n, x.pos(n.Pos()))
		k(st)
	}
}

func (x *exec) deferStmt(st *State, fr *frame, s *ast.DeferStmt, k func(*State)) {
	x.callee(st, fr, s.Call, func(st *State, fn *Val, recv *Val) {
		x.evalList(st, fr, s.Call.Args, func(st *State, args []*Val) {
			st.defers[fr.id] = append(st.defers[fr.id], deferred{call: s.Call, fn: fn, recv: recv, args: args, fr: fr})
			k(st)
		})
	})
}

func (x *exec) valueSpec(st *State, fr *frame, s *ast.ValueSpec, k func(*State)) {
	bind := func(st *State, vals []*Val) {
		for i, nm := range s.Names {
			o := x.info.Defs[nm]
			if o == nil {
				continue
			}
			if i < len(vals) {
				st.env[o] = vals[i]
			} else {
				st.env[o] = x.zero(st, o.Type(), nm.Pos())
			}
		}
		k(st)
	}
	switch {
	case len(s.Values) == 0:
		bind(st, nil)
	case len(s.Values) == len(s.Names):
		x.evalList(st, fr, s.Values, bind)
	case len(s.Values) == 1:
		x.evalMulti(st, fr, s.Values[0], len(s.Names), bind)
	default:
		st.taintf("declaration at %s", x.pos(s.Pos()))
		bind(st, nil)
	}
}

var assignOps = map[token.Token]token.Token{token.ADD_ASSIGN: token.ADD, token.SUB_ASSIGN: token.SUB, token.MUL_ASSIGN: token.MUL,
	token.QUO_ASSIGN: token.QUO, token.REM_ASSIGN: token.REM, token.AND_ASSIGN: token.AND, token.OR_ASSIGN: token.OR,
	token.XOR_ASSIGN: token.XOR, token.SHL_ASSIGN: token.SHL, token.SHR_ASSIGN: token.SHR, token.AND_NOT_ASSIGN: token.AND_NOT}

func (x *exec) assign(st *State, fr *frame, s *ast.AssignStmt, k func(*State)) {
	if op, ok := assignOps[s.Tok]; ok && len(s.Lhs) == 1 && len(s.Rhs) == 1 {
		x.eval(st, fr, s.Lhs[0], func(st *State, cur *Val) {
			x.eval(st, fr, s.Rhs[0], func(st *State, r *Val) {
				nv := x.binary(st, op, cur, r, x.info.TypeOf(s.Lhs[0]))
				x.store(st, fr, s.Lhs[0], nv, k)
			})
		})
		return
	}
	storeAll := func(st *State, vals []*Val) {
		var step func(st *State, i int)
		step = func(st *State, i int) {
			if i >= len(s.Lhs) {
				k(st)
				return
			}
			var v *Val
			if i < len(vals) {
				v = vals[i]
			} else {
				v = x.unknown(st, x.info.TypeOf(s.Lhs[i]), s.Lhs[i].Pos(), "value")
			}
			x.store(st, fr, s.Lhs[i], v, func(st *State) { step(st, i+1) })
		}
		step(st, 0)
	}
	switch {
	case len(s.Lhs) == len(s.Rhs):
		x.evalList(st, fr, s.Rhs, storeAll)
	case len(s.Rhs) == 1:
		x.evalMulti(st, fr, s.Rhs[0], len(s.Lhs), storeAll)
	default:
		st.taintf("assignment at %s", x.pos(s.Pos()))
		k(st)
	}
}

// store assigns v to the place denoted by lhs.
func (x *exec) store(st *State, fr *frame, lhs ast.Expr, v *Val, k func(*State)) {
	lhs = ast.Unparen(lhs)
	switch l := lhs.(type) {
	case *ast.Ident:
		if l.Name == "_" {
			k(st)
			return
		}
		o := x.info.Defs[l]
		if o == nil {
			o = x.info.Uses[l]
		}
		if o == nil {
			k(st)
			return
		}
		if x.isLocal(o) {
			st.env[o] = v
		} else {
			st.fields["glob:"+o.Name()] = v
			st.env[o] = v
		}
		k(st)
	case *ast.SelectorExpr:
		if sel, ok := x.info.Selections[l]; ok && sel.Kind() == types.FieldVal {
			x.eval(st, fr, l.X, func(st *State, base *Val) {
				base, fv := x.fieldPath(st, base, sel, l.Pos())
				x.storeField(st, fr, base, fv, v, l.Pos())
				k(st)
			})
			return
		}
		// pkg.Var = v
		if o, ok := x.info.Uses[l.Sel].(*types.Var); ok {
			st.env[o] = v
		}
		k(st)
	case *ast.StarExpr:
		x.eval(st, fr, l.X, func(st *State, p *Val) {
			x.storeThrough(st, fr, p, v, l.Pos())
			k(st)
		})
	case *ast.IndexExpr:
		x.eval(st, fr, l.X, func(st *State, _ *Val) {
			x.eval(st, fr, l.Index, func(st *State, _ *Val) {
				st.epoch++ // element stores: forget what was read through pointers
				k(st)
			})
		})
	default:
		st.taintf("assignment target %T at %s", lhs, x.pos(lhs.Pos()))
		k(st)
	}
}

func (x *exec) storeThrough(st *State, fr *frame, p *Val, v *Val, pos token.Pos) {
	if p != nil && p.K == VAddr {
		switch p.X.K {
		case VRef:
			if p.X.F != nil {
				x.storeField(st, fr, p.X.X, p.X.F, v, pos)
			} else {
				st.env[p.X.Obj] = v
			}
			return
		case VObj:
			st.taintf("whole-object assignment at %s", x.pos(pos))
			return
		}
	}
	st.taintf("store through an unknown pointer at %s", x.pos(pos))
	st.killAll()
}

func (x *exec) storeField(st *State, fr *frame, base *Val, fv *types.Var, v *Val, pos token.Pos) {
	key := base.Key() + "." + fv.Name()
	old := st.fields[key]
	if old == nil {
		old = x.fieldLeaf(st, base, fv)
	}
	// other bases may alias this one: their cached values of the field are forgotten
	for k2, f2 := range st.fieldF {
		if f2 == fv && k2 != key {
			delete(st.fields, k2)
			delete(st.fieldF, k2)
		}
	}
	st.record(&Event{Kind: EvStore, Pos: pos, In: fr.fn, Depth: fr.depth, Field: fv, Base: base, Val: v, Old: old})
	st.ver[fv]++
	st.fields[key] = v
	st.fieldF[key] = fv
}

func (st *State) record(e *Event) *Event {
	e.NFacts = len(st.facts)
	e.Index = len(st.events)
	e.fepoch = st.fepoch
	e.ver = make(map[*types.Var]int, len(st.ver))
	for k, v := range st.ver {
		e.ver[k] = v
	}
	e.fields = make(map[string]*Val, len(st.fields))
	for k, v := range st.fields {
		e.fields[k] = v
	}
	st.events = append(st.events, e)
	return e
}

// killAll forgets every field value (the lock was released, or an unknown
// pointer was written through).
func (st *State) killAll() {
	st.epoch++
	st.fepoch++
	for k := range st.fields {
		if !strings.HasPrefix(k, "obj:") {
			delete(st.fields, k)
			delete(st.fieldF, k)
		}
	}
}

func (st *State) killFields(w map[*types.Var]bool) {
	for fv := range w {
		st.ver[fv]++
	}
	for k, fv := range st.fieldF {
		if w[fv] && !strings.HasPrefix(k, "obj:") {
			delete(st.fields, k)
			delete(st.fieldF, k)
		}
	}
}

func (x *exec) fieldLeaf(st *State, base *Val, fv *types.Var) *Val {
	if base.K == VObj {
		// never stored since the allocation: the zero value
		return x.zero(st, fv.Type(), token.NoPos)
	}
	ver := st.ver[fv] + st.fepoch
	name := fmt.Sprintf("%s.%s#%d", base.Key(), fv.Name(), ver)
	if ver == 0 {
		name = base.Key() + "." + fv.Name()
	}
	return VLeafOf(&Leaf{Kind: LField, Name: name, Field: fv, Base: base, Ver: ver, T: fv.Type()})
}

// fieldPath resolves a (possibly promoted) field selection to the innermost
// base and the field.
func (x *exec) fieldPath(st *State, base *Val, sel *types.Selection, pos token.Pos) (*Val, *types.Var) {
	base = derefBase(base)
	t := sel.Recv()
	idx := sel.Index()
	for i, ix := range idx {
		if p, ok := t.Underlying().(*types.Pointer); ok {
			t = p.Elem()
		}
		stt, ok := t.Underlying().(*types.Struct)
		if !ok {
			break
		}
		fv := stt.Field(ix)
		if i == len(idx)-1 {
			return base, fv
		}
		base = derefBase(x.readField(st, nil, base, fv, pos, false))
		t = fv.Type()
	}
	return base, sel.Obj().(*types.Var)
}

func derefBase(b *Val) *Val {
	if b != nil && b.K == VAddr && b.X.K == VObj {
		return b.X
	}
	return b
}

func (x *exec) readField(st *State, fr *frame, base *Val, fv *types.Var, pos token.Pos, emit bool) *Val {
	key := base.Key() + "." + fv.Name()
	v := st.fields[key]
	if v == nil {
		v = x.fieldLeaf(st, base, fv)
	}
	if emit && fr != nil {
		st.record(&Event{Kind: EvRead, Pos: pos, In: fr.fn, Depth: fr.depth, Field: fv, Base: base, Val: v})
	}
	return v
}

func (x *exec) isLocal(o types.Object) bool {
	v, ok := o.(*types.Var)
	if !ok || v.IsField() || v.Pkg() == nil || v.Parent() == nil || v.Parent() == v.Pkg().Scope() {
		return false
	}
	return true
}

// ---------------------------------------------------------------------------
// expressions

func (x *exec) unknown(st *State, t types.Type, pos token.Pos, what string) *Val {
	st.nobj++
	return VLeafOf(&Leaf{Kind: LUnknown, Name: fmt.Sprintf("?%s@%d/%d", what, pos, st.nobj), T: t, Pos: pos})
}

func (x *exec) zero(st *State, t types.Type, pos token.Pos) *Val {
	if t == nil {
		return x.unknown(st, t, pos, "zero")
	}
	switch u := t.Underlying().(type) {
	case *types.Basic:
		switch {
		case u.Info()&types.IsInteger != 0:
			return &Val{K: VConst, Int: 0, T: t}
		case u.Info()&types.IsBoolean != 0:
			return VBoolV(false)
		case u.Info()&types.IsString != 0:
			return &Val{K: VLit, Str: `""`, T: t}
		case u.Kind() == types.UnsafePointer:
			return VNilV()
		}
		return &Val{K: VLit, Str: "0.0", T: t}
	case *types.Pointer, *types.Slice, *types.Map, *types.Chan, *types.Signature, *types.Interface:
		return &Val{K: VNil, T: t}
	case *types.Struct:
		return x.newObj(st, t, pos)
	}
	return x.unknown(st, t, pos, "zero")
}

func (x *exec) newObj(st *State, t types.Type, pos token.Pos) *Val {
	st.nobj++
	l := &Leaf{Kind: LObject, Name: fmt.Sprintf("obj:%s@%d/%d", types.TypeString(t, func(*types.Package) string { return "" }), pos, st.nobj), T: t, Pos: pos}
	return &Val{K: VObj, Leaf: l, T: t}
}

func (x *exec) evalList(st *State, fr *frame, es []ast.Expr, k func(*State, []*Val)) {
	vals := make([]*Val, 0, len(es))
	var step func(st *State, i int, acc []*Val)
	step = func(st *State, i int, acc []*Val) {
		if i >= len(es) {
			k(st, acc)
			return
		}
		x.eval(st, fr, es[i], func(st *State, v *Val) {
			step(st, i+1, append(acc[:len(acc):len(acc)], v))
		})
	}
	step(st, 0, vals)
}

// evalMulti evaluates an expression that yields n values (call, comma-ok forms).
func (x *exec) evalMulti(st *State, fr *frame, e ast.Expr, n int, k func(*State, []*Val)) {
	e = ast.Unparen(e)
	if call, ok := e.(*ast.CallExpr); ok {
		x.call(st, fr, call, n, k)
		return
	}
	// v, ok := m[k] / <-ch / x.(T)
	x.eval(st, fr, e, func(st *State, v *Val) {
		out := []*Val{v}
		for len(out) < n {
			out = append(out, x.unknown(st, types.Typ[types.Bool], e.Pos(), "ok"))
		}
		k(st, out)
	})
}

func (x *exec) constVal(e ast.Expr) *Val {
	tv, ok := x.info.Types[e]
	if !ok || tv.Value == nil {
		return nil
	}
	switch tv.Value.Kind() {
	case constant.Int:
		if i, ok := constant.Int64Val(tv.Value); ok {
			return &Val{K: VConst, Int: i, T: tv.Type}
		}
	case constant.Bool:
		return VBoolV(constant.BoolVal(tv.Value))
	}
	return &Val{K: VLit, Str: tv.Value.ExactString(), T: tv.Type}
}

func (x *exec) eval(st *State, fr *frame, e ast.Expr, k func(*State, *Val)) {
	if st.dead {
		return
	}
	if e == nil {
		k(st, nil)
		return
	}
	if c := x.constVal(e); c != nil {
		k(st, c)
		return
	}
	if tv, ok := x.info.Types[e]; ok && tv.IsType() {
		// a type operand (make([]byte, n), new(T)): a constant for our purposes
		k(st, &Val{K: VLit, Str: "type:" + types.TypeString(tv.Type, nil)})
		return
	}
	switch v := e.(type) {
	case *ast.ParenExpr:
		x.eval(st, fr, v.X, k)
	case *ast.Ident:
		k(st, x.ident(st, v))
	case *ast.BasicLit:
		k(st, &Val{K: VLit, Str: v.Value})
	case *ast.SelectorExpr:
		if sel, ok := x.info.Selections[v]; ok {
			if sel.Kind() == types.FieldVal {
				x.eval(st, fr, v.X, func(st *State, base *Val) {
					b, fv := x.fieldPath(st, base, sel, v.Pos())
					k(st, x.readField(st, fr, b, fv, v.Pos(), true))
				})
				return
			}
			// method value
			x.eval(st, fr, v.X, func(st *State, recv *Val) {
				f, _ := sel.Obj().(*types.Func)
				k(st, &Val{K: VFunc, Fn: f, X: recv})
			})
			return
		}
		// package-qualified
		switch o := x.info.Uses[v.Sel].(type) {
		case *types.Var:
			k(st, x.global(st, o))
		case *types.Func:
			k(st, &Val{K: VFunc, Fn: o})
		default:
			k(st, x.unknown(st, x.info.TypeOf(e), e.Pos(), "sel"))
		}
	case *ast.CallExpr:
		x.call(st, fr, v, 1, func(st *State, vs []*Val) {
			if len(vs) > 0 {
				k(st, vs[0])
			} else {
				k(st, nil)
			}
		})
	case *ast.StarExpr:
		x.eval(st, fr, v.X, func(st *State, p *Val) {
			k(st, x.deref(st, fr, p, x.info.TypeOf(e), v.Pos()))
		})
	case *ast.UnaryExpr:
		switch v.Op {
		case token.AND:
			x.addr(st, fr, v.X, k)
		case token.ARROW:
			x.eval(st, fr, v.X, func(st *State, _ *Val) {
				st.killAll() // blocking: other goroutines run
				k(st, x.unknown(st, x.info.TypeOf(e), e.Pos(), "recv"))
			})
		default:
			x.eval(st, fr, v.X, func(st *State, a *Val) {
				if v.Op == token.NOT {
					if a.K == VBool {
						k(st, VBoolV(!a.B))
						return
					}
				}
				if v.Op == token.ADD {
					k(st, a)
					return
				}
				k(st, simplifyIf(&Val{K: VUn, Op: v.Op, X: a, T: x.info.TypeOf(e)}))
			})
		}
	case *ast.BinaryExpr:
		if v.Op == token.LAND || v.Op == token.LOR {
			x.shortCircuit(st, fr, v, k)
			return
		}
		x.eval(st, fr, v.X, func(st *State, a *Val) {
			x.eval(st, fr, v.Y, func(st *State, b *Val) {
				k(st, x.binary(st, v.Op, a, b, x.info.TypeOf(e)))
			})
		})
	case *ast.IndexExpr:
		x.eval(st, fr, v.X, func(st *State, a *Val) {
			x.eval(st, fr, v.Index, func(st *State, i *Val) {
				if a != nil && a.K == VList && i != nil && i.K == VConst && i.Int >= 0 && int(i.Int) < len(a.Args) {
					k(st, a.Args[i.Int]) // table lookup with a constant index
					return
				}
				r := &Val{K: VIndex, X: a, Y: i, T: x.info.TypeOf(e)}
				if st.epoch > 0 {
					r.Str = fmt.Sprint(st.epoch)
					r.key = fmt.Sprintf("%s[%s]#%d", a.Key(), i.Key(), st.epoch)
				}
				k(st, r)
			})
		})
	case *ast.SliceExpr:
		x.eval(st, fr, v.X, func(st *State, a *Val) {
			x.eval(st, fr, v.Low, func(st *State, lo *Val) {
				x.eval(st, fr, v.High, func(st *State, hi *Val) {
					if v.Max != nil {
						st.taintf("3-index slice at %s", x.pos(v.Pos()))
					}
					if lo != nil && lo.K == VConst && lo.Int == 0 {
						lo = nil
					}
					if hi != nil && hi.K == VLen && hi.Str == "" && hi.X.Key() == a.Key() {
						hi = nil
					}
					if lo == nil && hi == nil {
						k(st, a)
						return
					}
					if a.K == VSlice {
						// (x[p:q])[lo:hi] = x[p+lo : p+hi]; an open upper bound keeps q
						base := a.Y
						nlo, nhi := base, a.Z
						if lo != nil {
							if base != nil {
								nlo = simplifyArith(&Val{K: VBin, Op: token.ADD, X: base, Y: lo})
							} else {
								nlo = lo
							}
						}
						if hi != nil {
							if base != nil {
								nhi = simplifyArith(&Val{K: VBin, Op: token.ADD, X: base, Y: hi})
							} else {
								nhi = hi
							}
						}
						k(st, &Val{K: VSlice, X: a.X, Y: nlo, Z: nhi, T: x.info.TypeOf(e)})
						return
					}
					k(st, &Val{K: VSlice, X: a, Y: lo, Z: hi, T: x.info.TypeOf(e)})
				})
			})
		})
	case *ast.CompositeLit:
		x.composite(st, fr, v, k)
	case *ast.FuncLit:
		k(st, &Val{K: VFunc, Lit: v})
	case *ast.TypeAssertExpr:
		x.eval(st, fr, v.X, func(st *State, a *Val) {
			k(st, x.unknown(st, x.info.TypeOf(e), e.Pos(), "assert"))
		})
	default:
		st.taintf("expression %T at %s", e, x.pos(e.Pos()))
		k(st, x.unknown(st, x.info.TypeOf(e), e.Pos(), "expr"))
	}
}

func simplifyIf(v *Val) *Val {
	if v.K == VUn && v.Op == token.SUB {
		return simplifyArith(v)
	}
	return v
}

func (x *exec) ident(st *State, id *ast.Ident) *Val {
	o := x.info.Uses[id]
	if o == nil {
		o = x.info.Defs[id]
	}
	switch ob := o.(type) {
	case *types.Nil:
		return VNilV()
	case *types.Var:
		if v, ok := st.env[ob]; ok {
			return v
		}
		if x.isLocal(ob) {
			// a variable of an enclosing function the walk did not pass through
			v := VLeafOf(&Leaf{Kind: LUnknown, Name: fmt.Sprintf("free:%s@%d", ob.Name(), ob.Pos()), Obj: ob, T: ob.Type()})
			st.env[ob] = v
			return v
		}
		return x.global(st, ob)
	case *types.Func:
		return &Val{K: VFunc, Fn: ob}
	case *types.Const:
		if ob.Val().Kind() == constant.Int {
			if i, ok := constant.Int64Val(ob.Val()); ok {
				return &Val{K: VConst, Int: i, T: ob.Type()}
			}
		}
		return &Val{K: VLit, Str: ob.Val().ExactString(), T: ob.Type()}
	}
	return x.unknown(st, x.info.TypeOf(id), id.Pos(), id.Name)
}

func (x *exec) global(st *State, o *types.Var) *Val {
	if v, ok := st.env[o]; ok {
		return v
	}
	if a := x.aliasOf(o); a != nil {
		return a
	}
	path := ""
	if o.Pkg() != nil {
		path = o.Pkg().Path()
		if i := strings.LastIndex(path, "/"); i >= 0 {
			path = path[i+1:]
		}
	}
	return VLeafOf(&Leaf{Kind: LGlobal, Name: path + "." + o.Name(), Obj: o, T: o.Type()})
}

// aliasOf: a package-level variable of the analysed package that is declared
// with an initialiser which is just another package-level variable (possibly
// through conversions / verified error wrappers) and is never assigned stands
// for that variable: `var errWriterClosed = io.ErrClosedPipe`.
func (x *exec) aliasOf(o *types.Var) *Val {
	if o.Pkg() != x.pkg {
		return nil
	}
	key := "ring.alias." + o.Pkg().Path() + "." + o.Name()
	if v, ok := x.c.Program.Shared[key]; ok {
		r, _ := v.(*Val)
		return r
	}
	x.c.Program.Shared[key] = (*Val)(nil)
	pk := x.c.Program.All[o.Pkg().Path()]
	if pk == nil {
		return nil
	}
	var init ast.Expr
	assigned := false
	for _, f := range pk.Syntax {
		ast.Inspect(f, func(n ast.Node) bool {
			switch s := n.(type) {
			case *ast.ValueSpec:
				for i, nm := range s.Names {
					if x.info.Defs[nm] == o && len(s.Values) == len(s.Names) {
						init = s.Values[i]
					}
				}
			case *ast.AssignStmt:
				for _, l := range s.Lhs {
					if id, ok := ast.Unparen(l).(*ast.Ident); ok && x.info.Uses[id] == o {
						assigned = true
					}
				}
			case *ast.UnaryExpr:
				if id, ok := ast.Unparen(s.X).(*ast.Ident); ok && s.Op == token.AND && x.info.Uses[id] == o {
					assigned = true
				}
			}
			return true
		})
	}
	if init == nil || assigned {
		return nil
	}
	// strip conversions and verified wrappers
	var res *Val
	var strip func(e ast.Expr) *Val
	strip = func(e ast.Expr) *Val {
		e = ast.Unparen(e)
		switch v := e.(type) {
		case *ast.Ident:
			if g, ok := x.info.Uses[v].(*types.Var); ok && !x.isLocal(g) && g != o {
				return x.global(&State{x: x, env: map[types.Object]*Val{}}, g)
			}
		case *ast.SelectorExpr:
			if _, isSel := x.info.Selections[v]; !isSel {
				if g, ok := x.info.Uses[v.Sel].(*types.Var); ok {
					return x.global(&State{x: x, env: map[types.Object]*Val{}}, g)
				}
			}
		case *ast.CallExpr:
			if len(v.Args) == 1 {
				if tv, ok := x.info.Types[v.Fun]; ok && tv.IsType() {
					return strip(v.Args[0])
				}
				if f := core.CalleeFunc(x.info, v); f != nil && x.nilPreserving(f) {
					if in := strip(v.Args[0]); in != nil {
						return &Val{K: VWrap, Fn: f, X: in, T: o.Type()}
					}
				}
			}
		}
		return nil
	}
	res = strip(init)
	x.c.Program.Shared[key] = res
	return res
}

func (x *exec) binary(st *State, op token.Token, a, b *Val, t types.Type) *Val {
	if a == nil || b == nil {
		return x.unknown(st, t, token.NoPos, "bin")
	}
	r := &Val{K: VBin, Op: op, X: a, Y: b, T: t}
	switch op {
	case token.ADD, token.SUB, token.MUL, token.SHL:
		if a.K == VLit || b.K == VLit {
			return r // string concatenation / floats
		}
		return simplifyArith(r)
	case token.QUO, token.REM, token.AND, token.OR, token.XOR, token.SHR, token.AND_NOT:
		if a.K == VConst && b.K == VConst {
			switch op {
			case token.QUO:
				if b.Int != 0 {
					return &Val{K: VConst, Int: a.Int / b.Int, T: t}
				}
			case token.REM:
				if b.Int != 0 {
					return &Val{K: VConst, Int: a.Int % b.Int, T: t}
				}
			case token.AND:
				return &Val{K: VConst, Int: a.Int & b.Int, T: t}
			case token.OR:
				return &Val{K: VConst, Int: a.Int | b.Int, T: t}
			case token.XOR:
				return &Val{K: VConst, Int: a.Int ^ b.Int, T: t}
			case token.SHR:
				if b.Int >= 0 && b.Int < 63 {
					return &Val{K: VConst, Int: a.Int >> uint(b.Int), T: t}
				}
			}
		}
		return r
	}
	if cmpOps[op] {
		if v, known := (Facts{}).Decide(r); known {
			return VBoolV(v)
		}
	}
	return r
}

// shortCircuit evaluates a && b / a || b. When the right operand contains a
// call the path forks on the left operand so that the call is only recorded
// where it is executed.
func (x *exec) shortCircuit(st *State, fr *frame, e *ast.BinaryExpr, k func(*State, *Val)) {
	hasCall := false
	core.Inspect(e.Y, func(n ast.Node) bool {
		if c, ok := n.(*ast.CallExpr); ok {
			if tv, has := x.info.Types[c.Fun]; !has || !tv.IsType() {
				if b, isB := core.Callee(x.info, c).(*types.Builtin); !isB || b.Name() != "len" && b.Name() != "cap" {
					hasCall = true
				}
			}
		}
		return true
	})
	and := e.Op == token.LAND
	x.eval(st, fr, e.X, func(st *State, a *Val) {
		if b, known := st.facts.Decide(a); known {
			if b != and { // false && _, true || _
				k(st, VBoolV(b))
				return
			}
			x.eval(st, fr, e.Y, k)
			return
		}
		if !hasCall {
			x.eval(st, fr, e.Y, func(st *State, b *Val) {
				k(st, &Val{K: VBin, Op: e.Op, X: a, Y: b, T: types.Typ[types.Bool]})
			})
			return
		}
		short := st.facts.assume(a, !and, e.X.Pos())
		cont := st.facts.assume(a, and, e.X.Pos())
		total, n := len(short)+len(cont), 0
		for _, alt := range short {
			n++
			s2 := st
			if n < total {
				s2 = st.clone()
			}
			s2.facts = alt
			k(s2, VBoolV(!and))
		}
		for _, alt := range cont {
			n++
			s2 := st
			if n < total {
				s2 = st.clone()
			}
			s2.facts = alt
			x.eval(s2, fr, e.Y, k)
		}
	})
}

func (x *exec) deref(st *State, fr *frame, p *Val, t types.Type, pos token.Pos) *Val {
	if p != nil && p.K == VAddr {
		switch p.X.K {
		case VRef:
			if p.X.F != nil {
				return x.readField(st, fr, p.X.X, p.X.F, pos, true)
			}
			if v, ok := st.env[p.X.Obj]; ok {
				return v
			}
		case VObj:
			return p.X
		}
	}
	if p != nil && p.K == VLeaf {
		// *p for an unknown pointer: a leaf of the current memory epoch
		return VLeafOf(&Leaf{Kind: LUnknown, Name: fmt.Sprintf("*%s#%d", p.Key(), st.epoch), T: t, Pos: pos})
	}
	return x.unknown(st, t, pos, "deref")
}

func (x *exec) addr(st *State, fr *frame, e ast.Expr, k func(*State, *Val)) {
	e = ast.Unparen(e)
	switch v := e.(type) {
	case *ast.CompositeLit:
		x.composite(st, fr, v, func(st *State, o *Val) {
			if o.K == VObj {
				k(st, &Val{K: VAddr, X: o, T: types.NewPointer(o.T)})
				return
			}
			k(st, o)
		})
		return
	case *ast.Ident:
		o := x.info.Uses[v]
		if o == nil {
			o = x.info.Defs[v]
		}
		if o != nil && x.isLocal(o) {
			if cur, ok := st.env[o]; ok && cur.K == VObj {
				k(st, &Val{K: VAddr, X: cur, T: types.NewPointer(o.Type())})
				return
			}
			k(st, &Val{K: VAddr, X: &Val{K: VRef, Obj: o}, T: types.NewPointer(o.Type())})
			return
		}
	case *ast.SelectorExpr:
		if sel, ok := x.info.Selections[v]; ok && sel.Kind() == types.FieldVal {
			x.eval(st, fr, v.X, func(st *State, base *Val) {
				b, fv := x.fieldPath(st, base, sel, v.Pos())
				if cur, ok := st.fields[b.Key()+"."+fv.Name()]; ok && cur.K == VObj {
					k(st, &Val{K: VAddr, X: cur})
					return
				}
				k(st, &Val{K: VAddr, X: &Val{K: VRef, X: b, F: fv}, T: types.NewPointer(fv.Type())})
			})
			return
		}
	}
	x.eval(st, fr, e, func(st *State, _ *Val) {
		k(st, x.unknown(st, nil, e.Pos(), "addr"))
	})
}

func (x *exec) composite(st *State, fr *frame, lit *ast.CompositeLit, k func(*State, *Val)) {
	t := x.info.TypeOf(lit)
	stt, ok := t.Underlying().(*types.Struct)
	if !ok {
		// slice / map / array literal: evaluate the elements for their events
		var es []ast.Expr
		for _, el := range lit.Elts {
			if kv, ok := el.(*ast.KeyValueExpr); ok {
				es = append(es, kv.Value)
			} else {
				es = append(es, el)
			}
		}
		x.evalList(st, fr, es, func(st *State, vs []*Val) {
			hasKey := false
			for _, el := range lit.Elts {
				if _, ok := el.(*ast.KeyValueExpr); ok {
					hasKey = true
				}
			}
			_, isSlice := t.Underlying().(*types.Slice)
			_, isArray := t.Underlying().(*types.Array)
			if (isSlice || isArray) && !hasKey {
				// a list of known elements (ranged over exactly, len known)
				st.nobj++
				k(st, &Val{K: VList, Args: vs, T: t, key: fmt.Sprintf("list@%d/%d", lit.Pos(), st.nobj)})
				return
			}
			k(st, x.unknown(st, t, lit.Pos(), "lit"))
		})
		return
	}
	obj := x.newObj(st, t, lit.Pos())
	var fields []*types.Var
	var es []ast.Expr
	for i, el := range lit.Elts {
		if kv, ok := el.(*ast.KeyValueExpr); ok {
			if id, ok := kv.Key.(*ast.Ident); ok {
				for j := 0; j < stt.NumFields(); j++ {
					if stt.Field(j).Name() == id.Name {
						fields = append(fields, stt.Field(j))
						es = append(es, kv.Value)
					}
				}
			}
		} else if i < stt.NumFields() {
			fields = append(fields, stt.Field(i))
			es = append(es, el)
		}
	}
	x.evalList(st, fr, es, func(st *State, vs []*Val) {
		for i, fv := range fields {
			key := obj.Key() + "." + fv.Name()
			st.fields[key] = vs[i]
			st.fieldF[key] = fv
		}
		k(st, obj)
	})
}

// ---------------------------------------------------------------------------
// calls

// callee evaluates the function part of a call: (function value, receiver).
func (x *exec) callee(st *State, fr *frame, call *ast.CallExpr, k func(st *State, fn *Val, recv *Val)) {
	fun := ast.Unparen(call.Fun)
	switch f := fun.(type) {
	case *ast.Ident:
		switch o := x.info.Uses[f].(type) {
		case *types.Func:
			k(st, &Val{K: VFunc, Fn: o}, nil)
			return
		case *types.Builtin:
			k(st, &Val{K: VFunc, Str: o.Name()}, nil)
			return
		case *types.Var:
			k(st, x.ident(st, f), nil)
			return
		}
	case *ast.SelectorExpr:
		if sel, ok := x.info.Selections[f]; ok {
			switch sel.Kind() {
			case types.MethodVal:
				x.eval(st, fr, f.X, func(st *State, recv *Val) {
					m, _ := sel.Obj().(*types.Func)
					// promoted method: the receiver is the embedded field
					if idx := sel.Index(); len(idx) > 1 {
						t := sel.Recv()
						for _, ix := range idx[:len(idx)-1] {
							if p, ok := t.Underlying().(*types.Pointer); ok {
								t = p.Elem()
							}
							if stt, ok := t.Underlying().(*types.Struct); ok {
								recv = x.readField(st, fr, derefBase(recv), stt.Field(ix), f.Pos(), true)
								t = stt.Field(ix).Type()
							}
						}
					}
					k(st, &Val{K: VFunc, Fn: m}, recv)
				})
				return
			case types.FieldVal:
				x.eval(st, fr, f, func(st *State, v *Val) { k(st, v, nil) })
				return
			}
		}
		if o, ok := x.info.Uses[f.Sel].(*types.Func); ok {
			k(st, &Val{K: VFunc, Fn: o}, nil)
			return
		}
	case *ast.FuncLit:
		k(st, &Val{K: VFunc, Lit: f}, nil)
		return
	}
	x.eval(st, fr, fun, func(st *State, v *Val) { k(st, v, nil) })
}

// call evaluates a call expression; want is the number of results the context
// uses (-1: statement).
func (x *exec) call(st *State, fr *frame, call *ast.CallExpr, want int, k func(*State, []*Val)) {
	// conversion
	if tv, ok := x.info.Types[call.Fun]; ok && tv.IsType() && len(call.Args) == 1 {
		x.eval(st, fr, call.Args[0], func(st *State, a *Val) {
			if a == nil {
				k(st, []*Val{x.unknown(st, tv.Type, call.Pos(), "conv")})
				return
			}
			if isIntegerT(tv.Type) && (integerish(a) || isIntegerT(a.T) || a.K == VLeaf && a.T == nil) {
				if a.K == VConst {
					k(st, []*Val{{K: VConst, Int: a.Int, T: tv.Type}})
					return
				}
				k(st, []*Val{a}) // integer conversions are transparent
				return
			}
			if _, isIface := tv.Type.Underlying().(*types.Interface); isIface {
				k(st, []*Val{a})
				return
			}
			k(st, []*Val{{K: VCall, Str: "conv:" + types.TypeString(tv.Type, nil), Args: []*Val{a}, T: tv.Type}})
		})
		return
	}
	x.callee(st, fr, call, func(st *State, fn *Val, recv *Val) {
		x.evalList(st, fr, call.Args, func(st *State, args []*Val) {
			x.applyCall(st, fr, call, fn, recv, args, false, false, k)
		})
	})
}

func (x *exec) onStack(st *State, f *types.Func) bool {
	for _, s := range st.stack {
		if s == f {
			return true
		}
	}
	return false
}

// applyCall performs a call with evaluated operands.
func (x *exec) applyCall(st *State, fr *frame, call *ast.CallExpr, fn *Val, recv *Val, args []*Val, isDefer, isGo bool, k func(*State, []*Val)) {
	if st.dead {
		return
	}
	// builtins
	if fn != nil && fn.K == VFunc && fn.Fn == nil && fn.Lit == nil && fn.Str != "" {
		x.builtin(st, fr, call, fn.Str, args, isDefer, k)
		return
	}
	// closure
	if fn != nil && fn.K == VFunc && fn.Lit != nil {
		if fr.depth < x.cfg.MaxDepth {
			g := cfgq.OfLit(x.c.Program, x.info, fn.Lit)
			nf := x.newFrame(fr.fn, fn.Lit, g, fn.Lit.Type, fr.depth+1)
			x.bindParams(st, fn.Lit.Type, nil, nil, args, call)
			x.initResults(st, nf, fn.Lit.Type)
			x.runBlock(st, nf, g.CFG.Blocks[0], 0, func(st *State, vals []*Val, _ token.Pos) { k(st, vals) })
			return
		}
	}
	var f *types.Func
	if fn != nil && fn.K == VFunc {
		f = fn.Fn
		if fn.X != nil && recv == nil {
			recv = fn.X // bound method value
		}
	}
	if f != nil {
		f = f.Origin()
		// an interface method called on a value whose concrete type is known on
		// this path (a receiver handed to a generic driver as `m medium`) is the
		// concrete method
		if r := f.Type().(*types.Signature).Recv(); r != nil && recv != nil && recv.T != nil {
			if _, isIface := r.Type().Underlying().(*types.Interface); isIface {
				if _, dynIface := recv.T.Underlying().(*types.Interface); !dynIface {
					if obj, _, _ := types.LookupFieldOrMethod(recv.T, true, f.Pkg(), f.Name()); obj != nil {
						if m, ok := obj.(*types.Func); ok {
							f = m.Origin()
						}
					}
				}
			}
		}
		if x.inlinable(st, fr, f, call) {
			decl := x.c.FnOf(f)
			g := cfgq.Of(x.c.Program, decl)
			nf := x.newFrame(f, nil, g, decl.Decl.Type, fr.depth+1)
			st.stack = append(st.stack[:len(st.stack):len(st.stack)], f)
			st.record(&Event{Kind: EvEnter, Pos: call.Pos(), In: fr.fn, Depth: fr.depth, Call: call, Callee: f, Recv: recv, Args: args, Deferred: isDefer})
			x.bindParams(st, decl.Decl.Type, decl.Decl.Recv, recv, args, call)
			x.initResults(st, nf, decl.Decl.Type)
			x.runBlock(st, nf, g.CFG.Blocks[0], 0, func(st *State, vals []*Val, _ token.Pos) {
				st.stack = st.stack[:len(st.stack)-1]
				k(st, vals)
			})
			return
		}
	}
	x.opaque(st, fr, call, f, fn, recv, args, isDefer, isGo, k)
}

func (x *exec) inlinable(st *State, fr *frame, f *types.Func, call *ast.CallExpr) bool {
	if f.Pkg() != x.pkg || fr.depth >= x.cfg.MaxDepth || x.onStack(st, f) {
		return false
	}
	if x.cfg.Opaque != nil && x.cfg.Opaque(f) {
		return false
	}
	sig := f.Type().(*types.Signature)
	if r := sig.Recv(); r != nil {
		if _, isIface := r.Type().Underlying().(*types.Interface); isIface {
			return false
		}
	}
	decl := x.c.FnOf(f)
	if decl == nil || decl.Decl.Body == nil || decl.Pkg.TypesInfo != x.info {
		return false
	}
	if cfgq.NR(x.c.Program).Has(f) {
		return false
	}
	return true
}

func (x *exec) bindParams(st *State, ft *ast.FuncType, recvL *ast.FieldList, recv *Val, args []*Val, call *ast.CallExpr) {
	if recvL != nil && len(recvL.List) == 1 && len(recvL.List[0].Names) == 1 {
		if o := x.info.Defs[recvL.List[0].Names[0]]; o != nil {
			if recv == nil {
				recv = x.unknown(st, o.Type(), call.Pos(), "recv")
			}
			// a value receiver called on a pointer (or vice versa) denotes the same object here
			st.env[o] = recv
		}
	}
	i := 0
	for _, fl := range ft.Params.List {
		if len(fl.Names) == 0 {
			i++
			continue
		}
		for _, nm := range fl.Names {
			if _, variadic := fl.Type.(*ast.Ellipsis); variadic && !call.Ellipsis.IsValid() {
				// f(a, rest...) called with spelled-out arguments: the parameter is the list of them
				if o := x.info.Defs[nm]; o != nil {
					var rest []*Val
					if i < len(args) {
						rest = args[i:]
					}
					st.nobj++
					st.env[o] = &Val{K: VList, Args: rest, T: o.Type(), key: fmt.Sprintf("varargs@%d/%d", call.Pos(), st.nobj)}
				}
				i = len(args)
				continue
			}
			if o := x.info.Defs[nm]; o != nil {
				if i < len(args) && args[i] != nil {
					st.env[o] = args[i]
				} else {
					st.env[o] = x.unknown(st, o.Type(), call.Pos(), nm.Name)
				}
			}
			i++
		}
	}
}

func (x *exec) builtin(st *State, fr *frame, call *ast.CallExpr, name string, args []*Val, isDefer bool, k func(*State, []*Val)) {
	t := x.info.TypeOf(call)
	switch name {
	case "len", "cap":
		if len(args) == 1 && args[0] != nil {
			if name == "len" {
				k(st, []*Val{VLenOf(args[0])})
			} else {
				k(st, []*Val{{K: VLen, Str: "cap", X: args[0]}})
			}
			return
		}
	case "panic":
		st.record(&Event{Kind: EvCall, Pos: call.Pos(), In: fr.fn, Depth: fr.depth, Call: call, Builtin: name, Args: args})
		x.finish(st, ExitPanic, nil, call.Pos())
		return
	case "min", "max":
		k(st, []*Val{{K: VCall, Str: name, Args: args, T: t}})
		return
	case "new":
		if p, ok := t.(*types.Pointer); ok {
			if _, isS := p.Elem().Underlying().(*types.Struct); isS {
				o := x.newObj(st, p.Elem(), call.Pos())
				k(st, []*Val{{K: VAddr, X: o, T: t}})
				return
			}
		}
	case "copy":
		ev := st.record(&Event{Kind: EvCall, Pos: call.Pos(), In: fr.fn, Depth: fr.depth, Call: call, Builtin: name, Args: args, Deferred: isDefer})
		st.seq[call.Lparen]++
		r := x.resultLeaf(st, call, nil, 0, types.Typ[types.Int])
		ev.Results = []*Val{r}
		st.facts = append(st.facts[:len(st.facts):len(st.facts)], Fact{A: VCmp(token.GEQ, r, VInt(0)), V: true})
		if len(args) == 2 && args[0] != nil && args[1] != nil {
			st.facts = append(st.facts, Fact{A: VCmp(token.LEQ, r, VLenOf(args[0])), V: true}, Fact{A: VCmp(token.LEQ, r, VLenOf(args[1])), V: true})
		}
		st.epoch++
		x.afterCall(st, ev)
		k(st, ev.Results)
		return
	}
	ev := st.record(&Event{Kind: EvCall, Pos: call.Pos(), In: fr.fn, Depth: fr.depth, Call: call, Builtin: name, Args: args, Deferred: isDefer})
	st.seq[call.Lparen]++
	if t != nil {
		if _, isTuple := t.(*types.Tuple); !isTuple {
			ev.Results = []*Val{x.resultLeaf(st, call, nil, 0, t)}
		}
	}
	x.afterCall(st, ev)
	k(st, ev.Results)
}

func (x *exec) afterCall(st *State, ev *Event) {
	if x.cfg.OnCall != nil && !st.dead {
		x.cfg.OnCall(st, ev)
	}
}

func (x *exec) resultLeaf(st *State, call *ast.CallExpr, f *types.Func, idx int, t types.Type) *Val {
	seq := st.seq[call.Lparen]
	name := ""
	if f != nil {
		name = f.Name()
	} else if id, ok := ast.Unparen(call.Fun).(*ast.Ident); ok {
		name = id.Name
	} else {
		name = "call"
	}
	p := x.c.Program.Fset.Position(call.Pos())
	nm := fmt.Sprintf("%s()@L%d", name, p.Line)
	if seq > 1 {
		nm += fmt.Sprintf("~%d", seq)
	}
	if idx > 0 {
		nm += fmt.Sprintf("[%d]", idx)
	}
	return VLeafOf(&Leaf{Kind: LResult, Name: nm, Call: call, Fn: f, Seq: seq, Idx: idx, T: t, Pos: call.Pos()})
}

// opaque records a call that is not inlined.
func (x *exec) opaque(st *State, fr *frame, call *ast.CallExpr, f *types.Func, fn *Val, recv *Val, args []*Val, isDefer, isGo bool, k func(*State, []*Val)) {
	ev := &Event{Kind: EvCall, Pos: call.Pos(), In: fr.fn, Depth: fr.depth, Call: call, Callee: f, Recv: recv, Args: args, Deferred: isDefer, Go: isGo}
	if x.cfg.Stop != nil && x.cfg.Stop(st, ev) {
		st.record(ev)
		x.finish(st, ExitStop, nil, call.Pos())
		return
	}
	// a function of the analysed package that has a body but was not followed
	// (recursion, nesting bound): what it does is invisible, verdicts would be guesses
	if f != nil && f.Pkg() == x.pkg && (x.cfg.Opaque == nil || !x.cfg.Opaque(f)) {
		if d := x.c.FnOf(f); d != nil && d.Decl.Body != nil && !cfgq.NR(x.c.Program).Has(f) {
			st.taintf("helper %s not followed at %s", f.Name(), x.pos(call.Pos()))
		}
	}
	// a verified nil-preserving error wrapper is a transparent term, not an event
	if f != nil && len(args) == 1 && args[0] != nil && x.nilPreserving(f) {
		k(st, []*Val{{K: VWrap, Fn: f, X: args[0], T: x.info.TypeOf(call)}})
		return
	}
	st.record(ev)
	st.seq[call.Lparen]++
	// results
	var rt []types.Type
	switch t := x.info.TypeOf(call).(type) {
	case *types.Tuple:
		for i := 0; i < t.Len(); i++ {
			rt = append(rt, t.At(i).Type())
		}
	case nil:
	default:
		rt = []types.Type{t}
	}
	for i, t := range rt {
		ev.Results = append(ev.Results, x.resultLeaf(st, call, f, i, t))
	}
	// effects on tracked state
	switch {
	case f == nil:
		st.killAll() // function value: anything may happen
	case f.Pkg() != nil && f.Pkg().Path() == "sync" && f.Name() == "Wait" && core.NamedTypePath(recvT(f)) == "sync.Cond":
		st.killAll() // the lock is released while waiting
	case f.Pkg() != nil && strings.HasPrefix(f.Pkg().Path(), core.Module):
		st.killFields(x.writesOf(f))
	}
	if f != nil && cfgq.NR(x.c.Program).Has(f) {
		x.finish(st, ExitPanic, nil, call.Pos())
		return
	}
	// io.Reader / io.Writer / io.ReaderAt contract (trusted): an operation that
	// is handed a byte slice first and returns (int, error) reports a count
	// between 0 and the length of that slice
	if len(ev.Results) == 2 && len(args) >= 1 && args[0] != nil && isIntegerT(rt[0]) && cfgq.IsErrorType(rt[1]) {
		if sl, ok := x.info.TypeOf(call.Args[0]).Underlying().(*types.Slice); ok {
			if b, ok := sl.Elem().Underlying().(*types.Basic); ok && b.Kind() == types.Uint8 {
				fs := st.facts[:len(st.facts):len(st.facts)]
				fs = append(fs, Fact{A: VCmp(token.GEQ, ev.Results[0], VInt(0)), V: true})
				fs = append(fs, Fact{A: VCmp(token.LEQ, ev.Results[0], VLenOf(args[0])), V: true})
				st.facts = fs
			}
		}
	}
	x.afterCall(st, ev)
	k(st, ev.Results)
}

func recvT(f *types.Func) types.Type {
	sig, _ := f.Type().(*types.Signature)
	if sig == nil || sig.Recv() == nil {
		return nil
	}
	return sig.Recv().Type()
}

// writesOf: fields a module function may write; for an interface method the
// union over the module methods of that name whose receiver implements it.
func (x *exec) writesOf(f *types.Func) map[*types.Var]bool {
	sig := f.Type().(*types.Signature)
	if r := sig.Recv(); r != nil {
		if it, isIface := r.Type().Underlying().(*types.Interface); isIface {
			key := f.FullName()
			if w, ok := x.ifaceW[key]; ok {
				return w
			}
			w := map[*types.Var]bool{}
			for _, pk := range x.c.Program.Pkgs {
				if pk.Types == nil {
					continue
				}
				sc := pk.Types.Scope()
				for _, nm := range sc.Names() {
					tn, ok := sc.Lookup(nm).(*types.TypeName)
					if !ok {
						continue
					}
					named, ok := tn.Type().(*types.Named)
					if !ok {
						continue
					}
					if !types.Implements(types.NewPointer(named), it) && !types.Implements(named, it) {
						continue
					}
					for i := 0; i < named.NumMethods(); i++ {
						if m := named.Method(i); m.Name() == f.Name() {
							for fv := range x.fl.Writes(m) {
								w[fv] = true
							}
						}
					}
				}
			}
			x.ifaceW[key] = w
			return w
		}
	}
	return x.fl.Writes(f)
}

// nilPreserving: f is a module `func(error) error` whose result is nil exactly
// when its argument is (checked with this engine on f itself).
func (x *exec) nilPreserving(f *types.Func) bool {
	sig := f.Type().(*types.Signature)
	if sig.Recv() != nil || sig.Params().Len() != 1 || sig.Results().Len() != 1 || sig.Variadic() {
		return false
	}
	if !cfgq.IsErrorType(sig.Params().At(0).Type()) || !cfgq.IsErrorType(sig.Results().At(0).Type()) {
		return false
	}
	if f.Pkg() == nil || !strings.HasPrefix(f.Pkg().Path(), core.Module) {
		return false
	}
	key := "ring.nilpres." + f.FullName()
	if v, ok := x.c.Program.Shared[key]; ok {
		return v.(bool)
	}
	x.c.Program.Shared[key] = false
	decl := x.c.FnOf(f)
	ok := decl != nil && decl.Decl.Body != nil
	if ok {
		for _, isNil := range []bool{true, false} {
			isNil := isNil
			s := &Sym{C: x.c, MaxPaths: 200, Init: func(st *State, ps []*Val) {
				if len(ps) == 1 {
					st.Assume(VCmp(token.EQL, ps[0], VNilV()), isNil)
				}
			}}
			r := s.Run(decl)
			if r.Overflow || len(r.Traces) == 0 {
				ok = false
				break
			}
			for _, t := range r.Traces {
				if t.Exit == ExitPanic {
					continue
				}
				if t.Exit != ExitReturn || len(t.Results) != 1 || len(t.Taint) > 0 {
					ok = false
					break
				}
				n, known := t.Facts.Nil(t.Results[0])
				if !known || n != isNil {
					ok = false
				}
			}
		}
	}
	x.c.Program.Shared[key] = ok
	return ok
}
