// Package ring holds the rules and engines shared by C09 (pipe) and C18
// (backlog).
//
//   - sym.go / symval.go / symq.go: the PATH ENGINE (ring.RunSym). A bounded,
//     path-sensitive symbolic walk of one function with its same-package
//     helpers, closures, deferred calls and pointer parameters followed. The
//     result is a set of traces: facts established + events (opaque calls such
//     as p.store.readSome / Cond.Wait / Signal, field reads and stores with
//     versions, returned values). Rules are written as requirements over
//     traces ("on every trace that sleeps ..."), so they do not depend on
//     guard clauses vs if/else vs switch, helper extraction, named results,
//     boolean locals, inverted conditions or equivalent integer arithmetic
//     (facts are decided over linear forms with intervals).
//   - storeq.go: trace rules for the mem/file buffer skeleton (closed guard,
//     end state of the positions, reset when drained, zero window, formulas).
//   - callers.go: "who calls X" by role (PkgCalls, OnlyVia) and RetriesOnWake
//     (callers of a wait-and-return-(0,nil) operation retry, decided by the
//     path engine with the wake-up injected as facts).
//   - ring.go: lock analysis (LockHeld: helpers, closures, deferred calls and
//     acquire/release wrappers are entry-held by fixpoint over their call
//     sites; GuardTable: accesses, also through pointer parameters), CondOver.
//   - clamp.go: roffset / woffset on traces: result 0 is proved to be the
//     minimum of blen and the ring bounds, result 1 is pos % size.
//   - wait.go: EvalUnder / Infeasible (assumption-based edge feasibility for
//     cfgq path queries; also used by C12, C13).
package ring

import (
	"fmt"
	"go/ast"
	"go/token"
	"go/types"

	"golang.org/x/tools/go/cfg"

	"rscheck/cfgq"
	"rscheck/core"
	"rscheck/pat"
)

// Bodies enumerates every function body of a package: declared functions and
// (separately) each function literal.
type Body struct {
	Name string
	Decl *ast.FuncDecl // enclosing declaration
	Lit  *ast.FuncLit  // nil for the declaration's own body
	G    *cfgq.Graph
}

func Bodies(c *core.Ctx, pkgPath string) []Body {
	pk := c.Pkg(pkgPath)
	if pk == nil {
		return nil
	}
	var out []Body
	for _, f := range pk.Syntax {
		for _, d := range f.Decls {
			fd, ok := d.(*ast.FuncDecl)
			if !ok || fd.Body == nil {
				continue
			}
			name := fd.Name.Name
			if fd.Recv != nil && len(fd.Recv.List) == 1 {
				name = "(" + core.NamedTypeName(pk.TypesInfo.TypeOf(fd.Recv.List[0].Type)) + ")." + name
			}
			gg := cfgq.New(c.Fset, pk.TypesInfo, fd.Body, cfgq.NR(c.Program))
			gg.Prog = c.Program
			out = append(out, Body{Name: name, Decl: fd, G: gg})
			i := 0
			ast.Inspect(fd.Body, func(n ast.Node) bool {
				if fl, ok := n.(*ast.FuncLit); ok {
					i++
					out = append(out, Body{Name: fmt.Sprintf("%s$lit%d", name, i), Decl: fd, Lit: fl, G: cfgq.OfLit(c.Program, pk.TypesInfo, fl)})
				}
				return true
			})
		}
	}
	return out
}

// isMutexCall: node executes base.<mu>.<method>() with mu a field of struct typ.
func mutexCall(info *types.Info, n ast.Node, typ, mu, method string, deferred bool) (base ast.Expr, ok bool) {
	var calls []*ast.CallExpr
	if d, isD := n.(*ast.DeferStmt); isD {
		if !deferred {
			return nil, false
		}
		calls = []*ast.CallExpr{d.Call}
	} else {
		if deferred {
			return nil, false
		}
		calls = cfgq.ExecCalls(n)
	}
	for _, call := range calls {
		fun := ast.Unparen(call.Fun)
		if id, isId := fun.(*ast.Ident); isId {
			// `unlock := p.mu.Unlock; defer unlock()`: a local bound once to the method value
			if d := pat.DefOf(info, id); d != nil {
				fun = ast.Unparen(d)
			}
		}
		sel, isSel := fun.(*ast.SelectorExpr)
		if !isSel || sel.Sel.Name != method {
			continue
		}
		if core.IsFieldNamed(info, sel.X, typ, mu) {
			return ast.Unparen(sel.X).(*ast.SelectorExpr).X, true
		}
	}
	return nil, false
}

// localFresh reports whether base is a local variable of the body that was
// initialised from a composite literal or new() in that body (constructor:
// the object has not escaped yet).
func localFresh(info *types.Info, body ast.Node, base ast.Expr) bool {
	id, ok := ast.Unparen(base).(*ast.Ident)
	if !ok {
		return false
	}
	obj := info.Uses[id]
	if obj == nil {
		obj = info.Defs[id]
	}
	fresh := false
	ast.Inspect(body, func(n ast.Node) bool {
		as, ok := n.(*ast.AssignStmt)
		if !ok || as.Tok != token.DEFINE || len(as.Lhs) != len(as.Rhs) {
			return true
		}
		for i, l := range as.Lhs {
			lid, ok := l.(*ast.Ident)
			if !ok || info.Defs[lid] != obj {
				continue
			}
			r := ast.Unparen(as.Rhs[i])
			if u, ok := r.(*ast.UnaryExpr); ok && u.Op == token.AND {
				if _, ok := ast.Unparen(u.X).(*ast.CompositeLit); ok {
					fresh = true
				}
			}
			if call, ok := r.(*ast.CallExpr); ok {
				if b, ok := info.Uses[identOf(call.Fun)].(*types.Builtin); ok && b.Name() == "new" {
					fresh = true
				}
			}
		}
		return true
	})
	return fresh
}

func identOf(e ast.Expr) *ast.Ident {
	id, _ := ast.Unparen(e).(*ast.Ident)
	if id == nil {
		return &ast.Ident{Name: ""}
	}
	return id
}

// LockState is the result of the lock analysis of one package for one mutex
// field: for every body, the cfg nodes at which the lock is held on all paths.
type LockState struct {
	Bodies []Body
	Held   []map[ast.Node]bool // parallel to Bodies
	Entry  []bool              // the body starts with the lock held (helper / closure only ever called under the lock)
}

// HeldAt reports whether the lock is held at the cfg node of body i that
// contains n.
func (ls *LockState) HeldAt(i int, n ast.Node) bool {
	if pt, ok := ls.Bodies[i].G.Find(n); ok && pt.Node() != nil {
		return ls.Held[i][pt.Node()]
	}
	return false
}

// LockHeld computes where <typ>.<mu> is held in package pkgPath. A declared
// helper that is only ever *called* (never used as a value, never started with
// go) from sites where the lock is held starts with the lock held; so does a
// function literal that is invoked in place or bound to a local variable whose
// only uses are calls at such sites. Exported functions and functions without
// a call site never qualify. This is a fixpoint over the package's call sites.
func LockHeld(c *core.Ctx, pkgPath, typ, mu string) *LockState {
	key := "ring.lockheld." + pkgPath + "." + typ + "." + mu
	if v, ok := c.Program.Shared[key]; ok {
		return v.(*LockState)
	}
	pk := c.Pkg(pkgPath)
	info := pk.TypesInfo
	bodies := Bodies(c, pkgPath)
	lockP, unlockP, deferredRel := lockPreds(c, pkgPath, typ, mu)
	declOf := map[types.Object]int{}
	litOf := map[*ast.FuncLit]int{}
	for i := range bodies {
		if bodies[i].Lit == nil {
			if o := info.Defs[bodies[i].Decl.Name]; o != nil {
				declOf[o] = i
			}
		} else {
			litOf[bodies[i].Lit] = i
		}
	}
	// how literals are used: invoked in place, or bound to a local whose uses are all calls
	litVar := map[types.Object][]int{} // local variable or parameter -> literal bodies it may hold
	litBad := map[int]bool{}
	argLit := map[*ast.FuncLit]bool{} // literals passed as arguments to package functions
	for i := range bodies {
		var root ast.Node = bodies[i].Decl.Body
		if bodies[i].Lit != nil {
			root = bodies[i].Lit.Body
		}
		core.Inspect(root, func(n ast.Node) bool {
			switch x := n.(type) {
			case *ast.AssignStmt:
				if len(x.Lhs) == len(x.Rhs) {
					for j, r := range x.Rhs {
						if fl, ok := ast.Unparen(r).(*ast.FuncLit); ok {
							if id, ok := x.Lhs[j].(*ast.Ident); ok {
								if o := core.ObjOf(info, id); o != nil {
									litVar[o] = append(litVar[o], litOf[fl])
								}
							}
						}
					}
				}
			case *ast.ValueSpec:
				if len(x.Names) == len(x.Values) {
					for j, r := range x.Values {
						if fl, ok := ast.Unparen(r).(*ast.FuncLit); ok {
							if o := info.Defs[x.Names[j]]; o != nil {
								litVar[o] = append(litVar[o], litOf[fl])
							}
						}
					}
				}
			case *ast.CallExpr:
				// a literal passed to a declared function of the package is bound to that parameter
				if f := core.CalleeFunc(info, x); f != nil {
					if j, ok := declOf[f.Origin()]; ok && !x.Ellipsis.IsValid() {
						var params []types.Object
						for _, fl := range bodies[j].Decl.Type.Params.List {
							for _, nm := range fl.Names {
								params = append(params, info.Defs[nm])
							}
						}
						for k, a := range x.Args {
							if fl, ok := ast.Unparen(a).(*ast.FuncLit); ok && k < len(params) && params[k] != nil {
								litVar[params[k]] = append(litVar[params[k]], litOf[fl])
								argLit[fl] = true
							}
						}
					}
				}
			}
			return true
		})
	}
	entry := make([]bool, len(bodies))
	for o, i := range declOf {
		if !o.Exported() {
			entry[i] = true
		}
	}
	for i := range bodies {
		if bodies[i].Lit != nil {
			entry[i] = true
		}
	}
	held := make([]map[ast.Node]bool, len(bodies))
	for changed := true; changed; {
		changed = false
		sites := map[int]int{}
		bad := map[int]bool{}
		for i := range litBad {
			bad[i] = true
		}
		for i := range bodies {
			b := &bodies[i]
			held[i] = heldFrom(b.G, entry[i], lockP, unlockP)
			for _, blk := range b.G.CFG.Blocks {
				if !blk.Live {
					continue
				}
				for _, n := range blk.Nodes {
					h := held[i][n]
					// calls executed by this node
					calledLits := map[*ast.FuncLit]bool{}
					calledVars := map[*ast.Ident]bool{}
					for _, call := range cfgq.ExecCalls(n) {
						fun := ast.Unparen(call.Fun)

						if fl, ok := fun.(*ast.FuncLit); ok {
							calledLits[fl] = true
							if j, ok := litOf[fl]; ok {
								sites[j]++
								if !h {
									bad[j] = true
								}
							}
							continue
						}
						if id, ok := fun.(*ast.Ident); ok {
							if js, ok := litVar[core.ObjOf(info, id)]; ok {
								calledVars[id] = true
								for _, j := range js {
									sites[j]++
									if !h {
										bad[j] = true
									}
								}
								continue
							}
						}
						if f := core.CalleeFunc(info, call); f != nil {
							if j, ok := declOf[f.Origin()]; ok {
								sites[j]++
								if !h {
									bad[j] = true
								}
							}
						}
					}
					// go / defer of a helper or literal, and any other mention, is not a held call site
					var skipCall *ast.CallExpr
					switch x := n.(type) {
					case *ast.GoStmt:
						skipCall = x.Call
					case *ast.DeferStmt:
						skipCall = x.Call
					}
					if skipCall != nil {
						// a deferred call runs at exit: the lock is still held there when it is
						// held at the defer statement, is released only by a deferred Unlock
						// registered earlier (it runs later), and never explicitly
						_, isGo := n.(*ast.GoStmt)
						hd := false
						if !isGo && h {
							hd = deferredUnderLock(b.G, n, unlockP, deferredRel)
						}
						site := func(j int) {
							sites[j]++
							if !hd {
								bad[j] = true
							}
						}
						fun := ast.Unparen(skipCall.Fun)
						if fl, ok := fun.(*ast.FuncLit); ok {
							calledLits[fl] = true
							site(litOf[fl])
						} else if id, ok := fun.(*ast.Ident); ok {
							if js, ok := litVar[core.ObjOf(info, id)]; ok {
								calledVars[id] = true
								for _, j := range js {
									site(j)
								}
							}
						}
						if f := core.CalleeFunc(info, skipCall); f != nil {
							if j, ok := declOf[f.Origin()]; ok {
								if !isGo {
									site(j)
								}
								if isGo {
									bad[j] = true
								}
							}
						}
					}
					core.Inspect(n, func(m ast.Node) bool {
						switch x := m.(type) {
						case *ast.FuncLit:
							if m != n && !calledLits[x] {
								// a literal that is neither invoked in place nor bound by this node
								bound := argLit[x]
								switch st := n.(type) {
								case *ast.AssignStmt:
									for _, r := range st.Rhs {
										if ast.Unparen(r) == ast.Expr(x) {
											bound = true
										}
									}
								case *ast.ValueSpec:
									for _, r := range st.Values {
										if ast.Unparen(r) == ast.Expr(x) {
											bound = true
										}
									}
								}
								if !bound {
									if j, ok := litOf[x]; ok {
										bad[j] = true
									}
								}
							}
						case *ast.Ident:
							if js, ok := litVar[core.ObjOf(info, x)]; ok && !calledVars[x] && info.Defs[x] == nil {
								// the variable is used other than as the callee (passed on, re-assigned ...)
								isLhs := false
								if as, ok := n.(*ast.AssignStmt); ok {
									for _, l := range as.Lhs {
										if l == ast.Expr(x) {
											isLhs = true
										}
									}
								}
								if !isLhs {
									for _, j := range js {
										bad[j] = true
									}
								}
							}
						}
						return true
					})
				}
			}
		}
		// declared helpers used as values anywhere in the package
		for i := range bodies {
			var root ast.Node = bodies[i].Decl.Body
			if bodies[i].Lit != nil {
				continue
			}
			callFuns := map[ast.Expr]bool{}
			ast.Inspect(root, func(m ast.Node) bool {
				if call, ok := m.(*ast.CallExpr); ok {
					callFuns[ast.Unparen(call.Fun)] = true
				}
				return true
			})
			ast.Inspect(root, func(m ast.Node) bool {
				switch x := m.(type) {
				case *ast.Ident:
					if f, ok := info.Uses[x].(*types.Func); ok && !callFuns[ast.Expr(x)] {
						if j, ok := declOf[f.Origin()]; ok {
							// selector method values are handled below; a bare identifier not in call position is a value use
							bad[j] = bad[j] || !isSelOfCall(root, x, callFuns)
						}
					}
				}
				return true
			})
		}
		for i := range entry {
			if entry[i] && (bad[i] || sites[i] == 0) {
				entry[i] = false
				changed = true
			}
		}
	}
	for i := range bodies {
		held[i] = heldFrom(bodies[i].G, entry[i], lockP, unlockP)
	}
	ls := &LockState{Bodies: bodies, Held: held, Entry: entry}
	c.Program.Shared[key] = ls
	return ls
}

// isSelOfCall: identifier id is the Sel of a selector expression that is the
// function part of a call (x.m(...)).
func isSelOfCall(root ast.Node, id *ast.Ident, callFuns map[ast.Expr]bool) bool {
	found := false
	ast.Inspect(root, func(m ast.Node) bool {
		if sel, ok := m.(*ast.SelectorExpr); ok && sel.Sel == id && callFuns[ast.Expr(sel)] {
			found = true
		}
		return !found
	})
	return found
}

// GuardTable checks that every access to one of the guarded fields of struct
// typ in package pkgPath happens with base.<mu> held on all paths (Lock
// executed, no explicit Unlock since), and that the body releases the lock
// (deferred Unlock, or an Unlock on every path to a normal exit).
// It returns the number of accesses examined, the guarded fields that never
// change after construction, and the count per field (a rule
// set that finds no access to one of the fields must not pass vacuously; the
// total is not compared with a number frozen from today's tree, because
// moving two accesses into a shared helper legitimately lowers it).
func GuardTable(c *core.Ctx, rule, pkgPath, typ, mu string, guarded []string) (int, map[string]int, map[string]bool) {
	pk := c.Pkg(pkgPath)
	if pk == nil {
		c.Undecidedf(rule, pkgPath, token.NoPos, "package %s not loaded", pkgPath)
		return 0, nil, nil
	}
	info := pk.TypesInfo
	seenField := map[string]int{}
	isGuarded := map[string]bool{}
	for _, f := range guarded {
		isGuarded[f] = true
	}
	count := 0
	ls := LockHeld(c, pkgPath, typ, mu)
	bodies := ls.Bodies
	lockP, unlockP, deferredRelease := lockPreds(c, pkgPath, typ, mu)
	pc := CallsIn(c, pkgPath)
	// `&x.f` handed to a declared function of the package whose parameter is only
	// ever dereferenced: the accesses are the dereferences in that function
	// (checked against its lock state), not the address computation.
	type access struct {
		sel   *ast.SelectorExpr
		node  ast.Node
		pos   token.Pos
		field string
	}
	exempt := map[*ast.SelectorExpr]bool{}
	derefs := map[*ast.FuncDecl][]access{}
	declBody := map[types.Object]*ast.FuncDecl{}
	for _, b := range bodies {
		if b.Lit == nil {
			if o := info.Defs[b.Decl.Name]; o != nil {
				declBody[o] = b.Decl
			}
		}
	}
	for _, b := range bodies {
		if b.Lit != nil {
			continue
		}
		ast.Inspect(b.Decl.Body, func(n ast.Node) bool {
			call, ok := n.(*ast.CallExpr)
			if !ok || call.Ellipsis.IsValid() {
				return true
			}
			f := core.CalleeFunc(info, call)
			if f == nil {
				return true
			}
			fd := declBody[f.Origin()]
			if fd == nil {
				return true
			}
			var params []types.Object
			for _, fl := range fd.Type.Params.List {
				for _, nm := range fl.Names {
					params = append(params, info.Defs[nm])
				}
			}
			for k, a := range call.Args {
				u, ok := ast.Unparen(a).(*ast.UnaryExpr)
				if !ok || u.Op != token.AND || k >= len(params) || params[k] == nil {
					continue
				}
				se, ok := ast.Unparen(u.X).(*ast.SelectorExpr)
				if !ok || !isGuarded[se.Sel.Name] || !core.IsFieldNamed(info, se, typ, se.Sel.Name) {
					continue
				}
				// every use of the parameter is `*param`, outside nested literals
				okUse := true
				var stars []*ast.StarExpr
				starOf := map[*ast.Ident]*ast.StarExpr{}
				ast.Inspect(fd.Body, func(m ast.Node) bool {
					if st, ok := m.(*ast.StarExpr); ok {
						if id, ok := ast.Unparen(st.X).(*ast.Ident); ok {
							starOf[id] = st
						}
					}
					return true
				})
				inLit := 0
				var walk func(m ast.Node) bool
				walk = func(m ast.Node) bool {
					switch x := m.(type) {
					case *ast.FuncLit:
						inLit++
						ast.Inspect(x.Body, walk)
						inLit--
						return false
					case *ast.Ident:
						if info.Uses[x] == params[k] {
							if st := starOf[x]; st != nil && inLit == 0 {
								stars = append(stars, st)
							} else {
								okUse = false
							}
						}
					}
					return true
				}
				ast.Inspect(fd.Body, walk)
				if !okUse || len(stars) == 0 {
					continue
				}
				exempt[se] = true
				for _, st := range stars {
					derefs[fd] = append(derefs[fd], access{pos: st.Pos(), field: se.Sel.Name, node: st})
				}
			}
			return true
		})
	}
	// A guarded field that is only ever assigned in a constructor (on an object
	// that has not escaped yet) never changes: reading its value is not a race.
	// What the lock protects is what is done THROUGH it. A method value x.F.m
	// bound outside the lock is therefore judged where it is called: as the
	// argument of a package function whose parameter is only called, or bound
	// once to a local that is only called; anything else outside the lock is
	// UNDECIDED (the rule cannot see the use). A direct call x.F.m() outside
	// the lock stays a violation.
	seenPtr := map[types.Object]bool{}
	immutable := map[string]bool{}
	for f := range isGuarded {
		immutable[f] = true
	}
	for _, b := range bodies {
		var root ast.Node = b.Decl.Body
		if b.Lit != nil {
			root = b.Lit
		}
		core.Inspect(root, func(n ast.Node) bool {
			switch x := n.(type) {
			case *ast.AssignStmt:
				for _, l := range x.Lhs {
					if se, ok := ast.Unparen(l).(*ast.SelectorExpr); ok && isGuarded[se.Sel.Name] && core.IsFieldNamed(info, se, typ, se.Sel.Name) {
						if !localFresh(info, root, se.X) {
							immutable[se.Sel.Name] = false
						}
					}
				}
			case *ast.IncDecStmt:
				if se, ok := ast.Unparen(x.X).(*ast.SelectorExpr); ok && isGuarded[se.Sel.Name] && core.IsFieldNamed(info, se, typ, se.Sel.Name) {
					immutable[se.Sel.Name] = false
				}
			case *ast.UnaryExpr:
				if se, ok := ast.Unparen(x.X).(*ast.SelectorExpr); ok && x.Op == token.AND && isGuarded[se.Sel.Name] && core.IsFieldNamed(info, se, typ, se.Sel.Name) {
					immutable[se.Sel.Name] = false // may be written through the pointer
				}
			}
			return true
		})
	}
	methodValue := map[*ast.SelectorExpr]*ast.SelectorExpr{} // x.F -> x.F.m used as a value
	plainRead := map[*ast.SelectorExpr]bool{}                // x.F whose value is copied (not the receiver of a call)
	for _, b := range bodies {
		if b.Lit != nil {
			continue
		}
		callFun := map[ast.Expr]bool{}
		parent := map[*ast.SelectorExpr]*ast.SelectorExpr{}
		ast.Inspect(b.Decl.Body, func(n ast.Node) bool {
			switch x := n.(type) {
			case *ast.CallExpr:
				callFun[ast.Unparen(x.Fun)] = true
			case *ast.SelectorExpr:
				if in, ok := ast.Unparen(x.X).(*ast.SelectorExpr); ok {
					parent[in] = x
				}
			}
			return true
		})
		ast.Inspect(b.Decl.Body, func(n ast.Node) bool {
			se, ok := n.(*ast.SelectorExpr)
			if !ok || !isGuarded[se.Sel.Name] || !immutable[se.Sel.Name] || !core.IsFieldNamed(info, se, typ, se.Sel.Name) {
				return true
			}
			if p := parent[se]; p != nil {
				if sel, ok := info.Selections[p]; ok && sel.Kind() == types.MethodVal && !callFun[ast.Expr(p)] {
					methodValue[se] = p
				}
			} else {
				plainRead[se] = true
			}
			return true
		})
	}
	// resolve method values to their call sites
	onlyCalled := func(fd *ast.FuncDecl, obj types.Object) ([]*ast.CallExpr, bool) {
		var calls []*ast.CallExpr
		called := map[*ast.Ident]*ast.CallExpr{}
		ast.Inspect(fd.Body, func(m ast.Node) bool {
			if c, ok := m.(*ast.CallExpr); ok {
				if id, ok := ast.Unparen(c.Fun).(*ast.Ident); ok {
					called[id] = c
				}
			}
			return true
		})
		ok, inLit := true, 0
		var walk func(m ast.Node) bool
		walk = func(m ast.Node) bool {
			switch x := m.(type) {
			case *ast.FuncLit:
				inLit++
				ast.Inspect(x.Body, walk)
				inLit--
				return false
			case *ast.Ident:
				if info.Uses[x] == obj {
					if c := called[x]; c != nil && inLit == 0 {
						calls = append(calls, c)
					} else {
						ok = false
					}
				}
			}
			return true
		}
		ast.Inspect(fd.Body, walk)
		return calls, ok && len(calls) > 0
	}
	for _, b := range bodies {
		if b.Lit != nil {
			continue
		}
		ast.Inspect(b.Decl.Body, func(n ast.Node) bool {
			switch x := n.(type) {
			case *ast.CallExpr:
				f := core.CalleeFunc(info, x)
				if f == nil || x.Ellipsis.IsValid() {
					return true
				}
				fd := declBody[f.Origin()]
				if fd == nil {
					return true
				}
				var params []types.Object
				for _, fl := range fd.Type.Params.List {
					for _, nm := range fl.Names {
						params = append(params, info.Defs[nm])
					}
				}
				for k, a := range x.Args {
					p, ok := ast.Unparen(a).(*ast.SelectorExpr)
					if !ok || k >= len(params) || params[k] == nil {
						continue
					}
					in, ok := ast.Unparen(p.X).(*ast.SelectorExpr)
					if !ok || methodValue[in] != p {
						continue
					}
					if calls, ok := onlyCalled(fd, params[k]); ok {
						exempt[in] = true
						for _, c := range calls {
							derefs[fd] = append(derefs[fd], access{pos: c.Pos(), field: in.Sel.Name, node: c})
						}
					}
				}
			case *ast.Ident:
				if info.Uses[x] == nil || seenPtr[info.Uses[x]] {
					return true
				}
				d := pat.DefOf(info, x)
				if d == nil {
					return true
				}
				p, ok := ast.Unparen(d).(*ast.SelectorExpr)
				if !ok {
					return true
				}
				in, ok := ast.Unparen(p.X).(*ast.SelectorExpr)
				if !ok || methodValue[in] != p {
					return true
				}
				seenPtr[info.Uses[x]] = true
				if calls, ok := onlyCalled(b.Decl, info.Uses[x]); ok {
					exempt[in] = true
					for _, c := range calls {
						derefs[b.Decl] = append(derefs[b.Decl], access{pos: c.Pos(), field: in.Sel.Name, node: c})
					}
				}
			}
			return true
		})
	}
	// `slot := &x.f` bound once to a local of the same function whose every use
	// is `*slot`: the accesses are the dereferences. Any other `&x.f` is an
	// address computation, not an access: it is fine under the lock; outside
	// the lock the rule cannot see where the pointer is used (UNDECIDED).
	addrOf := map[*ast.SelectorExpr]bool{}
	for _, b := range bodies {
		if b.Lit != nil {
			continue
		}
		ast.Inspect(b.Decl.Body, func(n ast.Node) bool {
			if u, ok := n.(*ast.UnaryExpr); ok && u.Op == token.AND {
				if se, ok := ast.Unparen(u.X).(*ast.SelectorExpr); ok && isGuarded[se.Sel.Name] && core.IsFieldNamed(info, se, typ, se.Sel.Name) {
					addrOf[se] = true
				}
			}
			return true
		})
		ast.Inspect(b.Decl.Body, func(n ast.Node) bool {
			id, ok := n.(*ast.Ident)
			if !ok || info.Uses[id] == nil || seenPtr[info.Uses[id]] {
				return true
			}
			d := pat.DefOf(info, id)
			if d == nil {
				return true
			}
			seenPtr[info.Uses[id]] = true
			u, ok := ast.Unparen(d).(*ast.UnaryExpr)
			if !ok || u.Op != token.AND {
				return true
			}
			se, ok := ast.Unparen(u.X).(*ast.SelectorExpr)
			if !ok || !addrOf[se] || exempt[se] {
				return true
			}
			obj := info.Uses[id]
			starOf := map[*ast.Ident]*ast.StarExpr{}
			ast.Inspect(b.Decl.Body, func(m ast.Node) bool {
				if st, ok := m.(*ast.StarExpr); ok {
					if x, ok := ast.Unparen(st.X).(*ast.Ident); ok {
						starOf[x] = st
					}
				}
				return true
			})
			okUse, inLit := true, 0
			var stars []*ast.StarExpr
			var walk func(m ast.Node) bool
			walk = func(m ast.Node) bool {
				switch x := m.(type) {
				case *ast.FuncLit:
					inLit++
					ast.Inspect(x.Body, walk)
					inLit--
					return false
				case *ast.Ident:
					if info.Uses[x] == obj {
						if st := starOf[x]; st != nil && inLit == 0 {
							stars = append(stars, st)
						} else {
							okUse = false
						}
					}
				}
				return true
			}
			ast.Inspect(b.Decl.Body, walk)
			if okUse && len(stars) > 0 {
				exempt[se] = true
				for _, st := range stars {
					derefs[b.Decl] = append(derefs[b.Decl], access{pos: st.Pos(), field: se.Sel.Name, node: st})
				}
			}
			return true
		})
	}
	for bi, b := range bodies {
		var root ast.Node = b.Decl.Body
		if b.Lit != nil {
			root = b.Lit
		}
		if fo, _ := info.Defs[b.Decl.Name].(*types.Func); fo != nil && !pc.Referenced(fo) {
			continue // dead code: an unexported function nothing refers to cannot touch the state
		}
		var accs []access
		for _, blk := range b.G.CFG.Blocks {
			if !blk.Live {
				continue
			}
			for _, n := range blk.Nodes {
				core.Inspect(n, func(m ast.Node) bool {
					se, ok := m.(*ast.SelectorExpr)
					if !ok || !isGuarded[se.Sel.Name] {
						return true
					}
					if core.IsFieldNamed(info, se, typ, se.Sel.Name) && !exempt[se] {
						accs = append(accs, access{sel: se, node: n, pos: se.Pos(), field: se.Sel.Name})
					}
					return true
				})
			}
		}
		if b.Lit == nil {
			seenD := map[string]bool{}
			for _, d := range derefs[b.Decl] {
				k := fmt.Sprint(d.pos, d.field)
				if seenD[k] {
					continue
				}
				seenD[k] = true
				if pt, ok := b.G.Find(d.node); ok && pt.Node() != nil {
					accs = append(accs, access{node: pt.Node(), pos: d.pos, field: d.field})
				}
			}
		}
		if len(accs) == 0 {
			continue
		}
		held := ls.Held[bi]
		perField := map[string]int{}
		for _, a := range accs {
			if a.sel != nil && localFresh(info, root, a.sel.X) {
				continue // constructor: object not shared yet
			}
			count++
			seenField[a.field]++
			perField[a.field]++
			key := fmt.Sprintf("%s/%s#%d", b.Name, a.field, perField[a.field])
			if a.sel != nil && !held[a.node] && (methodValue[a.sel] != nil || plainRead[a.sel] || addrOf[a.sel]) {
				// the value (or the address) is taken outside the lock and goes somewhere the
				// syntactic analysis cannot follow: ask the path engine whether the lock is
				// held wherever the enclosing function touches the field through it
				v, w, why := -1, []string(nil), "no declared function"
				if fo, _ := info.Defs[b.Decl.Name].(*types.Func); fo != nil && b.Lit == nil {
					if fn := c.FnOf(fo); fn != nil {
						v, w, why = HeldOnTraces(c, fn, ls.Entry[bi], mu, a.field, immutable[a.field] && !addrOf[a.sel])
					}
				}
				msg := fmt.Sprintf("%s.%s is reached through a value taken outside %s.%s; every use of it must execute with the lock held", typ, a.field, typ, mu)
				switch v {
				case 1:
					c.Okf(rule, key, a.pos, "%s", msg)
				case 0:
					c.Check(rule, key, a.pos, false, msg, w...)
				default:
					c.Undecidedf(rule, key, a.pos, "%s: %s", msg, why)
				}
				continue
			}
			c.Check(rule, key, a.pos, held[a.node],
				fmt.Sprintf("access to %s.%s must execute with %s.%s held on every path (Lock dominates, no explicit Unlock in between; a helper counts as locked only if every call site holds the lock)", typ, a.field, typ, mu))
		}
		// the lock is released on every normal exit
		locks := b.G.Points(lockP)
		for i, lp := range locks {
			rel := cfgq.Or(deferredRelease, unlockP)
			ok, w := b.G.MustPassToExit(lp, true, rel)
			if deferredRelease(lp.Node()) {
				ok, w = true, nil // `defer p.locked()()`: acquired and registered for release in one statement
			}
			if !ok {
				// a deferred release registered before this Lock on every path runs at exit as well
				if dom, _ := b.G.Dominated(lp, deferredRelease); dom {
					ok, w = true, nil
				}
			}
			c.Check(rule+".release", fmt.Sprintf("%s/%s#%d", b.Name, mu, i+1), lp.Node().Pos(), ok,
				fmt.Sprintf("every path from %s.Lock() to a normal exit releases it (defer Unlock or explicit Unlock)", mu), w...)
		}
	}
	return count, seenField, immutable
}

// CondOver checks that every value assigned to cond field `cond` of struct typ
// is sync.NewCond(&<same base>.<mu>) (plain, tuple or keyed-literal form does
// not matter: the assigned expression is what is compared).
func CondOver(c *core.Ctx, rule, pkgPath, typ, cond, mu string) {
	pk := c.Pkg(pkgPath)
	info := pk.TypesInfo
	n := 0
	overMu := func(rhs ast.Expr, base ast.Expr) bool {
		call, ok := ast.Unparen(rhs).(*ast.CallExpr)
		if !ok || len(call.Args) != 1 {
			return false
		}
		f := core.CalleeFunc(info, call)
		if f == nil || f.Pkg() == nil || f.Pkg().Path() != "sync" || f.Name() != "NewCond" {
			return false
		}
		u, ok := ast.Unparen(call.Args[0]).(*ast.UnaryExpr)
		if !ok || u.Op != token.AND {
			return false
		}
		sel, ok := ast.Unparen(u.X).(*ast.SelectorExpr)
		return ok && core.IsFieldNamed(info, sel, typ, mu) && pat.Same(info, sel.X, base)
	}
	for _, f := range pk.Syntax {
		ast.Inspect(f, func(m ast.Node) bool {
			as, ok := m.(*ast.AssignStmt)
			if !ok {
				return true
			}
			for i, l := range as.Lhs {
				if core.IsFieldNamed(info, l, typ, cond) {
					n++
					okv := len(as.Lhs) == len(as.Rhs) && overMu(as.Rhs[i], ast.Unparen(l).(*ast.SelectorExpr).X)
					c.Check(rule, fmt.Sprintf("%s.%s", typ, cond), as.Pos(), okv,
						fmt.Sprintf("condition variable %s.%s must be built over &%s.%s (Wait releases exactly the lock that guards the state)", typ, cond, typ, mu))
				}
			}
			return true
		})
	}
	if n == 0 {
		c.Undecidedf(rule, fmt.Sprintf("%s.%s", typ, cond), token.NoPos, "no construction of %s.%s found", typ, cond)
	}
}

// ImplementersOf returns the named struct types of pkg whose pointer
// implements the interface type named iface, sorted by name.
func ImplementersOf(c *core.Ctx, pkgPath, iface string) []*types.Named {
	pk := c.Pkg(pkgPath)
	tn, _ := pk.Types.Scope().Lookup(iface).(*types.TypeName)
	if tn == nil {
		return nil
	}
	it, _ := tn.Type().Underlying().(*types.Interface)
	if it == nil {
		return nil
	}
	var out []*types.Named
	for _, n := range pk.Types.Scope().Names() {
		t, ok := pk.Types.Scope().Lookup(n).(*types.TypeName)
		if !ok {
			continue
		}
		named, ok := t.Type().(*types.Named)
		if !ok {
			continue
		}
		if _, isStruct := named.Underlying().(*types.Struct); !isStruct {
			continue
		}
		if types.Implements(types.NewPointer(named), it) {
			out = append(out, named)
		}
	}
	return out
}

// CondOps lists the sync.Cond fields on which cfg node n performs one of the
// given methods (Wait/Signal/Broadcast). A call to a function of the same
// package whose every path to a normal exit performs such an operation counts
// as performing it (one level of wrapper resolution, e.g. `p.wakeWriter()`).
func CondOps(c *core.Ctx, info *types.Info, n ast.Node, methods ...string) []string {
	var out []string
	direct := func(call *ast.CallExpr) (string, bool) {
		sel, ok := ast.Unparen(call.Fun).(*ast.SelectorExpr)
		if !ok {
			return "", false
		}
		okm := false
		for _, m := range methods {
			okm = okm || sel.Sel.Name == m
		}
		if !okm {
			return "", false
		}
		f := core.CalleeFunc(info, call)
		if f == nil {
			return "", false
		}
		sig, _ := f.Type().(*types.Signature)
		if sig == nil || sig.Recv() == nil || core.NamedTypePath(sig.Recv().Type()) != "sync.Cond" {
			return "", false
		}
		if fs, ok := ast.Unparen(sel.X).(*ast.SelectorExpr); ok {
			return fs.Sel.Name, true
		}
		return "", false
	}
	for _, call := range cfgq.ExecCalls(n) {
		if name, ok := direct(call); ok {
			out = append(out, name)
			continue
		}
		f := core.CalleeFunc(info, call)
		if f == nil || f.Pkg() == nil {
			continue
		}
		fn := c.FnOf(f)
		if fn == nil || fn.Pkg.TypesInfo != info || fn.Decl.Body == nil {
			continue
		}
		g := cfgq.Of(c.Program, fn)
		seen := map[string]bool{}
		for _, blk := range g.CFG.Blocks {
			for _, m := range blk.Nodes {
				for _, c2 := range cfgq.ExecCalls(m) {
					if name, ok := direct(c2); ok {
						seen[name] = true
					}
				}
			}
		}
		for name := range seen {
			name := name
			ok, _ := g.MustPassToExit(g.Entry(), false, func(m ast.Node) bool {
				for _, c2 := range cfgq.ExecCalls(m) {
					if nm, ok := direct(c2); ok && nm == name {
						return true
					}
				}
				return false
			})
			if ok {
				out = append(out, name)
			}
		}
	}
	return out
}

// lockPreds builds the node predicates "acquires <typ>.<mu>", "releases it
// explicitly" and "registers its release for function exit". A declared
// function of the package whose every path locks the mutex and that never
// unlocks it is an acquire wrapper (`defer p.locked()()`, `p.lock()`); one
// that only unlocks is a release wrapper.
func lockPreds(c *core.Ctx, pkgPath, typ, mu string) (lock, unlock, deferredRelease func(ast.Node) bool) {
	pk := c.Pkg(pkgPath)
	info := pk.TypesInfo
	direct := func(method string, deferred bool) func(ast.Node) bool {
		return func(n ast.Node) bool { _, ok := mutexCall(info, n, typ, mu, method, deferred); return ok }
	}
	acquire, release := map[*types.Func]bool{}, map[*types.Func]bool{}
	for _, b := range Bodies(c, pkgPath) {
		if b.Lit != nil {
			continue
		}
		fo, _ := info.Defs[b.Decl.Name].(*types.Func)
		if fo == nil {
			continue
		}
		locks := b.G.Points(direct("Lock", false))
		unlocks := append(b.G.Points(direct("Unlock", false)), b.G.Points(direct("Unlock", true))...)
		switch {
		case len(locks) > 0 && len(unlocks) == 0:
			if ok, _ := b.G.MustPassToExit(b.G.Entry(), false, direct("Lock", false)); ok {
				acquire[fo] = true
			}
		case len(locks) == 0 && len(unlocks) > 0 && len(b.G.Points(direct("Unlock", true))) == 0:
			if ok, _ := b.G.MustPassToExit(b.G.Entry(), false, direct("Unlock", false)); ok {
				release[fo] = true
			}
		}
	}
	calls := func(n ast.Node, set map[*types.Func]bool) bool {
		if len(set) == 0 {
			return false
		}
		for _, call := range cfgq.ExecCalls(n) {
			if f := core.CalleeFunc(info, call); f != nil && set[f.Origin()] {
				return true
			}
		}
		return false
	}
	lock = func(n ast.Node) bool { return direct("Lock", false)(n) || calls(n, acquire) }
	unlock = func(n ast.Node) bool {
		if _, isD := n.(*ast.DeferStmt); isD {
			return false
		}
		return direct("Unlock", false)(n) || calls(n, release)
	}
	deferredRelease = func(n ast.Node) bool {
		d, ok := n.(*ast.DeferStmt)
		if !ok {
			return false
		}
		if direct("Unlock", true)(n) {
			return true
		}
		if f := core.CalleeFunc(info, d.Call); f != nil && release[f.Origin()] {
			return true
		}
		// defer p.locked()(): the function value returned by an acquire wrapper is its release
		if inner, ok := ast.Unparen(d.Call.Fun).(*ast.CallExpr); ok {
			if f := core.CalleeFunc(info, inner); f != nil && acquire[f.Origin()] {
				return true
			}
		}
		return false
	}
	return
}

// deferredUnderLock: the deferred call registered by node n runs with the lock
// held: a deferred release registered before n on every path (it runs after
// the call), and no explicit release anywhere in the body.
func deferredUnderLock(g *cfgq.Graph, n ast.Node, unlock, deferredRelease func(ast.Node) bool) bool {
	if len(g.Points(unlock)) > 0 {
		return false
	}
	pt, ok := g.Find(n)
	if !ok {
		return false
	}
	dom, _ := g.Dominated(pt, deferredRelease)
	return dom
}

// heldFrom is cfgq.HeldFrom with defer statements taken into account for what
// they execute immediately (the operands of the deferred call, e.g. the
// acquire wrapper in `defer p.locked()()`).
func heldFrom(g *cfgq.Graph, entry bool, lock, unlock func(ast.Node) bool) map[ast.Node]bool {
	in := map[*cfg.Block]bool{}
	out := map[*cfg.Block]bool{}
	for _, b := range g.CFG.Blocks {
		in[b], out[b] = true, true
	}
	preds := map[*cfg.Block][]*cfg.Block{}
	for _, b := range g.CFG.Blocks {
		for _, s := range b.Succs {
			preds[s] = append(preds[s], b)
		}
	}
	transfer := func(b *cfg.Block, v bool, rec map[ast.Node]bool) bool {
		for _, n := range b.Nodes {
			if rec != nil {
				rec[n] = v
			}
			if lock(n) {
				v = true
			} else if unlock(n) {
				v = false
			}
		}
		return v
	}
	for changed := true; changed; {
		changed = false
		for i, b := range g.CFG.Blocks {
			if !b.Live {
				continue
			}
			v := true
			if i == 0 {
				v = entry
			}
			for _, p := range preds[b] {
				if p.Live && !out[p] {
					v = false
				}
			}
			o := transfer(b, v, nil)
			if v != in[b] || o != out[b] {
				in[b], out[b] = v, o
				changed = true
			}
		}
	}
	res := map[ast.Node]bool{}
	for _, b := range g.CFG.Blocks {
		if b.Live {
			transfer(b, in[b], res)
		}
	}
	return res
}
