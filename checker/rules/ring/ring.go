// Package ring holds the rules shared by C09 (pipe) and C18 (backlog): lock
// guard tables (engine E5), the clamp form of the ring-index helpers and the
// mem/file sibling skeleton.
package ring

import (
	"fmt"
	"go/ast"
	"go/token"
	"go/types"
	"sort"
	"strings"

	"rscheck/cfgq"
	"rscheck/core"
	"rscheck/pat"
)

// Bodies enumerates every function body of a package: declared functions and
// (separately) each function literal.
type Body struct {
	Name string
	Decl *ast.FuncDecl // enclosing declaration
	Lit  *ast.FuncLit  // nil for the declaration's own body
	G    *cfgq.Graph
}

func Bodies(c *core.Ctx, pkgPath string) []Body {
	pk := c.Pkg(pkgPath)
	if pk == nil {
		return nil
	}
	var out []Body
	for _, f := range pk.Syntax {
		for _, d := range f.Decls {
			fd, ok := d.(*ast.FuncDecl)
			if !ok || fd.Body == nil {
				continue
			}
			name := fd.Name.Name
			if fd.Recv != nil && len(fd.Recv.List) == 1 {
				name = "(" + core.NamedTypeName(pk.TypesInfo.TypeOf(fd.Recv.List[0].Type)) + ")." + name
			}
			gg := cfgq.New(c.Fset, pk.TypesInfo, fd.Body, cfgq.NR(c.Program))
			gg.Prog = c.Program
			out = append(out, Body{Name: name, Decl: fd, G: gg})
			i := 0
			ast.Inspect(fd.Body, func(n ast.Node) bool {
				if fl, ok := n.(*ast.FuncLit); ok {
					i++
					out = append(out, Body{Name: fmt.Sprintf("%s$lit%d", name, i), Decl: fd, Lit: fl, G: cfgq.OfLit(c.Program, pk.TypesInfo, fl)})
				}
				return true
			})
		}
	}
	return out
}

// isMutexCall: node executes base.<mu>.<method>() with mu a field of struct typ.
func mutexCall(info *types.Info, n ast.Node, typ, mu, method string, deferred bool) (base ast.Expr, ok bool) {
	var calls []*ast.CallExpr
	if d, isD := n.(*ast.DeferStmt); isD {
		if !deferred {
			return nil, false
		}
		calls = []*ast.CallExpr{d.Call}
	} else {
		if deferred {
			return nil, false
		}
		calls = cfgq.ExecCalls(n)
	}
	for _, call := range calls {
		sel, isSel := ast.Unparen(call.Fun).(*ast.SelectorExpr)
		if !isSel || sel.Sel.Name != method {
			continue
		}
		if core.IsFieldNamed(info, sel.X, typ, mu) {
			return ast.Unparen(sel.X).(*ast.SelectorExpr).X, true
		}
	}
	return nil, false
}

// localFresh reports whether base is a local variable of the body that was
// initialised from a composite literal or new() in that body (constructor:
// the object has not escaped yet).
func localFresh(info *types.Info, body ast.Node, base ast.Expr) bool {
	id, ok := ast.Unparen(base).(*ast.Ident)
	if !ok {
		return false
	}
	obj := info.Uses[id]
	if obj == nil {
		obj = info.Defs[id]
	}
	fresh := false
	ast.Inspect(body, func(n ast.Node) bool {
		as, ok := n.(*ast.AssignStmt)
		if !ok || as.Tok != token.DEFINE || len(as.Lhs) != len(as.Rhs) {
			return true
		}
		for i, l := range as.Lhs {
			lid, ok := l.(*ast.Ident)
			if !ok || info.Defs[lid] != obj {
				continue
			}
			r := ast.Unparen(as.Rhs[i])
			if u, ok := r.(*ast.UnaryExpr); ok && u.Op == token.AND {
				if _, ok := ast.Unparen(u.X).(*ast.CompositeLit); ok {
					fresh = true
				}
			}
			if call, ok := r.(*ast.CallExpr); ok {
				if b, ok := info.Uses[identOf(call.Fun)].(*types.Builtin); ok && b.Name() == "new" {
					fresh = true
				}
			}
		}
		return true
	})
	return fresh
}

func identOf(e ast.Expr) *ast.Ident {
	id, _ := ast.Unparen(e).(*ast.Ident)
	if id == nil {
		return &ast.Ident{Name: ""}
	}
	return id
}

// GuardTable checks that every access to one of the guarded fields of struct
// typ in package pkgPath happens with base.<mu> held on all paths (Lock
// executed, no explicit Unlock since), and that the body releases the lock
// (deferred Unlock, or an Unlock on every path to a normal exit).
// It returns the number of accesses examined.
func GuardTable(c *core.Ctx, rule, pkgPath, typ, mu string, guarded []string) int {
	pk := c.Pkg(pkgPath)
	if pk == nil {
		c.Undecidedf(rule, pkgPath, token.NoPos, "package %s not loaded", pkgPath)
		return 0
	}
	info := pk.TypesInfo
	isGuarded := map[string]bool{}
	for _, f := range guarded {
		isGuarded[f] = true
	}
	count := 0
	bodies := Bodies(c, pkgPath)
	lockP := func(n ast.Node) bool { _, ok := mutexCall(info, n, typ, mu, "Lock", false); return ok }
	unlockP := func(n ast.Node) bool { _, ok := mutexCall(info, n, typ, mu, "Unlock", false); return ok }
	// helpers that are only ever called with the lock held start with it held
	// (fixpoint over the package's call sites; exported functions, functions
	// used as values and functions without a call site never qualify)
	declOf := map[types.Object]*Body{}
	for i := range bodies {
		if bodies[i].Lit == nil {
			if o := info.Defs[bodies[i].Decl.Name]; o != nil {
				declOf[o] = &bodies[i]
			}
		}
	}
	entryHeld := map[*ast.FuncDecl]bool{}
	for o, b := range declOf {
		if !o.Exported() {
			entryHeld[b.Decl] = true
		}
	}
	for changed := true; changed; {
		changed = false
		sites := map[*ast.FuncDecl]int{}
		bad := map[*ast.FuncDecl]bool{}
		for i := range bodies {
			b := &bodies[i]
			held := b.G.HeldFrom(b.Lit == nil && entryHeld[b.Decl], lockP, unlockP)
			for _, blk := range b.G.CFG.Blocks {
				if !blk.Live {
					continue
				}
				for _, n := range blk.Nodes {
					for _, call := range cfgq.ExecCalls(n) {
						if f := core.CalleeFunc(info, call); f != nil {
							if tb, ok := declOf[f.Origin()]; ok {
								sites[tb.Decl]++
								if !held[n] {
									bad[tb.Decl] = true
								}
							}
						}
					}
					// a go/defer of the helper, or its use as a value, is not a held call site
					switch x := n.(type) {
					case *ast.GoStmt:
						if f := core.CalleeFunc(info, x.Call); f != nil {
							if tb, ok := declOf[f.Origin()]; ok {
								bad[tb.Decl] = true
							}
						}
					}
				}
			}
		}
		for d := range entryHeld {
			if entryHeld[d] && (bad[d] || sites[d] == 0) {
				entryHeld[d] = false
				changed = true
			}
		}
	}
	for _, b := range bodies {
		var root ast.Node = b.Decl.Body
		if b.Lit != nil {
			root = b.Lit
		}
		type access struct {
			sel  *ast.SelectorExpr
			node ast.Node
		}
		var accs []access
		for _, blk := range b.G.CFG.Blocks {
			if !blk.Live {
				continue
			}
			for _, n := range blk.Nodes {
				core.Inspect(n, func(m ast.Node) bool {
					se, ok := m.(*ast.SelectorExpr)
					if !ok || !isGuarded[se.Sel.Name] {
						return true
					}
					if core.IsFieldNamed(info, se, typ, se.Sel.Name) {
						accs = append(accs, access{se, n})
					}
					return true
				})
			}
		}
		if len(accs) == 0 {
			continue
		}
		held := b.G.HeldFrom(b.Lit == nil && entryHeld[b.Decl], lockP, unlockP)
		perField := map[string]int{}
		for _, a := range accs {
			if localFresh(info, root, a.sel.X) {
				continue // constructor: object not shared yet
			}
			count++
			perField[a.sel.Sel.Name]++
			key := fmt.Sprintf("%s/%s#%d", b.Name, a.sel.Sel.Name, perField[a.sel.Sel.Name])
			c.Check(rule, key, a.sel.Pos(), held[a.node],
				fmt.Sprintf("access to %s.%s must execute with %s.%s held on every path (Lock dominates, no explicit Unlock in between; a helper counts as locked only if every call site holds the lock)", typ, a.sel.Sel.Name, typ, mu))
		}
		// the lock is released on every normal exit
		locks := b.G.Points(lockP)
		for i, lp := range locks {
			rel := cfgq.Or(
				func(n ast.Node) bool { _, ok := mutexCall(info, n, typ, mu, "Unlock", true); return ok },
				unlockP,
			)
			ok, w := b.G.MustPassToExit(lp, true, rel)
			c.Check(rule+".release", fmt.Sprintf("%s/%s#%d", b.Name, mu, i+1), lp.Node().Pos(), ok,
				fmt.Sprintf("every path from %s.Lock() to a normal exit releases it (defer Unlock or explicit Unlock)", mu), w...)
		}
	}
	return count
}

// CondOver checks that every assignment to cond field `cond` of struct typ
// constructs it with sync.NewCond(&<same base>.<mu>).
func CondOver(c *core.Ctx, rule, pkgPath, typ, cond, mu string) {
	pk := c.Pkg(pkgPath)
	info := pk.TypesInfo
	p := pat.Stmt("_b." + cond + " = sync.NewCond(&_b." + mu + ")")
	n := 0
	for _, f := range pk.Syntax {
		ast.Inspect(f, func(m ast.Node) bool {
			as, ok := m.(*ast.AssignStmt)
			if !ok {
				return true
			}
			for _, l := range as.Lhs {
				if core.IsFieldNamed(info, l, typ, cond) {
					n++
					c.Check(rule, fmt.Sprintf("%s.%s", typ, cond), as.Pos(), p.Match(info, as, nil) != nil,
						fmt.Sprintf("condition variable %s.%s must be built over &%s.%s (Wait releases exactly the lock that guards the state)", typ, cond, typ, mu))
				}
			}
			return true
		})
	}
	if n == 0 {
		c.Undecidedf(rule, fmt.Sprintf("%s.%s", typ, cond), token.NoPos, "no construction of %s.%s found", typ, cond)
	}
}

// ---------------------------------------------------------------------------
// clamp form of roffset / woffset

// ClampSpec describes a ring-index helper: results (maxlen, offset); maxlen
// starts at uint64(<blen param>), offset is <pos> % size, and maxlen is
// lowered to each of the clamp terms. Terms are written as patterns over the
// parameter names given in Params (bound as metavariables _blen,_size,...).
type ClampSpec struct {
	Params []string // expected parameter order (names are roles, not matched by name)
	Offset string   // role whose value modulo size is the offset, e.g. "rpos"
	Clamps []string // patterns of the terms maxlen is lowered to, using _role metavariables and _offset
}

// ClampFunc checks a roffset/woffset-style helper against spec.
func ClampFunc(c *core.Ctx, rule string, fn *core.Fn, spec ClampSpec) {
	if fn == nil {
		return
	}
	info := fn.Pkg.TypesInfo
	name := fn.Name()
	// bind roles to parameter objects by position
	var params []*ast.Ident
	for _, f := range fn.Decl.Type.Params.List {
		params = append(params, f.Names...)
	}
	if len(params) != len(spec.Params) {
		c.Undecidedf(rule, name+"/params", fn.Decl.Pos(), "%s has %d parameters, the rule knows %d roles %v", name, len(params), len(spec.Params), spec.Params)
		return
	}
	var results []*ast.Ident
	if fn.Decl.Type.Results != nil {
		for _, f := range fn.Decl.Type.Results.List {
			results = append(results, f.Names...)
		}
	}
	if len(results) != 2 {
		c.Undecidedf(rule, name+"/results", fn.Decl.Pos(), "%s must have two named results (maxlen, offset)", name)
		return
	}
	binds := pat.Binds{}
	for i, r := range spec.Params {
		binds["_"+r] = params[i]
	}
	binds["_maxlen"] = results[0]
	binds["_offset"] = results[1]

	body := fn.Decl.Body.List
	// a pure wrapper `return helper(args...)` around a same-package clamp helper: analyse
	// the helper with its parameters replaced by the wrapper's arguments
	subst := map[types.Object]ast.Expr{}
	if len(body) == 1 {
		if ret, ok := body[0].(*ast.ReturnStmt); ok && len(ret.Results) == 1 {
			if call, ok := ast.Unparen(ret.Results[0]).(*ast.CallExpr); ok {
				if f := core.CalleeFunc(info, call); f != nil && f.Pkg() != nil && f.Pkg().Path() == fn.Pkg.PkgPath {
					if h := c.FnOf(f); h != nil && h.Decl.Body != nil && h.Decl.Type.Results != nil {
						var hp, hr []*ast.Ident
						for _, fl := range h.Decl.Type.Params.List {
							hp = append(hp, fl.Names...)
						}
						for _, fl := range h.Decl.Type.Results.List {
							hr = append(hr, fl.Names...)
						}
						if len(hp) == len(call.Args) && len(hr) == 2 {
							for i, p := range hp {
								subst[info.Defs[p]] = call.Args[i]
							}
							binds["_maxlen"], binds["_offset"] = hr[0], hr[1]
							results = hr
							body = h.Decl.Body.List
						}
					}
				}
			}
		}
	}
	sub := func(e ast.Expr) ast.Expr { return substitute(info, e, subst) }
	_ = sub
	// classify each top-level statement
	var clampTerms []ast.Expr
	initOK, offOK := false, false
	unknown := ""
	pInit := pat.Stmt("_maxlen = uint64(_blen)")
	pOff := pat.Stmt("_offset = _" + spec.Offset + " % _size")
	pClampN := pat.Stmt("_maxlen = _n")
	for _, st := range body {
		switch s := st.(type) {
		case *ast.AssignStmt:
			if len(s.Lhs) == 1 && len(s.Rhs) == 1 {
				s2 := &ast.AssignStmt{Lhs: s.Lhs, Tok: s.Tok, TokPos: s.TokPos, Rhs: []ast.Expr{sub(s.Rhs[0])}}
				if pInit.Match(info, s2, binds) != nil {
					initOK = true
					continue
				}
				if pOff.Match(info, s2, binds) != nil {
					offOK = true
					continue
				}
			}
			// an assignment to offset of a different form
			if len(s.Lhs) == 1 && pat.Same(info, s.Lhs[0], results[1]) {
				c.Failf(rule, name+"/offset", s.Pos(), "offset must be `%s %% size` (the position of this side modulo the ring size); found `%s`", spec.Offset, c.Src(s))
				offOK = true
				continue
			}
			if len(s.Lhs) == 1 && pat.Same(info, s.Lhs[0], results[0]) {
				c.Failf(rule, name+"/init", s.Pos(), "maxlen must start at uint64(blen) and only be lowered under `n < maxlen`; found unguarded `%s`", c.Src(s))
				initOK = true
				continue
			}
			unknown = c.Src(s)
		case *ast.IfStmt:
			// if n := T; n < maxlen { maxlen = n }   or   if T < maxlen { maxlen = T }
			var term ast.Expr
			okShape := false
			if s.Else == nil && len(s.Body.List) == 1 {
				if as, ok := s.Init.(*ast.AssignStmt); ok && len(as.Lhs) == 1 && len(as.Rhs) == 1 {
					b2 := pat.Binds{"_n": as.Lhs[0]}
					for k, v := range binds {
						b2[k] = v
					}
					if pat.Expr("_n < _maxlen").Match(info, s.Cond, b2) != nil && pClampN.Match(info, s.Body.List[0], b2) != nil {
						term, okShape = sub(as.Rhs[0]), true
					} else if pClampN.Match(info, s.Body.List[0], b2) != nil {
						c.Failf(rule, name+"/clamp-guard", s.Pos(), "maxlen may only be lowered: the guard must be `n < maxlen`; found `%s`", c.Src(s.Cond))
						term, okShape = sub(as.Rhs[0]), true
					}
				} else if s.Init == nil {
					if be, ok := ast.Unparen(s.Cond).(*ast.BinaryExpr); ok {
						for _, cand := range []ast.Expr{be.X, be.Y} {
							b2 := pat.Binds{"_n": cand}
							for k, v := range binds {
								b2[k] = v
							}
							if pat.Same(info, cand, results[0]) {
								continue
							}
							if pClampN.Match(info, s.Body.List[0], b2) != nil {
								if pat.Expr("_n < _maxlen").Match(info, s.Cond, b2) == nil {
									c.Failf(rule, name+"/clamp-guard", s.Pos(), "maxlen may only be lowered: the guard must be `n < maxlen`; found `%s`", c.Src(s.Cond))
								}
								term, okShape = sub(cand), true
							}
						}
					}
				}
			}
			if !okShape {
				unknown = c.Src(s)
				continue
			}
			clampTerms = append(clampTerms, term)
		case *ast.ReturnStmt:
			if len(s.Results) != 0 && !(len(s.Results) == 2 && pat.Same(info, s.Results[0], results[0]) && pat.Same(info, s.Results[1], results[1])) {
				unknown = c.Src(s)
			}
		default:
			unknown = c.Src(st)
		}
	}
	if unknown != "" {
		c.Undecidedf(rule, name+"/shape", fn.Decl.Pos(), "%s contains a statement outside the clamp idiom: %s", name, unknown)
		return
	}
	c.Check(rule, name+"/init", fn.Decl.Pos(), initOK, "maxlen starts at uint64(blen): never more than the caller's buffer")
	c.Check(rule, name+"/offset", fn.Decl.Pos(), offOK, fmt.Sprintf("offset is %s %% size", spec.Offset))
	// compare clamp term sets
	used := make([]bool, len(clampTerms))
	for _, want := range spec.Clamps {
		p := pat.Expr(want)
		found := false
		for i, t := range clampTerms {
			if !used[i] && p.Match(info, t, binds) != nil {
				used[i], found = true, true
				break
			}
		}
		c.Check(rule, name+"/clamp:"+strings.ReplaceAll(want, "_", ""), fn.Decl.Pos(), found,
			fmt.Sprintf("maxlen must be lowered to `%s`; terms found: %s", strings.ReplaceAll(want, "_", ""), exprList(c, clampTerms)))
	}
	for i, t := range clampTerms {
		if !used[i] {
			c.Failf(rule, name+"/clamp-extra", t.Pos(), "maxlen is lowered to `%s`, which is not one of the ring bounds %v (reads/writes would be cut short or mis-sized)", c.Src(t), spec.Clamps)
		}
	}
}

func exprList(c *core.Ctx, es []ast.Expr) string {
	var s []string
	for _, e := range es {
		s = append(s, "`"+c.Src(e)+"`")
	}
	sort.Strings(s)
	return strings.Join(s, ", ")
}

// ImplementersOf returns the named struct types of pkg whose pointer
// implements the interface type named iface, sorted by name.
func ImplementersOf(c *core.Ctx, pkgPath, iface string) []*types.Named {
	pk := c.Pkg(pkgPath)
	tn, _ := pk.Types.Scope().Lookup(iface).(*types.TypeName)
	if tn == nil {
		return nil
	}
	it, _ := tn.Type().Underlying().(*types.Interface)
	if it == nil {
		return nil
	}
	var out []*types.Named
	for _, n := range pk.Types.Scope().Names() {
		t, ok := pk.Types.Scope().Lookup(n).(*types.TypeName)
		if !ok {
			continue
		}
		named, ok := t.Type().(*types.Named)
		if !ok {
			continue
		}
		if _, isStruct := named.Underlying().(*types.Struct); !isStruct {
			continue
		}
		if types.Implements(types.NewPointer(named), it) {
			out = append(out, named)
		}
	}
	return out
}

// CondOps lists the sync.Cond fields on which cfg node n performs one of the
// given methods (Wait/Signal/Broadcast). A call to a function of the same
// package whose every path to a normal exit performs such an operation counts
// as performing it (one level of wrapper resolution, e.g. `p.wakeWriter()`).
func CondOps(c *core.Ctx, info *types.Info, n ast.Node, methods ...string) []string {
	var out []string
	direct := func(call *ast.CallExpr) (string, bool) {
		sel, ok := ast.Unparen(call.Fun).(*ast.SelectorExpr)
		if !ok {
			return "", false
		}
		okm := false
		for _, m := range methods {
			okm = okm || sel.Sel.Name == m
		}
		if !okm {
			return "", false
		}
		f := core.CalleeFunc(info, call)
		if f == nil {
			return "", false
		}
		sig, _ := f.Type().(*types.Signature)
		if sig == nil || sig.Recv() == nil || core.NamedTypePath(sig.Recv().Type()) != "sync.Cond" {
			return "", false
		}
		if fs, ok := ast.Unparen(sel.X).(*ast.SelectorExpr); ok {
			return fs.Sel.Name, true
		}
		return "", false
	}
	for _, call := range cfgq.ExecCalls(n) {
		if name, ok := direct(call); ok {
			out = append(out, name)
			continue
		}
		f := core.CalleeFunc(info, call)
		if f == nil || f.Pkg() == nil {
			continue
		}
		fn := c.FnOf(f)
		if fn == nil || fn.Pkg.TypesInfo != info || fn.Decl.Body == nil {
			continue
		}
		g := cfgq.Of(c.Program, fn)
		seen := map[string]bool{}
		for _, blk := range g.CFG.Blocks {
			for _, m := range blk.Nodes {
				for _, c2 := range cfgq.ExecCalls(m) {
					if name, ok := direct(c2); ok {
						seen[name] = true
					}
				}
			}
		}
		for name := range seen {
			name := name
			ok, _ := g.MustPassToExit(g.Entry(), false, func(m ast.Node) bool {
				for _, c2 := range cfgq.ExecCalls(m) {
					if nm, ok := direct(c2); ok && nm == name {
						return true
					}
				}
				return false
			})
			if ok {
				out = append(out, name)
			}
		}
	}
	return out
}

// substitute returns a copy of e in which identifiers denoting the objects in
// m are replaced by the mapped expressions (parameter binding of a wrapper).
func substitute(info *types.Info, e ast.Expr, m map[types.Object]ast.Expr) ast.Expr {
	if len(m) == 0 || e == nil {
		return e
	}
	switch x := e.(type) {
	case *ast.Ident:
		if r, ok := m[info.Uses[x]]; ok {
			return &ast.ParenExpr{X: r}
		}
		return x
	case *ast.ParenExpr:
		return &ast.ParenExpr{X: substitute(info, x.X, m)}
	case *ast.BinaryExpr:
		return &ast.BinaryExpr{X: substitute(info, x.X, m), Op: x.Op, OpPos: x.OpPos, Y: substitute(info, x.Y, m)}
	case *ast.UnaryExpr:
		return &ast.UnaryExpr{Op: x.Op, OpPos: x.OpPos, X: substitute(info, x.X, m)}
	case *ast.CallExpr:
		args := make([]ast.Expr, len(x.Args))
		for i, a := range x.Args {
			args[i] = substitute(info, a, m)
		}
		return &ast.CallExpr{Fun: x.Fun, Lparen: x.Lparen, Args: args, Ellipsis: x.Ellipsis, Rparen: x.Rparen}
	case *ast.SelectorExpr:
		return &ast.SelectorExpr{X: substitute(info, x.X, m), Sel: x.Sel}
	case *ast.IndexExpr:
		return &ast.IndexExpr{X: substitute(info, x.X, m), Index: substitute(info, x.Index, m)}
	}
	return e
}
