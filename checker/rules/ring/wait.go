package ring

import (
	"go/ast"
	"go/token"
	"go/types"

	"golang.org/x/tools/go/cfg"

	"rscheck/cfgq"
)

// EvalUnder evaluates a boolean condition when the truth of some atoms is
// assumed: atom reports (value, known) for an atomic sub-expression.
func EvalUnder(cond ast.Expr, atom func(ast.Expr) (bool, bool)) (bool, bool) {
	cond = ast.Unparen(cond)
	switch x := cond.(type) {
	case *ast.UnaryExpr:
		if x.Op == token.NOT {
			v, k := EvalUnder(x.X, atom)
			return !v, k
		}
	case *ast.BinaryExpr:
		switch x.Op {
		case token.LAND:
			a, ka := EvalUnder(x.X, atom)
			b, kb := EvalUnder(x.Y, atom)
			if ka && !a || kb && !b {
				return false, true
			}
			return true, ka && kb
		case token.LOR:
			a, ka := EvalUnder(x.X, atom)
			b, kb := EvalUnder(x.Y, atom)
			if ka && a || kb && b {
				return true, true
			}
			return false, ka && kb
		}
	}
	return atom(cond)
}

func isBool(info *types.Info, x ast.Expr) bool {
	t := info.TypeOf(x)
	if t == nil {
		return false
	}
	b, ok := t.Underlying().(*types.Basic)
	return ok && b.Info()&types.IsBoolean != 0
}

// Infeasible returns an edge predicate for cfgq path queries: an edge is
// infeasible when the branch condition is decided by the assumed atoms and the
// edge is the other way.
func Infeasible(info *types.Info, atom func(ast.Expr) (bool, bool)) func(b *cfg.Block, s int) bool {
	return func(b *cfg.Block, s int) bool {
		cnd := cfgq.CondOf(b)
		if cnd == nil || len(b.Succs) != 2 || b.Succs[0].Kind == cfg.KindSwitchCaseBody && !isBool(info, cnd) {
			return false
		}
		v, known := EvalUnder(cnd, atom)
		return known && ((s == 0) != v)
	}
}
