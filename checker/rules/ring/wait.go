package ring

import (
	"go/ast"
	"go/token"
	"go/types"

	"golang.org/x/tools/go/cfg"

	"rscheck/cfgq"
	"rscheck/core"
	"rscheck/pat"
)

// AfterWaitReturnsZero: from the point after a Wait, the function does
// nothing but return (0, nil) — spelled as constants or as the store call's n
// and err (binds _n, _err), which the no-progress edge pins to 0 and nil and
// which must not be re-assigned on the way.
func AfterWaitReturnsZero(info *types.Info, wp cfgq.Point, binds pat.Binds) bool {
	okRet, sawRet := true, false
	seenB := map[*cfg.Block]bool{}
	var walk func(b *cfg.Block, from int)
	walk = func(b *cfg.Block, from int) {
		for i := from; i < len(b.Nodes); i++ {
			nd := b.Nodes[i]
			if ret, isRet := nd.(*ast.ReturnStmt); isRet {
				sawRet = true
				if len(ret.Results) != 2 {
					okRet = false
					return
				}
				r0, r1 := ast.Unparen(ret.Results[0]), ast.Unparen(ret.Results[1])
				if v, isC := core.IntConst(info, r0); !(isC && v == 0) && !pat.Same(info, r0, binds["_n"]) {
					okRet = false
				}
				if !core.IsNil(info, r1) && !pat.Same(info, r1, binds["_err"]) {
					okRet = false
				}
				return
			}
			if _, isDefer := nd.(*ast.DeferStmt); isDefer {
				continue
			}
			if len(cfgq.ExecCalls(nd)) > 0 {
				okRet = false
			}
			if as, isAs := nd.(*ast.AssignStmt); isAs {
				for _, l := range as.Lhs {
					if pat.Same(info, l, binds["_n"]) || pat.Same(info, l, binds["_err"]) {
						okRet = false
					}
				}
			}
		}
		for _, s := range b.Succs {
			if !seenB[s] {
				seenB[s] = true
				walk(s, 0)
			}
		}
	}
	walk(wp.B, wp.I+1)
	return okRet && sawRet
}

// EvalUnder evaluates a boolean condition when the truth of some atoms is
// assumed: atom reports (value, known) for an atomic sub-expression.
func EvalUnder(cond ast.Expr, atom func(ast.Expr) (bool, bool)) (bool, bool) {
	cond = ast.Unparen(cond)
	switch x := cond.(type) {
	case *ast.UnaryExpr:
		if x.Op == token.NOT {
			v, k := EvalUnder(x.X, atom)
			return !v, k
		}
	case *ast.BinaryExpr:
		switch x.Op {
		case token.LAND:
			a, ka := EvalUnder(x.X, atom)
			b, kb := EvalUnder(x.Y, atom)
			if ka && !a || kb && !b {
				return false, true
			}
			return true, ka && kb
		case token.LOR:
			a, ka := EvalUnder(x.X, atom)
			b, kb := EvalUnder(x.Y, atom)
			if ka && a || kb && b {
				return true, true
			}
			return false, ka && kb
		}
	}
	return atom(cond)
}

// RetriesOnWake checks the caller of a wait-and-return-(0,nil) operation: from
// each call of `callee`, assuming it returned no bytes and no error and that
// the caller's buffer is not empty, no normal exit is reachable without calling
// callee again (the condition values on the way are decided from that
// assumption; a branch that does not depend on it is followed both ways).
// It returns the calls examined and, for a failing one, a witness path.
func RetriesOnWake(g *cfgq.Graph, callee *types.Func, bufParam types.Object) (calls int, witness []string) {
	info := g.Info
	isCall := func(n ast.Node) bool {
		for _, c := range cfgq.ExecCalls(n) {
			if core.CalleeFunc(info, c) == callee {
				return true
			}
		}
		return false
	}
	for _, p := range g.Points(isCall) {
		calls++
		// the variables holding the results
		var nObj, errObj types.Object
		switch st := p.Node().(type) {
		case *ast.AssignStmt:
			if len(st.Lhs) == 2 {
				if id, ok := st.Lhs[0].(*ast.Ident); ok {
					nObj = core.ObjOf(info, id)
				}
				if id, ok := st.Lhs[1].(*ast.Ident); ok {
					errObj = core.ObjOf(info, id)
				}
			}
		}
		if nObj == nil || errObj == nil {
			return calls, []string{"the results of " + callee.Name() + " are not assigned to two variables at " + g.Fset.Position(p.Node().Pos()).String()}
		}
		is := func(x ast.Expr, o types.Object) bool {
			id, ok := ast.Unparen(x).(*ast.Ident)
			return ok && core.ObjOf(info, id) == o
		}
		atom := func(a ast.Expr) (bool, bool) {
			be, ok := ast.Unparen(a).(*ast.BinaryExpr)
			if !ok {
				return false, false
			}
			for _, pr := range [][2]ast.Expr{{be.X, be.Y}, {be.Y, be.X}} {
				l, r := pr[0], pr[1]
				swapped := l != be.X
				op := be.Op
				if swapped {
					op = map[token.Token]token.Token{token.LSS: token.GTR, token.GTR: token.LSS, token.LEQ: token.GEQ, token.GEQ: token.LEQ, token.EQL: token.EQL, token.NEQ: token.NEQ}[op]
				}
				zero := false
				if v, isC := core.IntConst(info, r); isC && v == 0 {
					zero = true
				}
				switch {
				case is(l, nObj) && zero: // n == 0 holds
					switch op {
					case token.EQL, token.LEQ:
						return true, true
					case token.NEQ, token.GTR:
						return false, true
					}
				case is(l, errObj) && core.IsNil(info, r): // err == nil holds
					switch op {
					case token.EQL:
						return true, true
					case token.NEQ:
						return false, true
					}
				case zero: // len(b) != 0 holds
					if call, isC := ast.Unparen(l).(*ast.CallExpr); isC && len(call.Args) == 1 {
						if bi, isB := core.Callee(info, call).(*types.Builtin); isB && bi.Name() == "len" && is(call.Args[0], bufParam) {
							switch op {
							case token.EQL, token.LEQ:
								return false, true
							case token.NEQ, token.GTR:
								return true, true
							}
						}
					}
				}
			}
			return false, false
		}
		w := g.Path(cfgq.Query{From: p, After: true, Avoid: isCall, TargetExit: cfgq.NormalExit,
			AvoidEdge: func(b *cfg.Block, s int) bool {
				cnd := cfgq.CondOf(b)
				if cnd == nil || len(b.Succs) != 2 || b.Succs[0].Kind == cfg.KindSwitchCaseBody && !isBool(info, cnd) {
					return false
				}
				v, known := EvalUnder(cnd, atom)
				return known && ((s == 0) != v)
			}})
		if w != nil {
			return calls, w
		}
	}
	return calls, nil
}

func isBool(info *types.Info, x ast.Expr) bool {
	t := info.TypeOf(x)
	if t == nil {
		return false
	}
	b, ok := t.Underlying().(*types.Basic)
	return ok && b.Info()&types.IsBoolean != 0
}

// Infeasible returns an edge predicate for cfgq path queries: an edge is
// infeasible when the branch condition is decided by the assumed atoms and the
// edge is the other way.
func Infeasible(info *types.Info, atom func(ast.Expr) (bool, bool)) func(b *cfg.Block, s int) bool {
	return func(b *cfg.Block, s int) bool {
		cnd := cfgq.CondOf(b)
		if cnd == nil || len(b.Succs) != 2 || b.Succs[0].Kind == cfg.KindSwitchCaseBody && !isBool(info, cnd) {
			return false
		}
		v, known := EvalUnder(cnd, atom)
		return known && ((s == 0) != v)
	}
}
