package c02

import (
	"fmt"
	"go/ast"
	"go/token"
	"go/types"
	"strings"

	"rscheck/cfgq"
	"rscheck/core"
	"rscheck/flow"
	"rscheck/pat"
)

// The rules of this file decide what RESTORE is sent with (parameter list and
// relative TTL) and which records reach the script route from the *values* that
// flow into the calls (package flow), so that helpers, temporaries, guard
// clauses and equivalent library calls do not matter.

var nowMsPatterns = []*pat.Pattern{
	pat.Expr("uint64(time.Now().Add(conf.Options.ShiftTime).UnixNano()) / uint64(time.Millisecond)"),
	pat.Expr("uint64(time.Now().Add(conf.Options.ShiftTime).UnixNano() / int64(time.Millisecond))"),
	pat.Expr("uint64(time.Now().Add(conf.Options.ShiftTime).UnixNano() / 1000000)"),
	pat.Expr("uint64(time.Now().Add(conf.Options.ShiftTime).UnixNano()) / 1000000"),
	pat.Expr("uint64(time.Now().Add(conf.Options.ShiftTime).UnixMilli())"),
}

func isNowMs(info *types.Info, x ast.Node) bool {
	ex, ok := x.(ast.Expr)
	if !ok {
		return false
	}
	return pat.Any(info, ex, nil, nowMsPatterns...) != nil
}

// isEntryField reports whether x (resolved) is <entry parameter>.<field>.
func isEntryField(info *types.Info, x ast.Node, eObj types.Object, field string) bool {
	sel, ok := ast.Unparen(x.(ast.Expr)).(*ast.SelectorExpr)
	if !ok || sel.Sel.Name != field {
		return false
	}
	id, ok := ast.Unparen(sel.X).(*ast.Ident)
	return ok && core.ObjOf(info, id) == eObj
}

// ttlByFlow checks the origins of the TTL handed to the target.
func ttlByFlow(c *core.Ctx, e *flow.Engine, info *types.Info, eObj types.Object, cases []flow.Case, pos token.Pos) {
	const rule, key = "R2.ttl", "ttlms/formula"
	why := "ttlms = ExpireAt - (now + shift) in milliseconds, floored at 1 when already past (0 would mean 'no expiry' to RESTORE)"
	// facts, with every side resolved by the engine before matching
	expired := func(f cfgq.Fact) bool {
		p := flow.Positive(f)
		for _, q := range []string{"_now >= _exp", "_exp <= _now"} {
			if b := pat.Expr(q).Match(info, p, nil); b != nil && isNowMs(info, b["_now"]) && isEntryField(info, b["_exp"], eObj, "ExpireAt") {
				return true
			}
		}
		return false
	}
	pending := func(f cfgq.Fact) bool {
		p := flow.Positive(f)
		for _, q := range []string{"_now < _exp", "_exp > _now"} {
			if b := pat.Expr(q).Match(info, p, nil); b != nil && isNowMs(info, b["_now"]) && isEntryField(info, b["_exp"], eObj, "ExpireAt") {
				return true
			}
		}
		return false
	}
	hasExpiry := func(f cfgq.Fact) bool {
		p := flow.Positive(f)
		for _, q := range []string{"_exp != 0", "_exp > 0"} {
			if b := pat.Expr(q).Match(info, p, nil); b != nil && isEntryField(info, b["_exp"], eObj, "ExpireAt") {
				return true
			}
		}
		return false
	}
	nOne, nDiff := 0, 0
	var bad, undec []string
	for _, cs := range cases {
		switch {
		case cs.Unknown != "":
			undec = append(undec, cs.Unknown)
			continue
		case cs.Zero:
			continue
		}
		x := ast.Unparen(cs.Expr)
		if v, ok := core.IntConst(info, x); ok {
			switch {
			case v == 0 && (e.AnyUnder(cs.Sites, expired) || e.AnyUnder(cs.Sites, pending)):
				bad = append(bad, "a key that has an expiry is given ttl 0 (RESTORE reads 0 as 'no expiry')")
			case v == 0:
			case v == 1 && e.AnyUnder(cs.Sites, expired):
				nOne++
			case v == 1:
				undec = append(undec, "ttl 1 is chosen on a path where `now >= ExpireAt` is not established")
			default:
				bad = append(bad, fmt.Sprintf("constant ttl %d", v))
			}
			continue
		}
		if b := pat.Expr("_exp - _now").Match(info, x, nil); b != nil && isEntryField(info, b["_exp"], eObj, "ExpireAt") {
			switch {
			case !isNowMs(info, b["_now"]):
				bad = append(bad, "`"+e.Describe(cs)+"`: the current time is not time.Now().Add(ShiftTime) in milliseconds")
			case e.AnyUnder(cs.Sites, pending):
				nDiff++
			default:
				undec = append(undec, "`ExpireAt - now` is computed on a path where `now < ExpireAt` is not established")
			}
			continue
		}
		bad = append(bad, "`"+e.Describe(cs)+"`")
	}
	_ = hasExpiry
	switch {
	case len(bad) > 0:
		c.Failf(rule, key, pos, "%s; found %s", why, strings.Join(bad, "; "))
	case len(undec) > 0:
		c.Undecidedf(rule, key, pos, "%s: %s", why, strings.Join(undec, "; "))
	case nOne == 0 || nDiff == 0:
		c.Failf(rule, key, pos, "%s; the ttl never takes the value %s", why, map[bool]string{true: "1 (already past)", false: "ExpireAt - now"}[nOne == 0])
	default:
		c.Okf(rule, key, pos, "%s", why)
	}
}

// listElem is one element of a slice assembled with a literal and appends.
type listElem struct {
	x     ast.Expr
	sites []flow.Site // where the element was added
}

// listStates returns the possible contents of the slice expression x at site
// s: a composite literal, followed through `append(prev, elems...)` chains
// (each append continues every state its first argument can be in).
func listStates(e *flow.Engine, info *types.Info, s flow.Site, x ast.Expr, depth int, undec *[]string, onChain ...*ast.CallExpr) [][]listElem {
	if depth > 8 {
		*undec = append(*undec, "append chain too long")
		return nil
	}
	var out [][]listElem
	for _, cs := range e.Values(s, x) {
		if cs.Unknown != "" {
			*undec = append(*undec, cs.Unknown)
			continue
		}
		if cs.Zero {
			out = append(out, []listElem{})
			continue
		}
		switch v := ast.Unparen(cs.Expr).(type) {
		case *ast.CompositeLit:
			var l []listElem
			for _, el := range v.Elts {
				l = append(l, listElem{el, cs.Sites})
			}
			out = append(out, l)
		case *ast.CallExpr:
			bi, ok := core.Callee(info, v).(*types.Builtin)
			if !ok || bi.Name() != "append" || v.Ellipsis.IsValid() || cs.Call == nil || len(cs.Sites) == 0 || len(cs.Call.Args) == 0 {
				*undec = append(*undec, "the list comes from `"+e.Describe(cs)+"`")
				continue
			}
			again := false
			for _, c := range onChain {
				if c == cs.Call {
					again = true // a retry loop: the same append is not applied twice to one list
				}
			}
			if again {
				continue
			}
			for _, prev := range listStates(e, info, cs.Sites[0], cs.Call.Args[0], depth+1, undec, append(onChain, cs.Call)...) {
				l := append([]listElem{}, prev...)
				for _, el := range v.Args[1:] {
					l = append(l, listElem{el, cs.Sites})
				}
				out = append(out, l)
			}
		default:
			if id, ok := v.(*ast.Ident); ok && core.IsNil(info, id) {
				out = append(out, []listElem{})
				continue
			}
			*undec = append(*undec, "the list comes from `"+e.Describe(cs)+"`")
		}
	}
	return out
}

// restoreParams checks the argument list of RESTORE. It returns the origins of
// the ttl argument (nil when the list could not be read).
func restoreParams(c *core.Ctx, e *flow.Engine, g *cfgq.Graph, eObj types.Object, at cfgq.Point, rc *ast.CallExpr) []flow.Case {
	info := g.Info
	site := flow.Site{G: g, At: at}
	pos := rc.Pos()
	var lists [][]listElem
	var undec []string
	if rc.Ellipsis.IsValid() && len(rc.Args) == 2 {
		lists = listStates(e, info, site, rc.Args[1], 0, &undec)
	} else if !rc.Ellipsis.IsValid() && len(rc.Args) >= 4 {
		var l []listElem
		for _, a := range rc.Args[1:] {
			l = append(l, listElem{e.Resolve(site, a), []flow.Site{site}})
		}
		lists = [][]listElem{l}
	} else {
		undec = append(undec, "unrecognised RESTORE call shape")
	}
	if len(lists) == 0 && len(undec) == 0 {
		undec = append(undec, "no parameter list reaches the RESTORE call")
	}
	if len(undec) > 0 {
		c.Undecidedf("R1.route", "restore/params", pos, "cannot read the RESTORE parameter list: %s", strings.Join(undec, "; "))
		return nil
	}
	okBase := true
	for _, l := range lists {
		if len(l) < 3 || !isEntryField(info, l[0].x, eObj, "Key") || !isEntryField(info, l[2].x, eObj, "Value") {
			okBase = false
		}
	}
	c.Check("R1.route", "restore/params", pos, okBase, "RESTORE is sent with (key, ttlms, payload) in this order")
	c.Okf("R1.route", "restore/sends-params", pos, "the RESTORE call passes the list that was followed")
	if !okBase {
		return nil
	}
	// options: keyword then value, each at most once, only when the hint is non-zero
	opts := []struct{ name, field string }{{"IDLETIME", "IdleTime"}, {"FREQ", "Freq"}}
	seen := map[string]bool{}
	bad := map[string]string{}
	for _, l := range lists {
		tail := l[3:]
		used := map[string]bool{}
		for i := 0; i < len(tail); {
			s, isS := core.StringConst(info, tail[i].x)
			if isS && (s == "REPLACE" || s == "ABSTTL") {
				i++ // a flag of RESTORE without a value
				continue
			}
			var field string
			for _, o := range opts {
				if isS && s == o.name {
					field = o.field
				}
			}
			if field == "" || i+1 >= len(tail) || !isEntryField(info, tail[i+1].x, eObj, field) || used[s] {
				for _, o := range opts {
					for _, el := range tail {
						if t, ok := core.StringConst(info, el.x); ok && t == o.name || isEntryField(info, el.x, eObj, o.field) {
							bad[o.name] = "the option is not sent as the keyword followed by the entry's value, once"
						}
					}
				}
				if len(bad) == 0 {
					bad["IDLETIME"] = "unexpected extra RESTORE argument `" + c.Src(tail[i].x) + "`"
				}
				break
			}
			used[s] = true
			seen[s] = true
			nonZero := func(f cfgq.Fact) bool {
				p := flow.Positive(f)
				for _, q := range []string{"_x != 0", "_x > 0"} {
					if b := pat.Expr(q).Match(info, p, nil); b != nil && isEntryField(info, b["_x"], eObj, field) {
						return true
					}
				}
				return false
			}
			if !e.AnyUnder(tail[i].sites, nonZero) || !e.AnyUnder(tail[i+1].sites, nonZero) {
				bad[s] = "the hint is sent although the entry's value may be 0"
			}
			i += 2
		}
	}
	for _, o := range opts {
		switch {
		case bad[o.name] != "":
			c.Failf("R1.route", "restore/"+strings.ToLower(o.name), pos, "the %s hint is appended as keyword then value, only when non-zero; %s", o.name, bad[o.name])
		case !seen[o.name]:
			c.Failf("R1.route", "restore/"+strings.ToLower(o.name), pos, "the %s hint is appended as keyword then value, only when non-zero; it is never sent", o.name)
		default:
			c.Okf("R1.route", "restore/"+strings.ToLower(o.name), pos, "%s hint sent when non-zero", o.name)
		}
	}
	// the ttl element (the same in every state: it belongs to the literal)
	var out []flow.Case
	done := map[ast.Expr]bool{}
	for _, l := range lists {
		ttl := ast.Unparen(l[1].x)
		if done[ttl] {
			continue
		}
		done[ttl] = true
		if id, ok := ttl.(*ast.Ident); ok {
			if p, ok := g.Find(id); ok {
				out = append(out, e.Values(flow.Site{G: g, At: p}, id)...)
				continue
			}
		}
		cs := e.Values(site, ttl)
		for i := range cs {
			cs[i].Sites = append(cs[i].Sites, l[1].sites...)
		}
		out = append(out, cs...)
	}
	return out
}

// luaRoute checks which records reach the script load and that a script record
// never continues into a key route.
func luaRoute(c *core.Ctx, g *cfgq.Graph, eObj types.Object, script cfgq.Point, keyRoutes []cfgq.Point) {
	info := g.Info
	isAux := func(f cfgq.Fact) bool {
		p := flow.Positive(f)
		b := pat.Expr("_t == rdb.RdbFlagAUX").Match(info, p, nil)
		return b != nil && isEntryField(info, b["_t"], eObj, "Type")
	}
	isLua := func(f cfgq.Fact) bool {
		p := flow.Positive(f)
		for _, q := range []string{`string(_k) == "lua"`, `bytes.Equal(_k, []byte("lua"))`, `bytes.Equal([]byte("lua"), _k)`, `bytes.Compare(_k, []byte("lua")) == 0`} {
			if b := pat.Expr(q).Match(info, p, nil); b != nil && isEntryField(info, b["_k"], eObj, "Key") {
				return true
			}
		}
		return false
	}
	ok, w := g.OnlyViaFact(script, isAux)
	ok2, w2 := g.OnlyViaFact(script, isLua)
	c.Check("R1.route", "script/only-lua-aux", script.Node().Pos(), ok && ok2, "script load is reached only for the AUX record named lua", append(w, w2...)...)
	// from every edge that establishes "the key is lua": no key route is reachable
	arms := 0
	var witness []string
	for _, b := range g.CFG.Blocks {
		if !b.Live || len(b.Succs) != 2 {
			continue
		}
		for si := range b.Succs {
			if !g.Establishes(b, si, isLua) {
				continue
			}
			arms++
			from := cfgq.Point{B: b.Succs[si], I: 0}
			wr := g.Path(cfgq.Query{From: from, Target: func(n ast.Node) bool {
				for _, k := range keyRoutes {
					if n == k.Node() {
						return true
					}
				}
				return false
			}})
			if wr != nil {
				witness = wr
			}
		}
	}
	if arms == 0 {
		c.Undecidedf("R1.route", "script/arm", script.Node().Pos(), "no branch that tests the record's key against \"lua\"")
		return
	}
	c.Check("R1.route", "script/returns-before-key-routes", script.Node().Pos(), witness == nil, "the script record never continues into a key route (a key named by the aux field would be written)", witness...)
}
