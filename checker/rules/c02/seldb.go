package c02

import (
	"fmt"
	"go/ast"
	"go/token"
	"go/types"
	"sort"
	"strings"

	"golang.org/x/tools/go/cfg"

	"rscheck/cfgq"
	"rscheck/core"
	"rscheck/pat"
)

// R10.seldb: "the selected target database holds the key" (C02) needs, on
// every connection restore commands are written to, that the variable which
// remembers the database selected on that connection tells the truth. A
// location T is the selected-db cache of connection X when a SELECT on X is
// sent only on a branch that found `wanted db != T` (the SELECT is skipped when
// T equals the wanted db). The structural necessary conditions decided here:
//
//	one-connection       a cache suppresses the SELECT of one connection only
//	assigned-with-select every assignment to the cache of X is adjacent to a
//	                     SELECT on X: a SELECT on X precedes it on every path of the
//	                     iteration/call, or follows it before the next write on X and
//	                     before the iteration/call ends
//	select-recorded      every SELECT on a cached connection X is adjacent, in the
//	                     same sense, to an assignment of X's cache
//
// Locations and connections are resolved objects (local, pointed-to parameter,
// struct field, package variable), followed through the module's own helpers by
// parameter binding: a helper that sends/records the SELECT for its caller
// (RestoreBigkey(client, ..., &cache)) ties the caller's cache to the caller's
// connection at each call site. Nothing is matched by name or text.

const ruleSel = "R10.seldb"

// sref is a resolved storage location.
type sref struct {
	kind  byte // 'L' local or captured variable, 'P' parameter of the unit, 'F' struct field, 'G' package-level variable
	obj   types.Object
	deref bool // the location a pointer parameter points to
}

// sunit is one analysed body: a declared function or a function literal.
type sunit struct {
	fn     *core.Fn
	lit    *ast.FuncLit
	name   string
	body   *ast.BlockStmt
	g      *cfgq.Graph
	info   *types.Info
	params map[types.Object]int // parameter -> index, receiver = -1
	loops  []ast.Stmt

	events   []*sevent
	pairs    []spair
	consumed map[*ast.UnaryExpr]bool // &cache arguments bound to a callee's cache parameter
	undec    []string
}

type sevent struct {
	kind   byte // 's' SELECT sent, 'r' SELECT sent and recorded by a callee, 'w' restore write, 'a' assignment
	at     cfgq.Point
	conn   sref
	connOK bool
	cache  sref     // 'r': the cache the callee records into, 'a': the assigned location
	db     ast.Expr // 's': the wanted database, when known; 'a': the value of a plain 1:1 assignment
	direct bool
	guard  *sref // 's': the cache whose inequality with the wanted db every path to the SELECT established
}

type spair struct {
	cache, conn sref
	pos         token.Pos
	u           *sunit
}

type ssel struct {
	conn sref
	db   int // parameter index of the wanted db, -2 unknown
}

type ssummary struct {
	sels   []ssel
	pairs  [][2]sref // cache, conn
	writes []sref
}

func (s *ssummary) key() string {
	var p []string
	for _, x := range s.sels {
		p = append(p, fmt.Sprintf("s%p%v%d", x.conn.obj, x.conn.kind, x.db))
	}
	for _, x := range s.pairs {
		p = append(p, fmt.Sprintf("p%p%p", x[0].obj, x[1].obj))
	}
	for _, x := range s.writes {
		p = append(p, fmt.Sprintf("w%p", x.obj))
	}
	sort.Strings(p)
	return strings.Join(p, ",")
}

type seldb struct {
	c       *core.Ctx
	units   []*sunit
	byFunc  map[*types.Func]*sunit
	sum     map[*types.Func]*ssummary
	anchors map[*types.Func]bool // functions that write the entry on their first argument
}

func unconv(info *types.Info, e ast.Expr) ast.Expr {
	for {
		e = ast.Unparen(e)
		call, ok := e.(*ast.CallExpr)
		if !ok || len(call.Args) != 1 {
			return e
		}
		if tv, ok := info.Types[call.Fun]; !ok || !tv.IsType() {
			return e
		}
		e = call.Args[0]
	}
}

func isIntType(t types.Type) bool {
	if t == nil {
		return false
	}
	b, ok := t.Underlying().(*types.Basic)
	return ok && b.Info()&types.IsInteger != 0
}

func isPtr(t types.Type) bool {
	_, ok := t.Underlying().(*types.Pointer)
	return ok
}

func varOf(info *types.Info, id *ast.Ident) *types.Var {
	v, _ := core.ObjOf(info, id).(*types.Var)
	return v
}

func isPkgVar(v *types.Var) bool {
	return v != nil && !v.IsField() && v.Pkg() != nil && v.Parent() == v.Pkg().Scope()
}

// rootVar is the variable a selector chain starts from (nil if it does not
// start from a variable).
func rootVar(info *types.Info, e ast.Expr) *types.Var {
	for {
		switch x := ast.Unparen(e).(type) {
		case *ast.SelectorExpr:
			if _, isSel := info.Selections[x]; !isSel {
				v, _ := info.Uses[x.Sel].(*types.Var) // pkg.Var
				return v
			}
			e = x.X
		case *ast.StarExpr:
			e = x.X
		case *ast.Ident:
			return varOf(info, x)
		default:
			return nil
		}
	}
}

// locRef resolves an lvalue-like expression to a location.
func (u *sunit) locRef(e ast.Expr) (sref, bool) {
	info := u.info
	switch x := unconv(info, e).(type) {
	case *ast.StarExpr:
		id, ok := ast.Unparen(x.X).(*ast.Ident)
		if !ok {
			return sref{}, false
		}
		v := varOf(info, id)
		if v == nil || !isPtr(v.Type()) {
			return sref{}, false
		}
		if _, isParam := u.params[v]; isParam {
			return sref{kind: 'P', obj: v, deref: true}, true
		}
		if d := pat.DefOf(info, id); d != nil {
			if un, ok := ast.Unparen(d).(*ast.UnaryExpr); ok && un.Op == token.AND {
				return u.locRef(un.X)
			}
		}
		return sref{}, false
	case *ast.Ident:
		v := varOf(info, x)
		if v == nil || v.IsField() {
			return sref{}, false
		}
		if _, isParam := u.params[v]; isParam {
			return sref{kind: 'P', obj: v}, true
		}
		if isPkgVar(v) {
			return sref{kind: 'G', obj: v}, true
		}
		return sref{kind: 'L', obj: v}, true
	case *ast.SelectorExpr:
		if f := core.FieldOf(info, x); f != nil {
			return sref{kind: 'F', obj: f}, true
		}
		if v, _ := info.Uses[x.Sel].(*types.Var); isPkgVar(v) {
			return sref{kind: 'G', obj: v}, true
		}
	}
	return sref{}, false
}

// connRef resolves a connection expression; a local that only names another
// location stands for it.
func (u *sunit) connRef(e ast.Expr, depth int) (sref, bool) {
	e = ast.Unparen(e)
	if id, ok := e.(*ast.Ident); ok && depth < 4 {
		if v := varOf(u.info, id); v != nil && !isPkgVar(v) {
			if _, isParam := u.params[v]; !isParam {
				if d := pat.DefOf(u.info, id); d != nil {
					switch ast.Unparen(d).(type) {
					case *ast.Ident, *ast.SelectorExpr:
						return u.connRef(d, depth+1)
					}
				}
			}
		}
	}
	r, ok := u.locRef(e)
	if ok && r.deref {
		return sref{}, false
	}
	return r, ok
}

// enclosingLoops lists the loops of the unit that contain pos, outermost first.
func (u *sunit) enclosingLoops(pos token.Pos) []ast.Stmt {
	var out []ast.Stmt
	for _, l := range u.loops {
		if l.Pos() <= pos && pos < l.End() {
			out = append(out, l)
		}
	}
	return out
}

// outlives reports whether variable v keeps its value from one evaluation of
// the test at pos to the next: it is declared outside the unit (captured), or
// outside a loop of the unit that contains pos.
func (u *sunit) outlives(v *types.Var, pos token.Pos) bool {
	if v.Pos() < u.body.Pos() || v.Pos() >= u.body.End() {
		if _, isParam := u.params[v]; !isParam {
			return true
		}
		return false
	}
	for _, l := range u.enclosingLoops(pos) {
		if !(l.Pos() <= v.Pos() && v.Pos() < l.End()) {
			return true
		}
	}
	return false
}

// persistent reports whether location r (written e) can remember a value across
// iterations / calls of the unit.
func (u *sunit) persistent(r sref, e ast.Expr, pos token.Pos) bool {
	switch r.kind {
	case 'G':
		return true
	case 'P':
		return r.deref
	case 'L':
		return u.outlives(r.obj.(*types.Var), pos)
	case 'F':
		root := rootVar(u.info, unconv(u.info, e))
		switch {
		case root == nil:
			return false
		case isPkgVar(root):
			return true
		}
		if _, isParam := u.params[root]; isParam {
			return isPtr(root.Type())
		}
		return u.outlives(root, pos)
	}
	return false
}

func (u *sunit) sameVal(a, b ast.Expr) bool {
	return a != nil && b != nil && pat.Same(u.info, unconv(u.info, a), unconv(u.info, b))
}

func (u *sunit) isConst(e ast.Expr) bool {
	tv, ok := u.info.Types[e]
	return ok && tv.Value != nil
}

// ---------------------------------------------------------------------------
// plain reachability on the cfg (node predicates only)

type reachQ struct {
	from   cfgq.Point
	after  bool
	avoid  func(n ast.Node) bool
	target func(n ast.Node) bool
	heads  map[*cfg.Block]bool // entering one of these blocks is a target
	exit   bool                // leaving through a normal exit is a target
}

func (u *sunit) reach(q reachQ) []string {
	type st struct {
		b    *cfg.Block
		prev *st
	}
	g := u.g
	render := func(s *st, last string) []string {
		var out []string
		for x := s; x != nil; x = x.prev {
			if len(x.b.Nodes) > 0 {
				out = append(out, fmt.Sprintf("block %d L%d: %s", x.b.Index, g.Fset.Position(x.b.Nodes[0].Pos()).Line, core.NodeString(g.Fset, x.b.Nodes[0])))
			}
		}
		for i, j := 0, len(out)-1; i < j; i, j = i+1, j-1 {
			out[i], out[j] = out[j], out[i]
		}
		return append(out, last)
	}
	seen := map[*cfg.Block]bool{}
	start := &st{b: q.from.B}
	queue := []*st{start}
	first := true
	for len(queue) > 0 {
		s := queue[0]
		queue = queue[1:]
		i := 0
		if first {
			i = q.from.I
			if q.after {
				i++
			}
		}
		first = false
		cut := false
		for ; i < len(s.b.Nodes); i++ {
			n := s.b.Nodes[i]
			if q.target != nil && q.target(n) {
				return render(s, fmt.Sprintf("reaches L%d: %s", g.Fset.Position(n.Pos()).Line, core.NodeString(g.Fset, n)))
			}
			if q.avoid != nil && q.avoid(n) {
				cut = true
				break
			}
		}
		if cut {
			continue
		}
		if len(s.b.Succs) == 0 {
			if k := g.Exit(s.b); q.exit && (k == cfgq.ExitRet || k == cfgq.ExitFall) {
				return render(s, "returns")
			}
			continue
		}
		for _, t := range s.b.Succs {
			if q.heads[t] {
				return render(s, "the iteration ends")
			}
			if !seen[t] {
				seen[t] = true
				queue = append(queue, &st{b: t, prev: s})
			}
		}
	}
	return nil
}

// iteration returns where the innermost loop iteration containing pos starts
// (the function entry when there is none) and the blocks that end it.
func (u *sunit) iteration(pos token.Pos) (cfgq.Point, map[*cfg.Block]bool) {
	heads := map[*cfg.Block]bool{}
	start := u.g.Entry()
	loops := u.enclosingLoops(pos)
	for i, l := range loops {
		var body, head *cfg.Block
		for _, b := range u.g.CFG.Blocks {
			if b.Stmt != l {
				continue
			}
			switch b.Kind {
			case cfg.KindForBody, cfg.KindRangeBody:
				body = b
			case cfg.KindForLoop, cfg.KindRangeLoop:
				head = b
				heads[b] = true
			case cfg.KindForPost:
				heads[b] = true
			}
		}
		if head == nil && body != nil {
			heads[body] = true // `for { }`: the body block is its own head
		}
		if i == len(loops)-1 && body != nil {
			start = cfgq.Point{B: body, I: 0}
		}
	}
	return start, heads
}

// ---------------------------------------------------------------------------
// collection

func newSeldb(c *core.Ctx, anchors ...*core.Fn) *seldb {
	x := &seldb{c: c, byFunc: map[*types.Func]*sunit{}, sum: map[*types.Func]*ssummary{}, anchors: map[*types.Func]bool{}}
	for _, a := range anchors {
		if a != nil {
			x.anchors[a.Obj] = true
		}
	}
	for _, pk := range c.Program.Pkgs {
		if !strings.HasPrefix(pk.PkgPath, core.Module+"/redis-shake") || pk.PkgPath == core.MainPkg || pk.TypesInfo == nil {
			continue
		}
		for _, fn := range c.Program.FuncsOf(pk) {
			u := x.newUnit(fn, nil, fn.Decl.Name.Name, fn.Decl.Body, fn.Decl.Recv, fn.Decl.Type)
			x.byFunc[fn.Obj] = u
			x.addLits(fn, u.name, fn.Decl.Body)
		}
	}
	return x
}

func (x *seldb) addLits(fn *core.Fn, name string, root ast.Node) {
	for i, lit := range core.FuncLits(root) {
		n := fmt.Sprintf("%s$%d", name, i+1)
		x.newUnit(fn, lit, n, lit.Body, nil, lit.Type)
		x.addLits(fn, n, lit.Body)
	}
}

func (x *seldb) newUnit(fn *core.Fn, lit *ast.FuncLit, name string, body *ast.BlockStmt, recv *ast.FieldList, ft *ast.FuncType) *sunit {
	u := &sunit{fn: fn, lit: lit, name: name, body: body, info: fn.Pkg.TypesInfo, params: map[types.Object]int{}}
	if recv != nil {
		for _, f := range recv.List {
			for _, id := range f.Names {
				if o := u.info.Defs[id]; o != nil {
					u.params[o] = -1
				}
			}
		}
	}
	i := 0
	for _, f := range ft.Params.List {
		if len(f.Names) == 0 {
			i++
		}
		for _, id := range f.Names {
			if o := u.info.Defs[id]; o != nil {
				u.params[o] = i
			}
			i++
		}
	}
	core.Inspect(body, func(n ast.Node) bool {
		switch n.(type) {
		case *ast.ForStmt, *ast.RangeStmt:
			u.loops = append(u.loops, n.(ast.Stmt))
		}
		return true
	})
	if lit != nil {
		u.g = cfgq.OfLit(x.c.Program, u.info, lit)
	} else {
		u.g = cfgq.Of(x.c.Program, fn)
	}
	x.units = append(x.units, u)
	return u
}

func connCmd(info *types.Info, call *ast.CallExpr) (recv ast.Expr, cmd string, ok bool) {
	for _, m := range []string{"Send", "Do"} {
		if isConnCall(info, call, m, "") {
			s, _ := core.StringConst(info, call.Args[0])
			return ast.Unparen(call.Fun).(*ast.SelectorExpr).X, strings.ToLower(s), true
		}
	}
	return nil, "", false
}

// bind instantiates a location of callee h at a call in u.
func (x *seldb) bind(u *sunit, call *ast.CallExpr, h *sunit, r sref, mark bool) (sref, bool) {
	switch r.kind {
	case 'F', 'G':
		return r, true
	case 'P':
		idx, ok := h.params[r.obj]
		if !ok {
			return sref{}, false
		}
		var arg ast.Expr
		if idx == -1 {
			sel, ok := ast.Unparen(call.Fun).(*ast.SelectorExpr)
			if !ok {
				return sref{}, false
			}
			arg = sel.X
		} else {
			if idx >= len(call.Args) || call.Ellipsis.IsValid() {
				return sref{}, false
			}
			arg = call.Args[idx]
		}
		if !r.deref {
			return u.connRef(arg, 0)
		}
		arg = ast.Unparen(arg)
		if un, ok := arg.(*ast.UnaryExpr); ok && un.Op == token.AND {
			b, ok := u.locRef(un.X)
			if ok && mark {
				u.consumed[un] = true
			}
			return b, ok
		}
		if id, ok := arg.(*ast.Ident); ok {
			return u.locRef(&ast.StarExpr{X: id, Star: id.Pos()})
		}
	}
	return sref{}, false
}

// collect (re)computes the events of u under the current summaries.
func (x *seldb) collect(u *sunit) {
	u.events, u.pairs, u.undec = nil, nil, nil
	u.consumed = map[*ast.UnaryExpr]bool{}
	info := u.info
	for _, b := range u.g.CFG.Blocks {
		if !b.Live {
			continue
		}
		for i, n := range b.Nodes {
			at := cfgq.Point{B: b, I: i}
			for _, call := range cfgq.ExecCalls(n) {
				if recv, cmd, ok := connCmd(info, call); ok {
					switch {
					case cmd == "select" && len(call.Args) == 2:
						r, rok := u.connRef(recv, 0)
						u.events = append(u.events, &sevent{kind: 's', at: at, conn: r, connOK: rok, db: call.Args[1], direct: true})
					case cmd == "restore":
						r, rok := u.connRef(recv, 0)
						u.events = append(u.events, &sevent{kind: 'w', at: at, conn: r, connOK: rok, direct: true})
					}
					continue
				}
				f := core.CalleeFunc(info, call)
				if f == nil {
					continue
				}
				f = f.Origin()
				if x.anchors[f] && len(call.Args) > 0 {
					r, rok := u.connRef(call.Args[0], 0)
					u.events = append(u.events, &sevent{kind: 'w', at: at, conn: r, connOK: rok})
				}
				s, h := x.sum[f], x.byFunc[f]
				if s == nil || h == nil {
					continue
				}
				for _, sl := range s.sels {
					r, rok := x.bind(u, call, h, sl.conn, false)
					var db ast.Expr
					if sl.db >= 0 && sl.db < len(call.Args) && !call.Ellipsis.IsValid() {
						db = call.Args[sl.db]
					}
					u.events = append(u.events, &sevent{kind: 's', at: at, conn: r, connOK: rok, db: db})
				}
				for _, p := range s.pairs {
					cr, cok := x.bind(u, call, h, p[0], true)
					r, rok := x.bind(u, call, h, p[1], false)
					if !cok {
						u.undec = append(u.undec, fmt.Sprintf("L%d: the cache argument of %s is not a location that can be followed", x.c.Fset.Position(call.Pos()).Line, f.Name()))
						continue
					}
					u.events = append(u.events, &sevent{kind: 'r', at: at, conn: r, connOK: rok, cache: cr})
				}
				for _, w := range s.writes {
					r, rok := x.bind(u, call, h, w, false)
					u.events = append(u.events, &sevent{kind: 'w', at: at, conn: r, connOK: rok})
				}
			}
			switch st := n.(type) {
			case *ast.AssignStmt:
				if st.Tok == token.DEFINE {
					break
				}
				for _, l := range st.Lhs {
					if r, ok := u.locRef(l); ok && isIntType(info.TypeOf(l)) {
						u.events = append(u.events, &sevent{kind: 'a', at: at, cache: r})
					}
				}
			case *ast.IncDecStmt:
				if r, ok := u.locRef(st.X); ok && isIntType(info.TypeOf(st.X)) {
					u.events = append(u.events, &sevent{kind: 'a', at: at, cache: r})
				}
			}
		}
	}
	// which cache guards each SELECT
	for _, ev := range u.events {
		if ev.kind != 's' {
			continue
		}
		ev.guard = u.guardOf(ev)
		if ev.guard != nil && ev.connOK {
			u.pairs = append(u.pairs, spair{cache: *ev.guard, conn: ev.conn, pos: ev.at.Node().Pos(), u: u})
		}
	}
	for _, ev := range u.events {
		if ev.kind == 'r' && ev.connOK {
			u.pairs = append(u.pairs, spair{cache: ev.cache, conn: ev.conn, pos: ev.at.Node().Pos(), u: u})
		}
	}
}

func (u *sunit) has(n ast.Node, pred func(*sevent) bool) bool {
	for _, ev := range u.events {
		if ev.at.Node() == n && pred(ev) {
			return true
		}
	}
	return false
}

// uses reports whether the body sends a SELECT or writes an entry on connection cn.
func (u *sunit) uses(cn sref) bool {
	for _, ev := range u.events {
		if ev.kind != 'a' && ev.connOK && ev.conn == cn {
			return true
		}
	}
	return false
}

// neFact reads a branch fact as `l != r`.
func neFact(f cfgq.Fact) (l, r ast.Expr, ok bool) {
	be, isBin := ast.Unparen(f.Expr).(*ast.BinaryExpr)
	if !isBin || (be.Op != token.EQL && be.Op != token.NEQ) || (be.Op == token.NEQ) != f.Val {
		return nil, nil, false
	}
	return be.X, be.Y, true
}

// cacheSide decides which side of `l != r`, a test that lets the SELECT ev
// through, is the remembered database.
func (u *sunit) cacheSide(l, r ast.Expr, ev *sevent) (sref, bool) {
	info := u.info
	if !isIntType(info.TypeOf(l)) || !isIntType(info.TypeOf(r)) || u.isConst(l) || u.isConst(r) {
		return sref{}, false
	}
	lr, lok := u.locRef(l)
	rr, rok := u.locRef(r)
	lp := lok && u.persistent(lr, l, l.Pos())
	rp := rok && u.persistent(rr, r, r.Pos())
	switch {
	case lp && !rp:
		return lr, true
	case rp && !lp:
		return rr, true
	case lp && rp && ev.db != nil:
		// both sides outlive the iteration: the SELECT names the wanted database, the other
		// side is the cache - unless the cache was just set and handed to the SELECT
		sl, sr := u.sameVal(l, ev.db), u.sameVal(r, ev.db)
		pick := func(same, other sref) (sref, bool) {
			if u.assignedOnEveryPathTo(same, ev.at) {
				return same, true
			}
			return other, true
		}
		switch {
		case sl && !sr:
			return pick(lr, rr)
		case sr && !sl:
			return pick(rr, lr)
		}
	}
	return sref{}, false
}

func (u *sunit) assignedOnEveryPathTo(r sref, p cfgq.Point) bool {
	tn := p.Node()
	found := false
	for _, ev := range u.events {
		if ev.kind == 'a' && ev.cache == r {
			found = true
		}
	}
	if !found {
		return false
	}
	w := u.reach(reachQ{from: u.g.Entry(), target: func(n ast.Node) bool { return n == tn },
		avoid: func(n ast.Node) bool { return u.has(n, func(e *sevent) bool { return e.kind == 'a' && e.cache == r }) }})
	return w == nil
}

func (u *sunit) guardOf(ev *sevent) *sref {
	g := u.g
	cands := map[sref]bool{}
	for _, b := range g.CFG.Blocks {
		if !b.Live || len(b.Succs) != 2 {
			continue
		}
		for si := range b.Succs {
			for _, f := range g.EdgeFacts(b, si) {
				if l, r, ok := neFact(f); ok {
					if t, ok := u.cacheSide(l, r, ev); ok {
						cands[t] = true
					}
				}
			}
		}
	}
	var guards []sref
	for t := range cands {
		t := t
		ok, _ := g.OnlyViaFact(ev.at, func(f cfgq.Fact) bool {
			l, r, isNe := neFact(f)
			if !isNe {
				return false
			}
			got, ok := u.cacheSide(l, r, ev)
			return ok && got == t
		})
		if ok {
			guards = append(guards, t)
		}
	}
	switch len(guards) {
	case 1:
		return &guards[0]
	case 0:
		return nil
	}
	u.undec = append(u.undec, fmt.Sprintf("L%d: the SELECT is sent under tests of %d different remembered databases", g.Fset.Position(ev.at.Node().Pos()).Line, len(guards)))
	return nil
}

// summarise derives what a caller sees of u.
func (x *seldb) summarise(u *sunit) *ssummary {
	exportable := func(r sref, cache bool) bool {
		switch r.kind {
		case 'F', 'G':
			return true
		case 'P':
			return r.deref == cache
		}
		return false
	}
	s := &ssummary{}
	seenS, seenP, seenW := map[ssel]bool{}, map[[2]sref]bool{}, map[sref]bool{}
	for _, ev := range u.events {
		if !ev.connOK || !exportable(ev.conn, false) {
			continue
		}
		switch ev.kind {
		case 's':
			if ev.guard != nil {
				if exportable(*ev.guard, true) {
					p := [2]sref{*ev.guard, ev.conn}
					if !seenP[p] {
						seenP[p] = true
						s.pairs = append(s.pairs, p)
					}
				}
				continue
			}
			sl := ssel{conn: ev.conn, db: -2}
			if ev.db != nil {
				if id, ok := unconv(u.info, ev.db).(*ast.Ident); ok {
					if idx, isParam := u.params[core.ObjOf(u.info, id)]; isParam && idx >= 0 {
						sl.db = idx
					}
				}
			}
			if !seenS[sl] {
				seenS[sl] = true
				s.sels = append(s.sels, sl)
			}
		case 'r':
			if exportable(ev.cache, true) {
				p := [2]sref{ev.cache, ev.conn}
				if !seenP[p] {
					seenP[p] = true
					s.pairs = append(s.pairs, p)
				}
			}
		case 'w':
			if !seenW[ev.conn] {
				seenW[ev.conn] = true
				s.writes = append(s.writes, ev.conn)
			}
		}
	}
	if len(s.sels)+len(s.pairs)+len(s.writes) == 0 {
		return nil
	}
	return s
}

// ---------------------------------------------------------------------------
// naming (keys only; nothing is matched by name)

func (x *seldb) refName(u *sunit, r sref) string {
	switch r.kind {
	case 'F':
		v := r.obj.(*types.Var)
		owner := ""
		// the struct that declares the field
		for _, pk := range x.c.Program.Pkgs {
			if pk.Types != v.Pkg() {
				continue
			}
			sc := pk.Types.Scope()
			for _, nm := range sc.Names() {
				tn, ok := sc.Lookup(nm).(*types.TypeName)
				if !ok {
					continue
				}
				if st, ok := tn.Type().Underlying().(*types.Struct); ok {
					for i := 0; i < st.NumFields(); i++ {
						if st.Field(i) == v {
							owner = tn.Name()
						}
					}
				}
			}
		}
		if owner == "" {
			owner = "struct"
		}
		return owner + "." + v.Name()
	case 'G':
		return r.obj.Pkg().Name() + "." + r.obj.Name()
	}
	owner := u
	if r.kind == 'L' {
		// a captured variable is named after the innermost body that declares it
		var best *sunit
		for _, o := range x.units {
			if o.fn == u.fn && o.body.Pos() <= r.obj.Pos() && r.obj.Pos() < o.body.End() && (best == nil || o.body.End()-o.body.Pos() < best.body.End()-best.body.Pos()) {
				best = o
			}
		}
		if best != nil {
			owner = best
		}
	}
	if r.deref {
		return owner.name + ".*" + r.obj.Name()
	}
	return owner.name + "." + r.obj.Name()
}

// ---------------------------------------------------------------------------
// the rule

func selectedDbCaches(c *core.Ctx, anchors ...*core.Fn) {
	x := newSeldb(c, anchors...)
	// summaries to a fixpoint (helpers calling helpers)
	for round := 0; round < 5; round++ {
		changed := false
		for _, u := range x.units {
			x.collect(u)
			if u.lit != nil {
				continue
			}
			s := x.summarise(u)
			old := x.sum[u.fn.Obj]
			if (s == nil) != (old == nil) || s != nil && s.key() != old.key() {
				changed = true
			}
			if s == nil {
				delete(x.sum, u.fn.Obj)
			} else {
				x.sum[u.fn.Obj] = s
			}
		}
		if !changed {
			break
		}
		if round == 4 {
			c.Undecidedf(ruleSel, "summaries", token.NoPos, "the helpers that send SELECT call each other in a way the summaries do not settle")
			return
		}
	}
	// connections restore commands are written to
	written := map[sref]bool{}
	for _, u := range x.units {
		for _, ev := range u.events {
			if ev.kind == 'w' && ev.connOK {
				written[ev.conn] = true
			}
		}
	}
	// cache -> the connections it is tied to
	type tie struct {
		conns []sref
		at    map[sref]spair
	}
	ties := map[sref]*tie{}
	var order []sref
	for _, u := range x.units {
		for _, p := range u.pairs {
			t := ties[p.cache]
			if t == nil {
				t = &tie{at: map[sref]spair{}}
				ties[p.cache] = t
				order = append(order, p.cache)
			}
			if _, has := t.at[p.conn]; !has {
				t.at[p.conn] = p
				t.conns = append(t.conns, p.conn)
			}
		}
	}
	relevant := map[sref]bool{}
	for _, k := range order {
		for _, cn := range ties[k].conns {
			if written[cn] {
				relevant[k] = true
			}
		}
	}
	for _, u := range x.units {
		for _, ev := range u.events {
			// a SELECT whose connection could not be resolved, in a body that writes entries
			if (ev.kind == 's' || ev.kind == 'r') && !ev.connOK {
				for _, w := range u.events {
					if w.kind == 'w' {
						c.Undecidedf(ruleSel, u.name+"/connection", ev.at.Node().Pos(), "a SELECT is sent in a body that writes entries, on a connection expression that is not a variable, parameter or field")
						break
					}
				}
			}
		}
		relevantUnit := false
		for _, p := range u.pairs {
			relevantUnit = relevantUnit || relevant[p.cache]
		}
		if relevantUnit {
			for _, m := range u.undec {
				c.Undecidedf(ruleSel, u.name+"/recognise", u.body.Pos(), "%s", m)
			}
		}
	}
	single := map[sref]sref{}
	for _, k := range order {
		if !relevant[k] {
			continue
		}
		t := ties[k]
		first := t.at[t.conns[0]]
		name := x.refName(first.u, k)
		if len(t.conns) == 1 {
			single[k] = t.conns[0]
			c.Okf(ruleSel, name+"/one-connection", first.pos, "%s remembers the database selected on %s only", name, x.refName(first.u, t.conns[0]))
			continue
		}
		var names []string
		definite := true
		for _, cn := range t.conns {
			names = append(names, x.refName(t.at[cn].u, cn))
			definite = definite && cn.kind == t.conns[0].kind && cn.kind != 'L' && (cn.kind != 'P' || t.at[cn].u == first.u)
		}
		second := t.at[t.conns[1]]
		if definite {
			c.Failf(ruleSel, name+"/one-connection", second.pos, "%s decides whether SELECT is sent on %s: one remembered database cannot describe several connections - a SELECT sent (and booked) for one of them makes the next key of that database skip the SELECT on the other and land in the database that connection was left on", name, strings.Join(names, " and on "))
		} else {
			c.Undecidedf(ruleSel, name+"/one-connection", second.pos, "%s decides whether SELECT is sent on %s; whether these expressions name one connection is not followed", name, strings.Join(names, " and on "))
		}
	}
	// per body: assignments of a cache, SELECTs on a cached connection
	nAssign, nSel := map[string]int{}, map[string]int{}
	for _, u := range x.units {
		u := u
		for _, ev := range u.events {
			if ev.kind != 'a' || !relevant[ev.cache] {
				continue
			}
			k := ev.cache
			name := x.refName(u, k)
			nAssign[name]++
			key := fmt.Sprintf("%s/assigned-with-select#%d", name, nAssign[name])
			cn, ok := single[k]
			if !ok {
				continue // reported under one-connection
			}
			if (cn.kind == 'L' || cn.kind == 'P') && ties[k].at[cn].u.fn != u.fn {
				c.Undecidedf(ruleSel, key, ev.at.Node().Pos(), "%s is assigned in %s, its connection is only known inside %s", name, u.name, ties[k].at[cn].u.name)
				continue
			}
			onConn := func(n ast.Node) bool {
				return u.has(n, func(e *sevent) bool { return (e.kind == 's' || e.kind == 'r') && e.connOK && e.conn == cn })
			}
			me := ev.at.Node()
			start, heads := u.iteration(me.Pos())
			before := u.reach(reachQ{from: start, target: func(n ast.Node) bool { return n == me }, avoid: func(n ast.Node) bool { return n != me && onConn(n) }})
			if before == nil || onConn(me) {
				c.Okf(ruleSel, key, me.Pos(), "%s is assigned after a SELECT on %s", name, x.refName(u, cn))
				continue
			}
			after := u.reach(reachQ{from: ev.at, after: true, avoid: onConn, heads: heads, exit: true,
				target: func(n ast.Node) bool {
					return u.has(n, func(e *sevent) bool { return e.kind == 'w' && e.connOK && e.conn == cn })
				}})
			if after == nil {
				c.Okf(ruleSel, key, me.Pos(), "%s is assigned right before a SELECT on %s", name, x.refName(u, cn))
				continue
			}
			if ev.db != nil && u.isConst(ev.db) && !u.uses(cn) {
				// a constant stored in a body that never touches the connection: an initial value
				// (like the one of a declaration), not decided here
				c.Note("%s: %s is given a constant in %s, which does not use connection %s: taken as an initial value", ruleSel, name, u.name, x.refName(u, cn))
				nAssign[name]--
				continue
			}
			cnn := x.refName(u, cn)
			c.Check(ruleSel, key, me.Pos(), false,
				fmt.Sprintf("%s remembers the database selected on connection %s (it decides whether the SELECT on %s is skipped), so it may only be assigned together with a SELECT sent on that connection. Here it is assigned where no SELECT on %s was sent in this iteration and none follows before the next key: the next key of that database skips the SELECT on %s and is written into the database the connection was left on", name, cnn, cnn, cnn, cnn),
				append(append([]string{"reaching the assignment without a SELECT on the connection:"}, before...), append([]string{"and leaving it without one:"}, after...)...)...)
		}
		for _, ev := range u.events {
			if ev.kind != 's' || !ev.connOK {
				continue
			}
			// the caches of this connection known in this body
			var ks []sref
			for _, k := range order {
				if !relevant[k] {
					continue
				}
				if p, has := ties[k].at[ev.conn]; has && (p.u.fn == u.fn || (k.kind == 'F' || k.kind == 'G') && (ev.conn.kind == 'F' || ev.conn.kind == 'G')) {
					ks = append(ks, k)
				}
			}
			if len(ks) == 0 {
				continue
			}
			cname := x.refName(u, ev.conn)
			nSel[cname]++
			key := fmt.Sprintf("%s/select-recorded#%d", cname, nSel[cname])
			me := ev.at.Node()
			if len(ks) > 1 {
				c.Undecidedf(ruleSel, key, me.Pos(), "%d remembered databases are tied to connection %s", len(ks), cname)
				continue
			}
			k := ks[0]
			records := func(n ast.Node) bool {
				return u.has(n, func(e *sevent) bool {
					return e.kind == 'a' && e.cache == k || e.kind == 'r' && e.cache == k && e.connOK && e.conn == ev.conn
				})
			}
			start, heads := u.iteration(me.Pos())
			before := u.reach(reachQ{from: start, target: func(n ast.Node) bool { return n == me }, avoid: func(n ast.Node) bool { return n != me && records(n) }})
			if before == nil || records(me) {
				c.Okf(ruleSel, key, me.Pos(), "the SELECT on %s follows the assignment of %s", cname, x.refName(u, k))
				continue
			}
			after := u.reach(reachQ{from: ev.at, after: true, avoid: records, heads: heads, exit: true})
			if after == nil {
				c.Okf(ruleSel, key, me.Pos(), "the SELECT on %s is booked in %s before the iteration ends", cname, x.refName(u, k))
				continue
			}
			c.Check(ruleSel, key, me.Pos(), false,
				fmt.Sprintf("a SELECT sent on %s must be booked in %s, the remembered database that decides whether the next SELECT on this connection is skipped; here the connection changes database and %s keeps its old value: a later key of the old database is written without SELECT into the database selected here", cname, x.refName(u, k), x.refName(u, k)),
				after...)
		}
		// the address of a cache handed to something that is not followed
		core.Inspect(u.body, func(n ast.Node) bool {
			un, ok := n.(*ast.UnaryExpr)
			if !ok || un.Op != token.AND || u.consumed[un] {
				return true
			}
			if r, ok := u.locRef(un.X); ok && relevant[r] {
				c.Undecidedf(ruleSel, x.refName(u, r)+"/address-taken", un.Pos(), "the address of %s is taken where it is not an argument bound to a helper's remembered-database parameter: writes through it are not followed", x.refName(u, r))
			}
			return true
		})
	}
	// a SELECT that is sent on some paths only, on a connection without a recognised cache,
	// while an entry is written on a path without it: the test that decides is not understood
	for _, u := range x.units {
		u := u
		for _, ev := range u.events {
			if ev.kind != 's' || !ev.connOK || ev.guard != nil || !written[ev.conn] {
				continue
			}
			tied := false
			for _, k := range order {
				if _, has := ties[k].at[ev.conn]; has {
					tied = true
				}
			}
			if tied {
				continue
			}
			cn := ev.conn
			start, _ := u.iteration(ev.at.Node().Pos())
			w := u.reach(reachQ{from: start,
				avoid: func(n ast.Node) bool {
					return u.has(n, func(e *sevent) bool { return (e.kind == 's' || e.kind == 'r') && e.connOK && e.conn == cn })
				},
				target: func(n ast.Node) bool {
					return u.has(n, func(e *sevent) bool { return e.kind == 'w' && e.connOK && e.conn == cn })
				}})
			if w != nil {
				c.Undecidedf(ruleSel, x.refName(u, cn)+"/select-condition", ev.at.Node().Pos(), "entries are written on %s on a path that sends no SELECT, and the condition under which the SELECT is sent is not recognised as the test of a remembered database", x.refName(u, cn))
			}
		}
	}
	// confirmed by hand on the pinned tree: the two caches of the rump writer, the one handed to
	// RestoreBigkey, and lastdb of the two rdb restore loops
	if n := len(relevant); n < 5 {
		c.Undecidedf("instances", ruleSel, token.NoPos, "rule %s recognised %d remembered-database variables tied to a connection entries are written to, 5 were confirmed by hand on the pinned tree", ruleSel, n)
	}
}
