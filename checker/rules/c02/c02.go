// Package c02 decides the structural clauses of property C02 (restore of one
// parsed entry).
package c02

import (
	"fmt"
	"go/ast"
	"go/token"
	"go/types"
	"strings"

	"golang.org/x/tools/go/cfg"

	"rscheck/cfgq"
	"rscheck/core"
	"rscheck/driver"
	"rscheck/flow"
	"rscheck/grammar"
	"rscheck/pat"
	"rscheck/rules/arith"
	"rscheck/rules/c01"
)

const pkg = "redis-shake/common"

var Def = driver.PropDef{
	ID: "C02",
	Explanation: "Structural necessary conditions of 'restore leaves the target key equal to the source key' on common.RestoreRdbEntry, restoreBigRdbEntry, restoreQuicklistEntry, flushAndCheckReply and CompareVersion: " +
		"R1 route table (quicklist type -> quicklist route; AUX/lua -> script load iff !FilterLua; payload above the big-key threshold or a chunk, and not a stream -> element route; otherwise RESTORE key ttlms value [IDLETIME n] [FREQ n]); " +
		"R2 TTL (ttlms = ExpireAt - (now+shift) in ms, floored at 1; every path from a value-writing call to a successful return passes pexpire(key, ttlms) unless ExpireAt == 0; ttlms is RESTORE's second argument); " +
		"R3 key-exists policy per route (rewrite: every successful path ends after a value write; ignore: no value write is reachable; none: only error exits; the element route consults the policy at all); " +
		"R4 element expansion (per encoding: the payload grammar read after the type byte equals the parser's grammar of C01, and each element is sent with the right command and argument order: RPUSH key elem, SADD key member, HSET key field value with the field read first, ZADD key score member with the member read first, SET key value); " +
		"R5 batch/flush pairing (count++ per Send, flushAndCheckReply(c,count) at 100 and on the last element or after each inner list, count reset; flushAndCheckReply flushes, then receives exactly count replies and fails on the first error); " +
		"R6 error discipline of every c.Do in the three functions (reply error bound, tested, non-nil edge reaches an error exit); " +
		"R7 index guards (every s[i] in CompareVersion is reachable only when i < len(s)); " +
		"R9 the entry fields the routes consume (ExpireAt, DB, chunk bookkeeping) are produced by the parser as C01.R4/R5 require (same rules, re-run here); " +
		"R8 the compact-encoding decoders used by the element route (pkg/rdb ReadZiplistEntry, ReadZipmapItem, ...) agree with their sibling copies in the cupcake decoder on every mask, shift, width and sign conversion.",
	NotDecided: "equality of the resulting logical value for every payload (ziplist/intset/zipmap integer decoding is value-level), score formatting, hash-tag replacement and the UCloud key slicing, errors of pipelined c.Send calls (redigo reports them on the following Flush/Receive, which R5 ties to every batch).",
	Trusted:    []string{"go/parser, go/types, go/cfg (x/tools v0.29.0)", "redigo Conn semantics (Send buffers, Flush/Receive report errors)", "reference grammar shared with C01"},
	Run:        Run,
}

func isConnCall(info *types.Info, call *ast.CallExpr, method, cmd string) bool {
	sel, ok := ast.Unparen(call.Fun).(*ast.SelectorExpr)
	if !ok || sel.Sel.Name != method || len(call.Args) == 0 {
		return false
	}
	f := core.CalleeFunc(info, call)
	if f == nil || f.Pkg() == nil || !strings.Contains(f.Pkg().Path(), "redigo") {
		return false
	}
	s, ok := core.StringConst(info, call.Args[0])
	return ok && (cmd == "" || strings.EqualFold(s, cmd))
}

func callsFn(info *types.Info, n ast.Node, fn *types.Func) bool {
	for _, c := range cfgq.ExecCalls(n) {
		if core.CalleeFunc(info, c) == fn {
			return true
		}
	}
	return false
}

func doCmd(info *types.Info, n ast.Node, cmd string) *ast.CallExpr {
	for _, c := range cfgq.ExecCalls(n) {
		if isConnCall(info, c, "Do", cmd) {
			return c
		}
	}
	return nil
}

func Run(c *core.Ctx) {
	rre := c.Func(pkg, "", "RestoreRdbEntry")
	big := c.Func(pkg, "", "restoreBigRdbEntry")
	ql := c.Func(pkg, "", "restoreQuicklistEntry")
	fl := c.Func(pkg, "", "flushAndCheckReply")
	if rre == nil || big == nil || ql == nil || fl == nil {
		return
	}
	r1r2r3(c, rre, big, ql)
	r4r5(c, big, ql, fl)
	r6(c, rre, big, ql)
	r7(c)
	// R8: the element route decodes ziplist/zipmap payloads with pkg/rdb's copies of the
	// compact-encoding decoders; they must agree with the decoder's copies
	arith.CheckSiblings(c, "R8.siblings")
	// the integer arms of the ziplist entry decoder, decided directly (width, byte
	// order, sign extension): the quicklist, big-key and fallback routes push what it returns
	arith.ZiplistInts(c, "R8.ziplist", c.Func("pkg/rdb", "rdbReader", "ReadZiplistEntry"))
	// R9: what the restore routes consume from the parser (ExpireAt incl. the seconds*1000
	// scaling, DB, RealMemberCount / NeedReadLen of chunked hashes) is bound as C01 requires
	c01.EntryRules(c)
	// R10: the remembered "database selected on this connection" of every connection entries
	// are written to belongs to that connection alone and is kept in step with its SELECTs
	selectedDbCaches(c, rre, big, ql)
}

// policyArm finds the cfg block of `case "<label>":` in a switch over
// conf.Options.KeyExists that lies inside region (an ast node).
func policyArms(info *types.Info, g *cfgq.Graph, region ast.Node) map[string]*cfg.Block {
	out := map[string]*cfg.Block{}
	core.Inspect(region, func(n ast.Node) bool {
		sw, ok := n.(*ast.SwitchStmt)
		if !ok || sw.Tag == nil || pat.Expr("conf.Options.KeyExists").Match(info, sw.Tag, nil) == nil {
			return true
		}
		for _, cl := range sw.Body.List {
			cc := cl.(*ast.CaseClause)
			for _, l := range cc.List {
				if s, ok := core.StringConst(info, l); ok {
					for _, b := range g.CFG.Blocks {
						if b.Kind == cfg.KindSwitchCaseBody && b.Stmt == ast.Stmt(cc) {
							out[s] = b
						}
					}
				}
			}
		}
		return true
	})
	return out
}

// policyFact reads a branch fact as a statement about conf.Options.KeyExists:
// the label compared with and whether the fact says "equal".
func policyFact(info *types.Info, f cfgq.Fact) (label string, eq bool, ok bool) {
	be, isBin := ast.Unparen(f.Expr).(*ast.BinaryExpr)
	if !isBin || (be.Op != token.EQL && be.Op != token.NEQ) {
		return "", false, false
	}
	ke := pat.Expr("conf.Options.KeyExists")
	for _, pr := range [][2]ast.Expr{{be.X, be.Y}, {be.Y, be.X}} {
		if ke.Match(info, pr[0], nil) == nil {
			continue
		}
		if s, isS := core.StringConst(info, pr[1]); isS {
			return s, (be.Op == token.EQL) == f.Val, true
		}
	}
	return "", false, false
}

// policyEntries finds, for each key_exists value, the points at which the code
// of region continues knowing that value: the targets of branch edges that
// establish `KeyExists == v` (a case of a switch over it, an if, a conjunct, a
// boolean local holding the comparison), and the targets of edges on which
// every other value has been refuted (the final else of an if-chain, the code
// after a switch that has no case for v).
func policyEntries(info *types.Info, g *cfgq.Graph, region ast.Node) (map[string][]cfgq.Point, map[string]cfgq.Fact) {
	labels := []string{"rewrite", "ignore", "none"}
	bit := map[string]uint8{"rewrite": 1, "ignore": 2, "none": 4}
	inRegion := func(b *cfg.Block) bool {
		c := cfgq.CondOf(b)
		return c != nil && c.Pos() >= region.Pos() && c.End() <= region.End()
	}
	out := map[string][]cfgq.Point{}
	rep := map[string]cfgq.Fact{} // label -> a fact of the code that says KeyExists == label
	seenEntry := map[string]map[*cfg.Block]bool{}
	add := func(l string, b *cfg.Block) {
		if seenEntry[l] == nil {
			seenEntry[l] = map[*cfg.Block]bool{}
		}
		if !seenEntry[l][b] {
			seenEntry[l][b] = true
			out[l] = append(out[l], cfgq.Point{B: b, I: 0})
		}
	}
	type st struct {
		b    *cfg.Block
		mask uint8
	}
	seen := map[st]bool{}
	queue := []st{{g.CFG.Blocks[0], 0}}
	seen[queue[0]] = true
	for len(queue) > 0 {
		s := queue[0]
		queue = queue[1:]
		for si, t := range s.b.Succs {
			mask := s.mask
			stop := false
			if inRegion(s.b) {
				for _, f := range g.EdgeFacts(s.b, si) {
					l, eq, ok := policyFact(info, f)
					if !ok || bit[l] == 0 {
						continue
					}
					if _, has := rep[l]; !has {
						rep[l] = cfgq.Fact{Expr: f.Expr, Val: f.Val == eq}
					}
					if eq {
						add(l, t)
						stop = true
					} else {
						mask |= bit[l]
					}
				}
				if !stop && mask != s.mask {
					for _, l := range labels {
						if mask == 7&^bit[l] {
							add(l, t)
							stop = true
						}
					}
				}
			}
			if stop {
				continue
			}
			n := st{t, mask}
			if !seen[n] {
				seen[n] = true
				queue = append(queue, n)
			}
		}
	}
	return out, rep
}

func r1r2r3(c *core.Ctx, rre, big, ql *core.Fn) {
	info := rre.Pkg.TypesInfo
	g := cfgq.Of(c.Program, rre)
	body := rre.Decl.Body
	var eParam ast.Node
	if ps := rre.Decl.Type.Params.List; len(ps) == 2 && len(ps[1].Names) == 1 {
		eParam = ps[1].Names[0]
	}
	if eParam == nil {
		c.Undecidedf("R1.route", "RestoreRdbEntry/params", rre.Decl.Pos(), "expected (c, e)")
		return
	}
	eb := pat.Binds{"_e": eParam}
	fact := func(yes, no string) func(cfgq.Fact) bool {
		py := pat.Expr(yes)
		var pn *pat.Pattern
		if no != "" {
			pn = pat.Expr(no)
		}
		return func(f cfgq.Fact) bool {
			return py.Match(info, f.Expr, eb) != nil && f.Val || pn != nil && pn.Match(info, f.Expr, eb) != nil && !f.Val
		}
	}

	qlCalls := g.Points(func(n ast.Node) bool { return callsFn(info, n, ql.Obj) })
	bigCalls := g.Points(func(n ast.Node) bool { return callsFn(info, n, big.Obj) })
	restore := g.Points(func(n ast.Node) bool { return doCmd(info, n, "restore") != nil })
	script := g.Points(func(n ast.Node) bool { return doCmd(info, n, "script") != nil })
	if len(qlCalls) != 1 || len(bigCalls) < 1 || len(restore) != 1 || len(script) != 1 {
		c.Undecidedf("R1.route", "RestoreRdbEntry/sinks", rre.Decl.Pos(), "expected 1 quicklist call, >=1 element-route calls, 1 RESTORE, 1 script load; found %d/%d/%d/%d", len(qlCalls), len(bigCalls), len(restore), len(script))
		return
	}
	isQL := fact("_e.Type == rdb.RdbTypeQuicklist", "_e.Type != rdb.RdbTypeQuicklist")
	notQL := fact("_e.Type != rdb.RdbTypeQuicklist", "_e.Type == rdb.RdbTypeQuicklist")
	ok, w := g.OnlyViaFact(qlCalls[0], isQL)
	c.Check("R1.route", "quicklist/only-quicklist-type", qlCalls[0].Node().Pos(), ok, "the quicklist route is taken only for quicklist payloads", w...)
	// other routes only when not quicklist
	for _, s := range []struct {
		key string
		p   cfgq.Point
	}{{"restore", restore[0]}, {"element", bigCalls[0]}, {"script", script[0]}} {
		ok, w := g.OnlyViaFact(s.p, notQL)
		c.Check("R1.route", s.key+"/not-for-quicklist", s.p.Node().Pos(), ok, "a quicklist payload never reaches the "+s.key+" route (the quicklist arm returns first)", w...)
	}
	// lua
	eObj := info.Defs[eParam.(*ast.Ident)]
	luaRoute(c, g, eObj, script[0], []cfgq.Point{restore[0], bigCalls[0], qlCalls[0]})
	okF, wF := g.OnlyViaFact(script[0], func(f cfgq.Fact) bool {
		return pat.Expr("conf.Options.FilterLua == false").Match(info, f.Expr, nil) != nil && f.Val ||
			pat.Expr("!conf.Options.FilterLua").Match(info, f.Expr, nil) != nil && f.Val ||
			pat.Expr("conf.Options.FilterLua").Match(info, f.Expr, nil) != nil && !f.Val
	})
	c.Check("R1.route", "script/iff-not-filtered", script[0].Node().Pos(), okF, "Lua scripts are loaded only when filter.lua is off", wF...)
	// element route guard
	okB, wB := g.OnlyViaFact(bigCalls[0], fact("_e.Type != rdb.RDBTypeStreamListPacks", "_e.Type == rdb.RDBTypeStreamListPacks"))
	c.Check("R1.route", "element/not-for-streams", bigCalls[0].Node().Pos(), okB, "streams are never expanded element by element (no expansion exists for them)", wB...)
	// the threshold disjunction
	thr := findIf(info, body, func(cond ast.Expr) bool {
		n, _ := pat.Expr("uint64(len(_e.Value)) > conf.Options.BigKeyThreshold || _e.RealMemberCount != 0").Find(info, cond, eb)
		return n != nil
	})
	okT := false
	if thr != nil {
		if p, okp := g.Find(bigCalls[0].Node()); okp {
			_ = p
			okT = thr.Body.Pos() <= bigCalls[0].Node().Pos() && bigCalls[0].Node().End() <= thr.Body.End()
		}
	}
	c.Check("R1.route", "element/threshold-or-chunk", bigCalls[0].Node().Pos(), okT,
		"the element route is chosen exactly by `len(payload) > BigKeyThreshold || RealMemberCount != 0` (a chunk of a split hash is not a valid DUMP payload and must never be sent with RESTORE)")
	if thr != nil {
		// RESTORE not reachable from inside the threshold arm
		bp, _ := g.Find(thr.Body.List[0])
		wr := g.Path(cfgq.Query{From: bp, Target: func(n ast.Node) bool { return n == restore[0].Node() }})
		c.Check("R1.route", "element/returns-before-restore", thr.Pos(), wr == nil, "a big key / chunk never continues into RESTORE", wr...)
	}
	// RESTORE params
	fe := flow.New(c.Program)
	rc := doCmd(info, restore[0].Node(), "restore")
	ttlCases := restoreParams(c, fe, g, eObj, restore[0], rc)

	// the replies RESTORE's error classification must recognise (Redis 2.8 and >= 3.0 busy-key replies, payload rejection)
	seen := map[string]bool{}
	collect := func(root ast.Node) {
		core.Inspect(root, func(n ast.Node) bool {
			if call, ok := n.(*ast.CallExpr); ok {
				if b := pat.Expr("strings.Contains(_msg, _s)").Match(info, call, nil); b != nil {
					if s, ok := core.StringConst(info, b["_s"].(ast.Expr)); ok {
						seen[s] = true
					}
				}
			}
			return true
		})
	}
	collect(body)
	// classification predicates extracted into same-package helpers (isBusyKeyReply(msg) ...)
	core.Inspect(body, func(n ast.Node) bool {
		if call, ok := n.(*ast.CallExpr); ok {
			if f := core.CalleeFunc(info, call); f != nil && f.Pkg() != nil && f.Pkg().Path() == rre.Pkg.PkgPath && f != big.Obj && f != ql.Obj {
				if h := c.FnOf(f); h != nil && h.Decl.Body != nil {
					collect(h.Decl.Body)
				}
			}
		}
		return true
	})
	for _, want := range []struct{ s, why string }{
		{"Target key name is busy", "the busy-key reply of Redis 2.8 targets (\"ERR Target key name is busy.\")"},
		{"BUSYKEY Target key name already exists", "the busy-key reply of Redis >= 3.0 targets"},
		{"Bad data format", "the reply of a target that rejects the payload format"},
	} {
		okS := false
		for s := range seen {
			// a shorter needle that is a substring of the real reply still matches it
			okS = okS || (s != "" && strings.Contains(want.s, s))
		}
		c.Check("R1.route", "restore/reply/"+strings.ReplaceAll(want.s, " ", "-"), restore[0].Node().Pos(), okS,
			"the RESTORE error classification must recognise "+want.why+"; otherwise the key-exists policy / fallback is skipped and the restore fails or leaves the old value")
	}

	// ---- R2 TTL
	var ttlVar ast.Node
	if _, b := pat.Expr(`_c.Do("pexpire", _e.Key, _ttl)`).Find(info, body, eb); b != nil {
		ttlVar = b["_ttl"]
	}
	if ttlCases != nil {
		ttlByFlow(c, fe, info, eObj, ttlCases, restore[0].Node().Pos())
	}
	if ttlVar == nil {
		c.Undecidedf("R2.ttl", "ttlms", rre.Decl.Pos(), "cannot identify the ttl handed to pexpire")
		return
	}
	tb := pat.Binds{"_e": eParam, "_ttl": ttlVar}
	isPexpire := func(n ast.Node) bool {
		call := doCmd(info, n, "pexpire")
		return call != nil && pat.Expr(`_c.Do("pexpire", _e.Key, _ttl)`).Match(info, call, tb) != nil
	}
	noExpiry := func(b *cfg.Block, s int) bool {
		return g.Establishes(b, s, func(f cfgq.Fact) bool {
			return pat.Expr("_e.ExpireAt != 0").Match(info, f.Expr, eb) != nil && !f.Val || pat.Expr("_e.ExpireAt == 0").Match(info, f.Expr, eb) != nil && f.Val
		})
	}
	okExit := func(b *cfg.Block, k cfgq.ExitKind) bool {
		if k == cfgq.ExitFall {
			return true
		}
		if k != cfgq.ExitRet {
			return false
		}
		ret := b.Nodes[len(b.Nodes)-1].(*ast.ReturnStmt)
		return cfgq.ClassifyReturn(info, body, ret) != cfgq.RetErr
	}
	writers := append(append([]cfgq.Point{}, qlCalls...), bigCalls...)
	names := map[ast.Node]string{}
	names[qlCalls[0].Node()] = "quicklist"
	for i, p := range bigCalls {
		if i == 0 {
			names[p.Node()] = "element"
		} else {
			names[p.Node()] = fmt.Sprintf("fallback#%d", i)
		}
	}
	for _, wp := range writers {
		w := g.Path(cfgq.Query{From: wp, After: true, Avoid: isPexpire, AvoidEdge: noExpiry, TargetExit: okExit})
		c.Check("R2.ttl", names[wp.Node()]+"/pexpire-before-success", wp.Node().Pos(), w == nil,
			"after the "+names[wp.Node()]+" route wrote the value, every successful return must pass pexpire(key, ttlms) when the source key has an expiry; otherwise the key is restored without TTL", w...)
	}

	// ---- R3 key-exists policy
	isWrite := func(n ast.Node) bool {
		return callsFn(info, n, ql.Obj) || callsFn(info, n, big.Obj) || doCmd(info, n, "restore") != nil
	}
	type route struct {
		name   string
		region ast.Node
	}
	var routes []route
	if qif := findIf(info, body, func(cond ast.Expr) bool {
		return pat.Expr("_e.Type == rdb.RdbTypeQuicklist").Match(info, cond, eb) != nil
	}); qif != nil {
		routes = append(routes, route{"quicklist", qif.Body})
	}
	if thr != nil {
		routes = append(routes, route{"element", thr.Body})
	}
	// the RESTORE route: everything after the threshold arm
	if thr != nil {
		var rest []ast.Stmt
		after := false
		for _, s := range body.List {
			if after {
				rest = append(rest, s)
			}
			if s == ast.Stmt(thr) {
				after = true
			}
		}
		var region ast.Node = &ast.BlockStmt{List: rest, Lbrace: thr.End(), Rbrace: body.Rbrace}
		rn := restore[0].Node()
		if thr.Else != nil && thr.Else.Pos() <= rn.Pos() && rn.End() <= thr.Else.End() {
			region = thr.Else // written as the final else of the route chain
		} else if !(region.Pos() <= rn.Pos() && rn.End() <= region.End()) {
			c.Undecidedf("R3.policy", "restore/region", rn.Pos(), "the RESTORE call is neither after the big-key arm nor in its else branch: the extent of the RESTORE route is not recognised")
			region = nil
		}
		if region != nil {
			routes = append(routes, route{"restore", region})
		}
	}
	for _, r := range routes {
		arms, rep := policyEntries(info, g, r.region)
		if len(arms["ignore"]) == 0 && len(arms["none"]) == 0 {
			// K2: the element route does not consult none/ignore at all
			c.Check("R3.policy", r.name+"/consults-policy", r.region.Pos(), false,
				"the "+r.name+" route writes elements without looking at key_exists: with key_exists=none or ignore a big key whose name already exists on the target is merged into the existing key instead of being refused/left alone")
			continue
		}
		c.Okf("R3.policy", r.name+"/consults-policy", r.region.Pos(), "key_exists is consulted")
		for _, label := range []string{"rewrite", "ignore", "none"} {
			entries, ok := arms[label]
			if !ok {
				c.Undecidedf("R3.policy", r.name+"/"+label+"/arm", r.region.Pos(), "cannot find where the %s route continues under key_exists=%s (neither a test for it nor a branch on which the other values were refuted)", r.name, label)
				continue
			}
			// edges that contradict key_exists=label are not taken
			contra := func(b *cfg.Block, si int) bool {
				for _, f := range g.EdgeFacts(b, si) {
					if l, eq, ok := policyFact(info, f); ok && (eq && l != label || !eq && l == label) {
						return true
					}
				}
				return false
			}
			// what is known at the entries: key_exists = label
			var assume []cfgq.Fact
			if f, has := rep[label]; has {
				assume = append(assume, f)
			} else {
				for l, f := range rep {
					if l != label {
						assume = append(assume, cfgq.Fact{Expr: f.Expr, Val: !f.Val})
					}
				}
			}
			var w, w2 []string
			pos := entries[0].B.Nodes
			at := r.region.Pos()
			if len(pos) > 0 {
				at = pos[0].Pos()
			} else if entries[0].B.Stmt != nil {
				at = entries[0].B.Stmt.Pos()
			}
			// the paths are followed from the function entry, so that what the
			// branches before an entry established (the key exists, another value
			// was refuted) takes part in deciding which edges are feasible
			isEntry := map[*cfg.Block]bool{}
			for _, e := range entries {
				isEntry[e.B] = true
			}
			via := func(b *cfg.Block) bool { return isEntry[b] }
			switch label {
			case "rewrite":
				w = g.Path(cfgq.Query{From: g.Entry(), Via: via, Avoid: isWrite, TargetExit: okExit, AvoidEdge: contra, Assume: assume})
			case "ignore":
				w = g.Path(cfgq.Query{From: g.Entry(), Via: via, Target: isWrite, AvoidEdge: contra, Assume: assume})
			case "none":
				w = g.Path(cfgq.Query{From: g.Entry(), Via: via, Target: isWrite, AvoidEdge: contra, Assume: assume})
				w2 = g.Path(cfgq.Query{From: g.Entry(), Via: via, TargetExit: okExit, AvoidEdge: contra, Assume: assume})
			}
			switch label {
			case "rewrite":
				c.Check("R3.policy", r.name+"/rewrite/ends-with-write", at, w == nil,
					"key_exists=rewrite: every path that returns success must (re)write the value after removing the old key; otherwise the key is deleted and never restored", w...)
			case "ignore":
				c.Check("R3.policy", r.name+"/ignore/no-write", at, w == nil,
					"key_exists=ignore: no value write may be reachable; otherwise the existing target key is modified", w...)
			case "none":
				c.Check("R3.policy", r.name+"/none/error-only", at, w == nil && w2 == nil,
					"key_exists=none: an existing key must end in an error return with the target untouched", append(w, w2...)...)
			}
		}
	}
	// the element route deletes an existing key under key_exists=rewrite before the
	// FIRST piece of a value only: the parser hands a hash above 16 MiB over in
	// several entries, and a DEL before a later piece removes what the earlier
	// pieces wrote
	if thr != nil {
		fe := flow.New(c.Program)
		first := flow.Holds(info, nil, "_x.NeedReadLen == 1", "_x.NeedReadLen != 0", "_x.NeedReadLen > 0", "_x.NeedReadLen >= 1")
		later := flow.Holds(info, nil, "_x.NeedReadLen != 1", "_x.NeedReadLen == 0", "_x.NeedReadLen < 1", "_x.NeedReadLen <= 0")
		nDel := 0
		for _, p := range g.Points(func(n ast.Node) bool {
			return n.Pos() >= thr.Body.Pos() && n.End() <= thr.Body.End() && doCmd(info, n, "del") != nil
		}) {
			nDel++
			site := flow.Site{G: g, At: p}
			switch {
			case fe.Under(site, first):
				c.Okf("R3.policy", "element/del-first-piece-only", p.Node().Pos(), "the DEL of the element route is sent for the first piece of a value only")
			case fe.Under(site, later):
				c.Failf("R3.policy", "element/del-first-piece-only", p.Node().Pos(), "the DEL of the element route is sent for a continuation piece: what the earlier pieces of a split hash wrote is removed")
			default:
				// no test of the piece marker on the way to the DEL
				w := g.Path(cfgq.Query{From: g.Entry(), Target: func(n ast.Node) bool { return n == p.Node() }, AvoidEdge: func(b *cfg.Block, si int) bool {
					for _, f := range g.EdgeFacts(b, si) {
						if first(f) || later(f) {
							return true
						}
					}
					return false
				}})
				if w != nil {
					c.Check("R3.policy", "element/del-first-piece-only", p.Node().Pos(), false,
						"under key_exists=rewrite the element route deletes the target key before every piece of a value: the parser hands a hash above 16 MiB over in several entries (NeedReadLen == 1 marks the first), and the DEL before a later piece removes what the earlier pieces wrote", w...)
				} else {
					c.Undecidedf("R3.policy", "element/del-first-piece-only", p.Node().Pos(), "cannot tell under which piece marker the DEL of the element route is sent")
				}
			}
		}
		_ = nDel
	}
	c.Expect("R3.policy", 10)
}

func findIf(info *types.Info, root ast.Node, match func(cond ast.Expr) bool) *ast.IfStmt {
	var hit *ast.IfStmt
	core.Inspect(root, func(n ast.Node) bool {
		if ifs, ok := n.(*ast.IfStmt); ok && hit == nil && match(ifs.Cond) {
			hit = ifs
		}
		return hit == nil
	})
	return hit
}

// ---------------------------------------------------------------------------
// R4 / R5

type expansion struct {
	cmd   string
	args  string // "1" = (v1), "12" = (v1,v2), "21" = (v2,v1)
	term  string
	inner bool // flush after inner loop (quicklist)
}

var expansions = map[int64]expansion{
	0:  {"SET", "", "Str", false},
	1:  {"RPUSH", "1", "Len@a Loop@a{Str}", false},
	2:  {"SADD", "1", "Len@a Loop@a{Str}", false},
	3:  {"ZADD", "21", "Len@a Loop@a{Str FloatStr}", false},
	4:  {"HSET", "12", "Alt[?]{Len@a|} Loop@[.RealMemberCount,a]{Str Str}", false},
	5:  {"ZADD", "21", "Len@a Loop@a{Str Fix8}", false},
	9:  {"HSET", "12", "Str", false},
	10: {"RPUSH", "1", "Str", false},
	11: {"SADD", "", "Str", false},
	12: {"ZADD", "21", "Str", false},
	13: {"HSET", "12", "Str", false},
	14: {"RPUSH", "1", "Len@a Loop@a{Str}", true},
}

var typeName = map[int64]string{0: "string", 1: "list", 2: "set", 3: "zset", 4: "hash", 5: "zset2", 9: "hash-zipmap", 10: "list-ziplist",
	11: "set-intset", 12: "zset-ziplist", 13: "hash-ziplist", 14: "quicklist"}

func isReadCall(info *types.Info, e ast.Expr) bool {
	call, ok := ast.Unparen(e).(*ast.CallExpr)
	if !ok {
		return false
	}
	f := core.CalleeFunc(info, call)
	if f == nil {
		return false
	}
	switch f.Name() {
	case "ReadString", "ReadZiplistEntry", "ReadZipmapItem", "ReadDouble", "ReadFloat":
		return core.IsFunc(f, "pkg/rdb", "rdbReader", f.Name())
	}
	return false
}

// innermostLoop returns the innermost for statement enclosing n under root.
func innermostLoop(root, n ast.Node) *ast.ForStmt {
	var loop *ast.ForStmt
	for _, p := range core.PathTo(root, n) {
		if f, ok := p.(*ast.ForStmt); ok {
			loop = f
		}
	}
	return loop
}

func r4r5(c *core.Ctx, big, ql, fl *core.Fn) {
	info := big.Pkg.TypesInfo
	spec := c01.ReaderSpec(false)
	spec.Fields = map[string]bool{"RealMemberCount": true}
	spec.IfacePrims = map[string]string{"ReadLength": "Len", "ReadString": "Str", "ReadByte": "U8", "ReadDouble": "Fix8", "ReadFloat": "FloatStr"}
	inlineRdb := spec.Inline
	spec.Inline = func(f *types.Func) bool {
		// helpers of redis-shake/common that take the payload reader are expanded too
		if f.Pkg() != nil && f.Pkg().Path() == big.Pkg.PkgPath && f != big.Obj && f != ql.Obj {
			if sig, ok := f.Type().(*types.Signature); ok {
				for i := 0; i < sig.Params().Len(); i++ {
					t := sig.Params().At(i).Type()
					if spec.Carrier(t) {
						return true
					}
					if it, ok := t.Underlying().(*types.Interface); ok && it.NumMethods() > 0 {
						return true
					}
				}
			}
		}
		return inlineRdb(f)
	}
	// the type switch
	var sw *ast.SwitchStmt
	core.Inspect(big.Decl.Body, func(n ast.Node) bool {
		if s, ok := n.(*ast.SwitchStmt); ok && sw == nil && s.Tag != nil {
			if _, isId := ast.Unparen(s.Tag).(*ast.Ident); isId {
				sw = s
			}
		}
		return sw == nil
	})
	if sw == nil {
		c.Undecidedf("R4.expand", "restoreBigRdbEntry/switch", big.Decl.Pos(), "no switch over the payload type")
		return
	}
	// the tag is the byte read first from the payload
	tn, tb := pat.Stmt("_t, _err = _r.ReadByte()").Find(info, big.Decl.Body, nil)
	c.Check("R4.expand", "restoreBigRdbEntry/type-byte", big.Decl.Pos(), tn != nil && pat.Same(info, tb["_t"], sw.Tag),
		"the expansion dispatches on the first payload byte (the value type written by createValueDump)")
	rd, _ := pat.Stmt("_r = rdb.NewRdbReader(bytes.NewReader(_e.Value))").Find(info, big.Decl.Body, nil)
	c.Check("R4.expand", "restoreBigRdbEntry/reads-payload", big.Decl.Pos(), rd != nil, "the reader runs over the entry's payload")

	for v, ex := range expansions {
		key := fmt.Sprintf("type/%d-%s", v, typeName[v])
		var cc *ast.CaseClause
		for _, cl := range sw.Body.List {
			k := cl.(*ast.CaseClause)
			for _, l := range k.List {
				if x, ok := core.IntConst(info, l); ok && x == v {
					cc = k
				}
			}
		}
		if cc == nil {
			c.Failf("R4.expand", key+"/case", sw.Pos(), "restoreBigRdbEntry has no case for value type %d (%s): a big key of that encoding aborts the run", v, typeName[v])
			continue
		}
		// grammar
		e := grammar.New(c, spec)
		got, _ := e.CaseTerm(info, sw, v, false)
		got = strings.TrimSpace(strings.TrimSuffix(strings.TrimSpace(got), "Ret"))
		switch {
		case len(e.Undecided) > 0:
			c.Undecidedf("R4.expand", key+"/grammar", cc.Pos(), "cannot extract the reads: %s", strings.Join(e.Undecided, "; "))
		case got == ex.term:
			c.Okf("R4.expand", key+"/grammar", cc.Pos(), "reads `%s`", got)
		case c01.Flat(got) == c01.Flat(ex.term):
			c.Undecidedf("R4.expand", key+"/grammar", cc.Pos(), "the expansion of %s performs the same reads in the same order as the parser's grammar but with a different control structure: got `%s`, reference `%s`", typeName[v], got, ex.term)
		default:
			c.Failf("R4.expand", key+"/grammar", cc.Pos(), "the expansion of %s reads `%s` from the payload but the parser captured `%s`: elements are mis-framed", typeName[v], got, ex.term)
		}
		blk := &ast.BlockStmt{List: cc.Body, Lbrace: cc.Colon, Rbrace: cc.End()}
		if v == 0 {
			n, _ := pat.Stmt("set(_c, _e.Key, _v)").Find(info, blk, nil)
			c.Check("R4.expand", key+"/command", cc.Pos(), n != nil, "a string is written with SET key value")
			continue
		}
		// the Send call
		var send *ast.CallExpr
		core.Inspect(blk, func(n ast.Node) bool {
			if call, ok := n.(*ast.CallExpr); ok && isConnCall(info, call, "Send", "") {
				send = call
			}
			return true
		})
		if send == nil {
			c.Failf("R4.expand", key+"/command", cc.Pos(), "no element command is sent for %s", typeName[v])
			continue
		}
		cmd, _ := core.StringConst(info, send.Args[0])
		c.Check("R4.expand", key+"/command", send.Pos(), strings.EqualFold(cmd, ex.cmd), fmt.Sprintf("%s elements are written with %s (found %s)", typeName[v], ex.cmd, cmd))
		okKey := len(send.Args) >= 2 && pat.Expr("_e.Key").Match(info, send.Args[1], nil) != nil
		c.Check("R4.expand", key+"/key-arg", send.Pos(), okKey, "the command addresses the entry's key")
		loop := innermostLoop(blk, send)
		if loop == nil {
			c.Undecidedf("R4.expand", key+"/loop", send.Pos(), "Send is not inside a loop")
			continue
		}
		if ex.args != "" {
			// variables assigned from reads inside the loop body, in source order
			var reads []types.Object
			for _, st := range loop.Body.List {
				as, ok := st.(*ast.AssignStmt)
				if ok && len(as.Rhs) == 1 && isReadCall(info, as.Rhs[0]) {
					if id, ok := as.Lhs[0].(*ast.Ident); ok {
						reads = append(reads, core.ObjOf(info, id))
					}
				}
				if ifs, ok := st.(*ast.IfStmt); ok { // score read in both arms of if t == ZSet2
					core.Inspect(ifs, func(m ast.Node) bool {
						if as, ok := m.(*ast.AssignStmt); ok && len(as.Rhs) == 1 && isReadCall(info, as.Rhs[0]) {
							if id, ok := as.Lhs[0].(*ast.Ident); ok {
								o := core.ObjOf(info, id)
								if len(reads) == 0 || reads[len(reads)-1] != o {
									reads = append(reads, o)
								}
							}
						}
						return true
					})
				}
			}
			want := len(ex.args)
			if len(reads) != want || len(send.Args) != 2+want {
				c.Check("R4.expand", key+"/arg-order", send.Pos(), false,
					fmt.Sprintf("%s needs %d element argument(s) built from %d read(s) per iteration; found %d argument(s), %d read(s)", ex.cmd, want, want, len(send.Args)-2, len(reads)))
				continue
			}
			okOrder := true
			for i, ch := range ex.args {
				wantObj := reads[int(ch-'1')]
				arg := ast.Unparen(send.Args[2+i])
				id, ok := arg.(*ast.Ident)
				for guard := 0; guard < 4 && !(ok && core.ObjOf(info, id) == wantObj); guard++ {
					// a temporary evaluated once stands for its definition; the score may be
					// rendered through a formatting helper
					if d := pat.DefOf(info, arg); d != nil {
						arg = ast.Unparen(d)
					} else if call, isCall := arg.(*ast.CallExpr); isCall && len(call.Args) == 1 {
						arg = ast.Unparen(call.Args[0])
					} else {
						break
					}
					id, ok = arg.(*ast.Ident)
				}
				if !ok || core.ObjOf(info, id) != wantObj {
					okOrder = false
				}
			}
			msg := map[string]string{"1": "the element read", "12": "field (read first) then value", "21": "score (read second) then member (read first)"}[ex.args]
			c.Check("R4.expand", key+"/arg-order", send.Pos(), okOrder, fmt.Sprintf("%s arguments after the key must be %s", ex.cmd, msg))
		}
		// R5 batch/flush
		checkBatch(c, info, key, blk, loop, send, fl, ex.inner)
	}
	c.Expect("R4.expand", 40)

	// quicklist route function
	qi := ql.Pkg.TypesInfo
	var send *ast.CallExpr
	core.Inspect(ql.Decl.Body, func(n ast.Node) bool {
		if call, ok := n.(*ast.CallExpr); ok && isConnCall(qi, call, "Send", "") {
			send = call
		}
		return true
	})
	if send == nil {
		c.Failf("R4.expand", "restoreQuicklistEntry/command", ql.Decl.Pos(), "restoreQuicklistEntry sends nothing")
	} else {
		cmd, _ := core.StringConst(qi, send.Args[0])
		loop := innermostLoop(ql.Decl.Body, send)
		okArg := false
		if loop != nil && len(send.Args) == 3 {
			if n, b := pat.Stmt("_x, _err = _r.ReadZiplistEntry(_buf)").Find(qi, loop.Body, nil); n != nil {
				okArg = pat.Same(qi, send.Args[2], b["_x"]) && pat.Expr("_e.Key").Match(qi, send.Args[1], nil) != nil
			}
		}
		c.Check("R4.expand", "restoreQuicklistEntry/command", send.Pos(), strings.EqualFold(cmd, "RPUSH") && okArg, "every ziplist entry of every quicklist node is appended with RPUSH key entry (list order preserved)")
		e := grammar.New(c, c01.ReaderSpec(false))
		got := strings.TrimSpace(strings.TrimSuffix(e.FuncTerm(ql), "Ret"))
		if len(e.Undecided) > 0 {
			c.Undecidedf("R4.expand", "restoreQuicklistEntry/grammar", ql.Decl.Pos(), "%s", strings.Join(e.Undecided, "; "))
		} else {
			c.Check("R4.expand", "restoreQuicklistEntry/grammar", ql.Decl.Pos(), got == "U8 Len@a Loop@a{Str}", "restoreQuicklistEntry reads `"+got+"`, the payload is `U8 Len@a Loop@a{Str}` (type byte, node count, nodes)")
		}
		if loop != nil {
			checkBatch(c, qi, "restoreQuicklistEntry", ql.Decl.Body, loop, send, fl, true)
		}
	}

	// flushAndCheckReply
	fi := fl.Pkg.TypesInfo
	var ps []*ast.Ident
	for _, f := range fl.Decl.Type.Params.List {
		ps = append(ps, f.Names...)
	}
	if len(ps) == 2 {
		fb := pat.Binds{"_c": ps[0], "_count": ps[1]}
		body := fl.Decl.Body
		flush, _ := pat.Expr("_c.Flush()").Find(fi, body, fb)
		var loop *ast.ForStmt
		core.Inspect(body, func(n ast.Node) bool {
			if f, ok := n.(*ast.ForStmt); ok && loop == nil {
				loop = f
			}
			return true
		})
		ok := false
		zeroInit := false
		if loop != nil && loop.Init != nil {
			if ib := pat.Stmt("_j = 0").Match(fi, loop.Init, nil); ib != nil {
				fb["_j"] = ib["_j"]
				_, isInc := loop.Post.(*ast.IncDecStmt)
				zeroInit = isInc && pat.Stmt("_j++").Match(fi, loop.Post, fb) != nil
			}
		}
		if zeroInit && flush != nil && loop != nil && flush.Pos() < loop.Pos() && pat.Expr("_j < _count").Match(fi, loop.Cond, fb) != nil {
			rc, rb := pat.Stmt("_, _err = _c.Receive()").Find(fi, loop.Body, fb)
			if rc != nil {
				ifs := findIf(fi, loop.Body, func(cond ast.Expr) bool { return pat.Expr("_err != nil").Match(fi, cond, rb) != nil })
				if ifs != nil && len(ifs.Body.List) > 0 {
					if es, isE := ifs.Body.List[len(ifs.Body.List)-1].(*ast.ExprStmt); isE {
						if call, isC := es.X.(*ast.CallExpr); isC {
							ok = cfgq.NR(c.Program).Is(fi, call)
						}
					}
				}
			}
		}
		c.Check("R5.batch", "flushAndCheckReply/shape", fl.Decl.Pos(), ok, "flushAndCheckReply flushes, then receives exactly `count` replies and aborts on the first error (a rejected element command is never silently dropped)")
	} else {
		c.Undecidedf("R5.batch", "flushAndCheckReply/params", fl.Decl.Pos(), "expected (c, count)")
	}
}

func checkBatch(c *core.Ctx, info *types.Info, key string, region ast.Node, loop *ast.ForStmt, send *ast.CallExpr, fl *core.Fn, inner bool) {
	// count++ once in the loop body, before/at the send
	incs := pat.Stmt("_count++").FindAll(info, loop.Body, nil)
	if len(incs) != 1 {
		c.Check("R5.batch", key+"/count-per-send", loop.Pos(), false, fmt.Sprintf("exactly one count++ per element command expected, found %d", len(incs)))
		return
	}
	cb := pat.Stmt("_count++").Match(info, incs[0], nil)
	c.Okf("R5.batch", key+"/count-per-send", incs[0].Pos(), "count++ once per Send")
	// bound of the loop
	var bound ast.Expr
	if be, ok := ast.Unparen(loop.Cond).(*ast.BinaryExpr); ok && be.Op == token.LSS {
		bound = be.Y
		cb["_i"] = be.X
	}
	// the flush condition is a disjunction: each of `count == 100` and `i == n-1` must
	// be one of its disjuncts (under && the batch is flushed only when both hold)
	var disjuncts func(e ast.Expr) []ast.Expr
	disjuncts = func(e ast.Expr) []ast.Expr {
		e = ast.Unparen(e)
		if be, ok := e.(*ast.BinaryExpr); ok && be.Op == token.LOR {
			return append(disjuncts(be.X), disjuncts(be.Y)...)
		}
		if id, ok := e.(*ast.Ident); ok {
			if d := pat.DefOf(info, id); d != nil {
				if be, isBin := ast.Unparen(d).(*ast.BinaryExpr); isBin && be.Op == token.LOR {
					return disjuncts(d)
				}
			}
		}
		return []ast.Expr{e}
	}
	hasDisjunct := func(cond ast.Expr, p *pat.Pattern, b pat.Binds) bool {
		for _, d := range disjuncts(cond) {
			if p.Match(info, d, b) != nil {
				return true
			}
		}
		return false
	}
	flushIf := findIf(info, loop.Body, func(cond ast.Expr) bool {
		n, _ := pat.Expr("_count == 100").Find(info, cond, cb)
		return n != nil
	})
	okFlush := false
	if flushIf != nil && !hasDisjunct(flushIf.Cond, pat.Expr("_count == 100"), cb) {
		c.Check("R5.batch", key+"/flush-at-100", flushIf.Pos(), false, "a full batch of 100 must be flushed whatever else holds: `count == 100` has to be a disjunct of the flush condition (under && a full batch is kept and keeps growing)")
		return
	}
	if flushIf != nil {
		f1, _ := pat.Stmt("flushAndCheckReply(_c, _count)").Find(info, flushIf.Body, cb)
		f2, _ := pat.Stmt("_count = 0").Find(info, flushIf.Body, cb)
		okFlush = f1 != nil && f2 != nil && f1.Pos() < f2.Pos()
	}
	c.Check("R5.batch", key+"/flush-at-100", loop.Pos(), okFlush, "a full batch of 100 is flushed with flushAndCheckReply(c, count) and count is reset afterwards")
	if inner {
		// unconditional flush right after the inner loop
		okAfter := false
		if parent := parentBlock(region, loop); parent != nil {
			for i, s := range parent {
				if s == ast.Stmt(loop) && i+2 < len(parent)+0 {
					f1 := pat.Stmt("flushAndCheckReply(_c, _count)").Match(info, parent[i+1], cb)
					okAfter = f1 != nil && i+2 < len(parent) && pat.Stmt("_count = 0").Match(info, parent[i+2], cb) != nil
				}
			}
		}
		c.Check("R5.batch", key+"/flush-after-inner-loop", loop.Pos(), okAfter, "the partial batch is flushed unconditionally after each inner list (nothing is left unsent at return)")
		return
	}
	okLast := false
	if flushIf != nil && bound != nil {
		for _, cand := range []string{"_i == _n - 1", "_i == int(_n) - 1", "_i == int(_n - 1)"} {
			b2 := pat.Binds{"_n": stripConv(bound)}
			for k, v := range cb {
				b2[k] = v
			}
			if hasDisjunct(flushIf.Cond, pat.Expr(cand), b2) {
				okLast = true
			}
		}
	}
	c.Check("R5.batch", key+"/flush-on-last", loop.Pos(), okLast, "the final partial batch is flushed on the last iteration (i == n-1 with n the loop bound); otherwise up to 99 elements are never sent")
}

func stripConv(e ast.Expr) ast.Expr {
	e = ast.Unparen(e)
	if call, ok := e.(*ast.CallExpr); ok && len(call.Args) == 1 {
		if id, ok := call.Fun.(*ast.Ident); ok && (id.Name == "int" || id.Name == "int64" || id.Name == "uint32") {
			return stripConv(call.Args[0])
		}
	}
	return e
}

func parentBlock(root ast.Node, child ast.Stmt) []ast.Stmt {
	path := core.PathTo(root, child)
	for i := len(path) - 2; i >= 0; i-- {
		switch p := path[i].(type) {
		case *ast.BlockStmt:
			return p.List
		case *ast.CaseClause:
			return p.Body
		}
	}
	return nil
}

// ---------------------------------------------------------------------------
// R6

func r6(c *core.Ctx, fns ...*core.Fn) {
	n := 0
	for _, fn := range fns {
		info := fn.Pkg.TypesInfo
		g := cfgq.Of(c.Program, fn)
		cnt := map[string]int{}
		for _, p := range g.Points(func(n ast.Node) bool { return doCmd(info, n, "") != nil }) {
			call := doCmd(info, p.Node(), "")
			cmd, _ := core.StringConst(info, call.Args[0])
			cmd = strings.ToLower(cmd)
			cnt[cmd]++
			n++
			key := fmt.Sprintf("%s/do-%s#%d", fn.Decl.Name.Name, cmd, cnt[cmd])
			// the error result must be bound to a variable
			var errObj types.Object
			switch st := p.Node().(type) {
			case *ast.AssignStmt:
				if len(st.Lhs) >= 2 {
					if id, ok := st.Lhs[len(st.Lhs)-1].(*ast.Ident); ok && id.Name != "_" {
						errObj = core.ObjOf(info, id)
					}
				}
			case *ast.ReturnStmt:
				// `return err` style: _, err := c.Do(...); return err is an AssignStmt; a direct return of the call propagates
				c.Okf("R6.errors", key, call.Pos(), "reply returned to the caller")
				continue
			}
			if errObj == nil {
				c.Check("R6.errors", key, call.Pos(), false, fmt.Sprintf("the error of %s is discarded: a failed %s is reported as success", strings.ToUpper(cmd), strings.ToUpper(cmd)))
				continue
			}
			// from the call, every path to a successful exit passes a test of err (an edge establishing err == nil) or returns err itself
			tested := func(b *cfg.Block, s int) bool {
				return g.Establishes(b, s, func(f cfgq.Fact) bool {
					be, ok := ast.Unparen(f.Expr).(*ast.BinaryExpr)
					if !ok {
						return false
					}
					isErr := func(x ast.Expr) bool {
						id, ok := ast.Unparen(x).(*ast.Ident)
						return ok && core.ObjOf(info, id) == errObj
					}
					if !(isErr(be.X) && core.IsNil(info, be.Y) || isErr(be.Y) && core.IsNil(info, be.X)) {
						return false
					}
					return be.Op == token.NEQ && !f.Val || be.Op == token.EQL && f.Val
				})
			}
			returnsErr := func(n ast.Node) bool {
				r, ok := n.(*ast.ReturnStmt)
				if !ok || len(r.Results) == 0 {
					return false
				}
				id, ok := ast.Unparen(r.Results[len(r.Results)-1]).(*ast.Ident)
				return ok && core.ObjOf(info, id) == errObj
			}
			examined := func(n ast.Node) bool {
				// a branch condition that looks at the error value (e.g. `err != nil && r != 1`,
				// where the reply helper returns the zero value together with an error)
				if e, ok := n.(ast.Expr); ok {
					return core.Mentions(info, e, errObj)
				}
				return returnsErr(n)
			}
			w := g.Path(cfgq.Query{From: p, After: true, Avoid: examined, AvoidEdge: tested, TargetExit: func(b *cfg.Block, k cfgq.ExitKind) bool {
				if k == cfgq.ExitFall {
					return true
				}
				if k != cfgq.ExitRet {
					return false
				}
				return cfgq.ClassifyReturn(info, fn.Decl.Body, b.Nodes[len(b.Nodes)-1].(*ast.ReturnStmt)) != cfgq.RetErr
			}})
			c.Check("R6.errors", key, call.Pos(), w == nil,
				fmt.Sprintf("the error of %s must be tested (or returned) on every path before the function reports success", strings.ToUpper(cmd)), w...)
		}
	}
	if n < 6 {
		c.Undecidedf("instances", "R6.errors", token.NoPos, "only %d c.Do sites found, 6+ confirmed", n)
	}
}

// ---------------------------------------------------------------------------
// R7

func r7(c *core.Ctx) {
	root := c.Func(pkg, "", "CompareVersion")
	if root == nil {
		return
	}
	// CompareVersion and the same-package helpers it calls (two levels)
	fns := []*core.Fn{root}
	seen := map[*types.Func]bool{root.Obj: true}
	for i := 0; i < len(fns) && i < 8; i++ {
		fi := fns[i].Pkg.TypesInfo
		core.InspectAll(fns[i].Decl.Body, func(m ast.Node) bool {
			if call, ok := m.(*ast.CallExpr); ok {
				if f := core.CalleeFunc(fi, call); f != nil && f.Pkg() != nil && f.Pkg().Path() == root.Pkg.PkgPath && !seen[f] {
					seen[f] = true
					if h := c.FnOf(f); h != nil && h.Decl.Body != nil {
						fns = append(fns, h)
					}
				}
			}
			return true
		})
	}
	n := 0
	for _, fn := range fns {
		info := fn.Pkg.TypesInfo
		g := cfgq.Of(c.Program, fn)
		for _, p := range g.Points(func(ast.Node) bool { return true }) {
			core.Inspect(p.Node(), func(m ast.Node) bool {
				ix, ok := m.(*ast.IndexExpr)
				if !ok {
					return true
				}
				if _, isSlice := info.TypeOf(ix.X).Underlying().(*types.Slice); !isSlice {
					return true
				}
				if _, isConst := core.IntConst(info, ix.Index); isConst {
					return true
				}
				n++
				b := pat.Binds{"_s": ix.X, "_i": ix.Index}
				ok2, w := g.OnlyViaFact(p, func(f cfgq.Fact) bool {
					pos := flow.Positive(f)
					return pat.Expr("_i < len(_s)").Match(info, pos, b) != nil || pat.Expr("_i+1 <= len(_s)").Match(info, pos, b) != nil || pat.Expr("_i <= len(_s)-1").Match(info, pos, b) != nil
				})
				c.Check("R7.index", fmt.Sprintf("%s/%s", fn.Decl.Name.Name, c.Src(ix.X)), ix.Pos(), ok2,
					fmt.Sprintf("`%s` must be reachable only when %s < len(%s): a version string with fewer components than the comparison level (target.version = \"5\") indexes out of range and aborts the restore", c.Src(ix), c.Src(ix.Index), c.Src(ix.X)), w...)
				return true
			})
		}
	}
	if n < 1 {
		c.Undecidedf("instances", "R7.index", root.Decl.Pos(), "no indexed access to the version components found in CompareVersion or its helpers")
	}
}
