package c10

import (
	"fmt"
	"go/ast"
	"go/types"

	"rscheck/core"
)

// extra rules added after seeded changes were first answered UNDECIDED:
//
// R7.width  — itos must not narrow the integer it formats before the table
//             lookup: a conversion of the argument (or of argument+bias) to an
//             integer type narrower than the argument makes every int64 whose
//             low bits fall into the table window alias a table entry.
// R8.alias  — text/bulk values must own their bytes: the views returned by
//             bufio.Reader.ReadSlice / ReadLine / Peek alias the reader's
//             buffer and are overwritten by later reads (and fail on lines
//             longer than the buffer); such a view may only be parsed or copied,
//             never returned or stored.

func intBits(t types.Type) int {
	b, ok := t.Underlying().(*types.Basic)
	if !ok || b.Info()&types.IsInteger == 0 {
		return 0
	}
	switch b.Kind() {
	case types.Int8, types.Uint8:
		return 8
	case types.Int16, types.Uint16:
		return 16
	case types.Int32, types.Uint32:
		return 32
	}
	return 64
}

func (r *rs) extra() {
	c, info := r.c, r.info
	// ---- R7.width
	if fn := c.Func(pkg, "", "itos"); fn != nil {
		i := param(info, fn, 0)
		n := 0
		bad := ""
		core.Inspect(fn.Decl.Body, func(m ast.Node) bool {
			call, ok := m.(*ast.CallExpr)
			if !ok || len(call.Args) != 1 {
				return true
			}
			tv, ok := info.Types[call.Fun]
			if !ok || !tv.IsType() {
				return true
			}
			if i == nil || !core.Mentions(info, call.Args[0], i) {
				return true
			}
			n++
			from, to := intBits(info.TypeOf(call.Args[0])), intBits(tv.Type)
			if to != 0 && from != 0 && to < from {
				bad = c.Src(call)
			}
			return true
		})
		c.Check("R7.width", "itos/no-narrowing", fn.Decl.Pos(), bad == "",
			fmt.Sprintf("itos narrows its argument before the table lookup (`%s`): every 64-bit integer whose low bits fall into the pre-rendered window is encoded as that table entry (4294967296 is encoded as \":0\")", bad))
	}
	// ---- R8.alias
	views := 0
	for _, f := range r.pk.Syntax {
		if core.IsTestFile(c.Fset, f) {
			continue
		}
		for _, d := range f.Decls {
			fd, ok := d.(*ast.FuncDecl)
			if !ok || fd.Body == nil {
				continue
			}
			core.Inspect(fd.Body, func(m ast.Node) bool {
				as, ok := m.(*ast.AssignStmt)
				if !ok || len(as.Rhs) != 1 {
					return true
				}
				call, ok := ast.Unparen(as.Rhs[0]).(*ast.CallExpr)
				if !ok {
					return true
				}
				fobj := core.CalleeFunc(info, call)
				if fobj == nil || !(core.IsFunc(fobj, "bufio", "Reader", "ReadSlice") || core.IsFunc(fobj, "bufio", "Reader", "ReadLine") || core.IsFunc(fobj, "bufio", "Reader", "Peek")) {
					return true
				}
				views++
				id, ok := as.Lhs[0].(*ast.Ident)
				if !ok || id.Name == "_" {
					return true
				}
				obj := core.ObjOf(info, id)
				escape := ""
				// every use of the view must be inside len(), an index expression, string(...),
				// append(x, view...) or copy(dst, view)
				ast.Inspect(fd.Body, func(u ast.Node) bool {
					switch x := u.(type) {
					case *ast.ReturnStmt:
						for _, res := range x.Results {
							if usesRaw(info, res, obj) {
								escape = c.Src(x)
							}
						}
					case *ast.AssignStmt:
						if x == as {
							return true
						}
						for _, rhs := range x.Rhs {
							if usesRaw(info, rhs, obj) {
								escape = c.Src(x)
							}
						}
					case *ast.CompositeLit:
						for _, el := range x.Elts {
							if usesRaw(info, el, obj) {
								escape = c.Src(x)
							}
						}
					}
					return true
				})
				c.Check("R8.alias", fd.Name.Name+"/"+fobj.Name(), call.Pos(), escape == "",
					fmt.Sprintf("the result of bufio.Reader.%s is a view into the reader's buffer; `%s` lets it escape, so the decoded value changes when later bytes are read and lines longer than the buffer fail", fobj.Name(), escape))
				return true
			})
		}
	}
	c.Okf("R8.alias", "scan", r.pk.Syntax[0].Pos(), "%d buffer-view reads in pkg/redis (non-test) examined", views)
}

// usesRaw reports whether e yields (a slice of) the view itself rather than a
// copy or a parsed value.
func usesRaw(info *types.Info, e ast.Node, obj types.Object) bool {
	switch x := e.(type) {
	case *ast.KeyValueExpr:
		return usesRaw(info, x.Value, obj)
	case *ast.ParenExpr:
		return usesRaw(info, x.X, obj)
	case *ast.Ident:
		return core.ObjOf(info, x) == obj
	case *ast.SliceExpr:
		return usesRaw(info, x.X, obj)
	case *ast.UnaryExpr:
		return usesRaw(info, x.X, obj)
	case *ast.CompositeLit:
		for _, el := range x.Elts {
			if usesRaw(info, el, obj) {
				return true
			}
		}
	}
	return false
}
