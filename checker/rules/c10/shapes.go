// R3 (length domain), R4 (terminators), R5 (nil vs empty).
package c10

import (
	"fmt"
	"go/ast"
	"go/token"
	"go/types"
	"math"

	"golang.org/x/tools/go/cfg"

	"rscheck/cfgq"
	"rscheck/core"
	"rscheck/lin"
	"rscheck/pat"
	"rscheck/rules/c10/flow"
)

// ---------------------------------------------------------------------------
// R3 length domain + R5 (decoder side)

func (r *rs) lengthDomain(name string) {
	c, info := r.c, r.info
	fn := r.method("Decoder", name)
	if fn == nil {
		return
	}
	g := flow.GraphOf(c.Program, fn)
	decodeInt := r.method("Decoder", "decodeInt")
	if decodeInt == nil {
		return
	}
	calls := flow.FindCalls(fn.Decl.Body, func(call *ast.CallExpr) bool { return core.CalleeFunc(info, call) == decodeInt.Obj })
	if len(calls) != 1 {
		c.Undecidedf("R3.length", name+"/length", fn.Decl.Pos(), "expected one call of decodeInt for the length, found %d", len(calls))
		return
	}
	as := ast.Node(calls[0])
	// path-sensitive walk: the decoded length is a token, every variable it is copied into holds it; its
	// interval is refined by the comparisons with constants met on the path; what a return yields is read
	// from what its result variables hold on that path
	lenTok, errTok := fmt.Sprintf("call%p#0", calls[0]), fmt.Sprintf("call%p#1", calls[0])
	raw := map[string][]flow.Interval{}
	imprecise := false
	var allocNode ast.Node
	var site allocSite // the allocation made for the decoded length
	w := &flow.Sym{G: g}
	w.Visit = func(m ast.Node, st *flow.SState) bool {
		iv := st.IntervalOf(lenTok)
		if ret, ok := m.(*ast.ReturnStmt); ok {
			seen := false
			for _, v := range st.Env {
				if v.Tok == lenTok || v.Tok == errTok {
					seen = true
				}
			}
			if !seen {
				return true
			}
			label := "other"
			if len(ret.Results) == 2 {
				ev, vv := w.Eval(ret.Results[1], st), w.Eval(ret.Results[0], st)
				switch {
				case ev.Kind == flow.SNonNil || flow.ErrReturn(info, fn.Decl.Body, ret):
					label = "error"
				case ev.Kind == flow.SNil && vv.Kind == flow.SNil:
					label = "nil"
				}
			}
			raw[label] = append(raw[label], iv)
			return true
		}
		for _, call := range cfgq.ExecCalls(m) {
			if !flow.IsBuiltin(info, call, "make") || len(call.Args) < 2 {
				continue
			}
			for _, sz := range call.Args[1:] {
				if !w.Holds(sz, st, lenTok) {
					continue
				}
				site = allocSite{node: m, call: call, size: sz}
				// a variable that holds the decoded length here: preferably one written in the size itself
				core.Inspect(sz, func(x ast.Node) bool {
					switch e := x.(type) {
					case *ast.Ident, *ast.SelectorExpr:
						if v := w.Eval(e.(ast.Expr), st); v.Tok == lenTok && site.holder == nil {
							site.holder = e.(ast.Expr)
							return false
						}
					}
					return true
				})
				if site.holder == nil {
					// deterministic choice among the variables that hold it: the first declared
					var best types.Object
					for o, v := range st.Env {
						if _, plain := o.(*types.Var); plain && v.Tok == lenTok && (best == nil || o.Pos() < best.Pos()) {
							best = o
						}
					}
					if best != nil {
						id := ast.NewIdent(best.Name())
						info.Uses[id] = best
						site.holder = id
					}
				}
				if as, ok := m.(*ast.AssignStmt); ok && len(as.Lhs) == 1 {
					site.buf, _ = as.Lhs[0].(*ast.Ident)
				}
				allocNode = m
				raw["alloc"] = append(raw["alloc"], iv)
				return true
			}
		}
		return false
	}
	w.Prune = func(st *flow.SState) bool {
		for _, v := range st.Env {
			if v.Tok == errTok && v.Kind == flow.SNonNil {
				return true // decodeInt itself failed: not a statement about the length
			}
		}
		return false
	}
	w.Unlearned = func(e ast.Expr, st *flow.SState) {
		if w.Holds(e, st, lenTok) {
			imprecise = true
		}
	}
	w.Exit = func(blk *cfg.Block, st *flow.SState) {
		if g.Exit(blk) == cfgq.ExitFall {
			raw["fall"] = append(raw["fall"], st.IntervalOf(lenTok))
		}
	}
	w.Run(nil)
	if imprecise || w.Overflow {
		c.Undecidedf("R3.length", name+"/length", as.Pos(), "the length is tested in a form other than a comparison with a constant")
		return
	}
	out := map[string][]flow.Interval{}
	for l, ivs := range raw {
		out[l] = flow.Union(ivs)
	}

	inf, ninf := int64(math.MaxInt64), int64(math.MinInt64)
	overlap := func(set []flow.Interval, lo, hi int64) *flow.Interval {
		for _, v := range set {
			if v.Lo <= hi && v.Hi >= lo {
				x := flow.Interval{Lo: max(v.Lo, lo), Hi: min(v.Hi, hi)}
				return &x
			}
		}
		return nil
	}
	neg := overlap(out["alloc"], ninf, -1)
	if len(out["alloc"]) == 0 {
		// nothing recognised as the allocation sized by the decoded length: not a statement about the code
		c.Undecidedf("R3.length", name+"/alloc", as.Pos(), "cannot find an allocation whose size is computed from the decoded length")
	} else {
		c.Check("R3.length", name+"/alloc", as.Pos(), neg == nil,
			fmt.Sprintf("the buffer allocation must be reached only for n >= 0 (reached for %s): a negative length is malformed input and has to yield an error (or nil for -1), not an allocation/index panic or an empty value", flow.SetString(out["alloc"])))
	}
	c.Check("R3.length", name+"/nil", as.Pos(), flow.SameSet(out["nil"], []flow.Interval{{Lo: -1, Hi: -1}}),
		fmt.Sprintf("`return nil, nil` must be reached exactly for n = -1 (reached for %s): otherwise the nil bulk/array is rejected, or a malformed length below -1 yields a value", flow.SetString(out["nil"])))
	bad := overlap(out["error"], -1, math.MaxInt32)
	miss := !flow.SameSet(flow.Union(append(append([]flow.Interval{}, out["error"]...), flow.Interval{Lo: -1, Hi: inf})), []flow.Interval{{Lo: ninf, Hi: inf}})
	c.Check("R3.length", name+"/error", as.Pos(), bad == nil && !miss,
		fmt.Sprintf("the length error must be returned for every n <= -2 and for no n in [-1, 2^31) (returned for %s)", flow.SetString(out["error"])))
	if o := out["other"]; len(o) > 0 {
		if overlap(o, -1, -1) != nil {
			c.Failf("R5.nil", name+"/minus-one", as.Pos(), "for n = -1 a value other than the literal nil is returned: nil and empty are no longer distinguished after a round trip")
		} else {
			c.Undecidedf("R3.length", name+"/other", as.Pos(), "an unrecognised successful return is reached for n in %s before the allocation", flow.SetString(o))
		}
	} else {
		c.Okf("R5.nil", name+"/minus-one", as.Pos(), "the only successful return before the allocation yields the literal nil")
	}
	if len(out["fall"]) > 0 {
		c.Undecidedf("R3.length", name+"/fall", as.Pos(), "control falls off the function")
	}
	// R5: n >= 0 returns the freshly made buffer: on every successful path behind the allocation the value
	// returned still is that allocation (itself, a slice of it, or what append made of it)
	if allocNode == nil || site.holder == nil {
		return
	}
	r.allocs[name] = site
	makeTok := fmt.Sprintf("make%p", site.call)
	verdicts := map[string]token.Pos{}
	w2 := &flow.Sym{G: g}
	w2.Visit = func(m ast.Node, st *flow.SState) bool {
		ret, ok := m.(*ast.ReturnStmt)
		if !ok {
			return false
		}
		made := false
		for _, v := range st.Env {
			if v.Tok == makeTok {
				made = true
			}
		}
		if !made || len(ret.Results) != 2 {
			return true
		}
		if ev := w2.Eval(ret.Results[1], st); ev.Kind == flow.SNonNil || flow.ErrReturn(info, fn.Decl.Body, ret) {
			return true
		} else if ev.Kind != flow.SNil {
			verdicts["unknown"] = ret.Pos()
			return true
		}
		switch v := w2.Eval(ret.Results[0], st); {
		case v.Tok == makeTok && v.Kind == flow.SNonNil:
			verdicts["ok"] = ret.Pos()
		case v.Kind == flow.SNil:
			verdicts["nil"] = ret.Pos()
		default:
			verdicts["unknown"] = ret.Pos()
		}
		return true
	}
	w2.Prune = w.Prune
	w2.Run(nil)
	switch {
	case verdicts["nil"] != 0:
		c.Failf("R5.nil", name+"/fresh-buffer", verdicts["nil"], "after the allocation (n >= 0) nil is returned without an error: an empty value decodes as nil")
	case verdicts["unknown"] != 0 || w2.Overflow:
		c.Undecidedf("R5.nil", name+"/fresh-buffer", verdicts["unknown"], "a successful return after the allocation does not provably yield the allocated buffer")
	case verdicts["ok"] != 0:
		c.Okf("R5.nil", name+"/fresh-buffer", verdicts["ok"], "n >= 0 returns the buffer made for it (never nil)")
	default:
		c.Undecidedf("R5.nil", name+"/fresh-buffer", allocNode.Pos(), "no successful return after the allocation")
	}
	if name == "decodeArray" {
		r.arrayLoop(fn, g, site)
	}
}

// arrayLoop: every element slot is filled exactly once by a nested decode (R6 reader side).
func (r *rs) arrayLoop(fn *core.Fn, g *cfgq.Graph, site allocSite) {
	c, info := r.c, r.info
	decodeResp := r.method("Decoder", "decodeResp")
	if decodeResp == nil || site.buf == nil {
		c.Undecidedf("R6.grammar", "decodeArray/elements", fn.Decl.Pos(), "the element buffer is not bound to a variable")
		return
	}
	calls := flow.FindCalls(fn.Decl.Body, func(call *ast.CallExpr) bool { return core.CalleeFunc(info, call) == decodeResp.Obj })
	if len(calls) != 1 {
		c.Undecidedf("R6.grammar", "decodeArray/elements", fn.Decl.Pos(), "expected one nested decode, found %d", len(calls))
		return
	}
	call := calls[0]
	var loop ast.Stmt
	path := core.PathTo(fn.Decl.Body, call)
	for _, n := range path {
		switch n.(type) {
		case *ast.ForStmt, *ast.RangeStmt:
			loop = n.(ast.Stmt)
		}
	}
	arr := flow.Obj(info, site.buf)
	isArr := flow.IsObj(info, arr)
	lenIsN := len(site.call.Args) >= 2 && site.size == site.call.Args[1] // make([]T, n): len(a) == n from the start
	// (a) the loop runs once per element, in index order
	var idx types.Object
	counted := false
	switch l := loop.(type) {
	case *ast.RangeStmt:
		counted = isArr(l.X) && lenIsN
		if l.Key != nil {
			idx = flow.Obj(info, l.Key)
		}
	case *ast.ForStmt:
		if as, ok := l.Init.(*ast.AssignStmt); ok && l.Cond != nil && l.Post != nil {
			for i, lh := range as.Lhs {
				if len(as.Lhs) == len(as.Rhs) && isConst(info, unconv(info, as.Rhs[i]), 0) {
					if inc, ok := l.Post.(*ast.IncDecStmt); ok && inc.Tok == token.INC && pat.Same(info, inc.X, lh) {
						idx = flow.Obj(info, lh)
					}
				}
			}
			if idx != nil {
				iid := ast.NewIdent(idx.Name())
				info.Uses[iid] = idx
				bounds := []lin.Form{lin.Of(info, site.holder)}
				if lenIsN {
					ln := ast.NewIdent("len")
					info.Uses[ln] = types.Universe.Lookup("len")
					aid := ast.NewIdent(arr.Name())
					info.Uses[aid] = arr
					bounds = append(bounds, lin.Of(info, &ast.CallExpr{Fun: ln, Args: []ast.Expr{aid}}))
				}
				if cmp, ok := lin.CmpOf(info, l.Cond, true); ok {
					for _, bd := range bounds {
						want := lin.Of(info, iid) // i - bound < 0
						w := lin.Form{Coef: map[string]int64{}, Const: want.Const - bd.Const}
						for k, v := range want.Coef {
							w.Coef[k] += v
						}
						for k, v := range bd.Coef {
							w.Coef[k] -= v
							if w.Coef[k] == 0 {
								delete(w.Coef, k)
							}
						}
						counted = counted || cmp.Is(w, token.LSS)
					}
				}
			}
		}
	}
	// (b) each element decoded lands in its slot: a[i] = decoded, or a = append(a, decoded)
	stored := false
	if loop != nil {
		core.Inspect(loop, func(m ast.Node) bool {
			as, ok := m.(*ast.AssignStmt)
			if !ok {
				return true
			}
			if len(as.Rhs) == 1 && ast.Unparen(as.Rhs[0]) == ast.Expr(call) && len(as.Lhs) >= 1 {
				if ix, isIdx := ast.Unparen(as.Lhs[0]).(*ast.IndexExpr); isIdx && isArr(ix.X) && idx != nil && flow.IsObj(info, idx)(ix.Index) {
					stored = true
				}
				if elem := flow.Obj(info, as.Lhs[0]); elem != nil {
					core.Inspect(loop, func(x ast.Node) bool {
						if ap, ok := x.(*ast.AssignStmt); ok && len(ap.Lhs) == 1 && len(ap.Rhs) == 1 && isArr(ap.Lhs[0]) {
							if ac, ok := ast.Unparen(ap.Rhs[0]).(*ast.CallExpr); ok && flow.IsBuiltin(info, ac, "append") && len(ac.Args) == 2 && isArr(ac.Args[0]) && flow.IsObj(info, elem)(ac.Args[1]) && !lenIsN {
								stored = true
							}
						}
						if ap, ok := x.(*ast.AssignStmt); ok && len(ap.Lhs) == 1 && len(ap.Rhs) == 1 && flow.IsObj(info, elem)(ap.Rhs[0]) {
							if ix, isIdx := ast.Unparen(ap.Lhs[0]).(*ast.IndexExpr); isIdx && isArr(ix.X) && idx != nil && flow.IsObj(info, idx)(ix.Index) {
								stored = true
							}
						}
						return true
					})
				}
			}
			return true
		})
	}
	if loop == nil || !counted || !stored {
		c.Undecidedf("R6.grammar", "decodeArray/elements", fn.Decl.Pos(), "cannot find the loop that decodes one element into each slot of the made array (loop found: %v, counts n: %v, stores in order: %v)", loop != nil, counted, stored)
		return
	}
	c.Okf("R6.grammar", "decodeArray/elements", loop.Pos(), "each of the n slots is filled by one nested decode, in index order")
}

// ---------------------------------------------------------------------------
// R4 terminator checks

func (r *rs) r4() {
	c, info := r.c, r.info
	// bulk body
	if fn := r.method("Decoder", "decodeBulkBytes"); fn != nil {
		g := flow.GraphOf(c.Program, fn)
		r.cur = fn.Decl.Body
		// the buffer made for the decoded length was located by the length-domain walk (which knows, per
		// path, which variable holds the decoded length)
		var mk ast.Node
		var b pat.Binds
		site, found := r.allocs["decodeBulkBytes"]
		if found && site.buf != nil && site.holder != nil {
			mk, b = site.node, pat.Binds{"_b": site.buf, "_n": site.holder}
		}
		if mk == nil {
			c.Undecidedf("R4.term", "decodeBulkBytes/buffer", fn.Decl.Pos(), "cannot find the buffer made for the decoded length")
		} else {
			// size = length + k as linear forms
			sz, ln := lin.Of(info, site.size), lin.Of(info, site.holder)
			if !(lin.Form{Coef: sz.Coef}).Equal(lin.Form{Coef: ln.Coef}) {
				c.Undecidedf("R4.term", "decodeBulkBytes/buffer", mk.Pos(), "buffer size %s is not the decoded length plus a constant", c.Src(site.size))
			} else {
				k := sz.Const - ln.Const
				c.Check("R4.term", "decodeBulkBytes/buffer", mk.Pos(), k == 2, fmt.Sprintf("the bulk buffer must hold the payload plus exactly the 2 terminator bytes (found n+%d): otherwise the CR LF are not consumed with the value, or bytes of the next value are swallowed", k))
			}
			bobj := flow.Obj(info, b["_b"])
			rf := flow.FindCalls(fn.Decl.Body, func(call *ast.CallExpr) bool {
				return r.isReadFull(call) && r.isField(call.Args[0], "Decoder", "r") && flow.IsObj(info, bobj)(call.Args[1])
			})
			if len(rf) != 1 || bobj == nil {
				c.Undecidedf("R4.term", "decodeBulkBytes/crlf", mk.Pos(), "cannot find io.ReadFull(d.r, b)")
			} else {
				// every successful return after the body was read sits behind both terminator tests
				rp, _ := flow.PointOf(g, rf[0])
				k := 0
				for _, p := range g.Points(func(m ast.Node) bool {
					ret, ok := m.(*ast.ReturnStmt)
					return ok && !flow.ErrReturn(info, fn.Decl.Body, ret)
				}) {
					ret := p.Node().(*ast.ReturnStmt)
					if g.Path(cfgq.Query{From: rp, After: true, AvoidEdge: flow.ErrEdge(g), Target: func(m ast.Node) bool { return m == ast.Node(ret) }}) == nil {
						continue
					}
					k++
					buf := flow.NewBuffer(info, fn.Decl.Body, bobj, site.size).WithFiles(r.pk.Syntax)
					opq := flow.Opaque(g, buf.Understood, bobj)
					for _, t := range []struct {
						off  int64
						ch   int64
						name string
					}{{-2, '\r', "cr"}, {-1, '\n', "lf"}} {
						r.guard("R4.term", "decodeBulkBytes/"+t.name, ret.Pos(), g, p, buf.Establishes(flow.Shift(buf.Length, t.off), t.ch), opq,
							fmt.Sprintf("after the body was read a value may be returned only when byte %d of the buffer (counted from its end) was found to be %q: a bulk not followed by CR LF is malformed and must yield an error", t.off, rune(t.ch)))
					}
					if len(ret.Results) == 2 && pat.Expr("_b[:_n]").Match(info, flow.Resolve(info, fn.Decl.Body, ret.Results[0]), b) != nil {
						c.Okf("R4.term", "decodeBulkBytes/payload", ret.Pos(), "the value is the buffer without its 2 terminator bytes (b[:n])")
					} else {
						c.Undecidedf("R4.term", "decodeBulkBytes/payload", ret.Pos(), "returned value %s is not the recognised b[:n]", c.Src(ret))
					}
				}
				if k == 0 {
					c.Undecidedf("R4.term", "decodeBulkBytes/crlf", rf[0].Pos(), "no successful return after the body was read")
				}
			}
		}
	}
	// text lines
	r.line("decodeText", true)
	r.line("decodeSingleLineBulkBytesArray", false)
	// integers
	if fn := r.method("Decoder", "decodeInt"); fn != nil {
		g := flow.GraphOf(c.Program, fn)
		_, b := pat.Stmt("_b, _err = _d.decodeText()").Find(info, fn.Decl.Body, nil)
		var as ast.Node
		if b != nil {
			as, b = pat.Stmt("_v, _e = strconv.ParseInt(string(_b), _base, _bits)").Find(info, fn.Decl.Body, b)
		}
		if as == nil {
			c.Undecidedf("R4.term", "decodeInt/parse", fn.Decl.Pos(), "cannot find `v, e := strconv.ParseInt(string(b), base, bits)` over the text line")
		} else {
			base, ok1 := core.IntConst(info, b["_base"].(ast.Expr))
			bits, ok2 := core.IntConst(info, b["_bits"].(ast.Expr))
			if !ok1 || !ok2 {
				c.Undecidedf("R4.term", "decodeInt/parse", as.Pos(), "base/bit size are not constants")
			} else {
				c.Check("R4.term", "decodeInt/parse", as.Pos(), base == 10 && bits == 64, fmt.Sprintf("numeric fields are decimal 64-bit integers (found base %d, %d bits): otherwise valid integers are rejected or mis-read", base, bits))
			}
			eobj := flow.Obj(info, b["_e"])
			n := 0
			for _, p := range g.Points(func(m ast.Node) bool {
				ret, ok := m.(*ast.ReturnStmt)
				return ok && !flow.ErrReturn(info, fn.Decl.Body, ret) && core.Mentions(info, ret, flow.Obj(info, b["_v"]))
			}) {
				n++
				nilOf := func(f cfgq.Fact) (bool, bool) { return flow.NilCmp(info, f, flow.IsObj(info, eobj)) }
				r.guard("R4.term", "decodeInt/error-returned", p.Node().Pos(), g, p,
					func(f cfgq.Fact) bool { isNil, ok := nilOf(f); return ok && isNil },
					flow.Opaque(g, func(f cfgq.Fact) bool { _, ok := nilOf(f); return ok }, eobj),
					"the parsed number may be returned only when ParseInt reported no error: a non-numeric length or integer must yield an error")
			}
			if n == 0 {
				c.Undecidedf("R4.term", "decodeInt/error-returned", as.Pos(), "no return of the parsed value found")
			}
		}
	}
}

// line checks a function that reads one LF-terminated line from Decoder.r.
func (r *rs) line(name string, returnsPrefix bool) {
	c, info := r.c, r.info
	fn := r.method("Decoder", name)
	if fn == nil {
		return
	}
	g := flow.GraphOf(c.Program, fn)
	r.cur = fn.Decl.Body
	as, b := pat.Stmt("_b, _err = _d.r.ReadBytes(_delim)").Find(info, fn.Decl.Body, nil)
	if as == nil {
		c.Undecidedf("R4.term", name+"/line", fn.Decl.Pos(), "cannot find `b, err := d.r.ReadBytes(delim)`")
		return
	}
	if d, ok := core.IntConst(info, b["_delim"].(ast.Expr)); !ok {
		c.Undecidedf("R4.term", name+"/delimiter", as.Pos(), "delimiter is not a constant")
	} else {
		c.Check("R4.term", name+"/delimiter", as.Pos(), d == '\n', fmt.Sprintf("a line ends at LF (found delimiter %q): any other delimiter leaves the terminator in the stream or swallows the next value", rune(d)))
	}
	bobj := flow.Obj(info, b["_b"])
	if bobj == nil {
		c.Undecidedf("R4.term", name+"/crlf", as.Pos(), "the line is not bound to a variable")
		return
	}
	buf := flow.NewBuffer(info, fn.Decl.Body, bobj, nil).WithFiles(r.pk.Syntax)
	opq := flow.Opaque(g, buf.Understood, bobj)
	ap, _ := flow.PointOf(g, as)
	k := 0
	for _, p := range g.Points(func(m ast.Node) bool {
		ret, ok := m.(*ast.ReturnStmt)
		return ok && !flow.ErrReturn(info, fn.Decl.Body, ret)
	}) {
		ret := p.Node()
		if g.Path(cfgq.Query{From: ap, After: true, AvoidEdge: flow.ErrEdge(g), Target: func(m ast.Node) bool { return m == ret }}) == nil {
			continue
		}
		k++
		r.guard("R4.term", name+"/min-length", ret.Pos(), g, p, buf.AtLeast(2), opq,
			"a value may be returned only when the line has at least 2 bytes: the 1-byte line \"\\n\" must yield an error, not an index panic")
		r.guard("R4.term", name+"/cr", ret.Pos(), g, p, buf.Establishes(flow.Shift(buf.Length, -2), '\r'), opq,
			"a value may be returned only when the byte before the LF is CR: a line without CR LF is malformed and must yield an error")
		if returnsPrefix {
			rs, _ := ret.(*ast.ReturnStmt)
			var val ast.Expr
			if rs != nil && len(rs.Results) == 2 {
				val = flow.ChaseDef(g, flow.Resolve(info, fn.Decl.Body, rs.Results[0]), p)
			}
			// the value is b[:len(b)-2]
			okVal := false
			if se, isSlice := ast.Unparen(val).(*ast.SliceExpr); val != nil && isSlice && flow.IsObj(info, bobj)(se.X) && se.Max == nil && se.High != nil && (se.Low == nil || isConst(info, se.Low, 0)) {
				okVal = lin.Of(info, se.High).Equal(flow.Shift(buf.Length, -2))
			}
			if okVal {
				c.Okf("R4.term", name+"/payload", ret.Pos(), "the text value is the line without its 2 terminator bytes (b[:len(b)-2])")
			} else {
				c.Undecidedf("R4.term", name+"/payload", ret.Pos(), "returned value %s is not the recognised b[:len(b)-2]", c.Src(ret))
			}
		}
	}
	if k == 0 {
		c.Undecidedf("R4.term", name+"/crlf", as.Pos(), "no successful return after the line was read")
	}
}

// ---------------------------------------------------------------------------
// R5 encoder side: -1 iff nil

func (r *rs) r5enc(name string) {
	c, info := r.c, r.info
	fn, encodeInt := r.method("encoder", name), r.method("encoder", "encodeInt")
	if fn == nil || encodeInt == nil {
		return
	}
	g := flow.GraphOf(c.Program, fn)
	v := param(info, fn, 0)
	if v == nil {
		c.Undecidedf("R5.nil", name+"/arms", fn.Decl.Pos(), "no value parameter")
		return
	}
	vid := ast.NewIdent(v.Name())
	info.Uses[vid] = v
	// per path: what is known about the value (nil / non-nil) when the length line is written, and what
	// is written (-1, or len(value)) - whatever variables carry the two
	type seen struct {
		n, wrong, blind, opaque int
		pos                     token.Pos
	}
	minus, length := &seen{}, &seen{}
	other := token.NoPos
	w := &flow.Sym{G: g}
	w.Unlearned = func(e ast.Expr, st *flow.SState) {
		if core.Mentions(info, e, v) {
			st.Marks["opaque"] = flow.SVal{Kind: flow.SBool, B: true}
		}
	}
	w.Visit = func(m ast.Node, st *flow.SState) bool {
		for _, call := range cfgq.ExecCalls(m) {
			if core.CalleeFunc(info, call) != encodeInt.Obj || len(call.Args) != 1 {
				continue
			}
			av, bv := w.Eval(call.Args[0], st), w.Eval(vid, st)
			var rec *seen
			want := flow.SNil
			if av.Kind == flow.SInt && av.K == -1 {
				rec = minus
			} else if lc, ok := unconvNode(info, av.Src).(*ast.CallExpr); ok && flow.IsBuiltin(info, lc, "len") && len(lc.Args) == 1 && flow.IsObj(info, v)(lc.Args[0]) {
				rec, want = length, flow.SNonNil
			} else {
				other = call.Pos()
				continue
			}
			rec.n++
			rec.pos = call.Pos()
			switch {
			case bv.Kind == want:
			case bv.Kind == flow.SNil || bv.Kind == flow.SNonNil:
				rec.wrong++
			case st.Marks["opaque"].B:
				rec.opaque++
			default:
				rec.blind++
			}
		}
		return false
	}
	w.Run(nil)
	report := func(key string, rec *seen, detail string) {
		switch {
		case rec.n == 0:
		case rec.wrong+rec.blind > 0:
			c.Check("R5.nil", name+"/"+key, rec.pos, false, detail)
		case rec.opaque > 0 || w.Overflow:
			c.Undecidedf("R5.nil", name+"/"+key, rec.pos, "the value is tested in a form that is not understood; required: %s", detail)
		default:
			c.Check("R5.nil", name+"/"+key, rec.pos, true, detail)
		}
	}
	report("minus-one-iff-nil", minus, "length -1 may be written only when the value == nil: a non-nil empty value must be written with length 0 or it decodes as nil")
	report("length-iff-non-nil", length, "len(value) may be written only when the value != nil: a nil value must be written as -1 or it decodes as empty")
	if other != token.NoPos {
		c.Undecidedf("R5.nil", name+"/length", other, "a length line is written whose value is neither -1 nor len(value)")
	}
	if minus.n == 0 || length.n == 0 {
		c.Undecidedf("R5.nil", name+"/arms", fn.Decl.Pos(), "expected paths writing -1 and paths writing len(value), found %d and %d", minus.n, length.n)
	}
}

// unconvNode strips conversions from an expression node (nil-safe).
func unconvNode(info *types.Info, n ast.Node) ast.Node {
	e, ok := n.(ast.Expr)
	if !ok || e == nil {
		return n
	}
	return unconv(info, e)
}
