// R3 (length domain), R4 (terminators), R5 (nil vs empty).
package c10

import (
	"fmt"
	"go/ast"
	"math"

	"rscheck/cfgq"
	"rscheck/core"
	"rscheck/lin"
	"rscheck/pat"
	"rscheck/rules/c10/flow"
)

// ---------------------------------------------------------------------------
// R3 length domain + R5 (decoder side)

func (r *rs) lengthDomain(name string) {
	c, info := r.c, r.info
	fn := r.method("Decoder", name)
	if fn == nil {
		return
	}
	g := cfgq.Of(c.Program, fn)
	as, b := pat.Stmt("_n, _err = _d.decodeInt()").Find(info, fn.Decl.Body, nil)
	if as == nil {
		c.Undecidedf("R3.length", name+"/length", fn.Decl.Pos(), "cannot find `n, err := d.decodeInt()`")
		return
	}
	n := flow.Obj(info, b["_n"])
	from, ok := flow.PointOf(g, as)
	if n == nil || !ok || flow.Assignments(info, fn.Decl.Body, n) != 1 {
		c.Undecidedf("R3.length", name+"/length", as.Pos(), "the decoded length is not a single-assignment variable")
		return
	}
	isN := flow.IsObj(info, n)
	mentions := func(m ast.Node) bool { return core.Mentions(info, m, n) }
	var allocNode ast.Node
	classify := func(m ast.Node) string {
		if ret, ok := m.(*ast.ReturnStmt); ok {
			switch {
			case flow.ErrReturn(info, fn.Decl.Body, ret):
				return "error"
			case len(ret.Results) == 2 && core.IsNil(info, ret.Results[0]) && core.IsNil(info, ret.Results[1]):
				return "nil"
			}
			return "other"
		}
		hit := false
		for _, call := range cfgq.ExecCalls(m) {
			if flow.IsBuiltin(info, call, "make") && len(call.Args) >= 2 && mentions(call.Args[1]) {
				hit = true
			}
		}
		if hit {
			allocNode = m
			return "alloc"
		}
		return ""
	}
	errEdge := flow.ErrEdge(g)
	out, imprecise := flow.Outcomes(g, from, isN, mentions, classify, errEdge)
	if imprecise {
		c.Undecidedf("R3.length", name+"/length", as.Pos(), "the length is tested in a form other than a comparison with a constant")
		return
	}
	inf, ninf := int64(math.MaxInt64), int64(math.MinInt64)
	overlap := func(set []flow.Interval, lo, hi int64) *flow.Interval {
		for _, v := range set {
			if v.Lo <= hi && v.Hi >= lo {
				x := flow.Interval{Lo: max(v.Lo, lo), Hi: min(v.Hi, hi)}
				return &x
			}
		}
		return nil
	}
	neg := overlap(out["alloc"], ninf, -1)
	c.Check("R3.length", name+"/alloc", as.Pos(), neg == nil && len(out["alloc"]) > 0,
		fmt.Sprintf("the buffer allocation must be reached only for n >= 0 (reached for %s): a negative length is malformed input and has to yield an error (or nil for -1), not an allocation/index panic or an empty value", flow.SetString(out["alloc"])))
	c.Check("R3.length", name+"/nil", as.Pos(), flow.SameSet(out["nil"], []flow.Interval{{Lo: -1, Hi: -1}}),
		fmt.Sprintf("`return nil, nil` must be reached exactly for n = -1 (reached for %s): otherwise the nil bulk/array is rejected, or a malformed length below -1 yields a value", flow.SetString(out["nil"])))
	bad := overlap(out["error"], -1, math.MaxInt32)
	miss := !flow.SameSet(flow.Union(append(append([]flow.Interval{}, out["error"]...), flow.Interval{Lo: -1, Hi: inf})), []flow.Interval{{Lo: ninf, Hi: inf}})
	c.Check("R3.length", name+"/error", as.Pos(), bad == nil && !miss,
		fmt.Sprintf("the length error must be returned for every n <= -2 and for no n in [-1, 2^31) (returned for %s)", flow.SetString(out["error"])))
	if o := out["other"]; len(o) > 0 {
		if overlap(o, -1, -1) != nil {
			c.Failf("R5.nil", name+"/minus-one", as.Pos(), "for n = -1 a value other than the literal nil is returned: nil and empty are no longer distinguished after a round trip")
		} else {
			c.Undecidedf("R3.length", name+"/other", as.Pos(), "an unrecognised successful return is reached for n in %s before the allocation", flow.SetString(o))
		}
	} else {
		c.Okf("R5.nil", name+"/minus-one", as.Pos(), "the only successful return before the allocation yields the literal nil")
	}
	if len(out["fall"]) > 0 {
		c.Undecidedf("R3.length", name+"/fall", as.Pos(), "control falls off the function")
	}
	// R5: n >= 0 returns the freshly made buffer
	if allocNode == nil {
		return
	}
	ap, _ := flow.PointOf(g, allocNode)
	var valuePat *pat.Pattern
	var ab pat.Binds
	if name == "decodeBulkBytes" {
		_, ab = pat.Stmt("_b = make([]byte, _n + _k)").Find(info, allocNode, pat.Binds{"_n": b["_n"]})
		valuePat = pat.Stmt("return _b[:_n], nil")
	} else {
		_, ab = pat.Stmt("_b = make([]Resp, _n)").Find(info, allocNode, pat.Binds{"_n": b["_n"]})
		valuePat = pat.Stmt("return _b, nil")
	}
	if ab == nil {
		c.Undecidedf("R5.nil", name+"/fresh-buffer", allocNode.Pos(), "allocation %s not of the recognised form", c.Src(allocNode))
		return
	}
	nret := 0
	for _, p := range g.Points(func(m ast.Node) bool { _, ok := m.(*ast.ReturnStmt); return ok }) {
		ret := p.Node().(*ast.ReturnStmt)
		if flow.ErrReturn(info, fn.Decl.Body, ret) || g.Path(cfgq.Query{From: ap, After: true, Target: func(m ast.Node) bool { return m == ast.Node(ret) }, AvoidEdge: errEdge}) == nil {
			continue
		}
		nret++
		switch {
		case valuePat.Match(info, ret, ab) != nil:
			c.Okf("R5.nil", name+"/fresh-buffer", ret.Pos(), "n >= 0 returns the buffer made for it (never nil)")
		case len(ret.Results) > 0 && core.IsNil(info, ret.Results[0]):
			c.Failf("R5.nil", name+"/fresh-buffer", ret.Pos(), "after the allocation (n >= 0) the literal nil is returned without an error: an empty value decodes as nil")
		default:
			// `return nil, err` with err possibly nil and similar
			c.Undecidedf("R5.nil", name+"/fresh-buffer", ret.Pos(), "successful return %s after the allocation is not the recognised value", c.Src(ret))
		}
	}
	if nret == 0 {
		c.Undecidedf("R5.nil", name+"/fresh-buffer", allocNode.Pos(), "no successful return after the allocation")
	}
	if name == "decodeArray" {
		r.arrayLoop(fn, g, ab)
	}
}

// arrayLoop: every element slot is filled exactly once by a nested decode (R6 reader side).
func (r *rs) arrayLoop(fn *core.Fn, g *cfgq.Graph, ab pat.Binds) {
	c, info := r.c, r.info
	var loop ast.Stmt
	core.Inspect(fn.Decl.Body, func(m ast.Node) bool {
		switch s := m.(type) {
		case *ast.ForStmt:
			b := pat.Stmt("_i = 0").Match(info, s.Init, ab)
			if b != nil && s.Cond != nil && s.Post != nil && pat.Expr("_i < len(_b)").Match(info, s.Cond, b) != nil && pat.Stmt("_i++").Match(info, s.Post, b) != nil {
				if n, _ := pat.Stmt("_b[_i], _e = _d.decodeResp(_x)").Find(info, s.Body, b); n != nil {
					loop = s
				}
			}
		case *ast.RangeStmt:
			if pat.Same(info, s.X, ab["_b"]) && s.Key != nil {
				if n, _ := pat.Stmt("_b[_i], _e = _d.decodeResp(_x)").Find(info, s.Body, pat.Binds{"_b": ab["_b"], "_i": s.Key}); n != nil {
					loop = s
				}
			}
		}
		return true
	})
	if loop == nil {
		c.Undecidedf("R6.grammar", "decodeArray/elements", fn.Decl.Pos(), "cannot find the loop that decodes one element into each slot of the made array")
		return
	}
	c.Okf("R6.grammar", "decodeArray/elements", loop.Pos(), "each of the n slots is filled by one nested decode, in index order")
}

// ---------------------------------------------------------------------------
// R4 terminator checks

func (r *rs) r4() {
	c, info := r.c, r.info
	// bulk body
	if fn := r.method("Decoder", "decodeBulkBytes"); fn != nil {
		g := cfgq.Of(c.Program, fn)
		r.cur = fn.Decl.Body
		_, b := pat.Stmt("_n, _err = _d.decodeInt()").Find(info, fn.Decl.Body, nil)
		var mk ast.Node
		if b != nil {
			mk, b = pat.Stmt("_b = make([]byte, _n + _k)").Find(info, fn.Decl.Body, pat.Binds{"_n": b["_n"]})
		}
		if mk == nil {
			c.Undecidedf("R4.term", "decodeBulkBytes/buffer", fn.Decl.Pos(), "cannot find `b := make([]byte, n+k)`")
		} else {
			k, isC := core.IntConst(info, b["_k"].(ast.Expr))
			if !isC {
				c.Undecidedf("R4.term", "decodeBulkBytes/buffer", mk.Pos(), "buffer slack %s is not a constant", c.Src(b["_k"]))
			} else {
				c.Check("R4.term", "decodeBulkBytes/buffer", mk.Pos(), k == 2, fmt.Sprintf("the bulk buffer must hold the payload plus exactly the 2 terminator bytes (found n+%d): otherwise the CR LF are not consumed with the value, or bytes of the next value are swallowed", k))
			}
			bobj := flow.Obj(info, b["_b"])
			rf := flow.FindCalls(fn.Decl.Body, func(call *ast.CallExpr) bool {
				return core.IsFunc(core.CalleeFunc(info, call), "io", "", "ReadFull") && len(call.Args) == 2 && r.isField(call.Args[0], "Decoder", "r") && flow.IsObj(info, bobj)(call.Args[1])
			})
			if len(rf) != 1 || bobj == nil {
				c.Undecidedf("R4.term", "decodeBulkBytes/crlf", mk.Pos(), "cannot find io.ReadFull(d.r, b)")
			} else {
				// every successful return after the body was read sits behind both terminator tests
				rp, _ := flow.PointOf(g, rf[0])
				k := 0
				for _, p := range g.Points(func(m ast.Node) bool {
					ret, ok := m.(*ast.ReturnStmt)
					return ok && !flow.ErrReturn(info, fn.Decl.Body, ret)
				}) {
					ret := p.Node().(*ast.ReturnStmt)
					if g.Path(cfgq.Query{From: rp, After: true, AvoidEdge: flow.ErrEdge(g), Target: func(m ast.Node) bool { return m == ast.Node(ret) }}) == nil {
						continue
					}
					k++
					buf := flow.NewBuffer(info, fn.Decl.Body, bobj, mk.(*ast.AssignStmt).Rhs[0].(*ast.CallExpr).Args[1])
					opq := flow.Opaque(g, buf.Understood, bobj)
					for _, t := range []struct {
						off  int64
						ch   int64
						name string
					}{{-2, '\r', "cr"}, {-1, '\n', "lf"}} {
						r.guard("R4.term", "decodeBulkBytes/"+t.name, ret.Pos(), g, p, buf.Establishes(flow.Shift(buf.Length, t.off), t.ch), opq,
							fmt.Sprintf("after the body was read a value may be returned only when byte %d of the buffer (counted from its end) was found to be %q: a bulk not followed by CR LF is malformed and must yield an error", t.off, rune(t.ch)))
					}
					if len(ret.Results) == 2 && pat.Expr("_b[:_n]").Match(info, flow.Resolve(info, fn.Decl.Body, ret.Results[0]), b) != nil {
						c.Okf("R4.term", "decodeBulkBytes/payload", ret.Pos(), "the value is the buffer without its 2 terminator bytes (b[:n])")
					} else {
						c.Undecidedf("R4.term", "decodeBulkBytes/payload", ret.Pos(), "returned value %s is not the recognised b[:n]", c.Src(ret))
					}
				}
				if k == 0 {
					c.Undecidedf("R4.term", "decodeBulkBytes/crlf", rf[0].Pos(), "no successful return after the body was read")
				}
			}
		}
	}
	// text lines
	r.line("decodeText", true)
	r.line("decodeSingleLineBulkBytesArray", false)
	// integers
	if fn := r.method("Decoder", "decodeInt"); fn != nil {
		g := cfgq.Of(c.Program, fn)
		_, b := pat.Stmt("_b, _err = _d.decodeText()").Find(info, fn.Decl.Body, nil)
		var as ast.Node
		if b != nil {
			as, b = pat.Stmt("_v, _e = strconv.ParseInt(string(_b), _base, _bits)").Find(info, fn.Decl.Body, b)
		}
		if as == nil {
			c.Undecidedf("R4.term", "decodeInt/parse", fn.Decl.Pos(), "cannot find `v, e := strconv.ParseInt(string(b), base, bits)` over the text line")
		} else {
			base, ok1 := core.IntConst(info, b["_base"].(ast.Expr))
			bits, ok2 := core.IntConst(info, b["_bits"].(ast.Expr))
			if !ok1 || !ok2 {
				c.Undecidedf("R4.term", "decodeInt/parse", as.Pos(), "base/bit size are not constants")
			} else {
				c.Check("R4.term", "decodeInt/parse", as.Pos(), base == 10 && bits == 64, fmt.Sprintf("numeric fields are decimal 64-bit integers (found base %d, %d bits): otherwise valid integers are rejected or mis-read", base, bits))
			}
			eobj := flow.Obj(info, b["_e"])
			n := 0
			for _, p := range g.Points(func(m ast.Node) bool {
				ret, ok := m.(*ast.ReturnStmt)
				return ok && !flow.ErrReturn(info, fn.Decl.Body, ret) && core.Mentions(info, ret, flow.Obj(info, b["_v"]))
			}) {
				n++
				nilOf := func(f cfgq.Fact) (bool, bool) { return flow.NilCmp(info, f, flow.IsObj(info, eobj)) }
				r.guard("R4.term", "decodeInt/error-returned", p.Node().Pos(), g, p,
					func(f cfgq.Fact) bool { isNil, ok := nilOf(f); return ok && isNil },
					flow.Opaque(g, func(f cfgq.Fact) bool { _, ok := nilOf(f); return ok }, eobj),
					"the parsed number may be returned only when ParseInt reported no error: a non-numeric length or integer must yield an error")
			}
			if n == 0 {
				c.Undecidedf("R4.term", "decodeInt/error-returned", as.Pos(), "no return of the parsed value found")
			}
		}
	}
}

// line checks a function that reads one LF-terminated line from Decoder.r.
func (r *rs) line(name string, returnsPrefix bool) {
	c, info := r.c, r.info
	fn := r.method("Decoder", name)
	if fn == nil {
		return
	}
	g := cfgq.Of(c.Program, fn)
	r.cur = fn.Decl.Body
	as, b := pat.Stmt("_b, _err = _d.r.ReadBytes(_delim)").Find(info, fn.Decl.Body, nil)
	if as == nil {
		c.Undecidedf("R4.term", name+"/line", fn.Decl.Pos(), "cannot find `b, err := d.r.ReadBytes(delim)`")
		return
	}
	if d, ok := core.IntConst(info, b["_delim"].(ast.Expr)); !ok {
		c.Undecidedf("R4.term", name+"/delimiter", as.Pos(), "delimiter is not a constant")
	} else {
		c.Check("R4.term", name+"/delimiter", as.Pos(), d == '\n', fmt.Sprintf("a line ends at LF (found delimiter %q): any other delimiter leaves the terminator in the stream or swallows the next value", rune(d)))
	}
	bobj := flow.Obj(info, b["_b"])
	if bobj == nil {
		c.Undecidedf("R4.term", name+"/crlf", as.Pos(), "the line is not bound to a variable")
		return
	}
	buf := flow.NewBuffer(info, fn.Decl.Body, bobj, nil)
	opq := flow.Opaque(g, buf.Understood, bobj)
	ap, _ := flow.PointOf(g, as)
	k := 0
	for _, p := range g.Points(func(m ast.Node) bool {
		ret, ok := m.(*ast.ReturnStmt)
		return ok && !flow.ErrReturn(info, fn.Decl.Body, ret)
	}) {
		ret := p.Node()
		if g.Path(cfgq.Query{From: ap, After: true, AvoidEdge: flow.ErrEdge(g), Target: func(m ast.Node) bool { return m == ret }}) == nil {
			continue
		}
		k++
		r.guard("R4.term", name+"/min-length", ret.Pos(), g, p, buf.AtLeast(2), opq,
			"a value may be returned only when the line has at least 2 bytes: the 1-byte line \"\\n\" must yield an error, not an index panic")
		r.guard("R4.term", name+"/cr", ret.Pos(), g, p, buf.Establishes(flow.Shift(buf.Length, -2), '\r'), opq,
			"a value may be returned only when the byte before the LF is CR: a line without CR LF is malformed and must yield an error")
		if returnsPrefix {
			rs, _ := ret.(*ast.ReturnStmt)
			var val ast.Expr
			if rs != nil && len(rs.Results) == 2 {
				val = flow.Resolve(info, fn.Decl.Body, rs.Results[0])
				if o := flow.Obj(info, val); o != nil {
					if d := flow.ReachingDef(g, o, p); d != nil {
						val = d
					}
				}
			}
			// the value is b[:len(b)-2]
			okVal := false
			if se, isSlice := ast.Unparen(val).(*ast.SliceExpr); val != nil && isSlice && flow.IsObj(info, bobj)(se.X) && se.Max == nil && se.High != nil && (se.Low == nil || isConst(info, se.Low, 0)) {
				okVal = lin.Of(info, se.High).Equal(flow.Shift(buf.Length, -2))
			}
			if okVal {
				c.Okf("R4.term", name+"/payload", ret.Pos(), "the text value is the line without its 2 terminator bytes (b[:len(b)-2])")
			} else {
				c.Undecidedf("R4.term", name+"/payload", ret.Pos(), "returned value %s is not the recognised b[:len(b)-2]", c.Src(ret))
			}
		}
	}
	if k == 0 {
		c.Undecidedf("R4.term", name+"/crlf", as.Pos(), "no successful return after the line was read")
	}
}

// ---------------------------------------------------------------------------
// R5 encoder side: -1 iff nil

func (r *rs) r5enc(name string) {
	c, info := r.c, r.info
	fn, encodeInt := r.method("encoder", name), r.method("encoder", "encodeInt")
	if fn == nil || encodeInt == nil {
		return
	}
	g := cfgq.Of(c.Program, fn)
	v := param(info, fn, 0)
	isV := flow.IsObj(info, v)
	nilFact := func(want bool) func(cfgq.Fact) bool {
		return func(f cfgq.Fact) bool {
			isNil, ok := flow.NilCmp(info, f, isV)
			return ok && isNil == want
		}
	}
	// a test of len(v) is understood: it cannot tell nil from empty, so it never establishes either fact
	vlen := flow.NewBuffer(info, fn.Decl.Body, v, nil).Length
	opq := flow.Opaque(g, func(f cfgq.Fact) bool {
		_, ok := flow.NilCmp(info, f, isV)
		return ok || flow.LinAbout(info, f, vlen)
	}, v)
	minus, length := 0, 0
	for _, call := range flow.FindCalls(fn.Decl.Body, func(call *ast.CallExpr) bool {
		return core.CalleeFunc(info, call) == encodeInt.Obj && len(call.Args) == 1
	}) {
		p, ok := flow.PointOf(g, call)
		if !ok {
			continue
		}
		arg := call.Args[0]
		switch {
		case isConst(info, arg, -1):
			minus++
			r.guard("R5.nil", name+"/minus-one-iff-nil", call.Pos(), g, p, nilFact(true), opq, "length -1 may be written only when the value == nil: a non-nil empty value must be written with length 0 or it decodes as nil")
		case lenOf(info, fn.Decl.Body, arg) == v && v != nil:
			length++
			r.guard("R5.nil", name+"/length-iff-non-nil", call.Pos(), g, p, nilFact(false), opq, "len(value) may be written only when the value != nil: a nil value must be written as -1 or it decodes as empty")
		default:
			c.Undecidedf("R5.nil", name+"/length", call.Pos(), "length argument %s not recognised", c.Src(arg))
		}
	}
	if minus != 1 || length != 1 {
		c.Undecidedf("R5.nil", name+"/arms", fn.Decl.Pos(), "expected one encodeInt(-1) and one encodeInt(len(v)), found %d and %d", minus, length)
	}
}
