package c10

import (
	"go/ast"
	"go/token"
	"go/types"

	"rscheck/cfgq"
	"rscheck/core"
	"rscheck/lin"
	"rscheck/rules/c10/flow"
)

// Byte facts: what a branch condition says about the content of one buffer,
// independent of how it is spelled. Understood spellings of "byte at index I
// is C": `b[I] == C`, `bytes.Equal(b[I:], K)`, `string(b[I:J]) == "K"`,
// `bytes.HasSuffix(b, K)` / `strings.HasSuffix(string(b), "K")` (index counted
// from the buffer's length), each under either polarity, De Morgan and
// guard-clause forms (cfgq.Facts), through boolean locals and predicate
// helpers (flow.EdgeFacts). Indexes are linear forms (package lin), so `n`,
// `len(b)-2` and a local holding either are the same index.

type byteAt struct {
	idx lin.Form
	val int64
}

type buffer struct {
	r      *rs
	obj    types.Object
	length lin.Form // the buffer's length as a linear form (make size, or the atom len(b))
}

func (r *rs) bufferOf(body ast.Node, obj types.Object, size ast.Expr) *buffer {
	b := &buffer{r: r, obj: obj}
	if size != nil {
		b.length = lin.Of(r.info, size)
		return b
	}
	// the atom len(b): taken from the source so that it has the key lin gives to the source's own len(b)
	var lenCall ast.Expr
	core.InspectAll(body, func(m ast.Node) bool {
		if e, ok := m.(ast.Expr); ok && lenCall == nil && b.isLenCall(e) {
			lenCall = e
		}
		return lenCall == nil
	})
	if lenCall == nil {
		id := ast.NewIdent(obj.Name())
		r.info.Uses[id] = obj
		lenCall = &ast.CallExpr{Fun: ast.NewIdent("len"), Args: []ast.Expr{id}}
	}
	b.length = lin.Form{Coef: map[string]int64{lin.Key(r.info, lenCall): 1}}
	return b
}

// lenForm is the form of len(<this buffer>) as it appears in the source.
func (b *buffer) isLenCall(e ast.Expr) bool {
	call, ok := ast.Unparen(e).(*ast.CallExpr)
	return ok && flow.IsBuiltin(b.r.info, call, "len") && len(call.Args) == 1 && flow.IsObj(b.r.info, b.obj)(call.Args[0])
}

// constBytes: e denotes a constant byte string.
func (b *buffer) constBytes(e ast.Expr) ([]byte, bool) {
	info := b.r.info
	e = ast.Unparen(e)
	if s, ok := core.StringConst(info, e); ok {
		return []byte(s), true
	}
	switch x := e.(type) {
	case *ast.CallExpr: // []byte("..")
		if tv, ok := info.Types[x.Fun]; ok && tv.IsType() && len(x.Args) == 1 {
			return b.constBytes(x.Args[0])
		}
	case *ast.CompositeLit:
		var out []byte
		for _, el := range x.Elts {
			v, ok := core.IntConst(info, el)
			if !ok || v < 0 || v > 255 {
				return nil, false
			}
			out = append(out, byte(v))
		}
		if _, isSlice := info.TypeOf(x).Underlying().(*types.Slice); isSlice && len(out) > 0 {
			return out, true
		}
	case *ast.Ident:
		if d := flow.Resolve(info, b.r.cur, x); d != ast.Expr(x) {
			return b.constBytes(d)
		}
	}
	return nil, false
}

// window: e is the buffer or a slice of it (possibly converted to string);
// lo is the index of its first byte, whole tells that it extends to the end.
func (b *buffer) window(e ast.Expr) (lo lin.Form, whole, ok bool) {
	info := b.r.info
	e = ast.Unparen(e)
	if call, isCall := e.(*ast.CallExpr); isCall && len(call.Args) == 1 {
		if tv, has := info.Types[call.Fun]; has && tv.IsType() {
			return b.window(call.Args[0])
		}
	}
	if flow.IsObj(info, b.obj)(e) {
		return lin.Form{Coef: map[string]int64{}}, true, true
	}
	if se, isSlice := e.(*ast.SliceExpr); isSlice && flow.IsObj(info, b.obj)(se.X) && se.Max == nil {
		lo = lin.Form{Coef: map[string]int64{}}
		if se.Low != nil {
			lo = lin.Of(info, se.Low)
		}
		return lo, se.High == nil, true
	}
	return lin.Form{}, false, false
}

func shift(f lin.Form, k int64) lin.Form {
	c := map[string]int64{}
	for a, v := range f.Coef {
		c[a] = v
	}
	return lin.Form{Coef: c, Const: f.Const + k}
}

// facts interprets one branch fact. bytes are established byte values, minLen
// a lower bound on the buffer's length implied by the fact (-1: none);
// understood is false when the fact is not one of the interpreted spellings.
func (b *buffer) facts(f cfgq.Fact) (bytes []byteAt, minLen int64, understood bool) {
	info := b.r.info
	minLen = -1
	at := func(lo lin.Form, k []byte) {
		for i, c := range k {
			bytes = append(bytes, byteAt{shift(lo, int64(i)), int64(c)})
		}
	}
	equalPair := func(x, y ast.Expr, equal bool) bool {
		for _, p := range [][2]ast.Expr{{x, y}, {y, x}} {
			lo, _, okW := b.window(p[0])
			k, okK := b.constBytes(p[1])
			if okW && okK {
				if equal {
					at(lo, k)
				}
				return true
			}
		}
		return false
	}
	if x, y, op, ok := flow.Rel(f); ok && (op == token.EQL || op == token.NEQ) {
		// b[I] == C
		for _, p := range [][2]ast.Expr{{x, y}, {y, x}} {
			if ix, isIdx := ast.Unparen(p[0]).(*ast.IndexExpr); isIdx && flow.IsObj(info, b.obj)(ix.X) {
				if c, isC := core.IntConst(info, p[1]); isC {
					if op == token.EQL {
						bytes = append(bytes, byteAt{lin.Of(info, ix.Index), c})
					}
					return bytes, minLen, true
				}
			}
		}
		// string(b[I:]) == "K"
		if equalPair(x, y, op == token.EQL) {
			return bytes, minLen, true
		}
	}
	if call, ok := ast.Unparen(f.Expr).(*ast.CallExpr); ok && len(call.Args) == 2 {
		fn := core.CalleeFunc(info, call)
		if fn != nil && fn.Pkg() != nil && (fn.Pkg().Path() == "bytes" || fn.Pkg().Path() == "strings") {
			switch fn.Name() {
			case "Equal":
				if equalPair(call.Args[0], call.Args[1], f.Val) {
					return bytes, minLen, true
				}
			case "HasSuffix":
				lo, whole, okW := b.window(call.Args[0])
				k, okK := b.constBytes(call.Args[1])
				if okW && okK && whole {
					if f.Val {
						// the suffix starts at length - len(K); a slice b[lo:] ends where b ends
						_ = lo
						at(shift(b.length, -int64(len(k))), k)
						minLen = int64(len(k))
					}
					return bytes, minLen, true
				}
			}
		}
	}
	return nil, -1, false
}

// establishes: the fact says that the byte at idx is val.
func (b *buffer) establishes(idx lin.Form, val int64) func(cfgq.Fact) bool {
	return func(f cfgq.Fact) bool {
		bs, _, _ := b.facts(f)
		for _, x := range bs {
			if x.val == val && x.idx.Equal(idx) {
				return true
			}
		}
		return false
	}
}

// atLeast: the fact implies len(buffer) >= k.
func (b *buffer) atLeast(k int64) func(cfgq.Fact) bool {
	return func(f cfgq.Fact) bool {
		if _, m, _ := b.facts(f); m >= k {
			return true
		}
		lo, isLower, ok := flow.Bound(b.r.info, f, b.length)
		return ok && isLower && lo >= k
	}
}

// understood: the fact is an interpreted statement about the buffer's bytes or length.
func (b *buffer) understood(f cfgq.Fact) bool {
	if _, _, ok := b.facts(f); ok {
		return true
	}
	return flow.LinAbout(b.r.info, f, b.length)
}
