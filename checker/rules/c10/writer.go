// R6 (writer grammar) and R7 (integer table bias).
package c10

import (
	"fmt"
	"go/ast"
	"go/token"
	"go/types"
	"strings"

	"golang.org/x/tools/go/cfg"

	"rscheck/cfgq"
	"rscheck/core"
	"rscheck/lin"
	"rscheck/pat"
	"rscheck/rules/c10/flow"
)

// ---------------------------------------------------------------------------
// R6 writer grammar

func (r *rs) r6() {
	c, info := r.c, r.info
	isW := func(e ast.Expr) bool { return r.isField(e, "encoder", "w") }
	wcall := func(name string, arg func(ast.Expr) bool) func(*ast.CallExpr) bool {
		return func(call *ast.CallExpr) bool {
			return flow.MethodOn(call, name, isW) && len(call.Args) == 1 && arg(call.Args[0])
		}
	}
	// a terminator write: w.WriteString(K) or w.Write(K) with K a constant byte string
	termBytes := func(body ast.Node, call *ast.CallExpr) ([]byte, bool) {
		if !(flow.MethodOn(call, "WriteString", isW) || flow.MethodOn(call, "Write", isW)) || len(call.Args) != 1 {
			return nil, false
		}
		return flow.ConstBytes(info, body, call.Args[0])
	}
	// checks the constant terminator emitted by fn and returns the step locating it
	crlf := func(fn *core.Fn, g *cfgq.Graph) flow.Step {
		isTerm := func(call *ast.CallExpr) bool { _, ok := termBytes(fn.Decl.Body, call); return ok }
		for _, call := range flow.FindCalls(fn.Decl.Body, isTerm) {
			s, _ := termBytes(fn.Decl.Body, call)
			c.Check("R6.grammar", fn.Decl.Name.Name+"/terminator", call.Pos(), string(s) == "\r\n", fmt.Sprintf("the terminator written is %q, RESP requires CR LF: the decoder rejects (or mis-frames) what the encoder produced", s))
		}
		return flow.Step{Name: "write CRLF", Is: flow.CallOn(g, isTerm)}
	}
	seq := func(fn *core.Fn, g *cfgq.Graph, wcalls int, steps ...flow.Step) {
		name := fn.Decl.Name.Name
		if n := len(flow.FindCalls(fn.Decl.Body, func(call *ast.CallExpr) bool {
			sel, ok := ast.Unparen(call.Fun).(*ast.SelectorExpr)
			return ok && isW(sel.X)
		})); n != wcalls {
			c.Undecidedf("R6.grammar", name+"/sequence", fn.Decl.Pos(), "%d writes on the buffered writer, %d expected", n, wcalls)
			return
		}
		// a path on which the value was found to be nil has nothing more to write
		var cut func(*cfg.Block, int) bool
		if v := param(info, fn, 0); v != nil {
			cut = flow.Establishes(g, func(f cfgq.Fact) bool { isNil, ok := flow.NilCmp(info, f, flow.IsObj(info, v)); return ok && isNil })
		}
		problem, w, und := flow.SequenceCut(g, steps, cut)
		if und {
			c.Undecidedf("R6.grammar", name+"/sequence", fn.Decl.Pos(), "%s", problem)
			return
		}
		var names []string
		for _, s := range steps {
			names = append(names, s.Name)
		}
		c.Check("R6.grammar", name+"/sequence", fn.Decl.Pos(), problem == "", fmt.Sprintf("%s must emit %s in this order on every successful path (%s): the decoder expects exactly this framing", name, strings.Join(names, ", "), problem), w...)
	}
	if fn := r.method("encoder", "encodeType"); fn != nil {
		t := param(info, fn, 0)
		calls := flow.FindCalls(fn.Decl.Body, wcall("WriteByte", func(e ast.Expr) bool { return flow.IsObj(info, t)(unconv(info, e)) }))
		if len(calls) == 1 {
			c.Okf("R6.grammar", "encodeType/sequence", fn.Decl.Pos(), "writes the tag byte it is given")
		} else {
			c.Undecidedf("R6.grammar", "encodeType/sequence", fn.Decl.Pos(), "cannot find w.WriteByte(byte(t))")
		}
	}
	for _, tc := range []struct{ name, method string }{{"encodeText", "Write"}, {"encodeString", "WriteString"}} {
		if fn := r.method("encoder", tc.name); fn != nil {
			g := cfgq.Of(c.Program, fn)
			p := param(info, fn, 0)
			seq(fn, g, 2, flow.Step{Name: "write payload", Is: flow.CallOn(g, wcall(tc.method, flow.IsObj(info, p)))}, crlf(fn, g))
		}
	}
	encodeString, itos := r.method("encoder", "encodeString"), r.inl.Fn(c.Func(pkg, "", "itos"))
	if fn := r.method("encoder", "encodeInt"); fn != nil && encodeString != nil && itos != nil {
		n, _ := pat.Expr("_e.encodeString(itos(_v))").Find(info, fn.Decl.Body, pat.Binds{"_v": fn.Decl.Type.Params.List[0].Names[0]})
		if n != nil {
			c.Okf("R6.grammar", "encodeInt/sequence", fn.Decl.Pos(), "an integer is its decimal rendering followed by CRLF")
		} else {
			c.Undecidedf("R6.grammar", "encodeInt/sequence", fn.Decl.Pos(), "cannot find e.encodeString(itos(v))")
		}
	}
	encodeInt, encodeResp := r.method("encoder", "encodeInt"), r.method("encoder", "encodeResp")
	if encodeInt == nil || encodeResp == nil {
		return
	}
	lenStep := func(g *cfgq.Graph, v types.Object) flow.Step {
		return flow.Step{Name: "write len(value) line", Is: flow.CallOn(g, func(call *ast.CallExpr) bool {
			// the length line of the non-nil value: an encodeInt call whose argument is not the constant -1
			// (that it is len(value) exactly when the value is non-nil is R5's business)
			_ = v
			return core.CalleeFunc(info, call) == encodeInt.Obj && len(call.Args) == 1 && !isConst(info, call.Args[0], -1)
		})}
	}
	if fn := r.flatMethod("encoder", "encodeBulkBytes"); fn != nil {
		g := cfgq.Of(c.Program, fn)
		p := param(info, fn, 0)
		seq(fn, g, 2, lenStep(g, p), flow.Step{Name: "write payload", Is: flow.CallOn(g, wcall("Write", flow.IsObj(info, p)))}, crlf(fn, g))
	}
	if fn := r.method("encoder", "encodeArray"); fn != nil {
		g := cfgq.Of(c.Program, fn)
		p := param(info, fn, 0)
		ab := pat.Binds{"_a": fn.Decl.Type.Params.List[0].Names[0]}
		var elem *ast.CallExpr
		core.Inspect(fn.Decl.Body, func(m ast.Node) bool {
			switch s := m.(type) {
			case *ast.ForStmt:
				if idx := flow.CountingLoop(info, s, flow.LenForm(info, p)); idx != nil {
					iid := ast.NewIdent(idx.Name())
					info.Uses[iid] = idx
					if n, _ := pat.Expr("_e.encodeResp(_a[_i])").Find(info, s.Body, pat.Binds{"_a": ab["_a"], "_i": iid}); n != nil {
						elem = n.(*ast.CallExpr)
					}
				}
			case *ast.RangeStmt:
				if pat.Same(info, s.X, ab["_a"]) && s.Value != nil {
					if n, _ := pat.Expr("_e.encodeResp(_x)").Find(info, s.Body, pat.Binds{"_x": s.Value}); n != nil {
						elem = n.(*ast.CallExpr)
					}
				}
			}
			return true
		})
		nresp := len(flow.FindCalls(fn.Decl.Body, func(call *ast.CallExpr) bool { return core.CalleeFunc(info, call) == encodeResp.Obj }))
		if elem == nil || nresp != 1 {
			c.Undecidedf("R6.grammar", "encodeArray/sequence", fn.Decl.Pos(), "cannot find the loop that encodes every element of the array once, in index order")
		} else {
			// the loop may run zero times, so only the order is required: count line first
			ls := lenStep(g, p)
			ep, _ := flow.PointOf(g, elem)
			ok, w := g.Dominated(ep, ls.Is)
			if len(g.Points(ls.Is)) != 1 {
				c.Undecidedf("R6.grammar", "encodeArray/sequence", fn.Decl.Pos(), "cannot find the single encodeInt(len(a)) call")
			} else {
				c.Check("R6.grammar", "encodeArray/sequence", fn.Decl.Pos(), ok, "the element count line must be written before the first element: the decoder reads the count first", w...)
			}
		}
	}
}

// ---------------------------------------------------------------------------
// R7 integer table bias

func (r *rs) r7() {
	c, info := r.c, r.info
	fn := r.inl.Fn(c.Func(pkg, "", "itos"))
	if fn == nil {
		return
	}
	g := cfgq.Of(c.Program, fn)
	i := param(info, fn, 0)
	// the lookup: `return table[IDX]` on a package-level table, IDX = i + bias as a linear form
	var ret *ast.ReturnStmt
	var ix *ast.IndexExpr
	var tab types.Object
	core.Inspect(fn.Decl.Body, func(m ast.Node) bool {
		if rs, ok := m.(*ast.ReturnStmt); ok && len(rs.Results) == 1 && ret == nil {
			if x, ok := ast.Unparen(rs.Results[0]).(*ast.IndexExpr); ok {
				if v, isVar := flow.Obj(info, x.X).(*types.Var); isVar && v.Pkg() != nil && v.Parent() == v.Pkg().Scope() {
					ret, ix, tab = rs, x, v
				}
			}
		}
		return true
	})
	if ret == nil || i == nil {
		c.Undecidedf("R7.bias", "itos/lookup", fn.Decl.Pos(), "cannot find `return table[index]` on a package-level table")
		return
	}
	iid := ast.NewIdent(i.Name())
	info.Uses[iid] = i
	iform := lin.Of(info, iid)
	idx := lin.Of(info, ix.Index)
	if !(lin.Form{Coef: idx.Coef}).Equal(lin.Form{Coef: iform.Coef}) {
		c.Undecidedf("R7.bias", "itos/lookup", ix.Pos(), "the table index %s is not the argument plus a constant", c.Src(ix.Index))
		return
	}
	k2 := idx.Const // table slot of v is v + k2
	// the table's length: the atom len(table), and its constant size when the table is made once with one
	lenKey, size := "", int64(-1)
	core.InspectAll(fn.Decl.Body, func(m ast.Node) bool {
		if call, ok := m.(*ast.CallExpr); ok && flow.IsBuiltin(info, call, "len") && len(call.Args) == 1 && flow.IsObj(info, tab)(call.Args[0]) {
			lenKey = lin.Key(info, call)
		}
		return true
	})
	makes := 0
	for _, fd := range r.decls() {
		core.InspectAll(fd.Body, func(m ast.Node) bool {
			as, ok := m.(*ast.AssignStmt)
			if !ok || len(as.Lhs) != len(as.Rhs) {
				return true
			}
			for j, l := range as.Lhs {
				if flow.IsObj(info, tab)(l) {
					makes++
					if mk, isCall := ast.Unparen(as.Rhs[j]).(*ast.CallExpr); isCall && flow.IsBuiltin(info, mk, "make") && len(mk.Args) >= 2 {
						if v, isC := core.IntConst(info, mk.Args[1]); isC {
							size = v
						}
					}
				}
			}
			return true
		})
	}
	if makes != 1 {
		size = -1
	}
	rp, _ := flow.PointOf(g, ret)
	about := func(f cfgq.Fact) bool { // a comparison over the argument and len(table) only
		cmp, ok := lin.CmpOf(info, f.Expr, f.Val)
		if !ok || len(cmp.F.Coef) == 0 {
			return false
		}
		for a := range cmp.F.Coef {
			if _, isI := iform.Coef[a]; !isI && a != lenKey {
				return false
			}
		}
		return true
	}
	// lin looks through integer conversions; a guard that narrows or re-interprets the sign of what it
	// tests is not the comparison lin sees. Such a fact is not understood - except the unsigned range
	// idiom `uintN(idx) < uintN(len)` with N at least the width of idx, which says 0 <= idx < len at once.
	sizes := types.StdSizes{WordSize: 8, MaxAlign: 8}
	convs := func(e ast.Expr) (wideUnsigned []ast.Expr, unsafe bool) {
		core.Inspect(e, func(m ast.Node) bool {
			call, ok := m.(*ast.CallExpr)
			if !ok || len(call.Args) != 1 {
				return true
			}
			tv, isConv := info.Types[call.Fun]
			if !isConv || !tv.IsType() {
				return true
			}
			to, ok1 := tv.Type.Underlying().(*types.Basic)
			from, ok2 := info.TypeOf(call.Args[0]).Underlying().(*types.Basic)
			if !ok1 || !ok2 || to.Info()&types.IsInteger == 0 || from.Info()&types.IsInteger == 0 || from.Info()&types.IsUntyped != 0 {
				return true
			}
			if cv, isC := info.Types[call.Args[0]]; isC && cv.Value != nil {
				return true
			}
			st, sf := sizes.Sizeof(to), sizes.Sizeof(from)
			toU, fromU := to.Info()&types.IsUnsigned != 0, from.Info()&types.IsUnsigned != 0
			switch {
			case st < sf:
				unsafe = true
			case toU && !fromU:
				wideUnsigned = append(wideUnsigned, call.Args[0])
			case !toU && fromU && st == sf:
				unsafe = true
			}
			return true
		})
		return
	}
	// unsignedRange: f says uintN(E) < (or <=) something non-negative with E == the table index
	unsignedRange := func(f cfgq.Fact) bool {
		x, y, op, ok := flow.Rel(f)
		if !ok {
			return false
		}
		if op == token.GTR || op == token.GEQ {
			x, y = y, x
		} else if op != token.LSS && op != token.LEQ {
			return false
		}
		wide, unsafe := convs(x)
		xc, isCall := ast.Unparen(flow.ValueOf(info, fn.Decl.Body, ast.Unparen(x))).(*ast.CallExpr)
		if isCall {
			wide, unsafe = convs(xc)
		}
		if unsafe || len(wide) != 1 || !isCall || len(xc.Args) != 1 || xc.Args[0] != wide[0] {
			return false
		}
		_, yUnsafe := convs(y)
		return !yUnsafe && lin.Of(info, wide[0]).Equal(idx)
	}
	if _, narrowed := convs(flow.ValueOf(info, fn.Decl.Body, ast.Unparen(ix.Index))); narrowed {
		c.Undecidedf("R7.bias", "itos/lookup", ix.Pos(), "the table index %s narrows (or re-signs) the argument: it is not the linear index the guards are compared with", c.Src(ix.Index))
		return
	}
	plain := func(f cfgq.Fact) bool { w, u := convs(f.Expr); return len(w) == 0 && !u }
	aboutPlain := func(f cfgq.Fact) bool { return about(f) && (plain(f) || unsignedRange(f)) }
	opq := flow.Opaque(g, aboutPlain, i)
	r.guard("R7.bias", "itos/lower-guard", ret.Pos(), g, rp, func(f cfgq.Fact) bool {
		if unsignedRange(f) {
			return true
		}
		lo, isLower, ok := flow.Bound(info, f, iform)
		return ok && plain(f) && isLower && lo+k2 >= 0
	}, opq, "the table lookup must be guarded by index >= 0: integers below the table's range would index out of range")
	r.guard("R7.bias", "itos/upper-guard", ret.Pos(), g, rp, func(f cfgq.Fact) bool {
		if !plain(f) && !unsignedRange(f) {
			return false
		}
		if hi, isLower, ok := flow.Bound(info, f, iform); ok && !isLower && size >= 0 && hi+k2 < size {
			return true
		}
		if lenKey == "" {
			return false
		}
		w := lin.Form{Coef: map[string]int64{lenKey: -1}, Const: idx.Const}
		for a, v := range idx.Coef {
			w.Coef[a] += v
		}
		return flow.LinIs(info, f, w, token.LSS, 0)
	}, opq, "the table lookup must be guarded by index < len(table): integers above the table's range would index out of range")
	// fallback
	var fb *ast.CallExpr
	core.Inspect(fn.Decl.Body, func(m ast.Node) bool {
		if rs, ok := m.(*ast.ReturnStmt); ok && len(rs.Results) == 1 {
			if call, ok := ast.Unparen(rs.Results[0]).(*ast.CallExpr); ok && core.IsFunc(core.CalleeFunc(info, call), "strconv", "", "FormatInt") && len(call.Args) == 2 && flow.IsObj(info, i)(unconv(info, call.Args[0])) {
				fb = call
			}
		}
		return true
	})
	if fb == nil {
		c.Undecidedf("R7.bias", "itos/fallback", fn.Decl.Pos(), "cannot find `return strconv.FormatInt(i, 10)`")
	} else {
		c.Check("R7.bias", "itos/fallback", fb.Pos(), isConst(info, fb.Args[1], 10), "integers outside the table are rendered in base 10")
	}
	// the fill site: table[j] = decimal rendering of j + c1, for every j
	fills := 0
	for _, fd := range r.decls() {
		fdBody := fd.Body
		core.Inspect(fdBody, func(m ast.Node) bool {
			as, ok := m.(*ast.AssignStmt)
			if !ok || len(as.Lhs) != 1 || len(as.Rhs) != 1 {
				return true
			}
			lx, ok := ast.Unparen(as.Lhs[0]).(*ast.IndexExpr)
			if !ok || !flow.IsObj(info, tab)(lx.X) {
				return true
			}
			fills++
			call, _ := ast.Unparen(as.Rhs[0]).(*ast.CallExpr)
			var rendered ast.Expr
			if f := core.CalleeFunc(info, call); call != nil && core.IsFunc(f, "strconv", "", "Itoa") && len(call.Args) == 1 {
				rendered = call.Args[0]
			} else if call != nil && core.IsFunc(f, "strconv", "", "FormatInt") && len(call.Args) == 2 && isConst(info, call.Args[1], 10) {
				rendered = call.Args[0]
			}
			if rendered == nil {
				c.Undecidedf("R7.bias", "fill/bias", as.Pos(), "table slot assignment %s is not `table[slot] = decimal(value)`", c.Src(as))
				return true
			}
			// slot and value as linear forms over the same loop variable: value = slot + c1
			jform := lin.Of(info, lx.Index)
			val := lin.Of(info, rendered)
			if !(lin.Form{Coef: val.Coef}).Equal(lin.Form{Coef: jform.Coef}) || len(jform.Coef) != 1 {
				c.Undecidedf("R7.bias", "fill/bias", as.Pos(), "the value rendered into the slot (%s) is not the slot index plus a constant", c.Src(rendered))
				return true
			}
			c1 := val.Const - jform.Const
			c.Check("R7.bias", "fill/bias", as.Pos(), k2+c1 == 0, fmt.Sprintf("slot j holds the rendering of j%+d but itos looks v up at slot v%+d: every table hit renders v%+d instead of v", c1, k2, k2+c1))
			// every slot is filled: the loop variable runs so that the slot index covers 0 .. len(table)-1
			full := false
			var loopVar types.Object
			core.Inspect(lx.Index, func(x ast.Node) bool {
				if id, ok := x.(*ast.Ident); ok {
					if _, isVar := core.ObjOf(info, id).(*types.Var); isVar {
						loopVar = core.ObjOf(info, id)
					}
				}
				return true
			})
			for _, n := range core.PathTo(fdBody, as) {
				switch l := n.(type) {
				case *ast.RangeStmt:
					full = full || flow.IsObj(info, tab)(l.X) && l.Key != nil && flow.IsObj(info, loopVar)(l.Key) && jform.Const == 0
				case *ast.ForStmt:
					// for v := A; v < B; v++ with slot = v + off: slots A+off .. B+off-1 must be 0 .. size-1
					ini, ok1 := l.Init.(*ast.AssignStmt)
					inc, ok2 := l.Post.(*ast.IncDecStmt)
					if !ok1 || !ok2 || l.Cond == nil || len(ini.Lhs) != 1 || len(ini.Rhs) != 1 || inc.Tok != token.INC || !flow.IsObj(info, loopVar)(ini.Lhs[0]) || !flow.IsObj(info, loopVar)(inc.X) {
						continue
					}
					start, okS := core.IntConst(info, ini.Rhs[0])
					if !okS || start+jform.Const != 0 {
						continue
					}
					vid := ast.NewIdent(loopVar.Name())
					info.Uses[vid] = loopVar
					vform := lin.Of(info, vid)
					for _, fct := range cfgq.Facts(l.Cond, true) {
						if hi, isLower, ok := flow.Bound(info, fct, vform); ok && !isLower && size >= 0 && hi+jform.Const == size-1 {
							full = true
						}
						if lenKey != "" || true {
							// v + off < len(table)
							w := lin.Form{Coef: map[string]int64{}, Const: jform.Const}
							for a, v := range jform.Coef {
								w.Coef[a] += v
							}
							lf := flow.LenForm(info, tab)
							for a, v := range lf.Coef {
								w.Coef[a] -= v
							}
							if flow.LinIs(info, fct, w, token.LSS, 0) {
								full = true
							}
						}
					}
				}
			}
			if full {
				c.Okf("R7.bias", "fill/complete", as.Pos(), "every slot of the table is filled")
			} else {
				c.Undecidedf("R7.bias", "fill/complete", as.Pos(), "fill loop bounds not recognised")
			}
			return true
		})
	}
	if fills != 1 {
		c.Undecidedf("R7.bias", "fill/site", fn.Decl.Pos(), "expected exactly one assignment filling the table, found %d", fills)
	}
}
