// R6 (writer grammar) and R7 (integer table bias).
package c10

import (
	"fmt"
	"go/ast"
	"go/token"
	"go/types"
	"strings"

	"rscheck/cfgq"
	"rscheck/core"
	"rscheck/pat"
	"rscheck/rules/c10/flow"
)

// ---------------------------------------------------------------------------
// R6 writer grammar

func (r *rs) r6() {
	c, info := r.c, r.info
	isW := func(e ast.Expr) bool { return r.isField(e, "encoder", "w") }
	wcall := func(name string, arg func(ast.Expr) bool) func(*ast.CallExpr) bool {
		return func(call *ast.CallExpr) bool {
			return flow.MethodOn(call, name, isW) && len(call.Args) == 1 && arg(call.Args[0])
		}
	}
	isStrConst := func(e ast.Expr) bool { _, ok := core.StringConst(info, e); return ok }
	// checks the constant terminator emitted by fn and returns the step locating it
	crlf := func(fn *core.Fn, g *cfgq.Graph) flow.Step {
		for _, call := range flow.FindCalls(fn.Decl.Body, wcall("WriteString", isStrConst)) {
			s, _ := core.StringConst(info, call.Args[0])
			c.Check("R6.grammar", fn.Decl.Name.Name+"/terminator", call.Pos(), s == "\r\n", fmt.Sprintf("the terminator written is %q, RESP requires CR LF: the decoder rejects (or mis-frames) what the encoder produced", s))
		}
		return flow.Step{Name: "write CRLF", Is: flow.CallOn(g, wcall("WriteString", isStrConst))}
	}
	seq := func(fn *core.Fn, g *cfgq.Graph, wcalls int, steps ...flow.Step) {
		name := fn.Decl.Name.Name
		if n := len(flow.FindCalls(fn.Decl.Body, func(call *ast.CallExpr) bool {
			sel, ok := ast.Unparen(call.Fun).(*ast.SelectorExpr)
			return ok && isW(sel.X)
		})); n != wcalls {
			c.Undecidedf("R6.grammar", name+"/sequence", fn.Decl.Pos(), "%d writes on the buffered writer, %d expected", n, wcalls)
			return
		}
		problem, w, und := flow.Sequence(g, steps)
		if und {
			c.Undecidedf("R6.grammar", name+"/sequence", fn.Decl.Pos(), "%s", problem)
			return
		}
		var names []string
		for _, s := range steps {
			names = append(names, s.Name)
		}
		c.Check("R6.grammar", name+"/sequence", fn.Decl.Pos(), problem == "", fmt.Sprintf("%s must emit %s in this order on every successful path (%s): the decoder expects exactly this framing", name, strings.Join(names, ", "), problem), w...)
	}
	if fn := r.method("encoder", "encodeType"); fn != nil {
		t := param(info, fn, 0)
		calls := flow.FindCalls(fn.Decl.Body, wcall("WriteByte", func(e ast.Expr) bool { return flow.IsObj(info, t)(unconv(info, e)) }))
		if len(calls) == 1 {
			c.Okf("R6.grammar", "encodeType/sequence", fn.Decl.Pos(), "writes the tag byte it is given")
		} else {
			c.Undecidedf("R6.grammar", "encodeType/sequence", fn.Decl.Pos(), "cannot find w.WriteByte(byte(t))")
		}
	}
	for _, tc := range []struct{ name, method string }{{"encodeText", "Write"}, {"encodeString", "WriteString"}} {
		if fn := r.method("encoder", tc.name); fn != nil {
			g := cfgq.Of(c.Program, fn)
			p := param(info, fn, 0)
			seq(fn, g, 2, flow.Step{Name: "write payload", Is: flow.CallOn(g, wcall(tc.method, flow.IsObj(info, p)))}, crlf(fn, g))
		}
	}
	encodeString, itos := r.method("encoder", "encodeString"), r.inl.Fn(c.Func(pkg, "", "itos"))
	if fn := r.method("encoder", "encodeInt"); fn != nil && encodeString != nil && itos != nil {
		n, _ := pat.Expr("_e.encodeString(itos(_v))").Find(info, fn.Decl.Body, pat.Binds{"_v": fn.Decl.Type.Params.List[0].Names[0]})
		if n != nil {
			c.Okf("R6.grammar", "encodeInt/sequence", fn.Decl.Pos(), "an integer is its decimal rendering followed by CRLF")
		} else {
			c.Undecidedf("R6.grammar", "encodeInt/sequence", fn.Decl.Pos(), "cannot find e.encodeString(itos(v))")
		}
	}
	encodeInt, encodeResp := r.method("encoder", "encodeInt"), r.method("encoder", "encodeResp")
	if encodeInt == nil || encodeResp == nil {
		return
	}
	lenStep := func(g *cfgq.Graph, v types.Object) flow.Step {
		return flow.Step{Name: "write len(value) line", Is: flow.CallOn(g, func(call *ast.CallExpr) bool {
			return core.CalleeFunc(info, call) == encodeInt.Obj && len(call.Args) == 1 && lenOf(info, g.Body, call.Args[0]) == v
		})}
	}
	if fn := r.flatMethod("encoder", "encodeBulkBytes"); fn != nil {
		g := cfgq.Of(c.Program, fn)
		p := param(info, fn, 0)
		seq(fn, g, 2, lenStep(g, p), flow.Step{Name: "write payload", Is: flow.CallOn(g, wcall("Write", flow.IsObj(info, p)))}, crlf(fn, g))
	}
	if fn := r.method("encoder", "encodeArray"); fn != nil {
		g := cfgq.Of(c.Program, fn)
		p := param(info, fn, 0)
		ab := pat.Binds{"_a": fn.Decl.Type.Params.List[0].Names[0]}
		var elem *ast.CallExpr
		core.Inspect(fn.Decl.Body, func(m ast.Node) bool {
			switch s := m.(type) {
			case *ast.ForStmt:
				b := pat.Stmt("_i = 0").Match(info, s.Init, ab)
				if b != nil && s.Cond != nil && s.Post != nil && pat.Expr("_i < len(_a)").Match(info, s.Cond, b) != nil && pat.Stmt("_i++").Match(info, s.Post, b) != nil {
					if n, _ := pat.Expr("_e.encodeResp(_a[_i])").Find(info, s.Body, b); n != nil {
						elem = n.(*ast.CallExpr)
					}
				}
			case *ast.RangeStmt:
				if pat.Same(info, s.X, ab["_a"]) && s.Value != nil {
					if n, _ := pat.Expr("_e.encodeResp(_x)").Find(info, s.Body, pat.Binds{"_x": s.Value}); n != nil {
						elem = n.(*ast.CallExpr)
					}
				}
			}
			return true
		})
		nresp := len(flow.FindCalls(fn.Decl.Body, func(call *ast.CallExpr) bool { return core.CalleeFunc(info, call) == encodeResp.Obj }))
		if elem == nil || nresp != 1 {
			c.Undecidedf("R6.grammar", "encodeArray/sequence", fn.Decl.Pos(), "cannot find the loop that encodes every element of the array once, in index order")
		} else {
			// the loop may run zero times, so only the order is required: count line first
			ls := lenStep(g, p)
			ep, _ := flow.PointOf(g, elem)
			ok, w := g.Dominated(ep, ls.Is)
			if len(g.Points(ls.Is)) != 1 {
				c.Undecidedf("R6.grammar", "encodeArray/sequence", fn.Decl.Pos(), "cannot find the single encodeInt(len(a)) call")
			} else {
				c.Check("R6.grammar", "encodeArray/sequence", fn.Decl.Pos(), ok, "the element count line must be written before the first element: the decoder reads the count first", w...)
			}
		}
	}
}

// ---------------------------------------------------------------------------
// R7 integer table bias

func (r *rs) r7() {
	c, info := r.c, r.info
	fn := r.inl.Fn(c.Func(pkg, "", "itos"))
	if fn == nil {
		return
	}
	g := cfgq.Of(c.Program, fn)
	i := param(info, fn, 0)
	ib := pat.Binds{"_i": fn.Decl.Type.Params.List[0].Names[0]}
	ret, b := pat.Stmt("return _tab[_n]").Find(info, fn.Decl.Body, ib)
	var def ast.Node
	if ret != nil {
		def, b = pat.Stmt("_n = _i + _k").Find(info, fn.Decl.Body, b)
	}
	if def == nil || i == nil {
		c.Undecidedf("R7.bias", "itos/lookup", fn.Decl.Pos(), "cannot find `n := i + k ... return table[n]`")
		return
	}
	tab := flow.Obj(info, b["_tab"])
	k2, okk := core.IntConst(info, b["_k"].(ast.Expr))
	nobj := flow.Obj(info, b["_n"])
	if tab == nil || !okk || nobj == nil || flow.Assignments(info, fn.Decl.Body, nobj) != 1 {
		c.Undecidedf("R7.bias", "itos/lookup", def.Pos(), "table, bias or index variable not recognised")
		return
	}
	rp, _ := flow.PointOf(g, ret)
	ok1, w1 := flow.OnlyVia(g, rp, func(f cfgq.Fact) bool { return flow.CmpIs(info, f, flow.IsObj(info, nobj), token.GEQ, 0) })
	c.Check("R7.bias", "itos/lower-guard", ret.Pos(), ok1, "the table lookup must be guarded by n >= 0: integers below the table's range would index out of range", w1...)
	ok2, w2 := flow.OnlyVia(g, rp, func(f cfgq.Fact) bool {
		x, y, op, ok := flow.Rel(f)
		if !ok {
			return false
		}
		if op == token.GTR {
			x, y, op = y, x, token.LSS
		}
		return op == token.LSS && flow.IsObj(info, nobj)(x) && lenOf(info, fn.Decl.Body, y) == tab
	})
	c.Check("R7.bias", "itos/upper-guard", ret.Pos(), ok2, "the table lookup must be guarded by n < len(table): integers above the table's range would index out of range", w2...)
	// fallback
	fb, _ := pat.Stmt("return strconv.FormatInt(_i, _base)").Find(info, fn.Decl.Body, ib)
	if fb == nil {
		c.Undecidedf("R7.bias", "itos/fallback", fn.Decl.Pos(), "cannot find `return strconv.FormatInt(i, 10)`")
	} else {
		c.Check("R7.bias", "itos/fallback", fb.Pos(), isConst(info, fb.(*ast.ReturnStmt).Results[0].(*ast.CallExpr).Args[1], 10), "integers outside the table are rendered in base 10")
	}
	// the fill site
	fills := 0
	for _, fd := range r.decls() {
		core.Inspect(fd.Body, func(m ast.Node) bool {
			fs, ok := m.(*ast.ForStmt)
			if !ok || fs.Init == nil || fs.Cond == nil || fs.Post == nil {
				return true
			}
			jb := pat.Stmt("_j = 0").Match(info, fs.Init, nil)
			if jb == nil {
				return true
			}
			var fill ast.Node
			var fb pat.Binds
			for _, p := range []string{"_t[_j] = strconv.Itoa(_j - _k)", "_t[_j] = strconv.FormatInt(int64(_j - _k), 10)", "_t[_j] = strconv.FormatInt(int64(_j) - _k, 10)"} {
				if fill == nil {
					fill, fb = pat.Stmt(p).Find(info, fs.Body, jb)
				}
			}
			if fill == nil || flow.Obj(info, fb["_t"]) != tab {
				return true
			}
			fills++
			k1, isC := core.IntConst(info, fb["_k"].(ast.Expr))
			if !isC {
				c.Undecidedf("R7.bias", "fill/bias", fill.Pos(), "fill bias is not a constant")
				return true
			}
			c.Check("R7.bias", "fill/bias", fill.Pos(), k1 == k2, fmt.Sprintf("slot j holds the rendering of j-%d but itos looks v up at v+%d: every table hit renders v%+d instead of v", k1, k2, k2-k1))
			full := pat.Expr("_j < len(_t)").Match(info, fs.Cond, fb) != nil && pat.Stmt("_j++").Match(info, fs.Post, fb) != nil
			if full {
				c.Okf("R7.bias", "fill/complete", fs.Pos(), "every slot of the table is filled")
			} else {
				c.Undecidedf("R7.bias", "fill/complete", fs.Pos(), "fill loop bounds not recognised")
			}
			return true
		})
	}
	if fills != 1 {
		c.Undecidedf("R7.bias", "fill/site", fn.Decl.Pos(), "expected exactly one loop filling the table, found %d", fills)
	}
}
