// R6 (writer grammar) and R7 (integer table bias).
package c10

import (
	"fmt"
	"go/ast"
	"go/token"
	"go/types"
	"sort"
	"strings"

	"rscheck/cfgq"
	"rscheck/core"
	"rscheck/lin"
	"rscheck/pat"
	"rscheck/rules/c10/flow"
)

// ---------------------------------------------------------------------------
// R6 writer grammar

func (r *rs) r6() {
	c, info := r.c, r.info
	isW := func(e ast.Expr) bool { return r.isField(e, "encoder", "w") }
	wcall := func(name string, arg func(ast.Expr) bool) func(*ast.CallExpr) bool {
		return func(call *ast.CallExpr) bool {
			return flow.MethodOn(call, name, isW) && len(call.Args) == 1 && arg(call.Args[0])
		}
	}
	// What a function writes is read off every path as a sequence of emissions, however the writes are
	// spelled: P = the value handed in (w.Write(p) / w.WriteString(p)), K<bytes> = constant bytes
	// (w.Write/WriteString of a constant, w.WriteByte of a constant; adjacent constants are one run),
	// L = a length line (encodeInt of something that is not the constant -1), N = the nil marker
	// (encodeInt(-1)), ? = anything else done with the writer.
	encodeIntFn := r.method("encoder", "encodeInt")
	seq := func(fn *core.Fn, g *cfgq.Graph, payloadMethod string, want func(nilValue bool) string, wantText string) {
		name := fn.Decl.Name.Name
		p := param(info, fn, 0)
		type outcome struct {
			sig string
			nil bool
			pos token.Pos
		}
		var outs []outcome
		seenOut := map[string]bool{}
		var termPos token.Pos
		runs := map[string]bool{}
		w := &flow.Sym{G: g}
		emit := func(st *flow.SState, tok string) {
			cur := st.Marks["out"].Tok
			if strings.HasPrefix(tok, "K") {
				// merge with a constant run that ends the signature
				if i := strings.LastIndex(cur, " "); i >= 0 && strings.HasPrefix(cur[i+1:], "K") {
					cur = cur + tok[1:]
					st.Marks["out"] = flow.SVal{Tok: cur}
					return
				}
			}
			st.Marks["out"] = flow.SVal{Tok: cur + " " + tok}
		}
		w.Visit = func(m ast.Node, st *flow.SState) bool {
			for _, call := range cfgq.ExecCalls(m) {
				if encodeIntFn != nil && core.CalleeFunc(info, call) == encodeIntFn.Obj && len(call.Args) == 1 {
					// the nil marker is the VALUE -1 on this path, whatever carries it
					switch v := w.Eval(call.Args[0], st); {
					case isConst(info, call.Args[0], -1) || v.Kind == flow.SInt && v.K == -1:
						emit(st, "N")
					case p != nil && lin.Of(info, flow.Resolve(info, fn.Decl.Body, call.Args[0])).Equal(flow.LenForm(info, p)):
						emit(st, "L")
					case v.Kind == flow.SInt:
						emit(st, fmt.Sprintf("I%d", v.K)) // some other constant line: located and wrong
					default:
						// an integer whose value on this path is not known: on the non-nil path it is taken for the
						// length line (that it IS len(value) is R5's obligation), on a nil path nothing can be said
						onNil := false
						if p != nil {
							pid := ast.NewIdent(p.Name())
							info.Uses[pid] = p
							onNil = w.Eval(pid, st).Kind == flow.SNil
						}
						if onNil {
							emit(st, "?")
						} else {
							emit(st, "L")
						}
					}
					continue
				}
				sel, isSel := ast.Unparen(call.Fun).(*ast.SelectorExpr)
				if !isSel || !isW(sel.X) {
					for _, a := range call.Args {
						if isW(a) {
							emit(st, "?") // the writer is handed to code the rule does not know
						}
					}
					continue
				}
				switch {
				case len(call.Args) == 1 && sel.Sel.Name == payloadMethod && p != nil && flow.IsObj(info, p)(call.Args[0]):
					emit(st, "P")
				case len(call.Args) == 1 && (sel.Sel.Name == "Write" || sel.Sel.Name == "WriteString"):
					if k, ok := flow.ConstBytes(info, fn.Decl.Body, call.Args[0], r.pk.Syntax...); ok {
						if !termPos.IsValid() {
							termPos = call.Pos()
						}
						emit(st, fmt.Sprintf("K%x", k))
					} else {
						emit(st, "?")
					}
				case len(call.Args) == 1 && (sel.Sel.Name == "WriteByte" || sel.Sel.Name == "WriteRune"):
					if k, ok := core.IntConst(info, call.Args[0]); ok && k >= 0 && k < 128 {
						if !termPos.IsValid() {
							termPos = call.Pos()
						}
						emit(st, fmt.Sprintf("K%02x", k))
					} else {
						emit(st, "?")
					}
				case sel.Sel.Name == "Flush" || sel.Sel.Name == "Buffered" || sel.Sel.Name == "Available" || sel.Sel.Name == "Size":
				default:
					emit(st, "?")
				}
			}
			ret, ok := m.(*ast.ReturnStmt)
			if !ok {
				return false
			}
			if len(ret.Results) == 1 {
				if v := w.Eval(ret.Results[0], st); v.Kind == flow.SNonNil || v.Kind != flow.SNil && flow.ErrReturn(info, fn.Decl.Body, ret) {
					return true // an error return: what was written so far is void
				}
			}
			o := outcome{sig: strings.TrimSpace(st.Marks["out"].Tok), pos: ret.Pos()}
			if p != nil {
				pid := ast.NewIdent(p.Name())
				info.Uses[pid] = p
				o.nil = w.Eval(pid, st).Kind == flow.SNil
			}
			if k := fmt.Sprintf("%s|%v", o.sig, o.nil); !seenOut[k] {
				seenOut[k] = true
				outs = append(outs, o)
			}
			return true
		}
		w.Run(nil)
		if w.Overflow || w.UnknownCalls > 0 || len(outs) == 0 {
			c.Undecidedf("R6.grammar", name+"/sequence", fn.Decl.Pos(), "cannot enumerate what %s writes on its successful paths", name)
			return
		}
		bad, und := "", ""
		var badPos token.Pos
		for _, o := range outs {
			for _, tok := range strings.Fields(o.sig) {
				if strings.HasPrefix(tok, "K") {
					runs[tok[1:]] = true
				}
			}
			switch {
			case strings.Contains(o.sig, "?"):
				und = o.sig
			case o.sig != want(o.nil) && bad == "":
				bad, badPos = o.sig, o.pos
			}
		}
		// the constant terminator
		if len(runs) > 0 {
			var all []string
			for k := range runs {
				all = append(all, k)
			}
			sort.Strings(all)
			wrong := ""
			for _, k := range all {
				if k != "0d0a" && wrong == "" {
					wrong = k
				}
			}
			var raw []byte
			fmt.Sscanf(wrong, "%x", &raw)
			if wrong == "" {
				c.Okf("R6.grammar", name+"/terminator", termPos, "the constant bytes written are CR LF")
			} else {
				c.Failf("R6.grammar", name+"/terminator", termPos, "the terminator written is %q, RESP requires CR LF: the decoder rejects (or mis-frames) what the encoder produced", raw)
			}
		}
		switch {
		case und != "" && bad == "":
			c.Undecidedf("R6.grammar", name+"/sequence", fn.Decl.Pos(), "a path of %s uses the writer in a way that is not recognised (emissions: %s)", name, und)
		default:
			pos := fn.Decl.Pos()
			if bad != "" {
				pos = badPos
			}
			// a wrong terminator is reported by the terminator obligation; the order is judged with the run as written
			okSeq := bad == ""
			if !okSeq && len(runs) == 1 && !runs["0d0a"] {
				var only string
				for k := range runs {
					only = k
				}
				okSeq = strings.ReplaceAll(bad, "K"+only, "K0d0a") == want(false) || strings.ReplaceAll(bad, "K"+only, "K0d0a") == want(true)
			}
			if okSeq {
				c.Okf("R6.grammar", name+"/sequence", pos, "%s emits %s on every successful path, and nothing else", name, wantText)
			} else {
				c.Failf("R6.grammar", name+"/sequence", pos, "%s must emit %s on every successful path (found the emissions %q; P = the value, K = constant bytes, L = length line, N = nil marker, I = another integer line): the decoder expects exactly this framing", name, wantText, bad)
			}
		}
	}
	if fn := r.method("encoder", "encodeType"); fn != nil {
		t := param(info, fn, 0)
		calls := flow.FindCalls(fn.Decl.Body, wcall("WriteByte", func(e ast.Expr) bool { return flow.IsObj(info, t)(unconv(info, e)) }))
		if len(calls) == 1 {
			c.Okf("R6.grammar", "encodeType/sequence", fn.Decl.Pos(), "writes the tag byte it is given")
		} else {
			c.Undecidedf("R6.grammar", "encodeType/sequence", fn.Decl.Pos(), "cannot find w.WriteByte(byte(t))")
		}
	}
	for _, tc := range []struct{ name, method string }{{"encodeText", "Write"}, {"encodeString", "WriteString"}} {
		if fn := r.method("encoder", tc.name); fn != nil {
			g := flow.GraphOf(c.Program, fn)
			seq(fn, g, tc.method, func(bool) string { return "P K0d0a" }, "the payload, then CR LF")
		}
	}
	encodeString, itos := r.method("encoder", "encodeString"), r.inl.Fn(c.Func(pkg, "", "itos"))
	if fn := r.method("encoder", "encodeInt"); fn != nil && encodeString != nil && itos != nil {
		n, _ := pat.Expr("_e.encodeString(itos(_v))").Find(info, fn.Decl.Body, pat.Binds{"_v": fn.Decl.Type.Params.List[0].Names[0]})
		if n != nil {
			c.Okf("R6.grammar", "encodeInt/sequence", fn.Decl.Pos(), "an integer is its decimal rendering followed by CRLF")
		} else {
			c.Undecidedf("R6.grammar", "encodeInt/sequence", fn.Decl.Pos(), "cannot find e.encodeString(itos(v))")
		}
	}
	encodeInt, encodeResp := r.method("encoder", "encodeInt"), r.method("encoder", "encodeResp")
	if encodeInt == nil || encodeResp == nil {
		return
	}
	lenStep := func(g *cfgq.Graph, v types.Object) flow.Step {
		return flow.Step{Name: "write len(value) line", Is: flow.CallOn(g, func(call *ast.CallExpr) bool {
			// the length line of the non-nil value: an encodeInt call whose argument is not the constant -1
			// (that it is len(value) exactly when the value is non-nil is R5's business)
			_ = v
			return core.CalleeFunc(info, call) == encodeInt.Obj && len(call.Args) == 1 && !isConst(info, call.Args[0], -1)
		})}
	}
	if fn := r.flatMethod("encoder", "encodeBulkBytes"); fn != nil {
		g := flow.GraphOf(c.Program, fn)
		seq(fn, g, "Write", func(nilValue bool) string {
			if nilValue {
				return "N"
			}
			return "L P K0d0a"
		}, "the nil marker for a nil value; otherwise the length line, the payload, then CR LF")
	}
	if fn := r.method("encoder", "encodeArray"); fn != nil {
		g := flow.GraphOf(c.Program, fn)
		p := param(info, fn, 0)
		ab := pat.Binds{"_a": fn.Decl.Type.Params.List[0].Names[0]}
		var elem *ast.CallExpr
		core.Inspect(fn.Decl.Body, func(m ast.Node) bool {
			switch s := m.(type) {
			case *ast.ForStmt:
				if idx := flow.CountingLoop(info, s, flow.LenForm(info, p)); idx != nil {
					iid := ast.NewIdent(idx.Name())
					info.Uses[iid] = idx
					if n, _ := pat.Expr("_e.encodeResp(_a[_i])").Find(info, s.Body, pat.Binds{"_a": ab["_a"], "_i": iid}); n != nil {
						elem = n.(*ast.CallExpr)
					}
				}
			case *ast.RangeStmt:
				if pat.Same(info, s.X, ab["_a"]) && s.Value != nil {
					if n, _ := pat.Expr("_e.encodeResp(_x)").Find(info, s.Body, pat.Binds{"_x": s.Value}); n != nil {
						elem = n.(*ast.CallExpr)
					}
				}
			}
			return true
		})
		if elem == nil {
			// any other spelling of the loop (goto back to a label, the test inside the body): judged on the graph
			for _, call := range flow.FindCalls(fn.Decl.Body, func(call *ast.CallExpr) bool {
				return core.CalleeFunc(info, call) == encodeResp.Obj && len(call.Args) == 1
			}) {
				ix, ok := ast.Unparen(call.Args[0]).(*ast.IndexExpr)
				if !ok || !flow.IsObj(info, p)(ix.X) {
					continue
				}
				if up, found := flow.PointOf(g, call); found && flow.CountingCFG(g, up, flow.Obj(info, ix.Index), flow.LenForm(info, p)) {
					elem = call
				}
			}
		}
		nresp := len(flow.FindCalls(fn.Decl.Body, func(call *ast.CallExpr) bool { return core.CalleeFunc(info, call) == encodeResp.Obj }))
		if elem == nil || nresp != 1 {
			c.Undecidedf("R6.grammar", "encodeArray/sequence", fn.Decl.Pos(), "cannot find the loop that encodes every element of the array once, in index order")
		} else {
			// the loop may run zero times, so only the order is required: count line first
			ls := lenStep(g, p)
			ep, _ := flow.PointOf(g, elem)
			ok, w := g.Dominated(ep, ls.Is)
			if len(g.Points(ls.Is)) != 1 {
				c.Undecidedf("R6.grammar", "encodeArray/sequence", fn.Decl.Pos(), "cannot find the single encodeInt(len(a)) call")
			} else {
				c.Check("R6.grammar", "encodeArray/sequence", fn.Decl.Pos(), ok, "the element count line must be written before the first element: the decoder reads the count first", w...)
			}
		}
	}
}

// ---------------------------------------------------------------------------
// R7 integer table bias

func (r *rs) r7() {
	c, info := r.c, r.info
	fn := r.inl.Fn(c.Func(pkg, "", "itos"))
	if fn == nil {
		return
	}
	g := flow.GraphOf(c.Program, fn)
	i := param(info, fn, 0)
	// the lookup: `return table[IDX]` on a package-level table, IDX = i + bias as a linear form
	var ret *ast.ReturnStmt
	var ix *ast.IndexExpr
	var tab types.Object
	core.Inspect(fn.Decl.Body, func(m ast.Node) bool {
		if rs, ok := m.(*ast.ReturnStmt); ok && len(rs.Results) == 1 && ret == nil {
			if x, ok := ast.Unparen(rs.Results[0]).(*ast.IndexExpr); ok {
				if v, isVar := flow.Obj(info, x.X).(*types.Var); isVar && v.Pkg() != nil && v.Parent() == v.Pkg().Scope() {
					ret, ix, tab = rs, x, v
				}
			}
		}
		return true
	})
	if ret == nil || i == nil {
		c.Undecidedf("R7.bias", "itos/lookup", fn.Decl.Pos(), "cannot find `return table[index]` on a package-level table")
		return
	}
	iid := ast.NewIdent(i.Name())
	info.Uses[iid] = i
	iform := lin.Of(info, iid)
	idx := lin.Of(info, ix.Index)
	if !(lin.Form{Coef: idx.Coef}).Equal(lin.Form{Coef: iform.Coef}) {
		c.Undecidedf("R7.bias", "itos/lookup", ix.Pos(), "the table index %s is not the argument plus a constant", c.Src(ix.Index))
		return
	}
	k2 := idx.Const // table slot of v is v + k2
	// the table's length: the atom len(table), and its constant size when the table is made once with one
	lenKey, size := "", int64(-1)
	core.InspectAll(fn.Decl.Body, func(m ast.Node) bool {
		if call, ok := m.(*ast.CallExpr); ok && flow.IsBuiltin(info, call, "len") && len(call.Args) == 1 && flow.IsObj(info, tab)(call.Args[0]) {
			lenKey = lin.Key(info, call)
		}
		return true
	})
	makes := 0
	for _, fd := range r.decls() {
		core.InspectAll(fd.Body, func(m ast.Node) bool {
			as, ok := m.(*ast.AssignStmt)
			if !ok || len(as.Lhs) != len(as.Rhs) {
				return true
			}
			for j, l := range as.Lhs {
				if flow.IsObj(info, tab)(l) {
					makes++
					if mk, isCall := ast.Unparen(as.Rhs[j]).(*ast.CallExpr); isCall && flow.IsBuiltin(info, mk, "make") && len(mk.Args) >= 2 {
						if v, isC := core.IntConst(info, mk.Args[1]); isC {
							size = v
						}
					}
				}
			}
			return true
		})
	}
	if makes != 1 {
		size = -1
	}
	rp, _ := flow.PointOf(g, ret)
	about := func(f cfgq.Fact) bool { // a comparison over the argument and len(table) only
		cmp, ok := lin.CmpOf(info, f.Expr, f.Val)
		if !ok || len(cmp.F.Coef) == 0 {
			return false
		}
		for a := range cmp.F.Coef {
			if _, isI := iform.Coef[a]; !isI && a != lenKey {
				return false
			}
		}
		return true
	}
	// lin looks through integer conversions; a guard that narrows or re-interprets the sign of what it
	// tests is not the comparison lin sees. Such a fact is not understood - except the unsigned range
	// idiom `uintN(idx) < uintN(len)` with N at least the width of idx, which says 0 <= idx < len at once.
	sizes := types.StdSizes{WordSize: 8, MaxAlign: 8}
	convs := func(e ast.Expr) (wideUnsigned []ast.Expr, unsafe bool) {
		core.Inspect(e, func(m ast.Node) bool {
			call, ok := m.(*ast.CallExpr)
			if !ok || len(call.Args) != 1 {
				return true
			}
			tv, isConv := info.Types[call.Fun]
			if !isConv || !tv.IsType() {
				return true
			}
			to, ok1 := tv.Type.Underlying().(*types.Basic)
			from, ok2 := info.TypeOf(call.Args[0]).Underlying().(*types.Basic)
			if !ok1 || !ok2 || to.Info()&types.IsInteger == 0 || from.Info()&types.IsInteger == 0 || from.Info()&types.IsUntyped != 0 {
				return true
			}
			if cv, isC := info.Types[call.Args[0]]; isC && cv.Value != nil {
				return true
			}
			st, sf := sizes.Sizeof(to), sizes.Sizeof(from)
			toU, fromU := to.Info()&types.IsUnsigned != 0, from.Info()&types.IsUnsigned != 0
			switch {
			case st < sf:
				unsafe = true
			case toU && !fromU:
				wideUnsigned = append(wideUnsigned, call.Args[0])
			case !toU && fromU && st == sf:
				unsafe = true
			}
			return true
		})
		return
	}
	// unsignedRange: f says uintN(E) < (or <=) something non-negative with E == the table index
	unsignedRange := func(f cfgq.Fact) bool {
		x, y, op, ok := flow.Rel(f)
		if !ok {
			return false
		}
		if op == token.GTR || op == token.GEQ {
			x, y = y, x
		} else if op != token.LSS && op != token.LEQ {
			return false
		}
		wide, unsafe := convs(x)
		xc, isCall := ast.Unparen(flow.ValueOf(info, fn.Decl.Body, ast.Unparen(x))).(*ast.CallExpr)
		if isCall {
			wide, unsafe = convs(xc)
		}
		if unsafe || len(wide) != 1 || !isCall || len(xc.Args) != 1 || xc.Args[0] != wide[0] {
			return false
		}
		_, yUnsafe := convs(y)
		return !yUnsafe && lin.Of(info, wide[0]).Equal(idx)
	}
	if _, narrowed := convs(flow.ValueOf(info, fn.Decl.Body, ast.Unparen(ix.Index))); narrowed {
		c.Undecidedf("R7.bias", "itos/lookup", ix.Pos(), "the table index %s narrows (or re-signs) the argument: it is not the linear index the guards are compared with", c.Src(ix.Index))
		return
	}
	plain := func(f cfgq.Fact) bool { w, u := convs(f.Expr); return len(w) == 0 && !u }
	aboutPlain := func(f cfgq.Fact) bool { return about(f) && (plain(f) || unsignedRange(f)) }
	opq := flow.Opaque(g, aboutPlain, i)
	r.guard("R7.bias", "itos/lower-guard", ret.Pos(), g, rp, func(f cfgq.Fact) bool {
		if unsignedRange(f) {
			return true
		}
		lo, isLower, ok := flow.Bound(info, f, iform)
		return ok && plain(f) && isLower && lo+k2 >= 0
	}, opq, "the table lookup must be guarded by index >= 0: integers below the table's range would index out of range")
	r.guard("R7.bias", "itos/upper-guard", ret.Pos(), g, rp, func(f cfgq.Fact) bool {
		if !plain(f) && !unsignedRange(f) {
			return false
		}
		if hi, isLower, ok := flow.Bound(info, f, iform); ok && !isLower && size >= 0 && hi+k2 < size {
			return true
		}
		if lenKey == "" {
			return false
		}
		w := lin.Form{Coef: map[string]int64{lenKey: -1}, Const: idx.Const}
		for a, v := range idx.Coef {
			w.Coef[a] += v
		}
		return flow.LinIs(info, f, w, token.LSS, 0)
	}, opq, "the table lookup must be guarded by index < len(table): integers above the table's range would index out of range")
	// fallback
	var fb *ast.CallExpr
	core.Inspect(fn.Decl.Body, func(m ast.Node) bool {
		if rs, ok := m.(*ast.ReturnStmt); ok && len(rs.Results) == 1 {
			if call, ok := ast.Unparen(rs.Results[0]).(*ast.CallExpr); ok && core.IsFunc(core.CalleeFunc(info, call), "strconv", "", "FormatInt") && len(call.Args) == 2 && flow.IsObj(info, i)(unconv(info, call.Args[0])) {
				fb = call
			}
		}
		return true
	})
	if fb == nil {
		c.Undecidedf("R7.bias", "itos/fallback", fn.Decl.Pos(), "cannot find `return strconv.FormatInt(i, 10)`")
	} else {
		c.Check("R7.bias", "itos/fallback", fb.Pos(), isConst(info, fb.Args[1], 10), "integers outside the table are rendered in base 10")
	}
	// the fill site: table[j] = decimal rendering of j + c1, for every j
	fills := 0
	for _, fd := range r.decls() {
		fdBody := fd.Body
		core.Inspect(fdBody, func(m ast.Node) bool {
			as, ok := m.(*ast.AssignStmt)
			if !ok || len(as.Lhs) != 1 || len(as.Rhs) != 1 {
				return true
			}
			lx, ok := ast.Unparen(as.Lhs[0]).(*ast.IndexExpr)
			if !ok || !flow.IsObj(info, tab)(lx.X) {
				return true
			}
			fills++
			call, _ := ast.Unparen(as.Rhs[0]).(*ast.CallExpr)
			var rendered ast.Expr
			if f := core.CalleeFunc(info, call); call != nil && core.IsFunc(f, "strconv", "", "Itoa") && len(call.Args) == 1 {
				rendered = call.Args[0]
			} else if call != nil && core.IsFunc(f, "strconv", "", "FormatInt") && len(call.Args) == 2 && isConst(info, call.Args[1], 10) {
				rendered = call.Args[0]
			}
			if rendered == nil {
				c.Undecidedf("R7.bias", "fill/bias", as.Pos(), "table slot assignment %s is not `table[slot] = decimal(value)`", c.Src(as))
				return true
			}
			// slot and value as linear forms over the same loop variable: value = slot + c1
			jform := lin.Of(info, lx.Index)
			val := lin.Of(info, rendered)
			if !(lin.Form{Coef: val.Coef}).Equal(lin.Form{Coef: jform.Coef}) || len(jform.Coef) != 1 {
				c.Undecidedf("R7.bias", "fill/bias", as.Pos(), "the value rendered into the slot (%s) is not the slot index plus a constant", c.Src(rendered))
				return true
			}
			c1 := val.Const - jform.Const
			c.Check("R7.bias", "fill/bias", as.Pos(), k2+c1 == 0, fmt.Sprintf("slot j holds the rendering of j%+d but itos looks v up at slot v%+d: every table hit renders v%+d instead of v", c1, k2, k2+c1))
			// every slot is filled: the loop variable runs so that the slot index covers 0 .. len(table)-1
			full := false
			var loopVar types.Object
			core.Inspect(lx.Index, func(x ast.Node) bool {
				if id, ok := x.(*ast.Ident); ok {
					if _, isVar := core.ObjOf(info, id).(*types.Var); isVar {
						loopVar = core.ObjOf(info, id)
					}
				}
				return true
			})
			for _, n := range core.PathTo(fdBody, as) {
				switch l := n.(type) {
				case *ast.RangeStmt:
					full = full || flow.IsObj(info, tab)(l.X) && l.Key != nil && flow.IsObj(info, loopVar)(l.Key) && jform.Const == 0
				case *ast.ForStmt:
					// for v := A; v < B; v++ with slot = v + off: slots A+off .. B+off-1 must be 0 .. size-1
					ini, ok1 := l.Init.(*ast.AssignStmt)
					inc, ok2 := l.Post.(*ast.IncDecStmt)
					if !ok1 || !ok2 || l.Cond == nil || len(ini.Lhs) != 1 || len(ini.Rhs) != 1 || inc.Tok != token.INC || !flow.IsObj(info, loopVar)(ini.Lhs[0]) || !flow.IsObj(info, loopVar)(inc.X) {
						continue
					}
					start, okS := core.IntConst(info, ini.Rhs[0])
					if !okS || start+jform.Const != 0 {
						continue
					}
					vid := ast.NewIdent(loopVar.Name())
					info.Uses[vid] = loopVar
					vform := lin.Of(info, vid)
					for _, fct := range cfgq.Facts(l.Cond, true) {
						if hi, isLower, ok := flow.Bound(info, fct, vform); ok && !isLower && size >= 0 && hi+jform.Const == size-1 {
							full = true
						}
						if lenKey != "" || true {
							// v + off < len(table)
							w := lin.Form{Coef: map[string]int64{}, Const: jform.Const}
							for a, v := range jform.Coef {
								w.Coef[a] += v
							}
							lf := flow.LenForm(info, tab)
							for a, v := range lf.Coef {
								w.Coef[a] -= v
							}
							if flow.LinIs(info, fct, w, token.LSS, 0) {
								full = true
							}
						}
					}
				}
			}
			if full {
				c.Okf("R7.bias", "fill/complete", as.Pos(), "every slot of the table is filled")
			} else {
				c.Undecidedf("R7.bias", "fill/complete", as.Pos(), "fill loop bounds not recognised")
			}
			return true
		})
	}
	if fills != 1 {
		c.Undecidedf("R7.bias", "fill/site", fn.Decl.Pos(), "expected exactly one assignment filling the table, found %d", fills)
	}
}
