package flow

import (
	"go/ast"
	"go/token"
	"go/types"

	"rscheck/cfgq"
	"rscheck/core"
	"rscheck/lin"
)

// Byte facts: what a branch condition says about the content of one buffer,
// independent of how it is spelled. Understood spellings of "byte at index I
// is C": `b[I] == C`, `bytes.Equal(b[I:], K)`, `string(b[I:J]) == "K"`,
// `bytes.HasSuffix(b, K)` / `strings.HasSuffix(string(b), "K")` (index counted
// from the buffer's length), each under either polarity, De Morgan and
// guard-clause forms (cfgq.Facts), through boolean locals and predicate
// helpers (EdgeFacts). Indexes are linear forms (package lin), so `n`,
// `len(b)-2` and a local holding either are the same index.

type byteAt struct {
	idx lin.Form
	val int64
}

// Buffer is one tracked byte buffer (a []byte or string variable).
type Buffer struct {
	Info   *types.Info
	Body   ast.Node // body of the analysed function (for resolving locals)
	Obj    types.Object
	Length lin.Form // the buffer's length as a linear form (make size, or the atom len(b))
	Files  []*ast.File
	lenKey string // the lin key of the atom len(<buffer>) when Length is another form (the make size)
}

// of is lin.Of with the atom len(<buffer>) replaced by the buffer's known
// length: for b := make([]byte, n+2), `b[len(b)-2]` and `b[n]` are the same byte.
func (b *Buffer) of(e ast.Expr) lin.Form {
	f := lin.Of(b.Info, e)
	c, has := f.Coef[b.lenKey]
	if b.lenKey == "" || !has {
		return f
	}
	out := lin.Form{Coef: map[string]int64{}, Const: f.Const + c*b.Length.Const}
	for a, v := range f.Coef {
		if a != b.lenKey {
			out.Coef[a] += v
		}
	}
	for a, v := range b.Length.Coef {
		out.Coef[a] += c * v
		if out.Coef[a] == 0 {
			delete(out.Coef, a)
		}
	}
	return out
}

// WithFiles: the files of the package (optional) let the buffer read package-level variables
// that are never written as the constants they are.
func (b *Buffer) WithFiles(files []*ast.File) *Buffer {
	b.Files = files
	return b
}

// NewBuffer tracks obj; size is the length expression of its allocation when known (nil: the atom len(obj)).
func NewBuffer(info *types.Info, body ast.Node, obj types.Object, size ast.Expr) *Buffer {
	b := &Buffer{Info: info, Body: body, Obj: obj}
	if size != nil {
		b.Length = lin.Of(info, size)
		// no write to the variable other than its allocation: len(b) is the size throughout
		if Assignments(info, body, obj) == 1 {
			core.InspectAll(body, func(m ast.Node) bool {
				if e, ok := m.(ast.Expr); ok && b.lenKey == "" && b.isLenCall(e) {
					b.lenKey = lin.Key(info, e)
				}
				return b.lenKey == ""
			})
			if _, self := b.Length.Coef[b.lenKey]; self {
				b.lenKey = ""
			}
		}
		return b
	}
	// the atom len(b): taken from the source so that it has the key lin gives to the source's own len(b)
	var lenCall ast.Expr
	core.InspectAll(body, func(m ast.Node) bool {
		if e, ok := m.(ast.Expr); ok && lenCall == nil && b.isLenCall(e) {
			lenCall = e
		}
		return lenCall == nil
	})
	if lenCall == nil {
		id := ast.NewIdent(obj.Name())
		info.Uses[id] = obj
		lenCall = &ast.CallExpr{Fun: ast.NewIdent("len"), Args: []ast.Expr{id}}
	}
	b.Length = lin.Form{Coef: map[string]int64{lin.Key(info, lenCall): 1}}
	return b
}

// lenForm is the form of len(<this buffer>) as it appears in the source.
func (b *Buffer) isLenCall(e ast.Expr) bool {
	call, ok := ast.Unparen(e).(*ast.CallExpr)
	return ok && IsBuiltin(b.Info, call, "len") && len(call.Args) == 1 && IsObj(b.Info, b.Obj)(call.Args[0])
}

// constBytes: e denotes a constant byte string.
func (b *Buffer) constBytes(e ast.Expr) ([]byte, bool) {
	info := b.Info
	e = ast.Unparen(e)
	if s, ok := core.StringConst(info, e); ok {
		return []byte(s), true
	}
	switch x := e.(type) {
	case *ast.CallExpr: // []byte("..")
		if tv, ok := info.Types[x.Fun]; ok && tv.IsType() && len(x.Args) == 1 {
			return b.constBytes(x.Args[0])
		}
	case *ast.CompositeLit:
		var out []byte
		for _, el := range x.Elts {
			v, ok := core.IntConst(info, el)
			if !ok || v < 0 || v > 255 {
				return nil, false
			}
			out = append(out, byte(v))
		}
		if _, isSlice := info.TypeOf(x).Underlying().(*types.Slice); isSlice {
			return out, true
		}
	case *ast.Ident:
		if d := Resolve(info, b.Body, x); d != ast.Expr(x) {
			return b.constBytes(d)
		}
		if init := PackageInit(info, b.Files, core.ObjOf(info, x)); init != nil {
			return b.constBytes(init)
		}
	}
	return nil, false
}

// PackageInit returns the initialiser of a package-level variable that is only
// ever read in the given files of its package: never assigned, never written
// through an index, never appended to in place, its address never taken. Such a
// variable is a named constant (`var crlf = []byte("\r\n")`).
func PackageInit(info *types.Info, files []*ast.File, o types.Object) ast.Expr {
	v, ok := o.(*types.Var)
	if !ok || v.IsField() || v.Pkg() == nil || v.Parent() != v.Pkg().Scope() || len(files) == 0 {
		return nil
	}
	var init ast.Expr
	written := false
	is := func(e ast.Expr) bool {
		for {
			switch x := ast.Unparen(e).(type) {
			case *ast.IndexExpr:
				e = x.X
				continue
			case *ast.SliceExpr:
				e = x.X
				continue
			case *ast.Ident:
				return core.ObjOf(info, x) == o
			}
			return false
		}
	}
	for _, f := range files {
		core.InspectAll(f, func(n ast.Node) bool {
			switch x := n.(type) {
			case *ast.ValueSpec:
				for i, nm := range x.Names {
					if info.Defs[nm] == o && len(x.Values) == len(x.Names) {
						init = x.Values[i]
					}
				}
			case *ast.AssignStmt:
				for _, l := range x.Lhs {
					if is(l) {
						written = true
					}
				}
			case *ast.IncDecStmt:
				if is(x.X) {
					written = true
				}
			case *ast.UnaryExpr:
				if x.Op == token.AND && is(x.X) {
					written = true
				}
			case *ast.RangeStmt:
				if x.Key != nil && is(x.Key) || x.Value != nil && is(x.Value) {
					written = true
				}
			case *ast.CallExpr:
				// copy(v, ..) and append(v[:k], ..) write into v's array
				if (IsBuiltin(info, x, "copy") || IsBuiltin(info, x, "append")) && len(x.Args) > 0 && is(x.Args[0]) {
					if _, plain := ast.Unparen(x.Args[0]).(*ast.Ident); !plain || IsBuiltin(info, x, "copy") {
						written = true
					}
				}
				// handed to code that is not known to leave it alone
				for _, a := range x.Args {
					if !is(a) {
						continue
					}
					if tv, isConv := info.Types[x.Fun]; isConv && tv.IsType() {
						continue
					}
					if IsBuiltin(info, x, "len") || IsBuiltin(info, x, "cap") || IsBuiltin(info, x, "append") || IsBuiltin(info, x, "copy") {
						continue
					}
					if f := core.CalleeFunc(info, x); f != nil && f.Pkg() != nil {
						if p := f.Pkg().Path(); p == "bytes" || p == "strings" || f.Name() == "Write" {
							continue
						}
					}
					written = true
				}
			}
			return true
		})
	}
	if written {
		return nil
	}
	return init
}

// window: e is the buffer or a slice of it (possibly converted to string);
// lo is the index of its first byte, whole tells that it extends to the end.
func (b *Buffer) window(e ast.Expr) (lo lin.Form, whole, ok bool) {
	info := b.Info
	e = ast.Unparen(e)
	if call, isCall := e.(*ast.CallExpr); isCall && len(call.Args) == 1 {
		if tv, has := info.Types[call.Fun]; has && tv.IsType() {
			return b.window(call.Args[0])
		}
	}
	if IsObj(info, b.Obj)(e) {
		return lin.Form{Coef: map[string]int64{}}, true, true
	}
	// a local that names a slice of the buffer: `tail := b[n:]`
	if id, isID := e.(*ast.Ident); isID {
		if d := ValueOf(info, b.Body, id); d != ast.Expr(id) {
			return b.window(d)
		}
	}
	if se, isSlice := e.(*ast.SliceExpr); isSlice && IsObj(info, b.Obj)(se.X) && se.Max == nil {
		lo = lin.Form{Coef: map[string]int64{}}
		if se.Low != nil {
			lo = b.of(se.Low)
		}
		return lo, se.High == nil, true
	}
	return lin.Form{}, false, false
}

func Shift(f lin.Form, k int64) lin.Form {
	c := map[string]int64{}
	for a, v := range f.Coef {
		c[a] = v
	}
	return lin.Form{Coef: c, Const: f.Const + k}
}

// facts interprets one branch fact. bytes are established byte values, minLen
// a lower bound on the buffer's length implied by the fact (-1: none);
// understood is false when the fact is not one of the interpreted spellings.
func (b *Buffer) facts(f cfgq.Fact) (bytes []byteAt, minLen int64, understood bool) {
	info := b.Info
	minLen = -1
	at := func(lo lin.Form, k []byte) {
		for i, c := range k {
			bytes = append(bytes, byteAt{Shift(lo, int64(i)), int64(c)})
		}
	}
	equalPair := func(x, y ast.Expr, equal bool) bool {
		for _, p := range [][2]ast.Expr{{x, y}, {y, x}} {
			lo, _, okW := b.window(p[0])
			k, okK := b.constBytes(p[1])
			if okW && okK {
				if equal {
					at(lo, k)
				}
				return true
			}
		}
		return false
	}
	if x, y, op, ok := Rel(f); ok && (op == token.EQL || op == token.NEQ) {
		// b[I] == C
		for _, p := range [][2]ast.Expr{{x, y}, {y, x}} {
			if ix, isIdx := ast.Unparen(p[0]).(*ast.IndexExpr); isIdx && IsObj(info, b.Obj)(ix.X) {
				if c, isC := core.IntConst(info, p[1]); isC {
					if op == token.EQL {
						bytes = append(bytes, byteAt{b.of(ix.Index), c})
					}
					return bytes, minLen, true
				}
			}
		}
		// string(b[I:]) == "K"
		if equalPair(x, y, op == token.EQL) {
			return bytes, minLen, true
		}
	}
	if call, ok := ast.Unparen(f.Expr).(*ast.CallExpr); ok && len(call.Args) == 2 {
		fn := core.CalleeFunc(info, call)
		if fn != nil && fn.Pkg() != nil && (fn.Pkg().Path() == "bytes" || fn.Pkg().Path() == "strings") {
			switch fn.Name() {
			case "Equal":
				if equalPair(call.Args[0], call.Args[1], f.Val) {
					return bytes, minLen, true
				}
			case "HasPrefix":
				lo, _, okW := b.window(call.Args[0])
				k, okK := b.constBytes(call.Args[1])
				if okW && okK {
					if f.Val {
						at(lo, k)
					}
					return bytes, minLen, true
				}
			case "HasSuffix":
				lo, whole, okW := b.window(call.Args[0])
				k, okK := b.constBytes(call.Args[1])
				if okW && okK && whole {
					if f.Val {
						// the suffix starts at length - len(K); a slice b[lo:] ends where b ends
						_ = lo
						at(Shift(b.Length, -int64(len(k))), k)
						minLen = int64(len(k))
					}
					return bytes, minLen, true
				}
			}
		}
	}
	return nil, -1, false
}

// Establishes: the fact says that the byte at idx is val.
func (b *Buffer) Establishes(idx lin.Form, val int64) func(cfgq.Fact) bool {
	return func(f cfgq.Fact) bool {
		bs, _, _ := b.facts(f)
		for _, x := range bs {
			if x.val == val && x.idx.Equal(idx) {
				return true
			}
		}
		return false
	}
}

// AtLeast: the fact implies len(buffer) >= k.
func (b *Buffer) AtLeast(k int64) func(cfgq.Fact) bool {
	return func(f cfgq.Fact) bool {
		if _, m, _ := b.facts(f); m >= k {
			return true
		}
		lo, isLower, ok := Bound(b.Info, f, b.Length)
		return ok && isLower && lo >= k
	}
}

// Understood: the fact is an interpreted statement about the buffer's bytes or length.
func (b *Buffer) Understood(f cfgq.Fact) bool {
	if bs, _, ok := b.facts(f); ok {
		// a byte fact is only understood when its index can be compared with the buffer's length:
		// the same variables, differing by a constant. Otherwise it may or may not be the byte asked for.
		for _, x := range bs {
			if !(lin.Form{Coef: x.idx.Coef}).Equal(lin.Form{Coef: b.Length.Coef}) && len(x.idx.Coef) > 0 {
				return false
			}
		}
		return true
	}
	return LinAbout(b.Info, f, b.Length)
}

// LenIs: the fact says len(buffer) == k (`len(b) == k`, or the whole buffer equals a constant of that length).
func (b *Buffer) LenIs(k int64) func(cfgq.Fact) bool {
	return func(f cfgq.Fact) bool {
		if LinIs(b.Info, f, b.Length, token.EQL, k) {
			return true
		}
		if hi, isLower, ok := Bound(b.Info, f, b.Length); ok && !isLower && k == 0 && hi <= 0 {
			return true // a length is never negative: len <= 0 says len == 0
		}
		var x, y ast.Expr
		if rx, ry, op, ok := Rel(f); ok && op == token.EQL {
			x, y = rx, ry
		} else if call, ok := ast.Unparen(f.Expr).(*ast.CallExpr); ok && f.Val && len(call.Args) == 2 && core.IsFunc(core.CalleeFunc(b.Info, call), "bytes", "", "Equal") {
			x, y = call.Args[0], call.Args[1]
		} else {
			return false
		}
		for _, p := range [][2]ast.Expr{{x, y}, {y, x}} {
			lo, whole, okW := b.window(p[0])
			kb, okK := b.constBytes(p[1])
			if okW && okK && whole && len(lo.Coef) == 0 && lo.Const == 0 && int64(len(kb)) == k {
				return true
			}
		}
		return false
	}
}

// ConstBytes reports the constant byte string an expression denotes
// (`"..."`, `[]byte("...")`, `[]byte{'a', 'b'}`, or a local defined as one).
func ConstBytes(info *types.Info, body ast.Node, e ast.Expr, files ...*ast.File) ([]byte, bool) {
	return (&Buffer{Info: info, Body: body, Files: files}).constBytes(e)
}

// CountingLoop recognises `for i := 0; i < BOUND; i++` (any spelling of the
// condition that says i < BOUND for one of the given linear bounds, the index
// possibly declared together with other variables) and returns the index.
func CountingLoop(info *types.Info, l *ast.ForStmt, bounds ...lin.Form) types.Object {
	as, ok := l.Init.(*ast.AssignStmt)
	if !ok || l.Cond == nil || l.Post == nil || len(as.Lhs) != len(as.Rhs) {
		return nil
	}
	var idx types.Object
	for i, lh := range as.Lhs {
		if v, isC := core.IntConst(info, as.Rhs[i]); isC && v == 0 {
			switch p := l.Post.(type) {
			case *ast.IncDecStmt:
				if p.Tok == token.INC && sameIdent(info, p.X, lh) {
					idx = Obj(info, lh)
				}
			case *ast.AssignStmt:
				if p.Tok == token.ADD_ASSIGN && len(p.Lhs) == 1 && len(p.Rhs) == 1 && sameIdent(info, p.Lhs[0], lh) {
					if k, isK := core.IntConst(info, p.Rhs[0]); isK && k == 1 {
						idx = Obj(info, lh)
					}
				}
			}
		}
	}
	if idx == nil {
		return nil
	}
	iid := ast.NewIdent(idx.Name())
	info.Uses[iid] = idx
	cmp, ok := lin.CmpOf(info, l.Cond, true)
	if !ok {
		return nil
	}
	want := lin.Of(info, iid)
	for _, bd := range bounds {
		w := lin.Form{Coef: map[string]int64{}, Const: want.Const - bd.Const}
		for k, v := range want.Coef {
			w.Coef[k] += v
		}
		for k, v := range bd.Coef {
			w.Coef[k] -= v
			if w.Coef[k] == 0 {
				delete(w.Coef, k)
			}
		}
		if cmp.Is(w, token.LSS) {
			return idx
		}
	}
	return nil
}

func sameIdent(info *types.Info, a, b ast.Expr) bool {
	oa, ob := Obj(info, a), Obj(info, b)
	return oa != nil && oa == ob
}

// LenForm is the linear form (an atom) of len(obj).
func LenForm(info *types.Info, obj types.Object) lin.Form {
	ln := ast.NewIdent("len")
	info.Uses[ln] = types.Universe.Lookup("len")
	id := ast.NewIdent(obj.Name())
	info.Uses[id] = obj
	return lin.Of(info, &ast.CallExpr{Fun: ln, Args: []ast.Expr{id}})
}

// CountingCFG recognises, on the graph alone (whatever statements spell it: a
// for statement, `goto` back to a label, a loop with the test in its body),
// that the node at `use` runs once for each i = 0, 1, 2, .. below one of the
// bounds: idx is only ever set to zero and incremented by one; no path reaches
// the use without a zeroing; since its last assignment the use is behind an
// edge that says idx < bound; between two runs of the use idx is incremented,
// and it is not incremented twice without a run in between.
func CountingCFG(g *cfgq.Graph, use cfgq.Point, idx types.Object, bounds ...lin.Form) bool {
	info := g.Info
	if idx == nil {
		return false
	}
	isIdx := IsObj(info, idx)
	one := func(e ast.Expr) bool { k, ok := core.IntConst(info, e); return ok && k == 1 }
	isInit := func(n ast.Node) bool {
		switch s := n.(type) {
		case *ast.AssignStmt:
			if len(s.Lhs) == len(s.Rhs) && (s.Tok == token.ASSIGN || s.Tok == token.DEFINE) {
				for i, l := range s.Lhs {
					if isIdx(l) {
						k, ok := core.IntConst(info, s.Rhs[i])
						return ok && k == 0
					}
				}
			}
		case *ast.ValueSpec:
			for i, nm := range s.Names {
				if info.Defs[nm] == idx {
					if len(s.Values) == 0 {
						return true
					}
					if len(s.Values) == len(s.Names) {
						k, ok := core.IntConst(info, s.Values[i])
						return ok && k == 0
					}
				}
			}
		}
		return false
	}
	isInc := func(n ast.Node) bool {
		switch s := n.(type) {
		case *ast.IncDecStmt:
			return s.Tok == token.INC && isIdx(s.X)
		case *ast.AssignStmt:
			if len(s.Lhs) != 1 || len(s.Rhs) != 1 || !isIdx(s.Lhs[0]) {
				return false
			}
			if s.Tok == token.ADD_ASSIGN {
				return one(s.Rhs[0])
			}
			if s.Tok == token.ASSIGN {
				if b, ok := ast.Unparen(s.Rhs[0]).(*ast.BinaryExpr); ok && b.Op == token.ADD {
					return isIdx(b.X) && one(b.Y) || isIdx(b.Y) && one(b.X)
				}
			}
		}
		return false
	}
	isDef := func(n ast.Node) bool {
		switch s := n.(type) {
		case *ast.AssignStmt:
			for _, l := range s.Lhs {
				if isIdx(l) {
					return true
				}
			}
		case *ast.IncDecStmt:
			return isIdx(s.X)
		case *ast.RangeStmt:
			return s.Key != nil && isIdx(s.Key) || s.Value != nil && isIdx(s.Value)
		case *ast.ValueSpec:
			for _, nm := range s.Names {
				if info.Defs[nm] == idx {
					return true
				}
			}
		}
		return false
	}
	defs := g.Points(isDef)
	if len(defs) == 0 {
		return false
	}
	for _, p := range defs {
		if !isInit(p.Node()) && !isInc(p.Node()) {
			return false
		}
	}
	target := use.Node()
	hit := func(n ast.Node) bool { return n == target }
	if g.Path(cfgq.Query{From: g.Entry(), Avoid: isInit, Target: hit}) != nil && !isInit(g.Entry().Node()) {
		return false
	}
	iid := ast.NewIdent(idx.Name())
	info.Uses[iid] = idx
	iform := lin.Of(info, iid)
	below := func(f cfgq.Fact) bool {
		for _, bd := range bounds {
			w := lin.Form{Coef: map[string]int64{}, Const: iform.Const - bd.Const}
			for k, v := range iform.Coef {
				w.Coef[k] += v
			}
			for k, v := range bd.Coef {
				w.Coef[k] -= v
				if w.Coef[k] == 0 {
					delete(w.Coef, k)
				}
			}
			if LinIs(info, f, w, token.LSS, 0) {
				return true
			}
		}
		return false
	}
	for _, p := range defs {
		if g.Path(cfgq.Query{From: p, After: true, Avoid: isDef, AvoidEdge: Establishes(g, below), Target: hit}) != nil {
			return false
		}
	}
	if g.Path(cfgq.Query{From: use, After: true, Avoid: isDef, Target: hit}) != nil {
		return false // the use runs again without the index having moved
	}
	for _, p := range g.Points(isInc) {
		if g.Path(cfgq.Query{From: p, After: true, Avoid: func(n ast.Node) bool { return n == target || isInit(n) }, Target: isInc}) != nil {
			return false // two increments without a run of the use in between
		}
	}
	return true
}
