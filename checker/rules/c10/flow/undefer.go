package flow

import (
	"fmt"
	"go/ast"
	"go/token"
	"go/types"
	"strings"

	"rscheck/core"
)

// undefer rewrites, in an inlined view, a deferred parameterless function
// literal registered at the top level of a function body
//
//	defer func() { S }()
//
// into what it means for the paths that return: S runs after the results of
// each later `return` were evaluated and before the function is left. Every
// return behind the defer statement becomes `S; return R` when R cannot be
// affected by S and has no calls of its own, and `t := R; S; return t`
// otherwise. Only one such defer per body is handled; a literal that recovers,
// returns values, or assigns named results is left alone (so is the defer).
func undefer(info *types.Info, pkg *types.Package, decl *ast.FuncDecl) {
	body := decl.Body
	if body == nil {
		return
	}
	at, n := -1, 0
	core.Inspect(body, func(m ast.Node) bool {
		if _, ok := m.(*ast.DeferStmt); ok {
			n++
		}
		return true
	})
	if n != 1 {
		return
	}
	var lit *ast.FuncLit
	for i, s := range body.List {
		if d, ok := s.(*ast.DeferStmt); ok {
			if l, isLit := ast.Unparen(d.Call.Fun).(*ast.FuncLit); isLit && len(d.Call.Args) == 0 && l.Type.Params.NumFields() == 0 {
				at, lit = i, l
			}
		}
	}
	if lit == nil {
		return
	}
	// a jump back in front of the defer statement: a return up there could run after it was registered
	early := map[string]bool{}
	for _, st := range body.List[:at] {
		core.Inspect(st, func(m ast.Node) bool {
			if l, ok := m.(*ast.LabeledStmt); ok {
				early[l.Label.Name] = true
			}
			return true
		})
	}
	back := false
	core.Inspect(body, func(m ast.Node) bool {
		if b, ok := m.(*ast.BranchStmt); ok && b.Tok == token.GOTO && b.Label != nil && early[b.Label.Name] {
			back = true
		}
		return !back
	})
	if back {
		return
	}
	named := map[types.Object]bool{}
	if decl.Type.Results != nil {
		for _, f := range decl.Type.Results.List {
			for _, nm := range f.Names {
				if o := info.Defs[nm]; o != nil {
					named[o] = true
				}
			}
		}
	}
	ok := true
	written := map[types.Object]bool{}
	core.InspectAll(lit.Body, func(m ast.Node) bool {
		switch x := m.(type) {
		case *ast.ReturnStmt:
			ok = false
		case *ast.LabeledStmt, *ast.DeferStmt, *ast.GoStmt:
			ok = false
		case *ast.CallExpr:
			if IsBuiltin(info, x, "recover") {
				ok = false
			}
		case *ast.AssignStmt:
			for _, l := range x.Lhs {
				if o := Obj(info, l); o != nil {
					written[o] = true
					if named[o] {
						ok = false
					}
				}
			}
		case *ast.IncDecStmt:
			if o := Obj(info, x.X); o != nil {
				written[o] = true
				if named[o] {
					ok = false
				}
			}
		}
		return ok
	})
	if !ok {
		return
	}
	k := 0
	copyBody := func() []ast.Stmt {
		cl := &cloner{info: info, pkg: pkg, subst: map[types.Object]ast.Expr{}}
		return cl.node(lit.Body).(*ast.BlockStmt).List
	}
	var results []*types.Var
	if sig, isSig := info.TypeOf(decl.Name).(*types.Signature); isSig {
		for i := 0; i < sig.Results().Len(); i++ {
			results = append(results, sig.Results().At(i))
		}
	} else if decl.Type.Results != nil {
		return
	}
	rewrite := func(ret *ast.ReturnStmt) []ast.Stmt {
		plain := true
		for _, r := range ret.Results {
			core.InspectAll(r, func(m ast.Node) bool {
				switch x := m.(type) {
				case *ast.CallExpr:
					// conversions, len/cap, allocations and error constructors do not interact with S
					alloc := IsBuiltin(info, x, "make") || IsBuiltin(info, x, "new")
					if f := core.CalleeFunc(info, x); f != nil && f.Pkg() != nil {
						if p := f.Pkg().Path(); p == "errors" || strings.HasSuffix(p, "/errors") || p == "fmt" && (f.Name() == "Errorf" || f.Name() == "Sprintf") {
							alloc = true
						}
					}
					if tv, isConv := info.Types[x.Fun]; !(isConv && tv.IsType()) && !IsBuiltin(info, x, "len") && !IsBuiltin(info, x, "cap") && !alloc {
						plain = false
					}
				case *ast.Ident:
					if written[info.Uses[x]] {
						plain = false
					}
				case *ast.SelectorExpr, *ast.IndexExpr, *ast.StarExpr, *ast.UnaryExpr:
					// a field, an element, a dereference: S may write the same memory through another name
					if _, isSel := x.(*ast.SelectorExpr); isSel {
						if _, isPkg := info.Uses[identOf(x.(*ast.SelectorExpr).X)].(*types.PkgName); isPkg {
							return true
						}
					}
					if u, isU := x.(*ast.UnaryExpr); isU && u.Op != token.MUL && u.Op != token.AND && u.Op != token.ARROW {
						return true
					}
					if _, isIdx := x.(*ast.IndexExpr); isIdx {
						return true // reading an element of a slice the literal does not assign: judged by the identifiers inside
					}
					plain = false
				}
				return plain
			})
		}
		if plain || len(ret.Results) == 0 {
			return append(copyBody(), ret)
		}
		if len(results) == 0 {
			return nil
		}
		// evaluate the results first
		var lhs, uses []ast.Expr
		for i, rv := range results {
			k++
			nm := fmt.Sprintf("_ret%d_%d", k, i)
			v := types.NewVar(ret.Pos(), pkg, nm, rv.Type())
			def := &ast.Ident{NamePos: ret.Pos(), Name: nm}
			use := &ast.Ident{NamePos: ret.Pos(), Name: nm}
			info.Defs[def], info.Uses[use] = v, v
			info.Types[use] = types.TypeAndValue{Type: rv.Type()}
			lhs, uses = append(lhs, def), append(uses, use)
		}
		if len(ret.Results) != len(results) && len(ret.Results) != 1 {
			return nil
		}
		as := &ast.AssignStmt{Lhs: lhs, TokPos: ret.Pos(), Tok: token.DEFINE, Rhs: ret.Results}
		out := append([]ast.Stmt{as}, copyBody()...)
		return append(out, &ast.ReturnStmt{Return: ret.Return, Results: uses})
	}
	// every return behind the defer statement (nested statements included, literals excluded)
	var list func(l []ast.Stmt) ([]ast.Stmt, bool)
	var inStmt func(s ast.Stmt) bool
	list = func(l []ast.Stmt) ([]ast.Stmt, bool) {
		var out []ast.Stmt
		for _, s := range l {
			if ret, isRet := s.(*ast.ReturnStmt); isRet {
				ss := rewrite(ret)
				if ss == nil {
					return nil, false
				}
				out = append(out, &ast.BlockStmt{Lbrace: ret.Pos(), List: ss, Rbrace: ret.End()})
				continue
			}
			if !inStmt(s) {
				return nil, false
			}
			out = append(out, s)
		}
		return out, true
	}
	inStmt = func(s ast.Stmt) bool {
		good := true
		fix := func(b *ast.BlockStmt) {
			if b == nil || !good {
				return
			}
			nl, ok := list(b.List)
			if !ok {
				good = false
				return
			}
			b.List = nl
		}
		switch x := s.(type) {
		case *ast.BlockStmt:
			fix(x)
		case *ast.IfStmt:
			fix(x.Body)
			switch e := x.Else.(type) {
			case *ast.BlockStmt:
				fix(e)
			case *ast.IfStmt:
				good = good && inStmt(e)
			}
		case *ast.ForStmt:
			fix(x.Body)
		case *ast.RangeStmt:
			fix(x.Body)
		case *ast.LabeledStmt:
			if _, isRet := x.Stmt.(*ast.ReturnStmt); isRet {
				return false
			}
			good = inStmt(x.Stmt)
		case *ast.SwitchStmt, *ast.TypeSwitchStmt, *ast.SelectStmt:
			var b *ast.BlockStmt
			switch y := x.(type) {
			case *ast.SwitchStmt:
				b = y.Body
			case *ast.TypeSwitchStmt:
				b = y.Body
			case *ast.SelectStmt:
				b = y.Body
			}
			for _, c := range b.List {
				switch cc := c.(type) {
				case *ast.CaseClause:
					nl, ok := list(cc.Body)
					if !ok {
						return false
					}
					cc.Body = nl
				case *ast.CommClause:
					nl, ok := list(cc.Body)
					if !ok {
						return false
					}
					cc.Body = nl
				}
			}
		}
		return good
	}
	tail, ok2 := list(body.List[at+1:])
	if !ok2 {
		return
	}
	// falling off the end of a function without results runs S as well
	if decl.Type.Results == nil {
		tail = append(tail, copyBody()...)
	}
	body.List = append(append([]ast.Stmt{}, body.List[:at]...), tail...)
}

func identOf(e ast.Expr) *ast.Ident {
	id, _ := ast.Unparen(e).(*ast.Ident)
	return id
}
